import MosnVerif.Lemmas.Updates
import MosnVerif.Lemmas.UpdatesRm
import MosnVerif.Lemmas.UpdatesMode
import MosnVerif.Lemmas.DumpScript
import MosnVerif.Lemmas.RouterLocksConc
import MosnVerif.Lemmas.ResourceUpd
import MosnVerif.Lemmas.DirHist
import MosnVerif.Lemmas.VhostSpec
/-!
# C12 — runtime updates are coherent and reproducible from the dumped config (property theorems only)

Every theorem quantifies over ALL finite operation lists `ops` (successful, failed, repeated, no-op and invalid operations
alike — `Op` contains the nil router config, routers that cannot be built, unknown routers/domains/clusters, a cluster factory
returning nil, removal of absent clusters/hosts, empty and multi-locality endpoint assignments) and over EVERY domain oracle
`o` (how a domain string selects a virtual host) and every route matcher. `run o ops` is the state reached from the empty
managers; `step`-level theorems hold from every state (reachable or not) unless `Inv` is assumed, and `inv_run` gives `Inv`
for every reachable state.
-/
namespace MosnVerif.Props.C12
open MosnVerif.Model.Updates

/-! ## coherent: live = build (dump store) -/

/-- **coherent (route tables)**: after every history, for every router name, the live route tables (virtual hosts in order,
each with its route list, plus the domain index input) are exactly those `NewRouters` builds from the dumped configuration —
including "no such router" and "router stored without tables". -/
theorem coherent_routes (o : Oracle) (ops : List Op) :
    liveRouters (run o ops) = rebuildRouters o (dump (run o ops)) := by
  funext n
  have hI := inv_run o ops
  simp only [liveRouters, rebuildRouters, dump, dumpRouter]
  cases hw : (run o ops).wrappers n with
  | none => simp [hI.r_none n hw]
  | some w =>
    obtain ⟨_, hs, hb⟩ := hI.r_some n w hw
    simp [hs, hb]

/-- **coherent (host sets)**: after every history, for every cluster name, the live cluster (configuration tag and the host
list IN ORDER, weights read through the load balancers' clamp) is the one a fresh start builds from the dumped cluster
(`ParseClusterConfig` clamp, `NewHostSet`), including "no such cluster". -/
theorem coherent_hosts (o : Oracle) (ops : List Op) :
    liveClusters (run o ops) = rebuildClusters (dump (run o ops)) := by
  funext n
  have hI := inv_run o ops
  simp only [liveClusters, rebuildClusters, dump]
  cases hc : (run o ops).clusters n with
  | none => simp [hI.c_none n hc]
  | some lc =>
    obtain ⟨hs, hnd⟩ := hI.c_some n lc hc
    simp only [hs, Option.map_some, normalize, buildCluster, Option.some.injEq, LiveCluster.mk.injEq, true_and]
    exact (dedup_id _ (by rw [map_clamp_addr]; exact hnd)).symm

/-- **coherent (host sets, exact)**: when every host weight supplied at run time lies inside the regenerated bounds
`[MinHostWeight, MaxHostWeight]` (and every xDS endpoint carries a load-balancing weight — the conversion clamps it into the same
bounds), the live cluster IS the rebuilt one, weights included: the clamp of `coherent_hosts` only matters for out-of-range
weights, which a runtime update keeps raw and a fresh start clamps. -/
theorem coherent_hosts_exact (o : Oracle) (ops : List Op) (hops : ∀ op ∈ ops, opOk op) :
    (run o ops).clusters = rebuildClusters (dump (run o ops)) := by
  funext n
  have hI := inv_run o ops
  have hW := winv_run o ops hops
  simp only [rebuildClusters, dump]
  cases hc : (run o ops).clusters n with
  | none => simp [hI.c_none n hc]
  | some lc =>
    obtain ⟨hs, hnd⟩ := hI.c_some n lc hc
    simp only [hs, Option.map_some, buildCluster, map_clamp_id (hW n lc hc), Option.some.injEq]
    rw [dedup_id _ hnd]

/-- live host sets are address-distinct lists after every history. -/
theorem hosts_distinct (o : Oracle) (ops : List Op) (n : String) (lc : LiveCluster)
    (h : (run o ops).clusters n = some lc) : (lc.hosts.map (·.addr)).Nodup :=
  ((inv_run o ops).c_some n lc h).2

/-- **coherent (behaviour)**: whatever a route matches, a lookup on the live tables answers what the same lookup on the
tables rebuilt from the dump answers. -/
theorem coherent_match (o : Oracle) (ops : List Op) (m : Route → Bool) (n host : String) :
    matchRoute o m ((liveRouters (run o ops) n).join) host =
    matchRoute o m ((rebuildRouters o (dump (run o ops)) n).join) host := by
  rw [coherent_routes]

/-- **coherent (listeners)**: after every history, for every listener name, what the live listener serves new connections with
(stream filters registered for it, network filter factories, idle timeout) and its config are exactly what a fresh start builds
from the dumped listener config — including "no such listener". -/
theorem coherent_listeners (o : Oracle) (ops : List Op) :
    (run o ops).listeners = rebuildListeners (dump (run o ops)) := by
  funext n
  exact listeners_coherent (linv_run o ops) n

/-! ## the mode a router is persisted in (static `virtual_hosts` / a `router_configs` directory) follows the updates; dump → reload

`RouterCfg` carries `path` (`RouterConfigPath`) and `static` (`StaticVirtualHosts`); `SetRouter`'s transition — which of them goes
where under which condition — is REGENERATED (`Gen.Updates.setRouter_*`); `dumpRouter` is `transferConfig` (stored router + the
remembered path), `marshalRouter` / `unmarshalRouter` are `RouterConfiguration.MarshalJSON` / `UnmarshalJSON`. -/

/-- **router_mode_follows_update**: after EVERY history (any mix of directory-mode, static and code-built router configurations,
single-route additions, removals, failed and foreign operations), for every router: the remembered path is the path of the
configuration its wrapper holds — the one of the last successful `AddOrUpdateRouters`, EMPTY when that update was static — and
the dumped router is exactly that configuration. -/
theorem router_mode_follows_update (o : Oracle) (ops : List Op) (n : String) (w : Wrapper)
    (hw : (run o ops).wrappers n = some w) :
    (run o ops).rpath n = w.cfg.path ∧ dumpRouter (run o ops) n = some w.cfg := by
  have hI := inv_run o ops
  exact ⟨hI.r_path n w hw, by rw [dumpRouter_of_inv hI, hw]; rfl⟩

/-- **dump_reload_routers**: after every history of loader-shaped configurations (never both a directory and a static list — what
`UnmarshalJSON` accepts), for every router name and every directory behaviour `fsr`: loading the dumped file SUCCEEDS and gives the
router its wrapper holds (same name, same mode, the virtual hosts through the directory in directory mode). -/
theorem dump_reload_routers (o : Oracle) (ops : List Op) (hops : ∀ op ∈ ops, opLoaderShaped op)
    (fsr : List VHost → List VHost) (n : String) :
    reloadRouter fsr (run o ops) n = ((run o ops).wrappers n).map (fun w => some (reloadedCfg fsr w.cfg)) := by
  have hI := inv_run o ops
  have hS := shinv_run o ops hops
  simp only [reloadRouter, dumpRouter_of_inv hI]
  cases hw : (run o ops).wrappers n with
  | none => rfl
  | some w => simp [unmarshal_marshal fsr _ (hS n w hw)]

/-- **dump_reload_live**: … hence (the directory giving its files back in configuration order — virtual-host order is the only
thing a directory changes, and matching does not depend on it) the routers built from the RELOADED dump are the live ones, for every
router name: a restart from the persisted file reproduces the running proxy's routes. -/
theorem dump_reload_live (o : Oracle) (ops : List Op) (hops : ∀ op ∈ ops, opLoaderShaped op)
    (fsr : List VHost → List VHost) (hfs : ∀ l, fsr l = l) (n : String) :
    (reloadRouter fsr (run o ops) n).map (fun r => r.map (build o)) = (liveRouters (run o ops) n).map some := by
  rw [dump_reload_routers o ops hops fsr n]
  have hI := inv_run o ops
  simp only [liveRouters]
  cases hw : (run o ops).wrappers n with
  | none => rfl
  | some w =>
    have hb := (hI.r_some n w hw).2.2
    have : build o (reloadedCfg fsr w.cfg) = build o w.cfg := by
      apply build_congr; unfold reloadedCfg; split
      · rfl
      · exact hfs _
    simp [this, hb]

/-- **stale_path_breaks_reload** (negative witness, machine-checked): a store in which a router keeps a remembered directory path
while its stored configuration came from a static file (what "copy the path only when the update carries one" leaves after
directory-mode load → static update) is dumped with BOTH `router_configs` and `virtual_hosts`, and the loader refuses it — for
every directory behaviour. -/
theorem stale_path_breaks_reload (fsr : List VHost → List VHost) (s : State) (n : String) (c : RouterCfg)
    (hs : s.rstore n = some c) (hstatic : c.static ≠ []) (hp : s.rpath n ≠ "") :
    reloadRouter fsr s n = some none := by
  simp only [reloadRouter, dumpRouter, hs, Option.map_some]
  rw [unmarshal_marshal_both fsr { c with path := s.rpath n } hp hstatic]

/-- the predicate of the `mode` cases (the dumped configuration loads again, and the routers built from it answer as the live
ones) is true of the model's observation of every history of loader-shaped configurations. -/
theorem spec_mode_holds_on_model (o : Oracle) (ops : List Op) (hops : ∀ op ∈ ops, opLoaderShaped op) (rnames : List String) :
    Spec.modeHolds (modeObserve o rnames (run o ops)) = true :=
  modeHolds_on_model o ops hops rnames

/-! ## last update wins -/

/-- **last_wins (routers)**: a successful `AddOrUpdateRouters cfg` leaves exactly `cfg` in the store (the stored copy: its path
cleared, the path itself remembered beside it — `cfg`'s, empty or not) and `NewRouters cfg` live, whatever happened before (from
every state): the dumped router is `cfg` itself. -/
theorem last_wins_routers (o : Oracle) (s : State) (cfg : RouterCfg)
    (hok : (step o s (.addOrUpdateRouters cfg)).2 = true) :
    (step o s (.addOrUpdateRouters cfg)).1.rstore cfg.name = some (storedCfg cfg) ∧
    (step o s (.addOrUpdateRouters cfg)).1.rpath cfg.name = cfg.path ∧
    dumpRouter (step o s (.addOrUpdateRouters cfg)).1 cfg.name = some cfg ∧
    liveRouters (step o s (.addOrUpdateRouters cfg)).1 cfg.name = some (build o cfg) := by
  have hst : ({ storedCfg cfg with path := cfg.path } : RouterCfg) = cfg := by unfold storedCfg; split <;> rfl
  simp only [step] at hok ⊢
  cases hw : s.wrappers cfg.name with
  | none => simp [gen_recordsAddOrUpdate, gen_setRouterStores, rememberedPath_eq, recordRouter, liveRouters, dumpRouter, hst]
  | some w =>
    cases hb : build o cfg with
    | none => simp [hw, hb] at hok
    | some t => simp [gen_recordsAddOrUpdate, gen_setRouterStores, rememberedPath_eq, recordRouter, liveRouters, dumpRouter, hst]

/-- **last_wins (single route)**: a successful `AddRoute` on a known router appends the route as the LAST route of the selected
virtual host, in the live table and in the stored configuration, at the same index. -/
theorem last_wins_route (o : Oracle) (s : State) (hI : Inv o s) (rname domain : String) (r : Route) (w : Wrapper)
    (hw : s.wrappers rname = some w) (hok : (step o s (.addRoute rname domain r)).2 = true) :
    ∃ t i, w.routers = some t ∧ o.resolve t.doms domain = some i ∧
      ∃ t' cfg', liveRouters (step o s (.addRoute rname domain r)).1 rname = some (some t') ∧
        (step o s (.addRoute rname domain r)).1.rstore rname = some cfg' ∧
        (t'.vhs[i]?).map (·.routes) = (t.vhs[i]?).map (fun vh => vh.routes ++ [r]) ∧
        (cfg'.vhosts[i]?).map (·.routes) = (w.cfg.vhosts[i]?).map (fun vh => vh.routes ++ [r]) := by
  obtain ⟨hname, _, _⟩ := hI.r_some rname w hw
  cases ht : w.routers with
  | none => simp [step, hw, ht] at hok
  | some t =>
    cases ha : t.addRoute o domain r with
    | none => simp [step, hw, ht, ha] at hok
    | some p =>
      obtain ⟨i, t'⟩ := p
      have ha' := ha
      unfold Table.addRoute at ha'
      cases hr : o.resolve t.doms domain with
      | none => simp [hr] at ha'
      | some j =>
        simp only [hr] at ha'
        split at ha'
        · split at ha'
          · simp only [Option.some.injEq, Prod.mk.injEq] at ha'
            obtain ⟨rfl, rfl⟩ := ha'
            refine ⟨t, j, rfl, hr, { t with vhs := modifyAt (fun vh => { vh with routes := vh.routes ++ [r] }) t.vhs j },
              storedCfg { w.cfg with vhosts := modifyAt (fun vh => { vh with routes := vh.routes ++ [r] }) w.cfg.vhosts j }, ?_, ?_, ?_, ?_⟩
            · simp [step, hw, ht, ha, gen_addRoute, recordRouter, liveRouters]
            · simp [step, hw, ht, ha, gen_addRoute, gen_setRouterStores, recordRouter, hname]
            · simp only [modifyAt_getElem?, if_true, Option.map_map]; rfl
            · simp only [storedCfg_vhosts, modifyAt_getElem?, if_true, Option.map_map]; rfl
          · cases ha'
        · cases ha'

/-- **last_wins (hosts)**: a host-list replacement on an existing cluster leaves exactly `NewHostSet hs` live and stored
(with the cluster's current configuration), whatever the hosts were before. -/
theorem last_wins_hosts (o : Oracle) (s : State) (hI : Inv o s) (c : String) (lc : LiveCluster) (hs : List Host)
    (hc : s.clusters c = some lc) :
    (step o s (.updateHosts c hs)).2 = true ∧
    (step o s (.updateHosts c hs)).1.clusters c = some ⟨lc.tag, dedup hs⟩ ∧
    (step o s (.updateHosts c hs)).1.cstore c = some ⟨lc.tag, dedup hs⟩ := by
  have hI' := inv_step hI (.updateHosts c hs)
  obtain ⟨h1, h2, _⟩ := updateHosts_some (replaceHosts hs) hc
  refine ⟨h1, h2, ?_⟩
  exact (hI'.c_some c _ h2).1

/-- **last_wins (cluster + hosts)**: `AddOrUpdateClusterAndHost` always succeeds and leaves the new configuration with exactly
`NewHostSet hosts`, live and stored, whatever existed before. -/
theorem last_wins_cluster (o : Oracle) (s : State) (hI : Inv o s) (c : String) (tag : Nat) (cfgHosts hosts : List Host) :
    (step o s (.addOrUpdateClusterAndHost c tag cfgHosts hosts)).2 = true ∧
    (step o s (.addOrUpdateClusterAndHost c tag cfgHosts hosts)).1.clusters c = some ⟨tag, dedup hosts⟩ ∧
    (step o s (.addOrUpdateClusterAndHost c tag cfgHosts hosts)).1.cstore c = some ⟨tag, dedup hosts⟩ := by
  have hI' := inv_step hI (.addOrUpdateClusterAndHost c tag cfgHosts hosts)
  obtain ⟨h1, h2⟩ := updateCluster_clusters s c tag cfgHosts (fun _ => replaceHosts hosts [])
  refine ⟨h1, h2, ?_⟩
  exact (hI'.c_some c _ h2).1

/-- **last_wins (cluster configuration, hosts inherited)**: `AddOrUpdatePrimaryCluster` installs the new configuration and keeps
the hosts of an existing cluster (none for a new one — `cluster.Hosts` is not read), live and stored. -/
theorem last_wins_cluster_inherit (o : Oracle) (s : State) (hI : Inv o s) (c : String) (tag : Nat) (cfgHosts : List Host) :
    (step o s (.addOrUpdateCluster c tag cfgHosts)).1.clusters c = some ⟨tag, inheritHosts (s.clusters c)⟩ ∧
    (step o s (.addOrUpdateCluster c tag cfgHosts)).1.cstore c = some ⟨tag, inheritHosts (s.clusters c)⟩ := by
  have hI' := inv_step hI (.addOrUpdateCluster c tag cfgHosts)
  obtain ⟨_, h2⟩ := updateCluster_clusters s c tag cfgHosts inheritHosts
  exact ⟨h2, (hI'.c_some c _ h2).1⟩

/-- **last_wins (listener)**: a successful `AddOrUpdateListener` leaves the new stream filters, network filters and idle
timeout serving AND stored, under the name the listener is registered as (an update keeps the fields it does not copy). -/
theorem last_wins_listener (o : Oracle) (s : State) (hL : LInv s) (lc : ListenerCfg)
    (hok : (step o s (.addOrUpdateListener lc)).2 = true) :
    ∃ al, (step o s (.addOrUpdateListener lc)).1.listeners (effName lc) = some al ∧
      (step o s (.addOrUpdateListener lc)).1.lstore (effName lc) = some al.cfg ∧
      al.sf = lc.sf ∧ al.nf = lc.nf ∧ al.idle = lc.idle ∧ al.cfg.sf = lc.sf ∧ al.cfg.nf = lc.nf ∧ al.cfg.idle = lc.idle ∧
      al.cfg.addr = lc.addr ∧
      (∀ old, s.listeners (effName lc) = some old → al.cfg.keep = old.cfg.keep) := by
  have hL' := linv_step o hL (.addOrUpdateListener lc)
  simp only [step] at hok hL' ⊢
  rcases addOrUpdateListener_cases s lc with ⟨_, e⟩ | ⟨al, _, _, _, e⟩ | ⟨al, _, hl, ha, _, e⟩ | ⟨_, _, _, e⟩ | ⟨_, hl, _, e⟩
  · rw [e] at hok; cases hok
  · rw [e] at hok; cases hok
  · rw [e] at hL' ⊢
    refine ⟨⟨{ al.cfg with sf := lc.sf, nf := lc.nf, tlsOk := lc.tlsOk, idle := lc.idle }, lc.sf, lc.nf, lc.idle⟩,
      by simp, ?_, rfl, rfl, rfl, rfl, rfl, rfl, ha, ?_⟩
    · exact (hL'.l_some (effName lc) _ (by simp)).1
    · intro old ho; rw [hl] at ho; cases ho; rfl
  · rw [e] at hok; cases hok
  · rw [e] at hL' ⊢
    refine ⟨⟨{ lc with name := effName lc }, lc.sf, lc.nf, lc.idle⟩, by simp, ?_, rfl, rfl, rfl, rfl, rfl, rfl, rfl, ?_⟩
    · exact (hL'.l_some (effName lc) _ (by simp)).1
    · intro old ho; rw [hl] at ho; cases ho

/-! ## removed objects are gone -/

/-- five hosts `.1 … .5` and the 20 ordered pairs of distinct indices (for the witness below and the examples) -/
def exAddr : Nat → String
  | 1 => "10.0.0.1:80" | 2 => "10.0.0.2:80" | 3 => "10.0.0.3:80" | 4 => "10.0.0.4:80" | 5 => "10.0.0.5:80" | _ => "10.0.0.9:80"
def exFive : List Host := [1, 2, 3, 4, 5].map (fun k => ⟨exAddr k, "", 1⟩)
def exPairs : List (Nat × Nat) :=
  ([1, 2, 3, 4, 5].flatMap (fun x => [1, 2, 3, 4, 5].map (fun y => (x, y)))).filter (fun p => p.1 != p.2)

/-- **removed_gone (clusters)**: after a successful `RemovePrimaryCluster names` every named cluster is absent, live and in the
store. -/
theorem removed_gone_clusters (o : Oracle) (s : State) (hI : Inv o s) (names : List String)
    (hok : (step o s (.removeClusters names)).2 = true) (n : String) (hn : n ∈ names) :
    (step o s (.removeClusters names)).1.clusters n = none ∧ (step o s (.removeClusters names)).1.cstore n = none := by
  have hI' := inv_step hI (.removeClusters names)
  have hl : (step o s (.removeClusters names)).1.clusters n = none := by
    simp only [step] at hok ⊢
    split
    · exact foldl_removeCluster_gone names s hn
    · rename_i h; simp [h] at hok
  exact ⟨hl, hI'.c_none n hl⟩

/-- **removed_gone (listeners)**: after `DeleteListener` the listener is absent, live and in the store. -/
theorem removed_gone_listeners (o : Oracle) (s : State) (hL : LInv s) (name : String) :
    (step o s (.deleteListener name)).2 = true ∧
    (step o s (.deleteListener name)).1.listeners name = none ∧ (step o s (.deleteListener name)).1.lstore name = none := by
  have hL' := linv_step o hL (.deleteListener name)
  simp only [step] at hL' ⊢
  rcases deleteListener_eq s name with ⟨h0, e⟩ | ⟨al, _, e⟩
  · rw [e]; exact ⟨rfl, h0, hL.l_none name h0⟩
  · rw [e]; simp

/-- a removed cluster stays absent until an operation adds a cluster of that name again. -/
theorem removed_stays_gone (o : Oracle) (s : State) (hI : Inv o s) (n : String) (ops : List Op)
    (h : s.clusters n = none) (hno : ∀ op ∈ ops, addsCluster n op = false) :
    (runFrom o s ops).clusters n = none ∧ (runFrom o s ops).cstore n = none := by
  have hl := runFrom_keeps_absent o ops h hno
  exact ⟨hl, (inv_runFrom ops hI).c_none n hl⟩

/-- **removed_gone (hosts)**: `RemoveClusterHosts c addrs` (`TriggerHostDel`) on an existing cluster, for EVERY address list —
any length, any order, with duplicates, with addresses the cluster does not have: the call succeeds and the new host set, live
and stored, is EXACTLY the old hosts whose address is not listed, in ascending address order (the deletions preserve the order
of the sorted slice the searches rely on). `removeHosts` is the loop as written: Go's binary `sort.Search` with the regenerated
predicate, the regenerated guard and the regenerated deletion statement(s), one iteration per listed address. -/
theorem removed_gone_hosts (o : Oracle) (s : State) (hI : Inv o s) (c : String) (lc : LiveCluster) (addrs : List String)
    (hc : s.clusters c = some lc) :
    (step o s (.removeHosts c addrs)).2 = true ∧
    (step o s (.removeHosts c addrs)).1.clusters c =
      some ⟨lc.tag, (sortByAddr lc.hosts).filter (fun h => !decide (h.addr ∈ addrs))⟩ ∧
    (step o s (.removeHosts c addrs)).1.cstore c =
      some ⟨lc.tag, (sortByAddr lc.hosts).filter (fun h => !decide (h.addr ∈ addrs))⟩ ∧
    (∀ h, h ∈ (sortByAddr lc.hosts).filter (fun h => !decide (h.addr ∈ addrs)) ↔ (h ∈ lc.hosts ∧ h.addr ∉ addrs)) := by
  have hI' := inv_step hI (.removeHosts c addrs)
  obtain ⟨h1, h2, _⟩ := updateHosts_some (removeHosts addrs) hc
  have hnd := (hI.c_some c lc hc).2
  have h2' : (step o s (.removeHosts c addrs)).1.clusters c =
      some ⟨lc.tag, (sortByAddr lc.hosts).filter (fun h => !decide (h.addr ∈ addrs))⟩ := by
    rw [← removeHosts_eq addrs lc.hosts hnd]; exact h2
  refine ⟨h1, h2', (hI'.c_some c _ h2').1, ?_⟩
  intro h
  rw [List.mem_filter, (sortByAddr_perm lc.hosts).mem_iff]
  simp

/-- … so the ORDER of the listed addresses (and listing one twice) never matters: two lists naming the same addresses leave the
same host set, live and stored. -/
theorem removed_gone_hosts_any_order (o : Oracle) (s : State) (hI : Inv o s) (c : String) (lc : LiveCluster)
    (addrs addrs' : List String) (hc : s.clusters c = some lc) (hsame : ∀ a, a ∈ addrs ↔ a ∈ addrs') :
    (step o s (.removeHosts c addrs)).1.clusters c = (step o s (.removeHosts c addrs')).1.clusters c ∧
    (step o s (.removeHosts c addrs)).1.cstore c = (step o s (.removeHosts c addrs')).1.cstore c := by
  obtain ⟨_, h2, h3, _⟩ := removed_gone_hosts o s hI c lc addrs hc
  obtain ⟨_, h2', h3', _⟩ := removed_gone_hosts o s hI c lc addrs' hc
  have : (fun h : Host => !decide (h.addr ∈ addrs)) = (fun h : Host => !decide (h.addr ∈ addrs')) := by
    funext h; simp [hsame h.addr]
  rw [h2, h3, h2', h3', this]
  exact ⟨rfl, rfl⟩

/-- **swap_with_last_leaves_host** (negative witness, machine-checked): the same loop with the deletion "move the LAST host
into the slot and shorten the slice" un-sorts the slice, and the search for a later address of the same call misses it: removing
`[.1, .2]` from five hosts leaves `.2` in the host set, `[.2, .1]` happens to work, and exactly 5 of the 20 ordered pairs of
distinct addresses fail. (The regenerated deletion is the order-preserving one; `removed_gone_hosts` is about it.) -/
theorem swap_with_last_leaves_host :
    (removeHostsWith swapLastDelete [exAddr 1, exAddr 2] exFive).map (·.addr) = [exAddr 5, exAddr 2, exAddr 3, exAddr 4] ∧
    (removeHostsWith swapLastDelete [exAddr 2, exAddr 1] exFive).map (·.addr) = [exAddr 4, exAddr 5, exAddr 3] ∧
    (removeHosts [exAddr 1, exAddr 2] exFive).map (·.addr) = [exAddr 3, exAddr 4, exAddr 5] ∧
    exPairs.filter (fun p => (removeHostsWith swapLastDelete [exAddr p.1, exAddr p.2] exFive).any
      (fun h => h.addr == exAddr p.1 || h.addr == exAddr p.2)) = [(1, 2), (1, 5), (2, 3), (2, 5), (3, 4)] := by decide

/-- **removed_gone (routes)**: a successful `RemoveAllRoutes` on a known router empties the selected virtual host, in the live
table and in the stored configuration, at the same index. -/
theorem removed_gone_routes (o : Oracle) (s : State) (hI : Inv o s) (rname domain : String) (w : Wrapper)
    (hw : s.wrappers rname = some w) (hok : (step o s (.removeAllRoutes rname domain)).2 = true) :
    ∃ t i, w.routers = some t ∧ o.resolve t.doms domain = some i ∧
      ∃ t' cfg', liveRouters (step o s (.removeAllRoutes rname domain)).1 rname = some (some t') ∧
        (step o s (.removeAllRoutes rname domain)).1.rstore rname = some cfg' ∧
        (t'.vhs[i]?).map (·.routes) = (t.vhs[i]?).map (fun _ => []) ∧
        (cfg'.vhosts[i]?).map (·.routes) = (w.cfg.vhosts[i]?).map (fun _ => []) := by
  obtain ⟨hname, _, _⟩ := hI.r_some rname w hw
  cases ht : w.routers with
  | none => simp [step, hw, ht] at hok
  | some t =>
    cases ha : t.removeAll o domain with
    | none => simp [step, hw, ht, ha] at hok
    | some p =>
      obtain ⟨i, t'⟩ := p
      have ha' := ha
      unfold Table.removeAll at ha'
      cases hr : o.resolve t.doms domain with
      | none => simp [hr] at ha'
      | some j =>
        simp only [hr] at ha'
        split at ha'
        · simp only [Option.some.injEq, Prod.mk.injEq] at ha'
          obtain ⟨rfl, rfl⟩ := ha'
          refine ⟨t, j, rfl, hr, { t with vhs := modifyAt (fun vh => { vh with routes := [] }) t.vhs j },
            storedCfg { w.cfg with vhosts := modifyAt (fun vh => { vh with routes := [] }) w.cfg.vhosts j }, ?_, ?_, ?_, ?_⟩
          · simp [step, hw, ht, ha, gen_removeAll, recordRouter, liveRouters]
          · simp [step, hw, ht, ha, gen_removeAll, gen_setRouterStores, recordRouter, hname]
          · simp only [modifyAt_getElem?, if_true, Option.map_map]; rfl
          · simp only [storedCfg_vhosts, modifyAt_getElem?, if_true, Option.map_map]; rfl
        · cases ha'

/-! ## failed, invalid and no-op operations -/

/-- **failed_unchanged**: an operation that reports an error changed NEITHER side (nil router config, update by a router that
cannot be built, `AddRoute`/`RemoveAllRoutes` on a router without tables / unknown domain / invalid route, nil cluster, host
operations and endpoint assignments on unknown clusters, `RemovePrimaryCluster` naming an absent cluster). For
`ConvertUpdateEndpoints` this is per assignment (`single`: at most one assignment per call; with more, each failed assignment
changes nothing, see `xdsAssign_failed_unchanged`). -/
theorem failed_unchanged (o : Oracle) (s : State) (op : Op) (hs : single op)
    (h : (step o s op).2 = false) : (step o s op).1 = s :=
  step_failed_unchanged o s op hs h

theorem xdsAssign_failed_unchanged (s : State) (c : String) (locs : List (List XHost))
    (h : (xdsAssign s c locs).2 = false) : (xdsAssign s c locs).1 = s := by
  rw [xdsAssign_eq] at h ⊢
  exact updateHosts_failed h

/-- `AddRoute` / `RemoveAllRoutes` on an unknown router name return no error and change nothing (as the code does). -/
theorem noop_unknown_router (o : Oracle) (s : State) (rname domain : String) (r : Route) (h : s.wrappers rname = none) :
    step o s (.addRoute rname domain r) = (s, true) ∧ step o s (.removeAllRoutes rname domain) = (s, true) := by
  simp [step, h]

/-- repeating a host-list replacement is a no-op the second time (repeated operations). -/
theorem repeat_updateHosts (o : Oracle) (s : State) (hI : Inv o s) (c : String) (hs : List Host) :
    (step o (step o s (.updateHosts c hs)).1 (.updateHosts c hs)).1.clusters c = (step o s (.updateHosts c hs)).1.clusters c ∧
    (step o (step o s (.updateHosts c hs)).1 (.updateHosts c hs)).1.cstore c = (step o s (.updateHosts c hs)).1.cstore c := by
  cases hc : s.clusters c with
  | none =>
    have : step o s (.updateHosts c hs) = (s, false) := updateHosts_none _ hc
    simp [this]
  | some lc =>
    obtain ⟨_, h2, h3⟩ := last_wins_hosts o s hI c lc hs hc
    obtain ⟨_, h2', h3'⟩ := last_wins_hosts o _ (inv_step hI (.updateHosts c hs)) c ⟨lc.tag, dedup hs⟩ hs h2
    rw [h2', h3', h2, h3]
    exact ⟨rfl, rfl⟩

/-! ## endpoint assignments -/

/-- **endpoints_union**: `ConvertUpdateEndpoints` with one assignment for an existing cluster, localities `L₁ … Lₙ` (any `n`,
`n = 0` included): the cluster's host set becomes the address-distinct union of the endpoints of ALL localities — it is
`NewHostSet (L₁ ++ … ++ Lₙ)`, address-distinct, contains the address of every endpoint of every locality, and nothing
else — live and stored. -/
theorem endpoints_union (o : Oracle) (s : State) (hI : Inv o s) (c : String) (lc : LiveCluster) (locs : List (List XHost))
    (hc : s.clusters c = some lc) :
    ∃ hosts, (step o s (.xdsEndpoints [(c, locs)])).2 = true ∧
      (step o s (.xdsEndpoints [(c, locs)])).1.clusters c = some ⟨lc.tag, hosts⟩ ∧
      (step o s (.xdsEndpoints [(c, locs)])).1.cstore c = some ⟨lc.tag, hosts⟩ ∧
      hosts = dedup ((locs.map (·.map convHost)).flatten) ∧
      (hosts.map (·.addr)).Nodup ∧
      (∀ loc ∈ locs, ∀ x ∈ loc, x.addr ∈ hosts.map (·.addr)) ∧
      (∀ h ∈ hosts, ∃ loc ∈ locs, ∃ x ∈ loc, h = convHost x) := by
  have hI' := inv_step hI (.xdsEndpoints [(c, locs)])
  have hstep : step o s (.xdsEndpoints [(c, locs)]) =
      ((updateHosts s c (replaceHosts ((locs.map (·.map convHost)).flatten))).1,
       (updateHosts s c (replaceHosts ((locs.map (·.map convHost)).flatten))).2) := by
    simp [step, xdsAssign_eq]
  obtain ⟨h1, h2, _⟩ := updateHosts_some (replaceHosts ((locs.map (·.map convHost)).flatten)) hc
  have e1 : (step o s (.xdsEndpoints [(c, locs)])).1 = (updateHosts s c (replaceHosts ((locs.map (·.map convHost)).flatten))).1 := by
    rw [hstep]
  have e2 : (step o s (.xdsEndpoints [(c, locs)])).2 = (updateHosts s c (replaceHosts ((locs.map (·.map convHost)).flatten))).2 := by
    rw [hstep]
  rw [e1] at hI' ⊢
  rw [e2]
  simp only [replaceHosts] at h2
  refine ⟨dedup ((locs.map (·.map convHost)).flatten), h1, h2, (hI'.c_some c _ h2).1, rfl, dedup_nodup _, ?_, ?_⟩
  · intro loc hl x hx
    apply addr_mem_dedup
    have : convHost x ∈ (locs.map (·.map convHost)).flatten := by
      simp only [List.mem_flatten, List.mem_map]
      exact ⟨loc.map convHost, ⟨loc, hl, rfl⟩, List.mem_map_of_mem hx⟩
    exact List.mem_map_of_mem (f := fun h : Host => h.addr) this
  · intro h hm
    have := mem_dedup hm
    simp only [List.mem_flatten, List.mem_map] at this
    obtain ⟨l, ⟨loc, hl, rfl⟩, hh⟩ := this
    obtain ⟨x, hx, rfl⟩ := List.mem_map.mp hh
    exact ⟨loc, hl, x, hx, rfl⟩

/-- the same after any history: if the cluster exists after `ops`, the assignment appended to the history yields the union. -/
theorem endpoints_union_history (o : Oracle) (ops : List Op) (c : String) (lc : LiveCluster) (locs : List (List XHost))
    (hc : (run o ops).clusters c = some lc) :
    (run o (ops ++ [.xdsEndpoints [(c, locs)]])).clusters c = some ⟨lc.tag, dedup ((locs.map (·.map convHost)).flatten)⟩ ∧
    (∀ loc ∈ locs, ∀ x ∈ loc, ∃ h, (run o (ops ++ [.xdsEndpoints [(c, locs)]])).clusters c = some h ∧ x.addr ∈ h.hosts.map (·.addr)) := by
  rw [run_append]
  obtain ⟨hosts, _, h2, _, h4, _, h6, _⟩ := endpoints_union o (run o ops) (inv_run o ops) c lc locs hc
  subst h4
  exact ⟨h2, fun loc hl x hx => ⟨_, h2, h6 loc hl x hx⟩⟩

/-! ## the executable predicate evaluated on implementation outputs holds of every model output -/

/-- `Spec.holds` (coherence of the observation + the declarative post-condition of the last operation) is true of the model's
observation of every history, for every oracle and every list of observed names that covers the last operation. -/
theorem spec_holds_on_model (o : Oracle) (ops : List Op) (op : Op) (rnames cnames lnames : List String) (res : List Bool)
    (hcov : ∀ n ∈ clusterNames op, n ∈ cnames) (hcovL : ∀ n ∈ listenerNames op, n ∈ lnames) :
    Spec.holds (some (op, (step o (run o ops) op).2)) cnames lnames
      (observe o rnames cnames lnames res (run o (ops ++ [op]))) = true := by
  unfold Spec.holds
  rw [Bool.and_eq_true]
  constructor
  · exact spec_coherent_on_model o (ops ++ [op]) rnames cnames lnames res
  · rw [run_append]
    exact spec_lastOp_on_model o (run o ops) (inv_run o ops) (linv_run o ops) op rnames cnames lnames res hcov hcovL

/-- … and of the empty history. -/
theorem spec_holds_on_model_nil (o : Oracle) (rnames cnames lnames : List String) (res : List Bool) :
    Spec.holds none cnames lnames (observe o rnames cnames lnames res (run o [])) = true := by
  unfold Spec.holds
  rw [Bool.and_eq_true]
  exact ⟨spec_coherent_on_model o [] rnames cnames lnames res, rfl⟩

/-- the predicate of the `rm` cases (one multi-address `RemoveClusterHosts` call: succeeded, live hosts = the initial addresses
not listed, each once, stored = live, nothing listed still served) is true of the model's observation for EVERY host list
(duplicates included: `NewHostSet` keeps the first) and EVERY address list. -/
theorem spec_rm_holds_on_model (o : Oracle) (hosts : List Host) (addrs : List String) :
    Spec.rmHolds (hosts.map (·.addr)) addrs (rmObserve o hosts addrs) = true :=
  rmHolds_on_model o hosts addrs

/-! ## the persisted file: every update reaches the dumped file (`DumpConfig` / `getDump` / `setDump`, `auto_config` on)

`Model/DumpProto`: the effective config and the file are version numbers, `dumping` is the shared flag, the dumper and any number
of mutators run the REGENERATED decision trees (`Gen.DumpProto.dumpConfig`, `setDump`) one atomic action per schedule entry;
file writes succeed or fail as the schedule says. -/
section dump
open MosnVerif.Model.DumpProto MosnVerif.Gen.DumpProto

/-- the regenerated `DumpConfig` and `setDump` have the discipline the theorems below need (`disc`: a request that was taken away
— flag cleared — is always followed, in the same round, by a snapshot and a successful write of it, or the flag is raised again;
`quietOk`: an undisturbed round started with a pending request ends with a current file; `setOk`: a request leaves the flag
raised), every writer of the effective config except `Reset` / `SetMosnConfig` requests a dump after its writes, `tryDump` is
gated by `auto_config` only, and the snapshot is taken under the config read lock. -/
theorem dump_protocol_discipline : protocolOk = true := by decide

/-- **file behind ⇒ request pending** (the invariant): for every dump-round program and request program with the discipline, every
number of mutators and EVERY schedule (updates landing at any point of a dump round, failing writes): whenever the dumper is
between two rounds and no mutator is inside its request, a file that is not the effective config has the flag raised — the
next round will dump. -/
theorem dump_file_behind_flag_set (prog setp : Prog) (hd : disc .clean false prog = true) (hs : setOk setp = true)
    (sched : List Ev) (hidle : (run (initConf prog setp) sched).d.rest = .done)
    (hm : ∀ t, (run (initConf prog setp) sched).m t = .idle)
    (hne : (run (initConf prog setp) sched).file ≠ (run (initConf prog setp) sched).live) :
    (run (initConf prog setp) sched).flag = 1 := by
  rcases behind_flag (inv_run (inv_init prog setp hd hs) sched) hidle hm with h | h
  · exact absurd h hne
  · exact h

/-- **dump_eventually_current**: for every schedule `sched` (any history of updates and dump rounds, interleaved action by
action), once it has brought the dumper between two rounds with no mutator inside a request, ONE more dump round that runs to
completion with no further update and a successful write leaves file = effective config. -/
theorem dump_eventually_current (prog setp : Prog) (hd : disc .clean false prog = true) (hq : quietOk prog = true)
    (hs : setOk setp = true) (sched : List Ev) (hidle : (run (initConf prog setp) sched).d.rest = .done)
    (hm : ∀ t, (run (initConf prog setp) sched).m t = .idle) :
    (run (run (initConf prog setp) sched)
        (.dump true :: List.replicate (quietLen prog (run (initConf prog setp) sched).flag) (.dump true))).file =
      (run (initConf prog setp) sched).live ∧
    (run (run (initConf prog setp) sched)
        (.dump true :: List.replicate (quietLen prog (run (initConf prog setp) sched).flag) (.dump true))).d.rest = .done := by
  have hp : (run (initConf prog setp) sched).prog = prog := (run_progs _ sched).1
  have := quiet_round_current (inv_run (inv_init prog setp hd hs) sched) (by rw [hp]; exact hq) hidle hm
  rw [hp] at this
  exact ⟨this.1.trans this.2.2, this.2.1⟩

/-- … for the code as it is (regenerated programs). -/
theorem dump_eventually_current_mosn (sched : List Ev)
    (hidle : (run (initConf dumpConfig setDump) sched).d.rest = .done)
    (hm : ∀ t, (run (initConf dumpConfig setDump) sched).m t = .idle) :
    (run (run (initConf dumpConfig setDump) sched)
        (.dump true :: List.replicate (quietLen dumpConfig (run (initConf dumpConfig setDump) sched).flag) (.dump true))).file =
      (run (initConf dumpConfig setDump) sched).live :=
  (dump_eventually_current dumpConfig setDump (by decide) (by decide) (by decide) sched hidle hm).1

-- non-vacuity: an update lands between the snapshot and the write of a round; the schedule ends idle with the file behind and
-- the flag raised; the next round makes the file current
example :
    let c := run (initConf dumpConfig setDump) [.upd 1, .upd 1, .upd 1, .dump true, .dump true, .dump true, .upd 2, .upd 2, .upd 2, .dump true]
    c.d.rest = .done ∧ c.m 1 = .idle ∧ c.m 2 = .idle ∧ c.file = 1 ∧ c.live = 2 ∧ c.flag = 1 ∧
    (run c (.dump true :: List.replicate (quietLen dumpConfig c.flag) (.dump true))).file = 2 := by decide

/-- **clear_after_write_loses_update** (negative witness, machine-checked): a round that only READS the flag at its start and
clears it AFTER the write violates the discipline, and the schedule "round starts, reads the flag, snapshots; an update lands
and raises the (already raised) flag; the round writes and clears the flag" ends between two rounds, all mutators idle, with the
file behind the effective config and NO request pending: the next round does nothing, the update is never dumped. -/
theorem clear_after_write_loses_update :
    disc .clean false clearAfterWrite = false ∧
    (let c := run (initConf clearAfterWrite setDump)
        [.upd 1, .upd 1, .upd 1, .dump true, .dump true, .dump true, .upd 2, .upd 2, .upd 2, .dump true, .dump true]
     c.d.rest = .done ∧ c.m 1 = .idle ∧ c.m 2 = .idle ∧ c.file = 1 ∧ c.live = 2 ∧ c.flag = 0 ∧
     (run c [.dump true, .dump true]).d.rest = .done ∧ (run c [.dump true, .dump true]).file = 1) := by decide

/-- the predicate of the `dump` cases (after every round: file behind ⇒ request pending; a round with no update inside and a
successful write leaves the file current) is true of the model's observations of EVERY script of updates and rounds (updates
injected before / after the snapshot, failing writes). -/
theorem spec_dump_holds_on_model (items : List Item) :
    Spec.dumpHolds items (runScript (initConf dumpConfig setDump) items) = true :=
  dumpHolds_runScript items _ (inv_init _ _ (by decide) (by decide)) (by decide) ⟨rfl, fun _ => rfl⟩

end dump

/-! ## concurrent mutators of one router: the LOCK STRUCTURE of `routers_manager.go`

`Gen/RouterLocks`: every mutator as a step program in source order (regenerated): where `rw.mux` (read / write) and `rm.updateMux` are
taken and released, and between which of them the wrapper is read, the live table modified, the configuration recorded.
`Model/RouterLocks`: any number of calls, one thread each, run their programs under an arbitrary schedule; the wrapper holds
pointers (table object modified in place, configuration object modified in place and copied by `SetRouter`). -/
section locks
open MosnVerif.Model.RouterLocks MosnVerif.Gen.RouterLocks

/-- the regenerated lock structure: every mutator of an existing router holds the wrapper's WRITE lock from before its first read
of the wrapper until after the configuration is recorded (everything outside is the map lookup, `NewRouters` of the call's own
argument, or the manager mutex); the first `AddOrUpdateRouters` of a name publishes the wrapper and records its configuration
under the manager mutex and the new wrapper's write lock; the readers of the request path take the read lock. -/
theorem router_locks_discipline :
    disciplined addOrUpdateRouters_found = true ∧ disciplined addRoute_found = true ∧ disciplined removeAllRoutes_found = true ∧
    disciplined addRoute_absent = true ∧ disciplined removeAllRoutes_absent = true ∧ disciplined getRouterWrapperByName_found = true ∧
    firstAddOk addOrUpdateRouters_absent = true ∧ readerOk getRouters = true ∧ readerOk getRoutersConfig = true := by decide

/-- **mutators_serializable** (generic): for every step semantics whose outside steps are local, every family of calls whose
programs have the lock discipline (any number of concurrent calls), every initial state and EVERY schedule: whenever nobody holds
the write lock, the shared state is the one the calls that went through their critical section leave when they run ONE AFTER THE
OTHER in the order `done` in which they released the lock (a list without repetition); a finished call that is not in it
changes nothing when run alone. -/
theorem mutators_serializable {S L : Type} (exec : Exec S L) (hloc : ∀ a, localStep a = true → LocalStep exec a)
    (calls : Nat → Call L) (s0 : S) (hd : ∀ t, disciplined (calls t).prog = true) (sched : List Nat) :
    (runSched exec (initConf calls s0) sched).done.Nodup ∧
    ((runSched exec (initConf calls s0) sched).writer = none →
      (runSched exec (initConf calls s0) sched).shared = serialS exec calls (runSched exec (initConf calls s0) sched).done s0) ∧
    (∀ t, ((runSched exec (initConf calls s0) sched).threads t).todo = [] → t ∉ (runSched exec (initConf calls s0) sched).done →
      Noop exec calls t) :=
  serializable exec hloc calls s0 hd sched

/-- **concurrent_coherent_routes**: router `n` exists in a coherent state `st` (e.g. after any history: `inv_run`); ANY number of
concurrent `AddOrUpdateRouters` / `AddRoute` / `RemoveAllRoutes` calls for it (`ops t` = the call of thread `t`, valid or not) run
the REGENERATED programs under ANY schedule. Whenever nobody holds the wrapper's write lock: there is an order of distinct calls
such that the router's live table, wrapper configuration, stored configuration and remembered path are exactly those of the
sequential history `order` of `Model/Updates` — and the live table is the one `NewRouters` builds from the stored configuration
(`coherent_routes` for concurrent callers). -/
theorem concurrent_coherent_routes (o : Oracle) (st : State) (hI : Inv o st) (n : String) (w : Wrapper)
    (hw : st.wrappers n = some w) (ops : Nat → MOp) (hn : ∀ t, named n (ops t)) (sched : List Nat)
    (hidle : (runSched (exec o) (initConf (callOf ops) (sharedOf st n w)) sched).writer = none) :
    ∃ order : List Nat, order.Nodup ∧ ∃ w', (runFrom o st (order.map (fun t => toOp n (ops t)))).wrappers n = some w' ∧
      view (runSched (exec o) (initConf (callOf ops) (sharedOf st n w)) sched).shared =
        viewOf (runFrom o st (order.map (fun t => toOp n (ops t)))) n w' ∧
      coherentView o (view (runSched (exec o) (initConf (callOf ops) (sharedOf st n w)) sched).shared) = true := by
  have hd : ∀ t, disciplined (callOf ops t).prog = true := by
    intro t
    unfold callOf
    cases ops t <;> simp only <;> decide
  obtain ⟨hnd, hser, _⟩ := serializable (exec o) (exec_local o) (callOf ops) (sharedOf st n w) hd sched
  obtain ⟨w', hw', hv⟩ := serial_view o n ops hn (runSched (exec o) (initConf (callOf ops) (sharedOf st n w)) sched).done
    st hI w hw (sharedOf st n w) (view_sharedOf st n w)
  refine ⟨_, hnd, w', hw', ?_, ?_⟩
  · rw [hser hidle]; exact hv
  · rw [hser hidle, hv]
    exact coherent_viewOf o _ (inv_runFrom _ hI) n w' hw'

end locks

/-! ## non-vacuity: concrete histories exercising the hypotheses -/
section examples
/-- a simple concrete oracle (first virtual host listing the domain); the driver's `exOracle` works on lower-cased strings,
which the kernel does not evaluate -/
def exOracle : Oracle := ⟨fun _ => true, fun doms d => doms.findIdx? (fun ds => ds.contains d)⟩
def h1 : Host := ⟨"127.0.0.1:80", "h1", 1⟩
def h2 : Host := ⟨"127.0.0.1:81", "h2", 0⟩
def h1' : Host := ⟨"127.0.0.1:80", "dup", 200⟩
def rt (id : String) : Route := ⟨id, "/", true⟩
def cfg1 : RouterCfg := { name := "r", vhosts := [⟨"v1", ["a.b"], [rt "x"]⟩, ⟨"v2", ["*"], []⟩] }

-- mode: loaded from a directory, updated from a static file (and back), a route added in between
def vhx : VHost := ⟨"v1", ["a.b"], [rt "x"]⟩
def cfgDir : RouterCfg := { name := "r", vhosts := [vhx], path := "/etc/routers/r" }
def cfgStatic : RouterCfg := { name := "r", vhosts := [vhx, ⟨"v2", ["*"], []⟩], static := [vhx, ⟨"v2", ["*"], []⟩] }
def mhist : List Op := [.addOrUpdateRouters cfgDir, .addRoute "r" "a.b" (rt "y"), .addOrUpdateRouters cfgStatic, .addRoute "r" "*" (rt "z")]
example : ∀ op ∈ mhist, opLoaderShaped op := by
  intro op h
  simp only [mhist, List.mem_cons, List.not_mem_nil, or_false] at h
  rcases h with rfl | rfl | rfl | rfl <;> simp [opLoaderShaped, loaderShaped, cfgDir, cfgStatic]
example : (run exOracle (mhist.take 2)).rpath "r" = "/etc/routers/r" ∧ (run exOracle mhist).rpath "r" = "" ∧
    (run exOracle (mhist ++ [.addOrUpdateRouters cfgDir])).rpath "r" = "/etc/routers/r" := by decide
example : ((reloadRouter (fun l => l) (run exOracle mhist) "r").map (·.map (fun c => (c.path, c.vhosts.map (fun v => v.routes.map (·.id)))))) =
    some (some ("", [["x"], ["z"]])) := by decide
-- stale_path_breaks_reload's hypotheses: the state "directory load, then static update whose empty path was not copied"
example : let s : State := { run exOracle mhist with rpath := fun _ => "/etc/routers/r" }
    (∃ c, s.rstore "r" = some c ∧ c.static ≠ []) ∧ s.rpath "r" ≠ "" ∧ reloadRouter (fun l => l) s "r" = some none := by
  refine ⟨⟨_, rfl, by decide⟩, by decide, by decide⟩

-- a history with successful, failing, repeated and no-op operations; the cluster exists at the end with distinct hosts
def hist : List Op :=
  [.addOrUpdateCluster "c" 1 [h2], .updateHosts "c" [h1, h2, h1'], .updateHosts "nope" [h1], .appendHosts "c" [h1'],
   .addOrUpdateRouters cfg1, .addRoute "r" "a.b" (rt "y"), .addRoute "r" "a.b" ⟨"bad", "/", false⟩, .addRoute "zz" "a.b" (rt "y"),
   .routersNil, .removeHosts "c" ["127.0.0.1:81", "127.0.0.1:99"], .removeClusters ["c", "absent"]]

-- (AppendClusterHosts puts the new hosts first, so on an address clash the appended host replaces the old one)
example : (run exOracle hist).clusters "c" = some ⟨1, [h1']⟩ := by decide
example : (run exOracle hist).cstore "c" = some ⟨1, [h1']⟩ := by decide
example : results exOracle init hist = [true, true, false, true, true, true, false, true, false, true, false] := by decide
example : ((run exOracle hist).rstore "r").map (fun c => c.vhosts.map (fun v => v.routes.map (·.id))) = some [["x", "y"], []] := by
  decide
-- endpoints_union's hypothesis (cluster exists) and a 3-locality assignment with a duplicate address across localities
example : (run exOracle (hist ++ [.xdsEndpoints [("c", [[⟨"10.0.0.1:1", some 5⟩], [⟨"10.0.0.2:1", none⟩, ⟨"10.0.0.1:1", some 300⟩], [⟨"10.0.0.3:1", some 0⟩]])]])).clusters "c"
    = some ⟨1, [⟨"10.0.0.1:1", "", 5⟩, ⟨"10.0.0.2:1", "", 0⟩, ⟨"10.0.0.3:1", "", 1⟩]⟩ := by decide
-- removed_gone_hosts: a multi-address call in descending order with a duplicate and an absent address, on hosts given unsorted
example : (run exOracle [.addOrUpdateCluster "c" 1 [], .updateHosts "c" exFive.reverse,
      .removeHosts "c" [exAddr 4, exAddr 2, exAddr 9, exAddr 4, exAddr 1]]).clusters "c" =
    some ⟨1, [⟨exAddr 3, "", 1⟩, ⟨exAddr 5, "", 1⟩]⟩ := by decide
-- removed_gone_clusters / removed_stays_gone hypotheses
example : (step exOracle (run exOracle hist) (.removeClusters ["c"])).2 = true := by decide
example : single (.xdsEndpoints [("c", [[], []])]) ∧ addsCluster "c" (.updateHosts "c" []) = false := by decide
-- last_wins_route / removed_gone_routes hypotheses: a known router and a successful call
example : ((run exOracle hist).wrappers "r").isSome = true ∧
    (step exOracle (run exOracle hist) (.removeAllRoutes "r" "*")).2 = true ∧
    (step exOracle (run exOracle hist) (.addRoute "r" "a.b" (rt "z"))).2 = true := by decide
-- listeners: add, update (keeps `keep`, copies sf/nf/idle), rejected updates (address mismatch, bad tls, two chains), delete
def lcA : ListenerCfg := ⟨"l1", "127.0.0.1:1001", 1, ["vfa"], 1, 0, 7, true⟩
def lhist : List Op :=
  [.addOrUpdateListener lcA, .addOrUpdateListener { lcA with sf := ["vfb", "vfa"], idle := 2, keep := 9 },
   .addOrUpdateListener { lcA with addr := "127.0.0.1:1002", sf := [] }, .addOrUpdateListener { lcA with tlsOk := false, nf := 5 },
   .addOrUpdateListener { lcA with chains := 2 }, .addOrUpdateListener { lcA with name := "", addr := "127.0.0.1:1003" },
   .deleteListener "nope"]
example : results exOracle init lhist = [true, true, false, false, false, true, true] := by decide
example : (run exOracle lhist).listeners "l1" = some ⟨{ lcA with sf := ["vfb", "vfa"], idle := 2 }, ["vfb", "vfa"], 1, 2⟩ := by decide
example : ((run exOracle lhist).lstore "127.0.0.1:1003").map (·.name) = some "127.0.0.1:1003" := by decide
example : (run exOracle (lhist ++ [.deleteListener "l1"])).lstore "l1" = none := by decide
-- coherent_hosts_exact: a history inside the bounds, and one outside (weight 0 kept raw live, clamped on restart)
example : opOk (.updateHosts "c" [h1]) ∧ opOk (.xdsEndpoints [("c", [[⟨"10.0.0.1:1", some 300⟩]])]) :=
  ⟨by intro h hm; simp at hm; subst hm; exact ⟨by decide, by decide⟩, by intro a ha loc hl x hx; simp at ha; subst ha; simp at hl; subst hl; simp at hx; subst hx; rfl⟩
example : (run exOracle [.addOrUpdateCluster "c" 1 [], .updateHosts "c" [h2]]).clusters "c" = some ⟨1, [h2]⟩ ∧
    rebuildClusters (dump (run exOracle [.addOrUpdateCluster "c" 1 [], .updateHosts "c" [h2]])) "c" = some ⟨1, [{ h2 with weight := 1 }]⟩ := by
  decide
end examples

/-! ## the read-lock-then-write-lock shape loses coherence (machine-checked witness) -/
section lockWitness
open MosnVerif.Model.RouterLocks MosnVerif.Gen.RouterLocks

def cfgA : RouterCfg := { name := "r", vhosts := [⟨"v1", ["a.b"], [rt "x"]⟩] }
def cfgB : RouterCfg := { name := "r", vhosts := [⟨"v1", ["a.b"], [rt "u"]⟩] }
def stA : State := run exOracle [.addOrUpdateRouters cfgA]
def wA : Wrapper := ⟨build exOracle cfgA, cfgA⟩
/-- thread 0: `AddRoute` with the read-then-write shape; thread 1: a complete update by `cfgB` (regenerated program) -/
def badCalls : Nat → Call Local := fun t =>
  if t = 0 then ⟨addRouteReadThenWrite, { op := .addRoute "a.b" (rt "y"), me := 1 }⟩
  else ⟨addOrUpdateRouters_found, { op := .update cfgB, me := t + 1 }⟩
/-- `AddRoute` reads the wrapper (read lock), inserts the route unlocked; the complete update runs; `AddRoute` writes back -/
def badSched : List Nat := List.replicate 8 0 ++ List.replicate 9 1 ++ List.replicate 6 0

/-- **read_then_write_lock_incoherent** (negative witness, machine-checked): `AddRoute` reading table and configuration under
the READ lock, inserting the route unlocked and taking the write lock only to record the configuration does NOT have the
discipline, and the schedule "AddRoute reads and inserts; a complete `AddOrUpdateRouters` of the same router runs; AddRoute writes
back" ends with every call finished, no lock held, the live table being the UPDATED one (route `u`) while the stored
configuration is the OLD one plus the added route (`x`, `y`): live ≠ build (stored). The same two calls with the regenerated
`AddRoute` under the same schedule stay coherent. -/
theorem read_then_write_lock_incoherent :
    stA.wrappers "r" = some wA ∧ disciplined addRouteReadThenWrite = false ∧
    (let c := runSched (exec exOracle) (initConf badCalls (sharedOf stA "r" wA)) badSched
     c.writer = none ∧ c.readers = [] ∧ c.mholder = none ∧ (c.threads 0).todo = [] ∧ (c.threads 1).todo = [] ∧
     ((view c.shared).live.map (fun t => t.vhs.map (fun v => v.routes.map (·.id)))) = some [["u"]] ∧
     (view c.shared).stored.vhosts.map (fun v => v.routes.map (·.id)) = [["x", "y"]] ∧
     coherentView exOracle (view c.shared) = false) ∧
    (let c := runSched (exec exOracle) (initConf (callOf (fun t => if t = 0 then .addRoute "a.b" (rt "y") else .update cfgB))
        (sharedOf stA "r" wA)) badSched
     coherentView exOracle (view c.shared) = true) := by decide

-- mutators_serializable's hypotheses hold of the regenerated programs with the concrete steps (`exec_local`,
-- `router_locks_discipline`), and the conclusion is not vacuous: under `badSched` (the update is blocked at the write lock while
-- the AddRoute is inside) followed by the rest of the update, both calls go through their critical section — first the AddRoute,
-- then the complete update — and the shared state is the sequential one of that order
example :
    let calls := callOf (fun t => if t = 0 then MOp.addRoute "a.b" (rt "y") else MOp.update cfgB)
    let c := runSched (exec exOracle) (initConf calls (sharedOf stA "r" wA)) (badSched ++ List.replicate 9 1)
    (∀ t, t < 2 → disciplined (calls t).prog = true) ∧ c.done = [0, 1] ∧ c.writer = none ∧
    view c.shared = view (serialS (exec exOracle) calls [0, 1] (sharedOf stA "r" wA)) ∧
    (view c.shared).stored.vhosts.map (fun v => v.routes.map (·.id)) = [["u"]] := by decide

-- concurrent_coherent_routes' hypotheses: an existing router in a reachable state, calls that name it
example : Inv exOracle stA ∧ stA.wrappers "r" = some wA ∧
    (∀ t, named "r" ((fun t => if t = 0 then MOp.addRoute "a.b" (rt "y") else MOp.update cfgB) t)) :=
  ⟨inv_run _ _, by decide, fun t => by by_cases h : t = 0 <;> simp [h, named, cfgB]⟩
end lockWitness

/-! ## the virtual host's route table: in-place single-route updates vs lookups on the request path

`VirtualHostImpl.RemoveAllRoutes` reslices `vh.routes` to length 0 IN PLACE and a following `AddRoute` appends into the same backing
array; lookups are coherent only because they hold `vh.mutex.RLock()` for the whole walk. `Gen.VhostLocks` is the regenerated step
program of every method of the type (locks, reads in place, header / map copies, in-place vs replacing writes) and of the callers
in `routers_impl.go`; `Model/VhostTable.lean` runs any number of such programs over a shared backing array under every schedule,
a walk reading ONE cell per step. -/
section vhostTable
open MosnVerif.Gen.VhostLocks MosnVerif.Model.VhostTable MosnVerif.Model.VhostSpec

/-- **gen_vhost_discipline**: every method of `VirtualHostImpl` as regenerated has the lock discipline (reads of the table / index
under the mutex in either mode, writes under the WRITE lock in one section per call, a header copy never outlives the read lock,
a map copy is used only in the critical section that took it, no escape, no unknown in-place write); the constructor makes the map
before anything else; nothing else in package `router` touches the two fields; `routersImpl`'s request path and single-route
mutators look the virtual host up in tables that are never written after `NewRouters` and call exactly one table method on it. -/
theorem gen_vhost_discipline : genDiscipline = true := by decide

/-- **vhost_reader_sees_a_published_table**: ANY number of concurrent calls whose programs have the discipline (`args t` = the
arguments of call `t`: any route, any index key, any request), any initial table and heap layout, EVERY schedule: every result a
lookup (a call that never takes the write lock) has produced so far — a first-match walk, an all-matches walk, an index lookup —
is exactly `answer` on ONE published view `pubs[o.at_]`: the table as it stood at the start or at a release of the write lock,
namely the one that was current when the lookup took its read lock. No result mixes cells of two tables. -/
theorem vhost_reader_sees_a_published_table {α K : Type} [DecidableEq K] (args : Nat → Arg α K) (progs : Nat → List Step)
    (hd : ∀ t, disciplined (progs t) = true) (s0 : Shared α K) (sched : List Nat) (t : Nat) (hl : Step.lock ∉ progs t) :
    let c := runSched false args (initConf progs s0) sched
    ∀ o ∈ (c.th t).obs, ∃ v, c.g.pubs[o.at_]? = some v ∧ o.res = answer (args t) o.kv v :=
  (schedule_facts false args progs s0 hd (fun e => by cases e) sched).2.2.2.1 t hl

/-- **vhost_updates_serializable**: under the same hypotheses the published views are those of the writer calls run ONE AFTER THE
OTHER in the order `done` in which they released the write lock (distinct calls): `pubs = [v₀, e₁ v₀, e₂ (e₁ v₀), …]` with `eₜ` the
effect of call `t` run alone — every writer call is atomic for lookups — and while nobody holds the write lock the live table IS
the last published view. -/
theorem vhost_updates_serializable {α K : Type} [DecidableEq K] (args : Nat → Arg α K) (progs : Nat → List Step)
    (hd : ∀ t, disciplined (progs t) = true) (s0 : Shared α K) (sched : List Nat) :
    let c := runSched false args (initConf progs s0) sched
    c.g.done.Nodup ∧ c.g.pubs = serialPubs (fun t => effect (progs t) (args t)) c.g.done (view s0) ∧
    (c.g.writer = none → c.g.pubs.getLast? = some (view c.g.sh)) :=
  let h := schedule_facts false args progs s0 hd (fun e => by cases e) sched
  ⟨h.1, h.2.1, h.2.2.1⟩

/-- **vhost_lookups_coherent** (the regenerated programs): any number of concurrent `GetRouteFromEntries` / `GetAllRoutesFromEntries`
/ `GetRouteFromHeaderKV` / `AddRoute` / `RemoveAllRoutes` calls on one virtual host, every schedule: the published views are those
of the sequential history `done` of the DECLARATIVE operations (`RemoveAllRoutes`: no route, empty index; `AddRoute r`: `r` appended
and filed under its key), and every lookup result is the answer of one of them. -/
theorem vhost_lookups_coherent {α K : Type} [DecidableEq K] (calls : Nat → Call α K) (s0 : Shared α K) (sched : List Nat) :
    let c := runSched false (fun t => argOf (calls t)) (initConf (fun t => progOf (calls t)) s0) sched
    c.g.done.Nodup ∧ c.g.pubs = serialPubs (fun t => specOf (calls t)) c.g.done (view s0) ∧
    ∀ t, isLookup (calls t) = true → ∀ o ∈ (c.th t).obs, ∃ v, c.g.pubs[o.at_]? = some v ∧ o.res = answer (argOf (calls t)) o.kv v := by
  intro c
  obtain ⟨h1, h2, _, h4, _⟩ := schedule_facts false (fun t => argOf (calls t)) (fun t => progOf (calls t)) s0
    (fun t => disciplined_progOf _) (fun e => by cases e) sched
  refine ⟨h1, ?_, fun t ht => h4 t (lock_notMem_progOf _ ht)⟩
  have heq : (fun t => effect (progOf (calls t)) (argOf (calls t))) = (fun t => specOf (calls t)) := by
    funext t v; exact effect_progOf _ v
  rw [← heq]; exact h2

/-- **vhost_index_follows_routes**: when every `AddRoute` files its route under `keyOf` of that route (what `addRouteBase` computes
from the route's header matchers) and the index is right at the start, then in EVERY published view of every schedule the index
entry of each key is the LAST route of the table with that key: `GetRouteFromHeaderKV` answers from the same table as the walks. -/
theorem vhost_index_follows_routes {α K : Type} [DecidableEq K] (keyOf : α → Option K) (calls : Nat → Call α K)
    (hk : ∀ t, keyed keyOf (calls t)) (s0 : Shared α K) (h0 : IndexOk keyOf (view s0)) (sched : List Nat) :
    let c := runSched false (fun t => argOf (calls t)) (initConf (fun t => progOf (calls t)) s0) sched
    ∀ v ∈ c.g.pubs, IndexOk keyOf v := by
  intro c v hv
  have h2 := (vhost_lookups_coherent calls s0 sched).2.1
  rw [h2] at hv
  exact serialPubs_all (IndexOk keyOf) _ (fun t v h => indexOk_specOf keyOf _ (hk t) v h) _ _ h0 v hv

/-- **replace_would_allow_escape**: the reader theorem again for the RELAXED discipline `disciplinedEsc` — a header copy taken
under the read lock may be walked after the unlock — provided no writer shortens the slice in place: with `RemoveAllRoutes`
installing a FRESH slice (`removeAllFresh`) the in-place `append` of `AddRoute` only ever writes cells at or beyond every length
that was published for that array, so the escaping copy is a stable snapshot. The regenerated `removeAllRoutes` has NOT this
discipline and `walkAfterUnlock` has not the code's: the theorems are about the combination of the two sites, each fine alone. -/
theorem replace_would_allow_escape {α K : Type} [DecidableEq K] (args : Nat → Arg α K) (progs : Nat → List Step)
    (hd : ∀ t, disciplinedEsc (progs t) = true) (s0 : Shared α K) (h0 : s0.hdr.ptr < s0.fresh) (sched : List Nat) (t : Nat)
    (hl : Step.lock ∉ progs t) :
    (let c := runSched true args (initConf progs s0) sched
     ∀ o ∈ (c.th t).obs, ∃ v, c.g.pubs[o.at_]? = some v ∧ o.res = answer (args t) o.kv v) ∧
    disciplinedEsc walkAfterUnlock = true ∧ disciplinedEsc removeAllFresh = true ∧ disciplinedEsc addRoute = true ∧
    disciplinedEsc removeAllRoutes = false ∧ disciplined walkAfterUnlock = false :=
  ⟨(schedule_facts true args progs s0 hd (fun _ => h0) sched).2.2.2.1 t hl, by decide, by decide, by decide, by decide, by decide⟩

/-- routes are numbers; request of thread 0 matches routes 2 and 3 (old slots 1, 2), not the new routes 10, 11 -/
def wArgs : Nat → Arg Nat Nat
  | 0 => { mt := fun x => x == 2 || x == 3, first := true }
  | 2 => { route := some 10 }
  | 3 => { route := some 11 }
  | _ => {}
/-- thread 0 the lookup, 1 `RemoveAllRoutes`, 2 and 3 `AddRoute` -/
def wProgs (reader removeAll : List Step) : Nat → List Step
  | 0 => reader
  | 1 => removeAll
  | 2 => addRoute
  | 3 => addRoute
  | _ => []
/-- the table `[1, 2, 3]` in an array of capacity 4 -/
def wS0 : Shared Nat Nat := ⟨fun p => if p = 0 then [1, 2, 3, 0] else [], 1, ⟨0, 3⟩, fun _ => [], 1, 0⟩
/-- the lookup up to and including slot 0; the three writer calls; the rest of the lookup -/
def wSched : List Nat :=
  List.replicate 5 0 ++ List.replicate 10 1 ++ List.replicate 15 2 ++ List.replicate 15 3 ++ List.replicate 10 0

/-- **inplace_needs_whole_walk_lock** (machine-checked witness): `GetRouteFromEntries` copying the slice header under the read lock
and walking after the unlock (`walkAfterUnlock`), against the REGENERATED writers, schedule `wSched`: the lookup reads slot 0 of
`[1, 2, 3]`, then `RemoveAllRoutes; AddRoute 10; AddRoute 11` complete (slots 0, 1 overwritten, the copied length still 3), then it
goes on: it answers route 3 — a removed route; the old table answers 2, every later table nothing: no published view answers 3.
With the regenerated reader and the same schedule the writers stay blocked behind the read lock and the answer is 2, the old
table's; with the header copy but a REPLACING `RemoveAllRoutes` the answer is 2 as well. -/
theorem inplace_needs_whole_walk_lock :
    (let c := runSched false wArgs (initConf (wProgs walkAfterUnlock removeAllRoutes) wS0) wSched
     (c.th 0).obs.map (·.res) = [[3]] ∧ c.g.done = [1, 2, 3] ∧
     c.g.pubs.map (answer (wArgs 0) false) = [[2], [], [], []]) ∧
    (let c := runSched false wArgs (initConf (wProgs getRouteFromEntries removeAllRoutes) wS0) wSched
     (c.th 0).obs.map (·.res) = [[2]] ∧ c.g.done = [] ∧ (c.th 1).todo = removeAllRoutes) ∧
    (let c := runSched true wArgs (initConf (wProgs walkAfterUnlock removeAllFresh) wS0) wSched
     (c.th 0).obs.map (·.res) = [[2]] ∧ c.g.done = [1, 2, 3] ∧ c.g.pubs.map (·.1) = [[1, 2, 3], [], [10], [10, 11]]) := by
  decide

/-- **spec_vht_holds_on_model**: the harness's `vht` cases — one lookup for request `q` (first match or all matches) on the table
`old`, concurrent with `RemoveAllRoutes; AddRoute new₀; …; AddRoute newₖ₋₁` issued by one goroutine — under EVERY schedule of the
regenerated programs: whenever the writer calls completed so far are the first `m` in issue order, every answer the lookup has
produced satisfies the driver's predicate `ansAllowed` (it is the answer of ONE of the tables `old, [], [new₀], …, new`). -/
theorem spec_vht_holds_on_model (old new : List R) (first : Bool) (q : Nat) (s0 : Shared R Nat) (h0 : (view s0).1 = old)
    (sched : List Nat) (m : Nat) (hm : m ≤ new.length + 1) :
    let c := runSched false (fun t => argOf (caseCalls new first q t)) (initConf (fun t => progOf (caseCalls new first q t)) s0) sched
    c.g.done = List.range' 1 m → ∀ o ∈ (c.th 0).obs, ansAllowed old new first q (o.res.map (·.id)) = true :=
  case_answers_allowed old new first q s0 h0 sched m hm

-- non-vacuity: the hypotheses of the schedule theorems hold of the regenerated programs with concrete arguments, and the
-- conclusion says something: after the whole of `wSched` plus the blocked writers' steps the lookup has answered 2 = the answer of
-- pubs[0], three views were published after it, and the index of the last one files route 11 under key 7
example : (∀ t, disciplined (wProgs getRouteFromEntries removeAllRoutes t) = true) ∧
    Step.lock ∉ wProgs getRouteFromEntries removeAllRoutes 0 := by
  refine ⟨fun t => ?_, by decide⟩
  match t with
  | 0 => decide
  | 1 => decide
  | 2 => decide
  | 3 => decide
  | _ + 4 => rfl
example :
    let args : Nat → Arg Nat Nat := fun t => if t = 3 then { route := some 11, key := some 7 } else wArgs t
    let c := runSched false args (initConf (wProgs getRouteFromEntries removeAllRoutes) wS0)
      (wSched ++ List.replicate 10 1 ++ List.replicate 15 2 ++ List.replicate 15 3)
    (c.th 0).obs.map (fun o => (o.res, o.at_)) = [([2], 0)] ∧ c.g.done = [1, 2, 3] ∧
    c.g.pubs = [([1, 2, 3], []), ([], []), ([10], []), ([10, 11], [(7, 11)])] ∧ view c.g.sh = ([10, 11], [(7, 11)]) := by decide +kernel
-- replace_would_allow_escape's hypotheses
example : (∀ t, disciplinedEsc (wProgs walkAfterUnlock removeAllFresh t) = true) ∧ wS0.hdr.ptr < wS0.fresh := by
  refine ⟨fun t => ?_, by decide⟩
  match t with
  | 0 => decide
  | 1 => decide
  | 2 => decide
  | 3 => decide
  | _ + 4 => rfl
-- vhost_index_follows_routes' hypotheses: the empty virtual host, routes keyed by their residue
example : IndexOk (fun x : Nat => if x % 2 = 0 then some (x / 2) else none) (view (emptyShared : Shared Nat Nat)) ∧
    keyed (fun x : Nat => if x % 2 = 0 then some (x / 2) else none) (Call.add 10 (some 5) : Call Nat Nat) :=
  ⟨fun q => by simp [view, emptyShared, tableOf, lookupK], by simp [keyed]⟩
-- spec_vht_holds_on_model's hypotheses and a table the predicate rejects: the mixed answer of the witness
example : ansAllowed [⟨"a", false, [1]⟩, ⟨"b", false, [0]⟩, ⟨"c", false, [0]⟩] [⟨"x", false, [1]⟩, ⟨"y", false, [1]⟩] true 0 ["c"] = false ∧
    ansAllowed [⟨"a", false, [1]⟩, ⟨"b", false, [0]⟩, ⟨"c", false, [0]⟩] [⟨"x", false, [1]⟩, ⟨"y", false, [1]⟩] true 0 ["b"] = true ∧
    ansAllowed [⟨"a", false, [1]⟩, ⟨"b", false, [0]⟩, ⟨"c", false, [0]⟩] [⟨"x", false, [1]⟩, ⟨"y", false, [1]⟩] true 0 [] = true := by
  decide
end vhostTable

/-! ## resource thresholds of an updated cluster (circuit breakers): thresholds follow the latest configuration, counters survive

`ResourceUpd.Op` = cluster updates through either mutator (any cluster type, any `circuit_breakers` list: absent, empty, several
entries, zero thresholds), host updates, removal, `Increase` / `Decrease` of any resource by requests in flight.
`updateResourceValue` and `UpdateClusterResourceManagerHandler` are regenerated (`Gen.ResourceUpd`). -/
section resources
open MosnVerif.Model MosnVerif.Gen.ResourceUpd

/-- **thresholds_follow_latest_config**: after EVERY history the live thresholds (all four, zero = unlimited included) are those
of a fresh cluster built from the dumped configuration — present on both sides or on neither —, and right after a cluster update
(whatever came before: other limits, requests in flight, removals) they are exactly the thresholds of that update's
configuration: the first `circuit_breakers` entry, the defaults (0) without one. -/
theorem thresholds_follow_latest_config (ops : List ResourceUpd.Op) :
    ResourceUpd.liveMax (ResourceUpd.run ops) = ResourceUpd.rebuilt (ResourceUpd.run ops) ∧
    ∀ via cfg, ResourceUpd.liveMax (ResourceUpd.run (ops ++ [.update via cfg])) = some (ResourceUpd.newRM cfg.cb) ∧
      ResourceUpd.rebuilt (ResourceUpd.run (ops ++ [.update via cfg])) = some (ResourceUpd.newRM cfg.cb) := by
  refine ⟨ResourceUpd.inv_runFrom _ ops ResourceUpd.inv_init, fun via cfg => ?_⟩
  simp [ResourceUpd.run, ResourceUpd.runFrom_append, ResourceUpd.runFrom, ResourceUpd.step, ResourceUpd.liveMax,
    ResourceUpd.rebuilt, ResourceUpd.handler_max]

/-- **counters_survive_update**: from every state (reachable or not) with a live cluster, an update through either mutator that
keeps the cluster type leaves all four `current` counters exactly as they were (the old manager object is handed over), while the
thresholds become the new ones. -/
theorem counters_survive_update (s : ResourceUpd.State) (l : ResourceUpd.Live) (via : ResourceUpd.Via) (cfg : ResourceUpd.Cfg)
    (hl : s.live = some l) (ht : l.typ = cfg.typ) :
    ResourceUpd.liveCur (ResourceUpd.step s (.update via cfg)) = some l.rm.cur ∧
    ResourceUpd.liveMax (ResourceUpd.step s (.update via cfg)) = some (ResourceUpd.newRM cfg.cb) := by
  simp [ResourceUpd.step, ResourceUpd.liveCur, ResourceUpd.liveMax, hl, ResourceUpd.handler_cur _ _ _ ht, ResourceUpd.handler_max]

/-- the model's step-by-step observation of every history satisfies the driver's predicate `ResourceUpd.Spec.holds` -/
theorem spec_rsrc_holds_on_model (ops : List ResourceUpd.Op) :
    ResourceUpd.Spec.holds ops (ResourceUpd.trace ResourceUpd.init ops) = true :=
  ResourceUpd.holdsFrom_model ResourceUpd.init ops ResourceUpd.inv_init

/-- **skip_zero_keeps_old_limit** (negation witness, machine-checked): with `updateResourceValue` skipping zero thresholds
("do not lift the limits of a busy cluster") an update that drops `max_connections` (5 → absent) leaves 5 in force on the live
manager while the configuration — and a fresh start from its dump — has no limit; the regenerated function stores the 0. -/
theorem skip_zero_keeps_old_limit :
    ResourceUpd.updateSkipZero ⟨5, 0, 7, 0⟩ (ResourceUpd.newRM []) = ⟨5, 0, 7, 0⟩ ∧
    ResourceUpd.updateSkipZero ⟨5, 0, 7, 0⟩ (ResourceUpd.newRM []) ≠ ResourceUpd.newRM [] ∧
    updateResourceValue ⟨5, 0, 7, 0⟩ (ResourceUpd.newRM []) = ResourceUpd.newRM [] := by decide

-- non-vacuity: a history with limits set, requests in flight, limits dropped and set again, removal and re-creation
def rhist : List ResourceUpd.Op :=
  [.update .primary ⟨0, [⟨5, 0, 7, 1⟩]⟩, .setHosts true, .incr .conn, .incr .req, .incr .pend, .update (.andHost true) ⟨0, []⟩,
   .decr .conn, .update .primary ⟨0, [⟨0, 3, 0, 0⟩, ⟨9, 9, 9, 9⟩]⟩, .update .primary ⟨1, [⟨2, 2, 2, 2⟩]⟩, .remove,
   .update .primary ⟨0, []⟩]
example : (ResourceUpd.run (rhist.take 6)).live.map (·.rm) = some ⟨⟨0, 0, 0, 0⟩, ⟨1, 0, 1, 0⟩⟩ := by decide
example : (ResourceUpd.run (rhist.take 8)).live.map (·.rm) = some ⟨⟨0, 3, 0, 0⟩, ⟨1, 0, 1, 0⟩⟩ := by decide
-- (c10p10) a change of the cluster type hands the manager over as well since the fix of UpdateClusterResourceManagerHandler
-- (the type guard is gone, `handler_typeGuard = false`): the counters survive, the thresholds are the new ones
example : (ResourceUpd.run (rhist.take 9)).live.map (·.rm) = some ⟨⟨2, 2, 2, 2⟩, ⟨1, 0, 1, 0⟩⟩ := by decide
example : (ResourceUpd.run (rhist.take 10)).live = none ∧ (ResourceUpd.run rhist).live.map (·.rm.max) = some ⟨0, 0, 0, 0⟩ := by decide
-- counters_survive_update's hypotheses
example : ∃ l, (ResourceUpd.run (rhist.take 5)).live = some l ∧ l.typ = (⟨0, []⟩ : ResourceUpd.Cfg).typ ∧ l.rm.cur = ⟨1, 0, 1, 0⟩ :=
  ⟨_, rfl, rfl, by decide⟩
-- the predicate is not trivially true: the skip-zero outcome of `rhist.take 6` is rejected
example : ResourceUpd.Spec.stepOk (some (⟨⟨5, 0, 7, 1⟩, ⟨1, 1, 1, 0⟩⟩, 0)) (.update (.andHost true) ⟨0, []⟩)
    ⟨.ok, some ⟨⟨5, 0, 7, 1⟩, ⟨1, 1, 1, 0⟩⟩, some ⟨⟨5, 0, 7, 1⟩, ⟨1, 1, 1, 0⟩⟩, some ⟨0, 0, 0, 0⟩⟩ = false := by decide
end resources

/-! ## removals survive a reload in directory mode (`clusters_configs` / `router_configs`)

The directory scan of `MarshalJSON` that writes the current items is also what deletes the files of removed ones; its top-level
statements are regenerated (`Gen.DirDump`), the item loop's file-name operations are `Gen.ConfigDir`'s. -/
section dirHistories
open MosnVerif.Model MosnVerif.Model.ConfigDir MosnVerif.Gen.DirDump

/-- **dir_dump_discipline**: both regenerated statement lists scan the directory, collect its files, write every item, clean up and
return — with no `return` between the scan and the cleanup (whatever the item list is, empty included). -/
theorem dir_dump_discipline :
    DirHist.stepsOK clusterDumpSteps = true ∧ DirHist.stepsOK vhostDumpSteps = true := by decide

/-- **removal_survives_reload**: for EVERY non-empty history of updates of the item list (add / replace by name, remove — down to
the empty list and back —, complete replacement), each followed by a dump into the SAME directory at any time, every directory
content at the start (stale files, operator files) and every initial item list: every dump succeeds and the loader applied to the
directory returns exactly the CURRENT items (as one marshal cycle leaves them; a permutation, `ReadDir` sorts by file name) — so an
item removed by the history is not loaded again, and after a history that ends with no item the directory loads as empty.  Stated
for any statement list with the discipline and any file-name operations that are `opsOK`; quantifying over all histories covers
every prefix (`reload (dump state_n) = state_n` for every n). -/
theorem removal_survives_reload {α : Type} (steps : List DStep) (hsteps : DirHist.stepsOK steps = true)
    (ops : List DirTypes.NameOp) (hops : opsOK ops Gen.ConfigDir.readExt = true)
    (enc : α → Json) (dcd : Json → Option α) (nrm : α → α) (hcodec : ∀ c, dcd (enc c) = some (nrm c)) (nameOf : α → Bytes)
    (ups : List (DirHist.Upd α × (Nat → Bytes))) (hne : ups ≠ []) (hclocks : ∀ u ∈ ups, ClockOK u.2) (d : Dir) (items : List α) :
    ∃ d' l, DirHist.histDump steps ops enc nameOf d items ups = some d' ∧
      unmarshalDynamic dcd Gen.ConfigDir.readExt d' = some l ∧ l.Perm ((DirHist.histItems nameOf items ups).map nrm) ∧
      (DirHist.histItems nameOf items ups = [] → l = []) := by
  obtain ⟨d', l, h1, h2, h3⟩ := DirHist.hist_reload steps hsteps ops _ hops enc dcd nrm hcodec nameOf ups hne hclocks d items
  exact ⟨d', l, h1, h2, h3, fun h => by rw [h] at h3; exact List.Perm.eq_nil (by simpa using h3)⟩

/-- … for the regenerated clusters (`clusters_configs`) and virtual hosts (`router_configs`) dumps -/
theorem removal_survives_reload_regenerated {α : Type} (enc : α → Json) (dcd : Json → Option α) (nrm : α → α)
    (hcodec : ∀ c, dcd (enc c) = some (nrm c)) (nameOf : α → Bytes)
    (ups : List (DirHist.Upd α × (Nat → Bytes))) (hne : ups ≠ []) (hclocks : ∀ u ∈ ups, ClockOK u.2) (d : Dir) (items : List α) :
    (∃ d' l, DirHist.histDump clusterDumpSteps Gen.ConfigDir.clusterNameOps enc nameOf d items ups = some d' ∧
      unmarshalDynamic dcd Gen.ConfigDir.readExt d' = some l ∧ l.Perm ((DirHist.histItems nameOf items ups).map nrm) ∧
      (DirHist.histItems nameOf items ups = [] → l = [])) ∧
    (∃ d' l, DirHist.histDump vhostDumpSteps Gen.ConfigDir.vhostNameOps enc nameOf d items ups = some d' ∧
      unmarshalDynamic dcd Gen.ConfigDir.readExt d' = some l ∧ l.Perm ((DirHist.histItems nameOf items ups).map nrm) ∧
      (DirHist.histItems nameOf items ups = [] → l = [])) :=
  ⟨removal_survives_reload _ dir_dump_discipline.1 _ (by decide +kernel) enc dcd nrm hcodec nameOf ups hne hclocks d items,
   removal_survives_reload _ dir_dump_discipline.2 _ (by decide +kernel) enc dcd nrm hcodec nameOf ups hne hclocks d items⟩

/-- the statement list of the seeded shape: `if len(items) == 0 { return … }` right after the directory was read -/
def earlyReturnSteps : List DStep :=
  [.mkdir, .readDir, .returnIfEmpty, .collectInit, .collect, .writtenInit, .writeLoop, .cleanup, .finish]

/-- `c1` as bytes; `c1.json` -/
def c1Item : DirHist.Item := ⟨"c1", 1⟩
def c1Name : Bytes := [99, 49]

/-- **early_return_keeps_removed_cluster** (negation witness, machine-checked): with a `return` for an empty item list before the
cleanup the statement list has not the discipline, and the history "add cluster c1; remove it" (a dump after each step) leaves
`c1.json` in the directory: the loader returns c1 although no item is left.  The regenerated list empties the directory. -/
theorem early_return_keeps_removed_cluster :
    DirHist.stepsOK earlyReturnSteps = false ∧
    (let ups : List (DirHist.Upd DirHist.Item × (Nat → Bytes)) := [(.put c1Item, fun i => dec i), (.del c1Name, fun i => dec i)]
     DirHist.histItems (fun _ => c1Name) [] ups = [] ∧
     ((DirHist.histDump earlyReturnSteps Gen.ConfigDir.clusterNameOps DirHist.Item.enc (fun _ => c1Name) [] [] ups).bind
        (unmarshalDynamic DirHist.Item.dcd Gen.ConfigDir.readExt)) = some [c1Item] ∧
     ((DirHist.histDump clusterDumpSteps Gen.ConfigDir.clusterNameOps DirHist.Item.enc (fun _ => c1Name) [] [] ups).bind
        (unmarshalDynamic DirHist.Item.dcd Gen.ConfigDir.readExt)) = some []) := by decide +kernel

-- non-vacuity of removal_survives_reload's hypotheses: a clock showing digits, a codec, a history down to empty and back
example : ClockOK (fun i => dec i) := by
  intro i
  exact ⟨free_dec 0 (by decide) i, free_dec 47 (by decide) i⟩
example (c : DirHist.Item) : DirHist.Item.dcd (DirHist.Item.enc c) = some c := DirHist.item_codec c
example : DirHist.histItems (fun _ : DirHist.Item => c1Name) []
    [(.put c1Item, fun i => dec i), (.del c1Name, fun i => dec i), (.setAll [c1Item, c1Item], fun i => dec i)] = [c1Item, c1Item] := by
  decide +kernel
end dirHistories

end MosnVerif.Props.C12
