import MosnVerif.Lemmas.FilterMachine
/-!
# C14 — stream filters run in order, and a denied request is never forwarded (property theorems only)

Objects: `Cfg` = receiver chain (any length, any phase assignment, any script per filter = any verdict vector, also for
re-invocations), sender chain, environment (every route-match / host-choice result by invocation number, pool refusal,
one-way, the upstream event: response / reset / asynchronous TerminateStream).  `run c n init` = the state of the
stream's worker after `n` iterations of the `receive` loop; all statements hold for every `n` (every point of the
run), in particular for the finished run `trace c`.
-/
namespace MosnVerif.Props.C14
open MosnVerif.Gen.FilterPhase MosnVerif.Model.FilterChain MosnVerif.Model.FilterMachine

/-- **order**: in every receiver pass (one `RunReceiverFilter` call, recorded with its start cursor) the invoked filters
have strictly increasing indices, none below the start cursor, and every one of them is a configured filter registered
for the phase of the pass. -/
theorem order (c : Cfg) (n : Nat) (p : RPhase) (st : Nat) (invs : List Inv)
    (h : Ev.rpass p st invs ∈ (run c n init).trace) :
    ascFrom st invs ∧ ∀ iv ∈ invs, ∃ f, c.recv[iv.1]? = some f ∧ f.phase = p :=
  (run_Pinv c n init (init_Pinv c)).passes p st invs h

/-- **once (receiver side)**: each receiver filter is invoked at most once per pass of its phase. -/
theorem once_receive (c : Cfg) (n : Nat) (p : RPhase) (st : Nat) (invs : List Inv)
    (h : Ev.rpass p st invs ∈ (run c n init).trace) (i : Nat) :
    (invs.filter (fun iv => iv.1 == i)).length ≤ 1 :=
  ascFrom_count_le_one (order c n p st invs h).1 i

/-- **resume**: every receiver pass starts exactly where the previous pass left the cursor — at the filter that asked
for re-match-route / re-choose-host if the previous pass ended with such a request, and at 0 otherwise; together with
`order` (no index below the start cursor) earlier filters are not re-run. -/
theorem resume (c : Cfg) (n : Nat) : resumeOK 0 (run c n init).trace :=
  (run_Pinv c n init (init_Pinv c)).resume

/-- **deny_not_forwarded**: if any receiver-filter invocation answered the request (hijack / direct response) or
terminated it (termination status or `TerminateStream`), then no `connPool.NewStream` — admitted or refused — occurs
anywhere in the trace, whatever the other filters return (continue, re-match, re-choose, …) and whatever the
environment does. -/
theorem deny_not_forwarded (c : Cfg) (n : Nat) (p : RPhase) (st : Nat) (invs : List Inv) (iv : Inv)
    (h : Ev.rpass p st invs ∈ (run c n init).trace) (hiv : iv ∈ invs) (hd : iv.2.isDeny = true) :
    ∀ e ∈ (run c n init).trace, ∀ r, e ≠ Ev.up r := by
  have hno := deny_noUp c n ⟨_, h, by simp only [denyEv, List.any_eq_true]; exact ⟨iv, hiv, hd⟩⟩
  intro e he r heq
  subst heq
  have := hno _ he
  simp [isUp] at this

end MosnVerif.Props.C14
