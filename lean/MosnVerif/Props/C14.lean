import MosnVerif.Lemmas.FilterComplete
import MosnVerif.Gen.ProxyTerminate
import MosnVerif.Lemmas.FilterInst
import MosnVerif.Lemmas.FilterRegs
import MosnVerif.Lemmas.FilterFinish
import MosnVerif.Lemmas.Downstream.Backoff9  -- (proxy10 section at the end of the file)
import MosnVerif.Lemmas.Downstream.TermInSetup10
/-!
# C14 — stream filters run in order, and a denied request is never forwarded (property theorems only)

Objects: `Cfg` = receiver chain (any length, any phase assignment, any script per filter = any verdict vector, also for
re-invocations), sender chain, environment (every route-match / host-choice result by invocation number, pool refusal,
one-way, the upstream event: response / reset / asynchronous TerminateStream, and the route's retry policy: retry_on,
retriable status codes, num_retries, the proxy_disable_retry variable).  `run c n init` = the state of the
stream's worker after `n` iterations of the `receive` loop; all statements hold for every `n` (every point of the
run), in particular for the finished run `trace c`.
-/
namespace MosnVerif.Props.C14
open MosnVerif.Gen.FilterPhase MosnVerif.Model.FilterChain MosnVerif.Model.FilterMachine MosnVerif.Model.FilterSpec

/-- **order**: in every receiver pass (one `RunReceiverFilter` call, recorded with its start cursor) the invoked filters
have strictly increasing indices, none below the start cursor, and every one of them is a configured filter registered
for the phase of the pass. -/
theorem order (c : Cfg) (n : Nat) (p : RPhase) (st : Nat) (invs : List Inv)
    (h : Ev.rpass p st invs ∈ (run c n init).trace) :
    ascFrom st invs ∧ ∀ iv ∈ invs, ∃ f, c.recv[iv.1]? = some f ∧ f.phase = p :=
  (run_Pinv c n init (init_Pinv c)).passes p st invs h

/-- **once (receiver side)**: each receiver filter is invoked at most once per pass of its phase. -/
theorem once_receive (c : Cfg) (n : Nat) (p : RPhase) (st : Nat) (invs : List Inv)
    (h : Ev.rpass p st invs ∈ (run c n init).trace) (i : Nat) :
    (invs.filter (fun iv => iv.1 == i)).length ≤ 1 :=
  ascFrom_count_le_one (order c n p st invs h).1 i

/-- **resume**: a receiver pass of the same phase as the previous one starts exactly where that pass left the cursor —
at the filter that asked for re-match-route / re-choose-host if it ended with such a request, at 0 otherwise — and a
pass of another phase always starts at the first filter (after the second `fix:`); together with `order` (no index below
the start cursor) earlier filters are not re-run. -/
theorem resume (c : Cfg) (n : Nat) : resumeOK 0 .BeforeRoute (run c n init).trace :=
  (run_Pinv c n init (init_Pinv c)).resume

/-- **deny_not_forwarded**: if any receiver-filter invocation answered the request (hijack / direct response) or
terminated it (termination status or `TerminateStream`), then no `connPool.NewStream` — admitted or refused — occurs
anywhere in the trace, AND the request is never handed to the retry path (`retried`: `processError` returned the
phase Retry, whose `doRetry` is another `NewStream`) — whatever the other filters return (continue, re-match,
re-choose, …), whatever the route's retry policy (retry_on, any status-code list, any budget: a 5xx or listed status
written by the denying filter is NOT a retriable upstream response) and whatever the environment does.  The proof
rests on the regenerated `processError` dropping the retry state when it takes the local reply. -/
theorem deny_not_forwarded (c : Cfg) (n : Nat) (p : RPhase) (st : Nat) (invs : List Inv) (iv : Inv)
    (h : Ev.rpass p st invs ∈ (run c n init).trace) (hiv : iv ∈ invs) (hd : iv.2.isDeny = true) :
    (∀ e ∈ (run c n init).trace, ∀ r, e ≠ Ev.up r) ∧ (run c n init).retried = false := by
  have hno := deny_noUp_noRetry c n ⟨_, h, by simp only [denyEv, List.any_eq_true]; exact ⟨iv, hiv, hd⟩⟩
  refine ⟨?_, hno.2⟩
  intro e he r heq
  subst heq
  have := hno.1 _ he
  simp [isUp] at this

/-- **once (sender side)**: at every point of the run the response side of the trace (sender passes and downstream
sender calls) is empty, or starts with ONE sender pass — from cursor 0, making exactly the invocations `sendRun`: filters
0,1,2,… in order, each once, up to and including the first that does not continue — followed only by the downstream
sender calls of one response (headers, ≤ 1 data, ≤ 1 trailers; no further sender pass): the sender filters run at most
once per stream (= per response) and before anything is written downstream. -/
theorem once_send (c : Cfg) (n : Nat) :
    backPart (run c n init).trace = [] ∨
    ∃ rest, backPart (run c n init).trace = .spass 0 (sendRun c.send 0) :: rest ∧ replyShape rest = true :=
  Ginv_SpOK c _ (run_Ginv c n init (init_Ginv c))

/-- … and `sendRun` invokes every sender filter exactly once, in configuration order, when they all continue -/
theorem sendRun_all (fs : List SFilter) (i : Nat) (h : ∀ f ∈ fs, continues (f.statusAt 0) = true) :
    (sendRun fs i).map (·.1) = List.range' i fs.length := by
  induction fs generalizing i with
  | nil => rfl
  | cons f r ih =>
    simp only [sendRun, h f (by simp), if_true, List.map_cons, List.length_cons, List.range'_succ]
    rw [ih (i + 1) (fun g hg => h g (by simp [hg]))]

/-- **the worker always returns**: the model run is finished after `fuel` iterations (the task of `OnReceive` returned) -/
theorem worker_returns (c : Cfg) : (final c).halted = true := final_halted c

/-- **never_abandoned** ([proxy8], the repaired task loop of `OnReceive`): at no point of any run — any chain, any verdict
vectors (a filter may ask for re-match-route / re-choose-host any number of times, for ever), any environment — has the worker
left with the stream unfinished: when the loop's budget of 10 calls of `receive` is used up, what follows the loop
(regenerated: `onReentryExhausted`) answers with the internal-error reply unless a local reply / the one-way clean up is
already pending, and every return of `receive` in the finishing pass is `End`.  (Before the repair `exhaustFinishes` is
regenerated as false and this theorem does not build.) -/
theorem never_abandoned (c : Cfg) (n : Nat) : (run c n init).exhausted = false := never_exhausted c n

/-- **single_reply** (full statement — the budget exclusion `exhausted = false` of the earlier `single_reply_partial` is gone).
When a receiver filter answered the request (hijack / direct response), no filter returned the termination status and
the request is not one-way, then the finished stream's response side is exactly: one full run of the sender filters,
then the downstream sender calls of THE answer — the headers with the status code and, iff the answer has a body, one
data call — where the answer is the fold of the filters' handler calls in invocation order (`replyOf`: the last
hijack / direct response wins) — also when the filters asked for re-match / re-choose nine times or more before. -/
theorem single_reply (c : Cfg) (ha : answeredIn (trace c)) (hnt : ¬ terminatedIn (trace c))
    (hno : c.env.oneway = false) :
    ∃ r code, replyOf (recvVerdicts (trace c)) (none, none) = (some r, code) ∧
      backPart (trace c) = .spass 0 (sendRun c.send 0) :: replyEvs r code := by
  -- an answered request is never retried (deny_not_forwarded): the model run is complete
  have hrt : (final c).retried = false := (deny_noUp_noRetry c fuel (answeredIn_deny ha)).2
  exact single_reply_of c (final c) (run_Ginv c fuel init (init_Ginv c)) (final_halted c) ha hnt hno
    (never_exhausted c fuel) hrt

/-- **outcome_total** (C14's machine): every finished run that was not handed to the retry path (whose continuation is
C03/C17's machine) ended the stream — cleaned, and terminated by a filter, one-way, or answered with one complete reply
after one full run of the sender filters (`DoneOK c v` = `v.f.cleaned = true ∧ (terminatedIn v.trace ∨ c.env.oneway = true ∨
∃ r, v.f.resp = some r ∧ backPart v.trace = .spass 0 (sendRun c.send 0) :: replyEvs r v.f.statusVar)`).  No budget exclusion. -/
theorem outcome_total (c : Cfg) (hrt : (final c).retried = false) : DoneOK c (final c).view := by
  have hG : Ginv c (final c) := run_Ginv c fuel init (init_Ginv c)
  have hex : (final c).exhausted = false := never_exhausted c fuel
  rcases (hG.done (final_halted c)).2 with h | h | h
  · rw [hex] at h; cases h
  · rw [hrt] at h; cases h
  · exact h

/-- **reply_body_own** (two answering filters): whatever an earlier filter's answer left in the stream — the body of a
`SendHijackReplyWithBody`, or nothing — the answer of a LATER filter replaces it completely: after a header-only
`SendHijackReply` the stream holds no data and no trailers, after `SendHijackReplyWithBody` exactly that reply's own data,
after `SendDirectResponse(headers, nil, nil)` none.  The effects of the three handler calls on the held data / trailers are
regenerated (`Gen.ProxyReply`); together with `single_reply` (the reply sent is the last answer, with a data call
iff THAT answer has a body) every downstream data event belongs to the answer whose headers were sent. -/
theorem reply_body_own (s : FState) (earlier : Act) (k : Nat) :
    (applyAct (applyAct s earlier) (.hijack k false)).resp = some ⟨false, false⟩ ∧
    (applyAct (applyAct s earlier) (.hijack k true)).resp = some ⟨true, false⟩ ∧
    (applyAct (applyAct s earlier) .direct).resp = some ⟨false, false⟩ := by
  refine ⟨?_, ?_, ?_⟩ <;> simp [applyAct, sendHijack_eq]

/-- the asynchronous `TerminateStream` of this slice (`up = term<code>`, also with an in-flight upstream response landing
inside the call, and on a kept handler of an earlier request) is the call of the shared downstream machine: theorems
`stale_terminate_ignored` and `terminate_wins_or_loses_atomically` (Props/C03) are about the same regenerated step program,
whose refusal tests and claim are pinned here as well -/
theorem terminate_checks_in_order :
    Gen.ProxyTerminate.checks = [.responseHeaders, .cleaned, .generation, .claim] ∧ Gen.ProxyTerminate.claimKind = .cas := by
  decide

/-- **complete (no filter is skipped)**: the first invocation of a stream is of the first filter of its phase and the
earlier phases have no filters; inside a pass the next invocation is of the NEXT filter of the phase; when the phase
changes, a pass whose last filter continued had reached the last filter of its phase, the new pass starts at the FIRST
filter of its phase and the phases in between have no filters; and a request that reaches the pool has had all three
passes.  Holds unconditionally after the second `fix:` (the kept cursor only resumes a pass of the same phase). -/
theorem complete (c : Cfg) (n : Nat) : completeOK c (flat (run c n init).trace) = true := completeOK_run c n

/-- **the executable predicate holds of the model** (safety part: order / once / resume in their token-list form,
completeness, no receiver filter after the response side started, deny ⇒ not forwarded, sender-once) — at every point of every run.
`specSafety` is the function `mosnmodel` evaluates on the IMPLEMENTATION's tokens of every generated case. -/
theorem spec_safety_holds_on_model (c : Cfg) (n : Nat) : specSafety c (flat (run c n init).trace) = true :=
  specSafety_run c n

/-- **the whole executable predicate holds of the finished model run**, single_reply included, for every
configuration (the worker abandons none: `never_abandoned`) whose request is not handed to the retry path. -/
theorem spec_holds_on_model (c : Cfg) (hrt : (final c).retried = false) :
    spec c (flat (trace c)) = true :=
  spec_final c (never_exhausted c fuel) hrt

/-- **the model is closed**: its two escape hatches — the `unmodelled` marker (Retry phase, phase out of range, no
upstream request at DownRecvHeader) and a worker blocked forever in `waitNotify` — are unreachable for every
configuration; every theorem above therefore speaks about runs that stay inside the modelled fragment. -/
theorem model_is_closed (c : Cfg) (n : Nat) :
    (∀ e ∈ (run c n init).trace, ∀ p, e ≠ Ev.unmodelled p) ∧ (run c n init).blocked = false := model_closed c n

/-- the verdict annotation `mosnmodel` recomputes from the scripts (by counting invocations) reproduces the verdicts
the model recorded — so the predicate evaluated by the driver on a token list that AGREES with the model is exactly the
predicate of the two theorems above: on the unchanged tree an `A` line is an `S` line. -/
theorem annot_reproduces_model (c : Cfg) (n : Nat) :
    annot c ((flat (run c n init).trace).map Obs.raw) = flat (run c n init).trace := annot_flat c n

theorem agree_implies_spec (c : Cfg) (impl : List Raw) (h : impl = (flat (final c).trace).map Obs.raw)
    (hrt : (final c).retried = false) : spec c (annot c impl) = true := by
  rw [h, annot_flat_final]; exact spec_final c (never_exhausted c fuel) hrt

/-! ### non-vacuity: concrete chains (the repaired defect, a re-match that resumes, a forwarded request) -/

def envOK : Env := { route := fun _ => .found, host := fun _ => true, poolFail := false, up := .resp 200 true false }

/-- filter 0 answers 403 and lets the chain continue, filter 1 (same phase) asks for re-match-route: DESIGN.md §6 #13 -/
def exDeny : Cfg :=
  { recv := [⟨.AfterRoute, [⟨.hijack 403 false, .Continue⟩]⟩, ⟨.AfterRoute, [⟨.none, .ReMatchRoute⟩, ⟨.none, .Continue⟩]⟩],
    send := [⟨[]⟩, ⟨[.Continue]⟩], env := envOK }

theorem exDeny_trace : trace exDeny =
    [.rpass .BeforeRoute 0 [],
     .rpass .AfterRoute 0 [(0, ⟨.hijack 403 false, .Continue⟩), (1, ⟨.none, .ReMatchRoute⟩)],
     .spass 0 [(0, .Continue), (1, .Continue)], .dh (some 403) true] := by decide +kernel

-- hypotheses of deny_not_forwarded / single_reply are satisfiable, and their conclusions are what one expects
example : Ev.rpass .AfterRoute 0 [(0, ⟨.hijack 403 false, .Continue⟩), (1, ⟨.none, .ReMatchRoute⟩)] ∈ trace exDeny ∧
    (⟨.hijack 403 false, .Continue⟩ : Verdict).isDeny = true := by rw [exDeny_trace]; decide
example : answeredIn (trace exDeny) ∧ ¬ terminatedIn (trace exDeny) ∧ exDeny.env.oneway = false ∧
    (final exDeny).exhausted = false := by
  refine ⟨?_, ?_, rfl, by decide +kernel⟩
  · rw [exDeny_trace]; exact ⟨⟨.hijack 403 false, .Continue⟩, by simp [recvVerdicts], rfl⟩
  · rw [exDeny_trace]; simp [terminatedIn, recvVerdicts]
example : backPart (trace exDeny) = .spass 0 (sendRun exDeny.send 0) :: replyEvs ⟨false, false⟩ (some 403) := by
  rw [exDeny_trace]; decide

/-- two answering filters in one pass: filter 0 answers 429 WITH a body and lets the chain go on, filter 1 denies with a
header-only 403: the client gets the 403 headers as the end of the stream — no data call carrying filter 0's body -/
def exTwoAnswers : Cfg :=
  { recv := [⟨.AfterRoute, [⟨.hijack 429 true, .Continue⟩]⟩, ⟨.AfterRoute, [⟨.hijack 403 false, .Stop⟩]⟩],
    send := [⟨[]⟩], env := envOK }

example : trace exTwoAnswers =
    [.rpass .BeforeRoute 0 [],
     .rpass .AfterRoute 0 [(0, ⟨.hijack 429 true, .Continue⟩), (1, ⟨.hijack 403 false, .Stop⟩)],
     .spass 0 [(0, .Continue)], .dh (some 403) true] := by decide +kernel

/-- … and the other way round the later answer's own body is the one that is sent -/
example : backPart (trace { exTwoAnswers with
      recv := [⟨.AfterRoute, [⟨.hijack 403 false, .Continue⟩]⟩, ⟨.AfterRoute, [⟨.hijack 429 true, .Stop⟩]⟩] }) =
    [.spass 0 [(0, .Continue)], .dh (some 429) false, .dd true] := by decide +kernel

/-- a route with retry_on (every 5xx retriable, budget 3), an upstream that would answer 503 -/
def envRetry : Env :=
  { route := fun _ => .found, host := fun _ => true, poolFail := false, up := .resp 503 false false,
    pol := { disabled := false, retryOn := true, codes := [], numRetries := 2 } }

/-- the seeded scenario: an AfterChooseHost filter answers 503 on that route — the retry state exists (chooseHost ran),
the status is retriable, budget is left; nothing is sent upstream, the client gets the 503 after the sender filters -/
def exDenyRetry : Cfg :=
  { recv := [⟨.AfterChooseHost, [⟨.hijack 503 false, .Stop⟩]⟩], send := [⟨[]⟩], env := envRetry }

example : trace exDenyRetry =
    [.rpass .BeforeRoute 0 [], .rpass .AfterRoute 0 [], .rpass .AfterChooseHost 0 [(0, ⟨.hijack 503 false, .Stop⟩)],
     .spass 0 [(0, .Continue)], .dh (some 503) true] ∧ (final exDenyRetry).retried = false ∧
    (final exDenyRetry).cleaned = true := by decide +kernel

/-- … the same with a status-code list (a listed 429 with body, filter continues), and a handler TerminateStream(503) -/
def exDenyRetryList : Cfg :=
  { recv := [⟨.AfterChooseHost, [⟨.hijack 429 true, .Continue⟩]⟩], send := [⟨[]⟩],
    env := { route := fun _ => .found, host := fun _ => true, poolFail := false, up := .resp 503 false false,
             pol := { disabled := false, retryOn := true, codes := [429], numRetries := 0 } } }
def exDenyRetryTerm : Cfg :=
  { recv := [⟨.AfterChooseHost, [⟨.terminate 503, .Continue⟩]⟩], send := [⟨[]⟩], env := envRetry }

example : (final exDenyRetryList).retried = false ∧ (final exDenyRetryTerm).retried = false ∧
    (∀ e ∈ trace exDenyRetryList, isUp e = false) ∧ (∀ e ∈ trace exDenyRetryTerm, isUp e = false) := by decide +kernel

/-- the retry path is real in this model: the same route WITHOUT the filter forwards the request, the upstream's 503 is
retried (the run stops where `doRetry` would call `NewStream` again) — so `retried = false` in `deny_not_forwarded` is
not vacuous -/
def exFwdRetry : Cfg := { recv := [], send := [⟨[]⟩], env := envRetry }

example : (final exFwdRetry).retried = true ∧
    trace exFwdRetry =
      [.rpass .BeforeRoute 0 [], .rpass .AfterRoute 0 [], .rpass .AfterChooseHost 0 [], .up false, .spass 0 [(0, .Continue)]] := by
  decide +kernel

/-- … and so is a retried pool connection failure (retried by default, even without retry_on) -/
def exFwdConnFail : Cfg :=
  { recv := [], send := [⟨[]⟩],
    env := { route := fun _ => .found, host := fun _ => true, poolFail := true, up := .resp 200 false false,
             resetReason := "ConnectionFailed", pol := { disabled := false } } }

example : (final exFwdConnFail).retried = true := by decide +kernel

/-- with `proxy_disable_retry` (the environments of the original slice) nothing is ever retried -/
def exFwdDisabled : Cfg :=
  { recv := [], send := [⟨[]⟩],
    env := { route := fun _ => .found, host := fun _ => true, poolFail := false, up := .resp 503 false false } }

example : (final exFwdDisabled).retried = false ∧ (final exFwdDisabled).cleaned = true := by decide +kernel

/-- a re-match that is honoured: filter 1 asks once, the next AfterRoute pass starts at filter 1 (filter 0 is not re-run),
then the request is forwarded and the upstream response (headers + data) is relayed after the sender filters -/
def exResume : Cfg :=
  { recv := [⟨.AfterRoute, []⟩, ⟨.AfterRoute, [⟨.none, .ReMatchRoute⟩, ⟨.none, .Continue⟩]⟩, ⟨.AfterChooseHost, []⟩],
    send := [⟨[]⟩], env := envOK }

example : trace exResume =
    [.rpass .BeforeRoute 0 [],
     .rpass .AfterRoute 0 [(0, {}), (1, ⟨.none, .ReMatchRoute⟩)],
     .rpass .AfterRoute 1 [(1, {})],
     .rpass .AfterChooseHost 0 [(2, {})],
     .up false, .spass 0 [(0, .Continue)], .dh (some 200) false, .dd true] := by decide +kernel

/-- the second repaired defect: a BeforeRoute filter (index 1) returns re-match-route, which the proxy honours only in
AfterRoute; the AfterRoute pass nevertheless starts at filter 0 (before the fix it started at index 1 and skipped it) -/
def exWrongPhase : Cfg :=
  { recv := [⟨.AfterRoute, []⟩, ⟨.BeforeRoute, [⟨.none, .ReMatchRoute⟩]⟩, ⟨.AfterRoute, []⟩], send := [], env := envOK }

example : trace exWrongPhase =
    [.rpass .BeforeRoute 0 [(1, ⟨.none, .ReMatchRoute⟩)],
     .rpass .AfterRoute 0 [(0, {}), (2, {})],
     .rpass .AfterChooseHost 0 [],
     .up false, .spass 0 [], .dh (some 200) false, .dd true] := by decide +kernel

/-- **the repaired defect** (finding → `fixed:`): a filter that asks nine times for re-match and then answers 403 is invoked
ten times; the tenth call of `receive` returns `UpFilter` to a task loop that has run out of iterations.  Before the repair
the task returned there (stream answered by nobody, never cleaned); now the finishing pass sends the 403. -/
def exExhaust : Cfg :=
  { recv := [⟨.AfterRoute, List.replicate 9 ⟨.none, .ReMatchRoute⟩ ++ [⟨.hijack 403 false, .Stop⟩]⟩],
    send := [⟨[]⟩], env := envOK }

example : (final exExhaust).exhausted = false ∧ (final exExhaust).cleaned = true ∧
    backPart (trace exExhaust) = [.spass 0 [(0, .Continue)], .dh (some 403) true] ∧
    (recvVerdicts (trace exExhaust)).length = 10 := by decide +kernel

/-- a filter that asks for re-match for ever: ten passes, then the internal-error reply (500) — after the sender filters,
nothing sent upstream, stream cleaned; the same for re-choose-host, and for a one-way request (cleaned, no reply) -/
def exForever : Cfg :=
  { recv := [⟨.AfterRoute, List.replicate 40 ⟨.none, .ReMatchRoute⟩⟩], send := [⟨[]⟩], env := envOK }

example : (final exForever).exhausted = false ∧ (final exForever).cleaned = true ∧
    backPart (trace exForever) = [.spass 0 [(0, .Continue)], .dh (some 500) true] ∧
    (recvVerdicts (trace exForever)).length = 10 ∧ (∀ e ∈ trace exForever, isUp e = false) := by decide +kernel

example : (final { exForever with recv := [⟨.AfterChooseHost, List.replicate 40 ⟨.none, .ReChooseHost⟩⟩] }).cleaned = true ∧
    backPart (trace { exForever with recv := [⟨.AfterChooseHost, List.replicate 40 ⟨.none, .ReChooseHost⟩⟩] }) =
      [.spass 0 [(0, .Continue)], .dh (some 500) true] ∧
    (final { exForever with env := { envOK with oneway := true } }).cleaned = true ∧
    backPart (trace { exForever with env := { envOK with oneway := true } }) = [] := by decide +kernel

/-- … on a route whose retry policy makes every 5xx retriable the internal-error reply is not retried either -/
example : (final { exForever with env := envRetry }).retried = false ∧ (final { exForever with env := envRetry }).cleaned = true ∧
    backPart (trace { exForever with env := envRetry }) = [.spass 0 [(0, .Continue)], .dh (some 500) true] := by decide +kernel

/-! ### [proxy8] the label `reset during UpFilter`

`Env.upfReset` adds to the schedules of this machine the event the shared downstream machine got with the last repair
(`upResetL` enabled while `upfRunning`): the upstream stream of the accepted streamed response is reset while the worker runs
the sender filters; the `processError` that ends the UpFilter `case` finds it at `s.phase == UpFilter`.  Every theorem above
(`order`, `once_receive`, `resume`, `deny_not_forwarded`, `once_send`, `single_reply`, `outcome_total`, `never_abandoned`,
`complete`, the predicate theorems) is stated for every `Cfg` and therefore quantifies over the schedules containing it. -/

/-- the event needs an upstream stream; its enabling condition "no deny in the trace" is implied by "admitted upstream"
(`deny_not_forwarded`), i.e. the guard never suppresses an event that could happen -/
theorem upf_guard_redundant (c : Cfg) (n : Nat) (h : (run c n init).trace.any isUpAdmitted = true) :
    ¬ DenyIn (run c n init).trace := by
  intro hd
  have hno := deny_noUp c n hd
  obtain ⟨e, he, ha⟩ := List.any_eq_true.mp h
  have := hno e he
  cases e <;> simp [isUpAdmitted, isUp] at ha this

/-- a streamed 200 whose upstream stream is reset during the sender pass -/
def envUpf : Env :=
  { route := fun _ => .found, host := fun _ => true, poolFail := false, up := .resp 200 true false, upfReset := true }

/-- not retried (no retry policy): the error reply of the reset reason replaces the response — after the ONE sender pass, one
reply, stream cleaned (on the code before a3a21969e the worker left here without reply) -/
example : trace { recv := [⟨.AfterRoute, []⟩], send := [⟨[]⟩], env := envUpf } =
    [.rpass .BeforeRoute 0 [], .rpass .AfterRoute 0 [(0, {})], .rpass .AfterChooseHost 0 [], .up false,
     .spass 0 [(0, .Continue)], .dh (some 502) true] ∧
    (final { recv := [⟨.AfterRoute, []⟩], send := [⟨[]⟩], env := envUpf }).cleaned = true := by decide +kernel

/-- … with a retriable reason and a retry policy the request is handed to the retry path (nothing was sent downstream) -/
def envUpfRetry : Env :=
  { envUpf with resetReason := "ConnectionTermination", pol := { disabled := false, retryOn := true, numRetries := 1 } }

example : (final { recv := [], send := [⟨[]⟩], env := envUpfRetry }).retried = true := by decide +kernel

/-- … and after a deny the event does not exist: the filter's 403 is the reply -/
example : backPart (trace { recv := [⟨.AfterRoute, [⟨.hijack 403 false, .Stop⟩]⟩], send := [⟨[]⟩], env := envUpf }) =
    [.spass 0 [(0, .Continue)], .dh (some 403) true] := by decide +kernel

/-! ## many streams: filter INSTANCES and configuration UPDATES (`Model/FilterInst.lean`)

A history is any list of events `upd l cfg` (AddOrUpdateStreamFilterConfig) / `create s l` (NewStreamDetect of stream `s` on
listener `l`: its chain is created) / `run s` (OnReceive: its filters run); `p : P` fixes which filter types are
registered, which factories allocate per call, the phase of each filter and what each filter decides about each
stream's request. -/

/-- **factories_allocate_per_stream** (regenerated from EVERY `CreateFilterChain` under pkg/filter/stream): the filter object
handed to `AddStreamReceiverFilter` / `AddStreamSenderFilter` is allocated inside the call, never an object the factory keeps. -/
theorem factories_allocate_per_stream : Gen.FilterFactories.factories.all (fun f => f.2.1) = true := by decide

/-- **manager_update_is_replace** (regenerated from `UpdateFactory` / `AddOrUpdateStreamFilterConfig`): the store is unconditional. -/
theorem manager_update_is_replace :
    (∀ o n : List Nat, Gen.FilterFactories.updateFactory o n = n) ∧ Gen.FilterFactories.addOrUpdateShape = true :=
  ⟨fun _ _ => rfl, rfl⟩

/-- **chain_follows_latest_config**: after EVERY update history the chain published for a listener is the configuration of
the latest update of that listener (entries of unregistered types dropped) — also when that configuration is empty or
has only unknown types; a listener never updated has none. -/
theorem chain_follows_latest_config (p : Model.FilterInst.P) (hupd : p.upd = Gen.FilterFactories.updateFactory)
    (h : List Model.FilterInst.Ev) (l : Nat) :
    (Model.FilterInst.exec p h).pub l = (Model.FilterInst.lastCfg l h).map (fun c => c.filter p.known) := by
  rw [Lemmas.FilterInst.lastCfg_eq]
  exact Lemmas.FilterInst.foldl_pub p (by intro o n; rw [hupd]; rfl) l h {} none rfl

example : (Model.FilterInst.exec ⟨fun k => k != 7, fun _ => true, fun _ => 0, fun _ _ => none, Gen.FilterFactories.updateFactory⟩
    [.upd 0 [1, 7, 2], .upd 1 [3], .upd 0 [7]]).pub 0 = some [] := by decide

/-- negation witness (the seeded shape of UpdateFactory, an empty new list keeps the old one): the removed filter stays published -/
example : (Model.FilterInst.exec ⟨fun _ => true, fun _ => true, fun _ => 0, fun _ _ => none, Model.FilterInst.keepOnEmpty⟩
    [.upd 0 [1], .upd 0 []]).pub 0 = some [1] ∧ Model.FilterInst.lastCfg 0 [.upd 0 [1], .upd 0 []] = some [] := by decide

/-- **deny_not_forwarded_concurrent**: for ANY number of streams and ANY interleaving of updates, chain creations and filter
runs, when every factory allocates per call: a stream that ran has the reference outcome of ITS OWN chain on ITS OWN
request — it is forwarded only if no filter of its chain denies its request (a denied request is never forwarded), and a
local reply it gets is the verdict of a filter of its own chain about its own request (replies go to the stream that was
denied, nobody else). -/
theorem deny_not_forwarded_concurrent (p : Model.FilterInst.P) (hf : ∀ k, p.fresh k = true) (hph : ∀ k, p.phase k < 3)
    (evs : List Model.FilterInst.Ev) (s : Nat) (r : Model.FilterInst.Outcome)
    (h : (Model.FilterInst.exec p evs).st.out s = some r) :
    ∃ ch, (Model.FilterInst.exec p evs).st.chain s = some ch ∧ r = Model.FilterInst.expect p s (ch.map (·.1)) ∧
      (r.2 = none → ∀ k ∈ ch.map (·.1), p.deny s k = none) ∧
      (∀ c, r.2 = some c → ∃ k ∈ ch.map (·.1), p.deny s k = some c) := by
  have hi := Lemmas.FilterInst.inv_foldl p hf evs {} (Lemmas.FilterInst.inv_init p)
  obtain ⟨ch, h1, h2⟩ := hi.outc s r h
  refine ⟨ch, h1, h2, ?_, ?_⟩
  · intro hn k hk
    rw [h2] at hn
    exact Lemmas.FilterInst.expFrom_none p (p.deny s) _ _ [] hn k hk (Lemmas.FilterInst.phase_mem _ (hph k))
  · intro c hc
    rw [h2] at hc
    exact Lemmas.FilterInst.expFrom_deny p (p.deny s) _ _ [] c hc

/-- a non-trivial instance: two streams, both chains created before any filter runs, stream 0 denied and stream 1 not -/
example : let p : Model.FilterInst.P := ⟨fun _ => true, fun _ => true, fun k => k % 3, fun s k => if s = 0 ∧ k = 4 then some 403 else none, fun _ n => n⟩
    let w := Model.FilterInst.exec p [.upd 0 [4, 3], .create 0 0, .create 1 0, .run 1, .run 0]
    w.st.out 0 = some ([3, 4], some 403) ∧ w.st.out 1 = some ([3, 4], none) := by decide

/-- negation witness (one filter object shared by all streams, the seeded shape of ip_access's factory): the handler slot
holds the LAST created stream, so the denied stream 0 is forwarded and stream 1 gets the 403 it did not earn -/
example : let p : Model.FilterInst.P := ⟨fun _ => true, fun _ => false, fun _ => 0, fun s _ => if s = 0 then some 403 else none, fun _ n => n⟩
    let w := Model.FilterInst.exec p [.upd 0 [0], .create 0 0, .create 1 0, .run 0, .run 1]
    w.st.out 0 = some ([0], none) ∧ w.st.out 1 = some ([0], some 403) := by decide

/-- **stream_runs_latest_config**: a stream created on listener `l` after the history `h` — whatever happens later (further
updates included) — runs exactly the filters of the latest configuration of `l` in `h`, in phase order then configuration
order, up to the first that denies it. -/
theorem stream_runs_latest_config (p : Model.FilterInst.P) (hupd : p.upd = Gen.FilterFactories.updateFactory)
    (hf : ∀ k, p.fresh k = true) (h h2 : List Model.FilterInst.Ev) (s l : Nat)
    (hnew : (Model.FilterInst.exec p h).st.chain s = none) (r : Model.FilterInst.Outcome)
    (hr : (Model.FilterInst.exec p (h ++ .create s l :: h2)).st.out s = some r) :
    r = Model.FilterInst.expect p s (((Model.FilterInst.lastCfg l h).getD []).filter p.known) := by
  have hpub := chain_follows_latest_config p hupd h l
  obtain ⟨j1, _, _, _⟩ := Lemmas.FilterInst.inst_fresh p hf s (((Model.FilterInst.exec p h).pub l).getD [])
    (Model.FilterInst.exec p h).st.next (Model.FilterInst.exec p h).st.handler
  have hcre : (Model.FilterInst.step p (Model.FilterInst.exec p h) (.create s l)).st.chain s =
      some (Model.FilterInst.inst p s (((Model.FilterInst.exec p h).pub l).getD [])
        (Model.FilterInst.exec p h).st.next (Model.FilterInst.exec p h).st.handler).1 := by
    simp [Model.FilterInst.step, Model.FilterInst.stepS, hnew, Lemmas.FilterInst.setAt_same]
  have hex : Model.FilterInst.exec p (h ++ .create s l :: h2) =
      h2.foldl (Model.FilterInst.step p) (Model.FilterInst.step p (Model.FilterInst.exec p h) (.create s l)) := by
    simp [Model.FilterInst.exec, List.foldl_append]
  have hch := Lemmas.FilterInst.chain_persist_foldl p s _ h2 _ hcre
  rw [← hex] at hch
  have hi : Lemmas.FilterInst.Inv p (Model.FilterInst.exec p (h ++ .create s l :: h2)).st :=
    Lemmas.FilterInst.inv_foldl p hf (h ++ .create s l :: h2) {} (Lemmas.FilterInst.inv_init p)
  obtain ⟨ch, h1, h2'⟩ := hi.outc s r hr
  rw [hch] at h1
  cases h1
  rw [h2', j1, hpub]
  cases Model.FilterInst.lastCfg l h <;> rfl

/-- the hypotheses of `stream_runs_latest_config` on a concrete history: the stream is created after the listener's chain was
emptied and runs after a later update that adds a deny filter again — it is forwarded, running nothing -/
example : let p : Model.FilterInst.P := ⟨fun k => k != 7, fun _ => true, fun _ => 1, fun _ k => if k = 4 then some 403 else none, Gen.FilterFactories.updateFactory⟩
    (Model.FilterInst.exec p [.upd 0 [4], .upd 0 [7]]).st.chain 5 = none ∧
    (Model.FilterInst.exec p ([.upd 0 [4], .upd 0 [7]] ++ .create 5 0 :: [.upd 0 [4], .run 5])).st.out 5 = some ([], none) := by decide

/-! ## c14r7 BEGIN — registrations: the chain is a list of (filter object, phase) pairs (`Model/FilterRegs.lean`)

A factory may hand ONE filter object to `AddStreamReceiverFilter` several times — for several receive phases
(pkg/filter/stream/dsl: BeforeRoute, AfterRoute, AfterChooseHost), in any order, with other objects' registrations in between —
and to `AddStreamSenderFilter` too.  `regs : List Reg` is ANY list of such calls (repeated objects, arbitrary phase order);
registration `i` decides by the script `sc i` (any verdict vector; for an object whose decisions are a function of
(object, phase, invocation) see `toChainObj_eq_toChain`). -/
section Registrations
open MosnVerif.Model.FilterRegs

/-- **registrations_kept** (regenerated `AddStreamReceiverFilter` / `AddStreamSenderFilter` bodies): after ANY sequence of
registration calls the chain holds exactly these registrations, in call order — every call adds one, whether or not the
object is in the chain already. -/
theorem registrations_kept (regs : List Reg) (sobjs : List Nat) :
    regsOf (build regs sobjs) = regs.map (fun r => (r.obj, phaseNum r.phase)) ∧
    (build regs sobjs).senderFilters = sobjs ∧
    (build regs sobjs).senderFiltersPhase = sobjs.map (fun _ => Gen.FilterRegs.BeforeSend) := by
  refine ⟨regsOf_build regs sobjs, ?_, ?_⟩ <;> rw [build_eq]

/-- **phase_test_is_equality** (regenerated test in front of the filter call of both run loops, whose shape — start at the
cursor, advance by one, no break — the extractor checks): a registration is skipped iff its phase differs from the phase of
the pass — what `recvLoop` of the model does; the only sender phase is BeforeSend, so a sender pass skips nothing. -/
theorem phase_test_is_equality (a b : RPhase) :
    Gen.FilterRegs.recvSkips (phaseNum a) (phaseNum b) = (a != b) ∧
    Gen.FilterRegs.senderFilterPhaseValues = [Gen.FilterRegs.BeforeSend] ∧
    Gen.FilterRegs.sendSkips Gen.FilterRegs.BeforeSend Gen.FilterRegs.BeforeSend = false := by
  refine ⟨?_, rfl, rfl⟩
  cases a <;> cases b <;> rfl

/-- registration `i` of the list is filter `i` of the chain, with the phase it was registered for -/
theorem registration_is_filter (regs : List Reg) (sc : Nat → List Verdict) (i : Nat) :
    (toChain regs sc)[i]? = (regs[i]?).map (fun r => (⟨r.phase, sc i⟩ : RFilter)) := toChain_getElem? regs sc i

/-- the filters of phase `p` of that chain are the registrations of phase `p`, in registration order -/
theorem ofPhase_toChain (p : RPhase) (regs : List Reg) (sc : Nat → List Verdict) :
    (ofPhase p (toChain regs sc) 0).map (·.1) = ((regs.zipIdx).filter (fun ri => ri.1.phase = p)).map (·.2) := by
  have gen : ∀ (k : Nat), (ofPhase p ((regs.zipIdx k).map (fun ri => (⟨ri.1.phase, sc ri.2⟩ : RFilter))) k).map (·.1) =
      ((regs.zipIdx k).filter (fun ri => ri.1.phase = p)).map (·.2) := by
    induction regs with
    | nil => intro k; simp [ofPhase]
    | cons r rest ih =>
      intro k
      simp only [List.zipIdx_cons, List.map_cons, ofPhase, List.filter_cons]
      by_cases h : r.phase = p
      · simp [h, ih (k + 1)]
      · simp [h, ih (k + 1)]
  exact gen 0

/-- **pass_runs_exactly_registrations**: one `RunReceiverFilter(p)` call from the first filter on — whatever the state of the
stream, whatever the filters do on their handlers — invokes exactly the registrations of phase `p`, in registration order,
each once, up to and including the first whose status does not let the chain go on (Stop, termination, re-match, re-choose). -/
theorem pass_runs_exactly_registrations (regs : List Reg) (sc : Nat → List Verdict) (p : RPhase) (s : FState)
    (h0 : s.cursor = 0) :
    (runRecv (toChain regs sc) p s).2 = cutAfter s.rcalls (ofPhase p (toChain regs sc) 0) := by
  rw [runRecv_invs, startOf_eq, h0]; simp

/-- … and when they all let the chain go on, every registration of the phase is invoked -/
theorem cutAfter_all (calls : Nat → Nat) (l : List (Nat × RFilter))
    (h : ∀ x ∈ l, continues (x.2.verdictAt (calls x.1)).status = true) : (cutAfter calls l).map (·.1) = l.map (·.1) := by
  induction l with
  | nil => rfl
  | cons x r ih =>
    obtain ⟨i, f⟩ := x
    have hx := h (i, f) (by simp)
    simp only [cutAfter, hx, if_true, List.map_cons]
    rw [ih (fun y hy => h y (List.mem_cons_of_mem _ hy))]

/-- **runs_exactly_registrations**: for every registration list (repeated objects, arbitrary phase order), every script per
registration, every sender chain and environment, at every point of the run of a request: each receiver pass is the exact
run of the registrations of its phase from its start cursor — none skipped, none twice, none of another phase, cut only by a
status that does not continue.  (Which passes there are and where they start — phases in the proxy's order, from the first
filter, resumed at the asking filter after an honoured re-match / re-choose — is `complete` / `resume`, which hold of this
chain as of any.) -/
theorem runs_exactly_registrations (regs : List Reg) (sc : Nat → List Verdict) (send : List SFilter) (env : Env) (n : Nat)
    (p : RPhase) (st : Nat) (invs : List Inv)
    (h : Ev.rpass p st invs ∈ (run ⟨toChain regs sc, send, env⟩ n init).trace) :
    ∃ calls, invs = cutAfter calls (ofPhase p ((toChain regs sc).drop st) st) :=
  run_PassesExact ⟨toChain regs sc, send, env⟩ n init (init_PassesExact _) p st invs h

/-- **deny_not_forwarded_registration**: the denying invocation may come through ANY registration of an object — the second
or third phase it registered for as well: it is a registration of the list for the phase of the pass, and the request is
neither sent upstream nor handed to the retry path. -/
theorem deny_not_forwarded_registration (regs : List Reg) (sc : Nat → List Verdict) (send : List SFilter) (env : Env) (n : Nat)
    (p : RPhase) (st : Nat) (invs : List Inv) (iv : Inv)
    (h : Ev.rpass p st invs ∈ (run ⟨toChain regs sc, send, env⟩ n init).trace) (hiv : iv ∈ invs) (hd : iv.2.isDeny = true) :
    (∃ r, regs[iv.1]? = some r ∧ r.phase = p) ∧
    (∀ e ∈ (run ⟨toChain regs sc, send, env⟩ n init).trace, ∀ r, e ≠ Ev.up r) ∧
    (run ⟨toChain regs sc, send, env⟩ n init).retried = false := by
  refine ⟨?_, deny_not_forwarded ⟨toChain regs sc, send, env⟩ n p st invs iv h hiv hd⟩
  obtain ⟨f, hf, hp⟩ := (order ⟨toChain regs sc, send, env⟩ n p st invs h).2 iv hiv
  have hf' : (toChain regs sc)[iv.1]? = some f := hf
  rw [toChain_getElem?] at hf'
  cases hr : regs[iv.1]? with
  | none => rw [hr] at hf'; cases hf'
  | some r =>
    rw [hr] at hf'
    simp only [Option.map_some, Option.some.injEq] at hf'
    exact ⟨r, rfl, by rw [← hp, ← hf']⟩

/-- an object whose decisions are a function of (object, phase, invocation) — one script per pair — is the special case in
which every registration of the pair carries that script -/
theorem toChainObj_eq_toChain (regs : List Reg) (sc : Nat → RPhase → List Verdict) :
    toChainObj regs sc = toChain regs (fun i => match regs[i]? with | some r => sc r.obj r.phase | none => []) := by
  apply List.ext_getElem?
  intro i
  rw [toChain_getElem?]
  simp only [toChainObj, List.getElem?_map]
  cases regs[i]? <;> rfl

/-- **destroy_once_per_registration** (regenerated `OnDestroy`: a range over each slice): when the stream is cleaned an object
gets one `OnDestroy` call per registration it made, receiver and sender — what the code does; a filter registered for
three phases must tolerate three calls. -/
theorem destroy_once_per_registration (regs : List Reg) (sobjs : List Nat) (o : Nat) :
    (Gen.FilterRegs.onDestroy (build regs sobjs)).count o = destroyCount regs sobjs o := destroy_count regs sobjs o

/-! non-vacuity: an auth filter that pre-checks before the route is matched and decides after it (one object, two phases) -/

def exAuth : List Reg := [⟨7, .BeforeRoute⟩, ⟨3, .AfterRoute⟩, ⟨7, .AfterRoute⟩, ⟨7, .AfterChooseHost⟩]
def exAuthSc : Nat → List Verdict := fun i => if i = 2 then [⟨.hijack 403 false, .Stop⟩] else []

example : regsOf (build exAuth [7, 7]) = [(7, 0), (3, 1), (7, 1), (7, 2)] ∧ destroyCount exAuth [7, 7] 7 = 5 := by decide

/-- the object's verdict in its SECOND phase denies the request: nothing is sent upstream -/
example : trace ⟨toChain exAuth exAuthSc, [], envOK⟩ =
    [.rpass .BeforeRoute 0 [(0, {})],
     .rpass .AfterRoute 0 [(1, {}), (2, ⟨.hijack 403 false, .Stop⟩)],
     .spass 0 [], .dh (some 403) true] := by decide +kernel

example : Ev.rpass .AfterRoute 0 [(1, {}), (2, ⟨.hijack 403 false, .Stop⟩)] ∈
    (run ⟨toChain exAuth exAuthSc, [], envOK⟩ fuel init).trace ∧
    [(1, ({} : Verdict)), (2, ⟨.hijack 403 false, .Stop⟩)] =
      cutAfter (fun _ => 0) (ofPhase .AfterRoute ((toChain exAuth exAuthSc).drop 0) 0) := by
  constructor
  · decide +kernel
  · decide

/-- **negation witness (the seeded shape)**: an `Add…` that skips an object already in the chain keeps only the object's
FIRST phase — the registration list is not kept … -/
example : regsOf (buildWith addDedup exAuth) = [(7, 0), (3, 1)] ∧
    regsOf (buildWith addDedup exAuth) ≠ exAuth.map (fun r => (r.obj, phaseNum r.phase)) := by decide

/-- … and on that chain the verdict of the later phase never happens: the request the filter denies is forwarded -/
example : trace ⟨toChain [⟨7, .BeforeRoute⟩, ⟨3, .AfterRoute⟩] (fun i => if i = 1 then [] else exAuthSc 0), [], envOK⟩ =
    [.rpass .BeforeRoute 0 [(0, {})], .rpass .AfterRoute 0 [(1, {})], .rpass .AfterChooseHost 0 [],
     .up false, .spass 0 [], .dh (some 200) false, .dd true] := by decide +kernel

end Registrations
/-! ## c14r7 END -/

/-! ### ==== proxy10: the asynchronous denial on the shared downstream machine (every schedule, the back-off included) ==== -/

end MosnVerif.Props.C14

namespace MosnVerif.Props.C14
open MosnVerif.Model.Downstream

/-- **deny_not_forwarded_backoff**: the filter machine above delivers an asynchronous `TerminateStream` to the worker parked in
`waitNotify`; the shared downstream machine (`Model/Downstream.lean`: every schedule of the extended label type) also delivers
it while the worker is asleep in `doRetry`'s back-off — the attempt was given up for a retry, the response slot is free, the
call is accepted.  On EVERY schedule that leaves the worker in the back-off with the local reply of an accepted call pending —
whatever else landed during the rest of the sleep: the client's departure, the connection close, late frames of the given-up
attempt, the global timer … — the wake-up creates NO upstream attempt: no `ConnectionPool.NewStream`, admitted or refused, no
new client stream; the worker leaves the Retry phase with the reply (or, the client gone, cleans the stream).  The denied request
is not forwarded.  Rests on the regenerated `doRetry` (`Gen.ProxyBackoff.doRetry`: `if s.directResponse { return }` after the
sleep) and the regenerated `processError` / `TerminateStream`. -/
theorem deny_not_forwarded_backoff (c : Cfg) (ar aq : Nat) (l : List Label)
    (hb : backoff (run c (init ar aq) l) = true) (hacc : (run c (init ar aq) l).direct = true) :
    (run c (init ar aq) (l ++ [.work])).streams.length = (run c (init ar aq) l).streams.length ∧
    (run c (init ar aq) (l ++ [.work])).trace.filter attemptEv = (run c (init ar aq) l).trace.filter attemptEv ∧
    ((run c (init ar aq) (l ++ [.work])).running = false ∨ (run c (init ar aq) (l ++ [.work])).phase ≠ .Retry) := by
  have hi := inv_run c ar aq l
  obtain ⟨hcl, _, _, _, _, _, _, _, _, _, _, hdf⟩ := backoff_facts c ar aq _ hi hb
  have := wake_direct_no_attempt c (run c (init ar aq) l) hb hacc hcl (hdf hacc).2.1
  simpa [run, List.foldl_append, step, att] using this

/-- … and such a state is reached exactly by an accepted call: in the back-off (no local reply pending yet) `TerminateStream` is
accepted iff no response headers are stored and the response slot is free; an accepted call leaves its reply pending, the
worker asleep, the trace untouched -/
theorem terminate_in_backoff_accepted (c : Cfg) (ar aq : Nat) (l : List Label) (code : Nat)
    (hb : backoff (run c (init ar aq) l) = true) (hnd : (run c (init ar aq) l).direct = false) :
    backoff (run c (init ar aq) (l ++ [.terminate code])) = true ∧
    (run c (init ar aq) (l ++ [.terminate code])).trace = (run c (init ar aq) l).trace ∧
    ((run c (init ar aq) (l ++ [.terminate code])).direct = true ↔
      ((run c (init ar aq) l).resp.isSome = false ∧ (run c (init ar aq) l).urr = false)) := by
  have h := terminate_backoff_spec c ar aq (run c (init ar aq) l) code (inv_run c ar aq l) hb
  simp only [run, List.foldl_append, List.foldl_cons, List.foldl_nil, step]
  simp only [run] at h hnd
  refine ⟨h.2.2.1, h.1, ?_⟩
  rw [h.2.2.2.2.2.1]
  simp [hnd]

/-- non-vacuity: attempt 0 is reset (retried), TerminateStream(403) lands in the back-off, then the client's connection is
closed during the rest of the sleep; the wake-up: no attempt 1, no reply (the client is gone), the stream is cleaned -/
example : ((fun (s : S) => (s.trace, s.cleaned, s.upActive))
    (run { retryOn := true, numRetries := 2 } (init 0 0)
      (List.replicate 12 .work ++ [.upReset 0 .StreamConnectionFailed, .work, .terminate 403, .connClose, .work]))) =
    ([.un 0, .uh 0 true, .log 504 0x2000], true, 0) := by decide

/-- **deny_inside_retry_setup_not_forwarded** (the tester's lead; defect reproduced on the real code and fixed by 4e7d4a7f0).
The worker has decided to retry (`retryState.retry` answered `ShouldRetry`) and is inside `setupRetry`; an asynchronous
`TerminateStream` of a receiver-filter handler lands THERE — at the worker's yield site after the mark, or after the swing of
`upstreamResponseReceived`.  Both calls are the regenerated step programs (`Gen.ProxyBackoff.setupRetry` with its two
interleaving points, `Gen.ProxyTerminate.terminateStream`).  After the swing the call is accepted whenever no response headers
are stored (the slot was just freed); after the mark whenever the slot is free (retry decided on an upstream reset).  A local
reply is then pending when the regenerated `processError` runs, and it ABANDONS the retry: it does not hand back the phase
`Retry` — the only phase besides the first `receiveHeaders` in which an attempt is created —, clears the mark, detaches the
given-up request.  The denied request is not forwarded. -/
theorem deny_inside_retry_setup_not_forwarded (c : Cfg) (s : S) (eos e : Bool) (code : Nat) (he : s.globalExpired = false)
    (hd : s.downReset = false) (hu : s.up.isSome = true) (hc : s.cleaned = false) (hr : s.resp.isSome = false) :
    (let x := (Gen.ProxyBackoff.setupRetry (srOps c) id (termCall c code) eos s).1
     x.direct = true ∧ (restOfPhase c x e).phase ≠ .Retry ∧ (restOfPhase c x e).setupRetry = false) ∧
    (s.urr = false →
     let x := (Gen.ProxyBackoff.setupRetry (srOps c) (termCall c code) id eos s).1
     x.direct = true ∧ (restOfPhase c x e).phase ≠ .Retry ∧ (restOfPhase c x e).setupRetry = false) :=
  terminate_inside_setup_abandons_retry c s eos e code he hd hu hc hr

/-- the state in which the worker handles the reset of attempt 0 -/
def exSetupCfg : Cfg := { retryOn := true, numRetries := 2 }
def exSetupState : S := run exSetupCfg (init 0 0) (List.replicate 12 .work ++ [.upReset 0 .StreamConnectionFailed])

/-- non-vacuity: that state satisfies the hypotheses; TerminateStream(403) at either site is accepted and the worker goes on to
the response pass (UpFilter) with the reply, not to the Retry phase -/
example :
    (!exSetupState.globalExpired && !exSetupState.downReset && exSetupState.up.isSome && !exSetupState.cleaned &&
      !exSetupState.resp.isSome && !exSetupState.urr) = true ∧
    ((fun (x : S) => (x.phase, x.direct, x.respCode, x.setupRetry))
      (restOfPhase exSetupCfg (Gen.ProxyBackoff.setupRetry (srOps exSetupCfg) id (termCall exSetupCfg 403) true exSetupState).1 true)) =
      (.UpFilter, false, 403, false) ∧
    ((fun (x : S) => (x.phase, x.direct, x.respCode, x.setupRetry))
      (restOfPhase exSetupCfg (Gen.ProxyBackoff.setupRetry (srOps exSetupCfg) (termCall exSetupCfg 403) id true exSetupState).1 true)) =
      (.UpFilter, false, 403, false) := by decide

end MosnVerif.Props.C14
