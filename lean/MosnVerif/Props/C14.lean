import MosnVerif.Model.FilterSpec
namespace MosnVerif.Props.C14
end MosnVerif.Props.C14
