import MosnVerif.Lemmas.WeightedCluster
import MosnVerif.Lemmas.EDF
/-!
# C06 — configured weights are honoured exactly (property theorems only)
-/
namespace MosnVerif.Props.C06
open MosnVerif.Model.WeightedCluster

/-- **count_exact**: for every weight vector, in *every* storage order, with distinct names, over the whole
draw space `[0, total)` each cluster is selected by exactly `weight` draws — probability `weight/total`. -/
theorem count_exact (l : List Entry) (hnd : (l.map (·.1)).Nodup) (c : String) (w : Nat)
    (hc : (c, w) ∈ l) : hits l c (total l) = w := by
  rw [hits_eq_ref]; exact hitsRef_exact l hnd c w hc

/-- **zero_never**: a zero-weight cluster is never selected, for every order and every draw. -/
theorem zero_never (l : List Entry) (hnd : (l.map (·.1)).Nodup) (c : String) (hc : (c, 0) ∈ l) (v : Nat)
    (hv : v < total l) : select l v ≠ some c := by
  intro h
  have := count_exact l hnd c 0 hc
  unfold hits at this
  rw [List.length_eq_zero_iff, List.filter_eq_nil_iff] at this
  exact this v (by simpa using hv) (by simp [h])

/-- **order_independent**: the number of draws selecting a cluster does not depend on the storage order. -/
theorem order_independent (l l' : List Entry) (hp : l.Perm l') (hnd : (l.map (·.1)).Nodup) (c : String) (w : Nat)
    (hc : (c, w) ∈ l) : hits l c (total l) = hits l' c (total l') := by
  have hnd' : (l'.map (·.1)).Nodup := (hp.map _).nodup_iff.mp hnd
  rw [count_exact l hnd c w hc, count_exact l' hnd' c w (hp.mem_iff.mp hc)]

/-- every draw in range selects *some* configured cluster (never falls through to the default). -/
theorem select_total (l : List Entry) (v : Nat) (hv : v < total l) : ∃ c, select l v = some c ∧ c ∈ l.map (·.1) := by
  rw [select_eq_ref]
  induction l generalizing v with
  | nil => simp [total] at hv
  | cons e r ih =>
    obtain ⟨n, w⟩ := e
    simp only [selectRef]
    by_cases h : v < w
    · exact ⟨n, by simp [h], by simp⟩
    · have : v - w < total r := by simp [total] at hv ⊢; omega
      obtain ⟨c, hc, hm⟩ := ih (v - w) this
      exact ⟨c, by simp [h, hc], by simp at hm ⊢; right; exact hm⟩

/-- the executable predicate evaluated on implementation outputs is implied by the model. -/
theorem spec_holds_on_model (l : List Entry) (hnd : (l.map (·.1)).Nodup) :
    specCounts l ((List.range (total l)).map (select l)) = true := by
  unfold specCounts
  simp only [List.length_map, List.length_range, beq_self_eq_true, Bool.true_and, List.all_eq_true]
  intro e he
  have := count_exact l hnd e.1 e.2 he
  unfold hits at this
  simp only [beq_iff_eq]
  rw [← this, List.filter_map, List.length_map]
  rfl

-- non-vacuity: a concrete non-trivial vector (zero weight, dominant weight, non-power-of-two total)
example : (([("a", 0), ("b", 5), ("c", 1)] : List Entry).map (·.1)).Nodup ∧
    (("a", 0) : Entry) ∈ [("a", 0), ("b", 5), ("c", 1)] ∧ 3 < total [("a", 0), ("b", 5), ("c", 1)] := by decide
example : select [("a", 0), ("b", 5), ("c", 1)] 0 = some "b" := by decide
example : select [("a", 0), ("b", 5), ("c", 1)] 5 = some "c" := by decide

/-! ## weighted round robin: the EDF scheduler (`edf.go`) over exact rationals

`Sched` is the scheduler state, `nextAndPush wf hint` one `NextAndPush` (the hint resolves exact ties of deadlines the
way the float64 implementation happened to — every theorem holds for all hints), `run` consecutive picks,
`refresh wf n pre` the scheduler `EdfLoadBalancer.refresh` builds for `n` hosts (all `Add`s, then `|pre|` warm-up picks). -/
section EDF
open MosnVerif.Model MosnVerif.Model.EDF

/-- **edf_invariant_step**: the invariant `dₑ − 1/wₑ ≤ now ≤ dₑ` (all queued `e`) is preserved by every pick, whatever
positive weight the weight function returns at that moment (least-request / peak-EWMA weights change between picks). -/
theorem edf_invariant_step (s s' : Sched) (wf : Nat → Rat) (hint : Option Nat) (i : Nat) (h : Inv s)
    (hwf : ∀ k, 0 < wf k) (hn : s.nextAndPush wf hint = some (i, s')) : Inv s' :=
  inv_next h hwf hn

/-- **edf_invariant_reachable**: in every state reachable from the constructed balancer (any warm-up, any number of
picks, any tie resolution) `dᵢ − 1/wᵢ ≤ dⱼ` holds for all queued entries `i`, `j`. -/
theorem edf_invariant_reachable (wf : Nat → Rat) (hwf : ∀ k, 0 < wf k) (n : Nat) (pre picks : List (Option Nat))
    (e f : EDF.Entry) (he : e ∈ ((refresh wf n pre).run wf picks).2.entries)
    (hf : f ∈ ((refresh wf n pre).run wf picks).2.entries) : e.deadline - 1 / e.weight ≤ f.deadline := by
  obtain ⟨h1, h2, _⟩ := refresh_facts wf hwf n pre
  exact (run_facts wf hwf picks _ h1 h2).1.pairwise he hf

/-- the served entry always holds a minimal deadline; without hint it is the minimum of the regenerated heap order
`edfEntryLess` (earliest deadline, ties by queued order). -/
theorem edf_pick_minimal (s : Sched) (hint : Option Nat) (e : EDF.Entry) (h : s.pick hint = some e) :
    e ∈ s.entries ∧ ∀ f ∈ s.entries, e.deadline ≤ f.deadline := pick_mem_min h

/-- effective host weights are in the supported range 1..128 whatever is configured. -/
theorem wrr_weight_range (ws : List Nat) (i : Nat) : (1 : Rat) ≤ wrrWeight ws i ∧ wrrWeight ws i ≤ 128 := by
  have := fixHostWeight_range ((ws.getD i 0 : Nat) : Int)
  unfold wrrWeight wrrW
  exact ⟨by exact_mod_cast Rat.intCast_le_intCast.mpr this.1, by exact_mod_cast Rat.intCast_le_intCast.mpr this.2⟩

/-- **edf_window_bound**: for every weight vector `ws` (effective weights 1..128), every warm-up `pre`, every window
start (`before` = any picks served earlier) and every window length (`window`), every tie resolution, and all hosts
`i`, `j`: `nᵢ/wᵢ − nⱼ/wⱼ ≤ 1/wᵢ + 1/wⱼ` where `n` counts the picks inside the window.  With `i`, `j` swapped this is
`|nᵢ/wᵢ − nⱼ/wⱼ| ≤ 1/wᵢ + 1/wⱼ`. -/
theorem edf_window_bound (ws : List Nat) (pre before window : List (Option Nat)) (i j : Nat)
    (hi : i < ws.length) (hj : j < ws.length) :
    let wf := wrrWeight ws
    let s1 := ((refresh wf ws.length pre).run wf before).2
    let served := (s1.run wf window).1
    ((served.count i : Nat) : Rat) / wf i - ((served.count j : Nat) : Rat) / wf j ≤ 1 / wf i + 1 / wf j := by
  intro wf s1 served
  have hwf : ∀ k, 0 < wf k := fun k => by
    have := (wrr_weight_range ws k).1
    grind
  obtain ⟨h1, h2, h3⟩ := refresh_facts wf hwf ws.length pre
  obtain ⟨r1, r2, r3, _, _⟩ := run_facts wf hwf before _ h1 h2
  have hitems : s1.entries.map (·.item) = List.range ws.length := r3.trans h3
  obtain ⟨ei, hei, rfl⟩ := mem_of_item_mem (l := s1.entries) (i := i) (by rw [hitems]; simpa using hi)
  obtain ⟨ej, hej, rfl⟩ := mem_of_item_mem (l := s1.entries) (i := j) (by rw [hitems]; simpa using hj)
  exact window_bound wf hwf window s1 r1 r2 hei hej

/-- the executable predicate evaluated on the implementation's pick sequence (`windowsOk`: every window, every pair)
is implied by the model: it holds of every served sequence, from every reachable state. -/
theorem edf_spec_holds_on_model (ws : List Nat) (pre before window : List (Option Nat)) :
    let wf := wrrWeight ws
    let s1 := ((refresh wf ws.length pre).run wf before).2
    windowsOk (wrrW ws) ws.length (s1.run wf window).1 = true := by
  intro wf s1
  have hw := wrrW_pos ws
  have hwf : ∀ k, 0 < wf k := fun k => Rat.intCast_pos.mpr (hw k)
  obtain ⟨h1, h2, h3⟩ := refresh_facts wf hwf ws.length pre
  obtain ⟨r1, r2, r3, _, _⟩ := run_facts wf hwf before _ h1 h2
  exact windowsOk_of_run (wrrW ws) hw ws.length window s1 r1 r2 (r3.trans h3)

-- non-vacuity: weights 1, 3, 128 (effective 1, 3, 128), warm-up of one pick, a window of four picks after two picks
example : ((refresh (wrrWeight [1, 3, 128]) 3 [none]).run (wrrWeight [1, 3, 128]) [none, none]).2.entries.length = 3 := by
  decide +kernel
example : (((refresh (wrrWeight [1, 3, 200]) 3 []).run (wrrWeight [1, 3, 200]) (List.replicate 6 none)).1) = [2, 2, 2, 2, 2, 2] := by
  decide +kernel
example : (((refresh (wrrWeight [1, 2]) 2 []).run (wrrWeight [1, 2]) (List.replicate 6 none)).1) = [1, 0, 1, 1, 0, 1] := by
  decide +kernel
/-- a hint is followed exactly when it names an entry with a minimal exact deadline (here both deadlines are 1). -/
example : (((refresh (wrrWeight [1, 2]) 2 [none]).run (wrrWeight [1, 2]) [some 1, some 1]).1) = [1, 0] := by
  decide +kernel

end EDF

end MosnVerif.Props.C06
