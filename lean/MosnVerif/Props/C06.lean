import MosnVerif.Lemmas.WeightedCluster
import MosnVerif.Lemmas.EDF
import MosnVerif.Lemmas.EdfHeap
import MosnVerif.Lemmas.LB
import MosnVerif.Lemmas.EdfConc
import MosnVerif.Lemmas.WrrHealth
import MosnVerif.Lemmas.WcLock
/-!
# C06 — configured weights are honoured exactly (property theorems only)
-/
namespace MosnVerif.Props.C06
open MosnVerif.Model.WeightedCluster

/-- **count_exact**: for every weight vector, in *every* storage order, with distinct names, over the whole
draw space `[0, total)` each cluster is selected by exactly `weight` draws — probability `weight/total`. -/
theorem count_exact (l : List Entry) (hnd : (l.map (·.1)).Nodup) (c : String) (w : Nat)
    (hc : (c, w) ∈ l) : hits l c (total l) = w := by
  rw [hits_eq_ref]; exact hitsRef_exact l hnd c w hc

/-- **zero_never**: a zero-weight cluster is never selected, for every order and every draw. -/
theorem zero_never (l : List Entry) (hnd : (l.map (·.1)).Nodup) (c : String) (hc : (c, 0) ∈ l) (v : Nat)
    (hv : v < total l) : select l v ≠ some c := by
  intro h
  have := count_exact l hnd c 0 hc
  unfold hits at this
  rw [List.length_eq_zero_iff, List.filter_eq_nil_iff] at this
  exact this v (by simpa using hv) (by simp [h])

/-- **order_independent**: the number of draws selecting a cluster does not depend on the storage order. -/
theorem order_independent (l l' : List Entry) (hp : l.Perm l') (hnd : (l.map (·.1)).Nodup) (c : String) (w : Nat)
    (hc : (c, w) ∈ l) : hits l c (total l) = hits l' c (total l') := by
  have hnd' : (l'.map (·.1)).Nodup := (hp.map _).nodup_iff.mp hnd
  rw [count_exact l hnd c w hc, count_exact l' hnd' c w (hp.mem_iff.mp hc)]

/-- every draw in range selects *some* configured cluster (never falls through to the default). -/
theorem select_total (l : List Entry) (v : Nat) (hv : v < total l) : ∃ c, select l v = some c ∧ c ∈ l.map (·.1) := by
  rw [select_eq_ref]
  induction l generalizing v with
  | nil => simp [total] at hv
  | cons e r ih =>
    obtain ⟨n, w⟩ := e
    simp only [selectRef]
    by_cases h : v < w
    · exact ⟨n, by simp [h], by simp⟩
    · have : v - w < total r := by simp [total] at hv ⊢; omega
      obtain ⟨c, hc, hm⟩ := ih (v - w) this
      exact ⟨c, by simp [h, hc], by simp at hm ⊢; right; exact hm⟩

/-- the executable predicate evaluated on implementation outputs is implied by the model. -/
theorem spec_holds_on_model (l : List Entry) (hnd : (l.map (·.1)).Nodup) :
    specCounts l ((List.range (total l)).map (select l)) = true := by
  unfold specCounts
  simp only [List.length_map, List.length_range, beq_self_eq_true, Bool.true_and, List.all_eq_true]
  intro e he
  have := count_exact l hnd e.1 e.2 he
  unfold hits at this
  simp only [beq_iff_eq]
  rw [← this, List.filter_map, List.length_map]
  rfl

-- non-vacuity: a concrete non-trivial vector (zero weight, dominant weight, non-power-of-two total)
example : (([("a", 0), ("b", 5), ("c", 1)] : List Entry).map (·.1)).Nodup ∧
    (("a", 0) : Entry) ∈ [("a", 0), ("b", 5), ("c", 1)] ∧ 3 < total [("a", 0), ("b", 5), ("c", 1)] := by decide
example : select [("a", 0), ("b", 5), ("c", 1)] 0 = some "b" := by decide
example : select [("a", 0), ("b", 5), ("c", 1)] 5 = some "c" := by decide

/-! ## weighted round robin: the EDF scheduler (`edf.go`) over exact rationals

`Sched` is the scheduler state, `nextAndPush wf hint` one `NextAndPush` (the hint resolves exact ties of deadlines the
way the float64 implementation happened to — every theorem holds for all hints), `run` consecutive picks,
`refresh wf n pre` the scheduler `EdfLoadBalancer.refresh` builds for `n` hosts (all `Add`s, then `|pre|` warm-up picks). -/
section EDF
open MosnVerif.Model MosnVerif.Model.EDF

/-- **edf_invariant_step**: the invariant `dₑ − 1/wₑ ≤ now ≤ dₑ` (all queued `e`) is preserved by every pick, whatever
positive weight the weight function returns at that moment (least-request / peak-EWMA weights change between picks). -/
theorem edf_invariant_step (s s' : Sched) (wf : Nat → Rat) (hint : Option Nat) (i : Nat) (h : Inv s)
    (hwf : ∀ k, 0 < wf k) (hn : s.nextAndPush wf hint = some (i, s')) : Inv s' :=
  inv_next h hwf hn

/-- **edf_invariant_reachable**: in every state reachable from the constructed balancer (any warm-up, any number of
picks, any tie resolution) `dᵢ − 1/wᵢ ≤ dⱼ` holds for all queued entries `i`, `j`. -/
theorem edf_invariant_reachable (wf : Nat → Rat) (hwf : ∀ k, 0 < wf k) (n : Nat) (pre picks : List (Option Nat))
    (e f : EDF.Entry) (he : e ∈ ((refresh wf n pre).run wf picks).2.entries)
    (hf : f ∈ ((refresh wf n pre).run wf picks).2.entries) : e.deadline - 1 / e.weight ≤ f.deadline := by
  obtain ⟨h1, h2, _⟩ := refresh_facts wf hwf n pre
  exact (run_facts wf hwf picks _ h1 h2).1.pairwise he hf

/-- the served entry always holds a minimal deadline; without hint it is the minimum of the regenerated heap order
`edfEntryLess` (earliest deadline, ties by queued order). -/
theorem edf_pick_minimal (s : Sched) (hint : Option Nat) (e : EDF.Entry) (h : s.pick hint = some e) :
    e ∈ s.entries ∧ ∀ f ∈ s.entries, e.deadline ≤ f.deadline := pick_mem_min h

/-- effective host weights are in the supported range 1..128 whatever is configured. -/
theorem wrr_weight_range (ws : List Nat) (i : Nat) : (1 : Rat) ≤ wrrWeight ws i ∧ wrrWeight ws i ≤ 128 := by
  have := fixHostWeight_range ((ws.getD i 0 : Nat) : Int)
  unfold wrrWeight wrrW
  exact ⟨by exact_mod_cast Rat.intCast_le_intCast.mpr this.1, by exact_mod_cast Rat.intCast_le_intCast.mpr this.2⟩

/-- **edf_window_bound**: for every weight vector `ws` (effective weights 1..128), every warm-up `pre`, every window
start (`before` = any picks served earlier) and every window length (`window`), every tie resolution, and all hosts
`i`, `j`: `nᵢ/wᵢ − nⱼ/wⱼ ≤ 1/wᵢ + 1/wⱼ` where `n` counts the picks inside the window.  With `i`, `j` swapped this is
`|nᵢ/wᵢ − nⱼ/wⱼ| ≤ 1/wᵢ + 1/wⱼ`. -/
theorem edf_window_bound (ws : List Nat) (pre before window : List (Option Nat)) (i j : Nat)
    (hi : i < ws.length) (hj : j < ws.length) :
    let wf := wrrWeight ws
    let s1 := ((refresh wf ws.length pre).run wf before).2
    let served := (s1.run wf window).1
    ((served.count i : Nat) : Rat) / wf i - ((served.count j : Nat) : Rat) / wf j ≤ 1 / wf i + 1 / wf j := by
  intro wf s1 served
  have hwf : ∀ k, 0 < wf k := fun k => by
    have := (wrr_weight_range ws k).1
    grind
  obtain ⟨h1, h2, h3⟩ := refresh_facts wf hwf ws.length pre
  obtain ⟨r1, r2, r3, _, _⟩ := run_facts wf hwf before _ h1 h2
  have hitems : s1.entries.map (·.item) = List.range ws.length := r3.trans h3
  obtain ⟨ei, hei, rfl⟩ := mem_of_item_mem (l := s1.entries) (i := i) (by rw [hitems]; simpa using hi)
  obtain ⟨ej, hej, rfl⟩ := mem_of_item_mem (l := s1.entries) (i := j) (by rw [hitems]; simpa using hj)
  exact window_bound wf hwf window s1 r1 r2 hei hej

/-- the executable predicate evaluated on the implementation's pick sequence (`windowsOk`: every window, every pair)
is implied by the model: it holds of every served sequence, from every reachable state. -/
theorem edf_spec_holds_on_model (ws : List Nat) (pre before window : List (Option Nat)) :
    let wf := wrrWeight ws
    let s1 := ((refresh wf ws.length pre).run wf before).2
    windowsOk (wrrW ws) ws.length (s1.run wf window).1 = true := by
  intro wf s1
  have hw := wrrW_pos ws
  have hwf : ∀ k, 0 < wf k := fun k => Rat.intCast_pos.mpr (hw k)
  obtain ⟨h1, h2, h3⟩ := refresh_facts wf hwf ws.length pre
  obtain ⟨r1, r2, r3, _, _⟩ := run_facts wf hwf before _ h1 h2
  exact windowsOk_of_run (wrrW ws) hw ws.length window s1 r1 r2 (r3.trans h3)

-- non-vacuity: weights 1, 3, 128 (effective 1, 3, 128), warm-up of one pick, a window of four picks after two picks
example : ((refresh (wrrWeight [1, 3, 128]) 3 [none]).run (wrrWeight [1, 3, 128]) [none, none]).2.entries.length = 3 := by
  decide +kernel
example : (((refresh (wrrWeight [1, 3, 200]) 3 []).run (wrrWeight [1, 3, 200]) (List.replicate 6 none)).1) = [2, 2, 2, 2, 2, 2] := by
  decide +kernel
example : (((refresh (wrrWeight [1, 2]) 2 []).run (wrrWeight [1, 2]) (List.replicate 6 none)).1) = [1, 0, 1, 1, 0, 1] := by
  decide +kernel
/-- a hint is followed exactly when it names an entry with a minimal exact deadline (here both deadlines are 1). -/
example : (((refresh (wrrWeight [1, 2]) 2 [none]).run (wrrWeight [1, 2]) [some 1, some 1]).1) = [1, 0] := by
  decide +kernel

end EDF

/-! ## the array heap of `edfheap.go` under the regenerated order `edfEntryLess` -/
section Heap
open MosnVerif.Model MosnVerif.Model.EdfHeap

/-- **heap_peek_min**: in a heap-ordered array `Peek` (cell 0) is a minimum of `edfEntryLess`: no queued entry is
less than it — earliest deadline, and among equal deadlines the earliest queued. -/
theorem heap_peek_min (h : Heap EDF.Entry) (hord : Ordered EDF.less h.elements h.size) (k : Nat) (hk : k < h.size) :
    EDF.less (h.elements k) (peek h) = false :=
  root_min less_weakOrder h.elements h.size hord k hk

/-- **heap_fix_root**: after the root's entry was replaced by anything (`NextAndPush` raises its deadline and
queuedTime in place), `Fix(0)` — `fixDown`, else `fixUp`, as written with the hole technique — yields a heap-ordered
array with the same size and the same contents. -/
theorem heap_fix_root (h : Heap EDF.Entry) (e' : EDF.Entry) (hord : Ordered EDF.less h.elements h.size) (hs : 0 < h.size) :
    let g := fix EDF.less { h with elements := upd h.elements 0 e' } 0
    Ordered EDF.less g.elements g.size ∧ g.size = h.size ∧ SameSet (upd h.elements 0 e') g.elements h.size :=
  fix_root_spec less_weakOrder h e' hord hs

/-- **heap_push**: `Push` keeps the heap order and adds exactly the pushed entry. -/
theorem heap_push (h : Heap EDF.Entry) (e : EDF.Entry) (hord : Ordered EDF.less h.elements h.size) :
    let g := push EDF.less h e
    Ordered EDF.less g.elements g.size ∧ g.size = h.size + 1 ∧ SameSet (upd h.elements h.size e) g.elements (h.size + 1) :=
  push_spec less_weakOrder h e hord

/-- **heap_scheduler_refines**: the scheduler of `edf.go` on top of the array heap of `edfheap.go` (`Add` = `Push`,
`NextAndPush` = `Peek`, update in place, `Fix(0)`) serves, for every number of hosts, every positive weight function
(re-evaluated at every pick) and every number of picks, exactly the sequence of the list scheduler
`Model/EDF.lean` without hints, about which the invariant and the window bound are proved. -/
theorem heap_scheduler_refines (wf : Nat → Rat) (hwf : ∀ k, 0 < wf k) (n k : Nat) :
    ((HSched.initWith wf n).run wf k).1 = ((EDF.initWith wf n).run wf (List.replicate k none)).1 := by
  obtain ⟨R, hQ⟩ := init_rel wf hwf n
  exact run_refines wf hwf k _ _ R (EDF.initWith_facts wf hwf n).1 hQ

example : ((HSched.initWith (EDF.wrrWeight [1, 2, 3]) 3).run (EDF.wrrWeight [1, 2, 3]) 6).1 = [2, 1, 2, 0, 1, 2] := by
  decide +kernel

-- non-vacuity: three entries pushed in descending deadline order end with the earliest at the root
private def e3 (d : Rat) (q : Int) : EDF.Entry := { item := q.toNat, deadline := d, weight := 1, queued := q }
example : (peek (push EDF.less (push EDF.less (push EDF.less ⟨fun _ => default, 0⟩ (e3 3 1)) (e3 2 2)) (e3 1 3))).item = 3 := by
  decide +kernel
example : (peek (fix EDF.less { (push EDF.less (push EDF.less (push EDF.less ⟨fun _ => default, 0⟩ (e3 1 1)) (e3 2 2)) (e3 3 3)) with
    elements := upd (push EDF.less (push EDF.less (push EDF.less ⟨fun _ => default, 0⟩ (e3 1 1)) (e3 2 2)) (e3 3 3)).elements 0 (e3 5 4) } 0)).item = 2 := by
  decide +kernel

end Heap

/-! ## the weighted round-robin *balancer* (`WRRLoadBalancer.ChooseHost`) over healthy hosts -/
section WRRBalancer
open MosnVerif.Model MosnVerif.Model.EDF MosnVerif.Model.LB

/-- **wrr_lookup_window_bound**: for every host set with all hosts healthy and not all configured weights equal (then
`newWRRLoadBalancer` builds the EDF scheduler), every round-robin start, every warm-up, every number of earlier lookups
and every window of consecutive lookups, the hosts returned by `ChooseHost` satisfy
`nᵢ/wᵢ − nⱼ/wⱼ ≤ 1/wᵢ + 1/wⱼ` (with `i`, `j` swapped: the absolute value) for the effective weights
`wₖ = fixHostWeight(weightₖ) ∈ 1..128`. -/
theorem wrr_lookup_window_bound (hs : Hosts) (hall : ∀ i, i < hs.length → hAt hs i = true)
    (hneq : weightsEqual hs = false) (rr0 : Nat) (pre before window : List (Option Nat)) (i j : Nat)
    (hi : i < hs.length) (hj : j < hs.length) :
    let st0 := newState .wrr hs rr0 pre
    let st1 := (wrrServe hs st0 before).2
    let served := (wrrServe hs st1 window).1
    ((served.count (some i) : Nat) : Rat) / wrrWf hs i - ((served.count (some j) : Nat) : Rat) / wrrWf hs j
      ≤ 1 / wrrWf hs i + 1 / wrrWf hs j := by
  intro st0 st1 served
  have h2 : 2 ≤ hs.length := by
    match hs, hneq with
    | [], h => simp [weightsEqual] at h
    | [_], h => simp [weightsEqual] at h
    | _ :: _ :: _, _ => simp
  have hwf : ∀ k, 0 < wrrWf hs k := fun k => by
    unfold wrrWf fixedWeight
    exact Rat.intCast_pos.mpr (by have := (fixHostWeight_range ((statAt hs (·.weight) k : Nat) : Int)).1; omega)
  -- the constructed scheduler
  have hs0 : st0.sched = some (refresh (wrrWf hs) hs.length pre) := by
    simp only [st0, newState, hasEdf, hneq, Bool.true_and, Bool.not_false, Bool.and_true, policyWf]
    have : decide (hs.length > 1) = true := by simp; omega
    simp [this]
  obtain ⟨f1, f2, f3⟩ := refresh_facts (wrrWf hs) hwf hs.length pre
  have e1 := wrrServe_eq_run hs hall h2 hwf before st0 _ hs0 f3 f1
  obtain ⟨r1, r2, r3, _, _⟩ := run_facts (wrrWf hs) hwf before _ f1 f2
  have hst1 : st1.sched = some ((refresh (wrrWf hs) hs.length pre).run (wrrWf hs) before).2 := by
    simp only [st1, e1]
  have e2 := wrrServe_eq_run hs hall h2 hwf window st1 _ hst1 (r3.trans f3) r1
  have hserved : served = ((((refresh (wrrWf hs) hs.length pre).run (wrrWf hs) before).2.run (wrrWf hs) window).1).map some := by
    simp only [served, e2]
  have hcount : ∀ k, served.count (some k) =
      ((((refresh (wrrWf hs) hs.length pre).run (wrrWf hs) before).2.run (wrrWf hs) window).1).count k := by
    intro k; rw [hserved]
    generalize (((refresh (wrrWf hs) hs.length pre).run (wrrWf hs) before).2.run (wrrWf hs) window).1 = l
    induction l with
    | nil => rfl
    | cons x r ih => simp only [List.map_cons, List.count_cons, ih]; simp
  rw [hcount i, hcount j]
  obtain ⟨ei, hei, hii⟩ := mem_of_item_mem (l := ((refresh (wrrWf hs) hs.length pre).run (wrrWf hs) before).2.entries) (i := i)
    (by rw [r3.trans f3]; simpa using hi)
  obtain ⟨ej, hej, hjj⟩ := mem_of_item_mem (l := ((refresh (wrrWf hs) hs.length pre).run (wrrWf hs) before).2.entries) (i := j)
    (by rw [r3.trans f3]; simpa using hj)
  have := window_bound (wrrWf hs) hwf window _ r1 r2 hei hej
  rw [hii, hjj] at this
  exact this

-- non-vacuity: three healthy hosts with weights 1, 3, 128
example : weightsEqual ([⟨0, 1, true, 0, 0, 1⟩, ⟨1, 3, true, 0, 0, 1⟩, ⟨2, 128, true, 0, 0, 1⟩] : Hosts) = false ∧
    ∀ i, i < 3 → hAt ([⟨0, 1, true, 0, 0, 1⟩, ⟨1, 3, true, 0, 0, 1⟩, ⟨2, 128, true, 0, 0, 1⟩] : Hosts) i = true := by
  refine ⟨by decide, ?_⟩
  intro i hi
  match i, hi with
  | 0, _ => decide
  | 1, _ => decide
  | 2, _ => decide

end WRRBalancer

/-! ## concurrent callers of the scheduler (`edf.lock`)

`Gen/EdfLock.lean` is the regenerated step program of `NextAndPush` / `Add` (statements in source order, with the `lock` /
`unlock` of `edf.lock`). `Model/EdfConc.lean` runs any number of calls (one thread id per call) against ONE shared
scheduler under an arbitrary schedule (list of thread ids), mutual exclusion by the `lock` steps. -/
section Concurrent
open MosnVerif.Model MosnVerif.Model.EDF MosnVerif.Model.EdfHeap MosnVerif.Model.EdfConc MosnVerif.Gen

/-- **edf_lock_discipline**: the regenerated step programs of `NextAndPush` and `Add` take `edf.lock` first, release it
last and never in between: the lock is held from before the peek until after the fix. -/
theorem edf_lock_discipline : lockHeld EdfLock.nextAndPush = true ∧ lockHeld EdfLock.add = true := by decide

/-- **calls_serializable**: every call may run its own step program (`Add` or `NextAndPush`, any arguments). If each
program holds the lock from before its first step until after its last, then for every number of concurrent calls,
every schedule (complete or not) and every start state: the calls that have returned are exactly those that released
the mutex (`done`, no call twice), and their results and the state they leave when nobody is inside are those of
executing these calls ONE AFTER THE OTHER in the order `done`. -/
theorem calls_serializable (calls : Nat → Call Local) (hl : ∀ t, lockHeld (calls t).prog = true) (wf : Nat → Rat)
    (s0 : HSched) (sched : List Nat) :
    let c := runSched (exec wf) (initConf calls s0) sched
    let ser := serial (exec wf) calls c.done s0
    c.done.Nodup ∧ (∀ t, (c.threads t).todo = [] ↔ t ∈ c.done) ∧
    returned c = ser.2.map (·.2.result) ∧ (c.holder = none → c.shared = ser.1) := by
  intro c ser
  have I : SerInv (exec wf) calls s0 c := inv_run _ _ _ hl sched _ (inv_init _ _ _)
  exact ⟨I.nodup, finished_iff hl I, results_eq I (·.result), I.idle⟩

/-- **picks_serializable**: if the step program of `NextAndPush` holds the lock from before the peek until after the
fix, then for every number of threads and every schedule the picks handed to the callers that have returned are those
of executing the calls one after the other in some order (the order `done` in which they left the critical section). -/
theorem picks_serializable (prog : List EdfLock.Step) (hl : lockHeld prog = true) (wf : Nat → Rat) (s0 : HSched)
    (sched : List Nat) :
    let c := runSched (exec wf) (initConf (napCalls prog) s0) sched
    let ser := serial (exec wf) (napCalls prog) c.done s0
    c.done.Nodup ∧ (∀ t, (c.threads t).todo = [] ↔ t ∈ c.done) ∧
    returned c = ser.2.map (·.2.result) ∧ (c.holder = none → c.shared = ser.1) :=
  calls_serializable (napCalls prog) (fun _ => hl) wf s0 sched

/-- the regenerated critical sections, executed alone, are the sequential operations of the heap scheduler: `Add` is
`HSched.add` (push with `currentTime + 1/weight` and a fresh tick), `NextAndPush` is `HSched.nextAndPush`. -/
theorem critical_sections_are_sequential_ops (wf : Nat → Rat) (s : HSched) (item : Nat) (w : Rat) :
    (runBody (exec wf) (middle EdfLock.add) s { arg := (item, w) }).1 = s.add item w ∧
    (runBody (exec wf) (middle EdfLock.nextAndPush) s {}).1 = (seqCall s wf).2 ∧
    (runBody (exec wf) (middle EdfLock.nextAndPush) s {}).2.result = some (seqCall s wf).1 :=
  ⟨add_body_eq wf s item w, (body_eq_seqCall wf s).1, (body_eq_seqCall wf s).2⟩

-- non-vacuity of the mixed form: call 0 is `Add(host 2, weight 5)`, calls 1 and 2 are `NextAndPush`, interleaved on the
-- scheduler of weights 3, 2: the calls leave in the order 1, 0, 2; three entries are queued afterwards; call 1 is served
-- host 0 and call 2 host 1 (the added host 2 has deadline 1/3 + 1/5 > 1/2)
example :
    let calls : Nat → Call Local := fun t =>
      if t = 0 then { prog := EdfLock.add, l0 := { arg := (2, 5) } } else { prog := EdfLock.nextAndPush, l0 := {} }
    let c := runSched (exec (wrrWeight [3, 2, 5])) (initConf calls (HSched.initWith (wrrWeight [3, 2, 5]) 2))
      ([1, 1, 0, 2, 1, 0] ++ List.replicate 10 1 ++ List.replicate 5 0 ++ List.replicate 12 2)
    (∀ t, lockHeld (calls t).prog = true) ∧ c.done = [1, 0, 2] ∧ c.shared.items.size = 3 ∧
      returned c = [some (some 0), none, some (some 1)] := by
  refine ⟨?_, by decide +kernel, by decide +kernel, by decide +kernel⟩
  intro t
  by_cases h : t = 0 <;> simp [h] <;> decide

/-- **nextAndPush_serializable**: for the regenerated `NextAndPush`: under every schedule of every number of concurrent
callers the returned hosts, in the order the callers left the critical section, are the picks of the sequential
scheduler `HSched.run` (hence of the list scheduler the bound is proved about), nothing is served twice or lost, and
the scheduler is left in the sequential state. -/
theorem nextAndPush_serializable (wf : Nat → Rat) (s0 : HSched) (sched : List Nat) :
    let c := runSched (exec wf) (initConf (napCalls EdfLock.nextAndPush) s0) sched
    (returned c).filterMap (·.join) = (s0.run wf c.done.length).1 ∧
    (returned c).length = c.done.length ∧ (∀ r ∈ returned c, r.isSome) ∧
    (c.holder = none → c.shared = (s0.run wf c.done.length).2) := by
  intro c
  obtain ⟨_, _, h3, h4⟩ := picks_serializable _ edf_lock_discipline.1 wf s0 sched
  obtain ⟨e1, e2⟩ := serial_eq_seqCalls wf c.done s0
  have hr : returned c = (seqCalls s0 wf c.done.length).1.map some := h3.trans e2
  refine ⟨?_, by simp [returned], ?_, ?_⟩
  · rw [hr, List.filterMap_map, ← seqCalls_picks]
    rfl
  · intro r h; rw [hr] at h; simp at h; obtain ⟨a, _, rfl⟩ := h; rfl
  · intro h; rw [h4 h, e1, seqCalls_state]

/-- **concurrent_window_bound**: weighted round robin with concurrent callers. For every weight vector, after any number
`b` of earlier picks (warm-up included), for every number of concurrent `NextAndPush` calls under every schedule: the
sequence *earlier picks ++ concurrently served hosts* (in the order the callers left the critical section) satisfies the
lag bound in EVERY window (executable predicate `windowsOk`, which the check evaluates on the real balancer's picks). -/
theorem concurrent_window_bound (ws : List Nat) (b : Nat) (sched : List Nat) :
    let wf := wrrWeight ws
    let s1 := (HSched.initWith wf ws.length).run wf b
    let c := runSched (exec wf) (initConf (napCalls EdfLock.nextAndPush) s1.2) sched
    windowsOk (wrrW ws) ws.length (s1.1 ++ (returned c).filterMap (·.join)) = true := by
  intro wf s1 c
  have hw := wrrW_pos ws
  have hwf : ∀ k, 0 < wf k := fun k => Rat.intCast_pos.mpr (hw k)
  rw [(nextAndPush_serializable wf s1.2 sched).1, ← hrun_add, heap_scheduler_refines wf hwf]
  obtain ⟨h1, h2, h3⟩ := initWith_facts wf hwf ws.length
  exact windowsOk_of_run (wrrW ws) hw ws.length _ _ h1 h2 h3

/-- **concurrent_lag_bound**: the statement's inequality for the window formed by the hosts served to concurrent
callers, from every reachable scheduler state: `nᵢ/wᵢ − nⱼ/wⱼ ≤ 1/wᵢ + 1/wⱼ` (swap `i`, `j` for the absolute value). -/
theorem concurrent_lag_bound (ws : List Nat) (b : Nat) (sched : List Nat) (i j : Nat)
    (hi : i < ws.length) (hj : j < ws.length) :
    let wf := wrrWeight ws
    let s1 := ((HSched.initWith wf ws.length).run wf b).2
    let c := runSched (exec wf) (initConf (napCalls EdfLock.nextAndPush) s1) sched
    let served := (returned c).filterMap (·.join)
    ((served.count i : Nat) : Rat) / wf i - ((served.count j : Nat) : Rat) / wf j ≤ 1 / wf i + 1 / wf j := by
  intro wf s1 c served
  have hw := wrrW_pos ws
  have hwf : ∀ k, 0 < wf k := fun k => Rat.intCast_pos.mpr (hw k)
  obtain ⟨R, hQ⟩ := init_rel wf hwf ws.length
  obtain ⟨h1, h2, h3⟩ := initWith_facts wf hwf ws.length
  obtain ⟨R1, I1, Q1⟩ := hrun_rel wf hwf b _ _ R h1 hQ
  obtain ⟨r1, r2, r3, _, _⟩ := run_facts wf hwf (List.replicate b none) _ h1 h2
  have hserved : served = ((((EDF.initWith wf ws.length).run wf (List.replicate b none)).2).run wf
      (List.replicate c.done.length none)).1 := by
    simp only [served]
    rw [(nextAndPush_serializable wf s1 sched).1]
    exact run_refines wf hwf _ _ _ R1 I1 Q1
  rw [hserved]
  obtain ⟨ei, hei, rfl⟩ := mem_of_item_mem (l := ((EDF.initWith wf ws.length).run wf (List.replicate b none)).2.entries)
    (i := i) (by rw [r3, h3]; simpa using hi)
  obtain ⟨ej, hej, rfl⟩ := mem_of_item_mem (l := ((EDF.initWith wf ws.length).run wf (List.replicate b none)).2.entries)
    (i := j) (by rw [r3, h3]; simpa using hj)
  exact window_bound wf hwf _ _ r1 r2 hei hej

/-- three callers on weights 3, 2 running step program `prog` under `sched`. -/
private def conc32 (prog : List EdfLock.Step) (sched : List Nat) : Conf HSched Local :=
  runSched (exec (wrrWeight [3, 2])) (initConf (napCalls prog) (HSched.initWith (wrrWeight [3, 2]) 2)) sched

-- non-vacuity: three overlapping callers on weights 3, 2 (thread 0 is pre-empted inside the critical section, 1 and 2
-- then block on the mutex); the callers leave in the order 0, 2, 1 and are served 0, 1, 0 — the sequential picks
example : (conc32 EdfLock.nextAndPush
      ([0, 0, 0, 1, 2, 1, 2, 0, 0, 0, 1, 2] ++ List.replicate 8 0 ++ List.replicate 12 2 ++ List.replicate 12 1)).done = [0, 2, 1] ∧
    returned (conc32 EdfLock.nextAndPush
      ([0, 0, 0, 1, 2, 1, 2, 0, 0, 0, 1, 2] ++ List.replicate 8 0 ++ List.replicate 12 2 ++ List.replicate 12 1)) =
      [some (some 0), some (some 1), some (some 0)] := by
  decide +kernel

/-- the schedule "three callers each run up to and including the callback, then finish one after the other". -/
private def overlapSched : List Nat :=
  List.replicate 6 0 ++ List.replicate 6 1 ++ List.replicate 6 2 ++ List.replicate 7 0 ++ List.replicate 7 1 ++ List.replicate 7 2

/-- **unlock_around_callback_breaks_bound** (negative witness, machine-checked): the step program that releases `edf.lock`
around the `weightFunc` callback does not hold the lock, and on weights 3, 2 the schedule `overlapSched` serves host 0
to all three callers: every one of them peeked the same root entry (its deadline is advanced three times); all three
calls are complete and the mutex is free. The window 0,0,0 has `3/3 − 0/2 = 1 > 1/3 + 1/2`; sequentially the three
picks are 0,1,0. -/
theorem unlock_around_callback_breaks_bound :
    lockHeld unlockAroundCallback = false ∧
    [0, 1, 2].map (fun t => ((conc32 unlockAroundCallback overlapSched).threads t).loc.result) =
      [some (some 0), some (some 0), some (some 0)] ∧
    [0, 1, 2].map (fun t => ((conc32 unlockAroundCallback overlapSched).threads t).todo) = [[], [], []] ∧
    (conc32 unlockAroundCallback overlapSched).holder = none ∧
    windowsOk (wrrW [3, 2]) 2 [0, 0, 0] = false ∧
    ((HSched.initWith (wrrWeight [3, 2]) 2).run (wrrWeight [3, 2]) 3).1 = [0, 1, 0] :=
  ⟨by decide, by decide +kernel, by decide +kernel, by decide +kernel, by decide, by decide +kernel⟩

end Concurrent

/-! ## weighted round robin when host health CHANGES after the balancer was built

`EdfLoadBalancer.refresh` builds the scheduler once per host-set update; a health flip builds nothing. `Gen/EdfRefresh` is
the regenerated `refresh`: which hosts its `hosts.Range` callback adds (as a function of `host.Health()` at build time),
whether an empty scheduler is dropped, the two early returns. `Model/WrrHealth.lean`: `newStateH ws hp0 rr0 pre` is the
balancer built over configured weights `ws` while the hosts' health is `hp0`; `runEv` runs health flips (`Ev.flip`) and
lookups (`Ev.look`, the C05 model function `LB.wrrChoose` under the health pattern of that moment); a lookup is recorded
(`Rec`) with the health pattern it saw, its scheduler picks and its result; it was *served by the scheduler*
(`Rec.weighted`) iff its last pick was a healthy host; `served recs i` counts the lookups of a window that served `i`
that way (the round-robin fallback after `total` unhealthy picks in a row is the designed degradation and not counted). -/
section HealthChanges
open MosnVerif.Model MosnVerif.Model.EDF MosnVerif.Model.LB MosnVerif.Model.WrrHealth MosnVerif.Gen

/-- **refresh_adds_every_host**: for every weight vector and EVERY build-time health pattern the regenerated `refresh`
leaves the balancer in the state `LB.newState` (scheduler over ALL hosts of the set; none for < 2 hosts or equal
weights): its Range adds host `0, 1, …, n-1`, whatever their health when the balancer is built. -/
theorem refresh_adds_every_host (ws : List Nat) (hp0 : List Bool) (rr0 : Nat) (pre : List (Option Nat)) :
    newStateH ws hp0 rr0 pre = newState .wrr (mkH ws hp0) rr0 pre ∧ addedHosts ws hp0 = List.range ws.length := by
  refine ⟨newStateH_eq_newState ws hp0 rr0 pre, ?_⟩
  unfold addedHosts
  rw [rangeAdd_regenerated, pattern_length]
  exact (initWith_facts _ (wrrWeight_pos ws) _).2.2

/-- **wrr_picks_ignore_health**: for every weight vector with a scheduler (≥ 2 hosts, not all weights equal), every
build-time health pattern and every sequence of health flips and lookups: the scheduler picks made by the lookups
(skipped unhealthy ones and served ones), concatenated, are ONE run of the scheduler over all hosts — health cuts the
run into lookups, it never changes it. -/
theorem wrr_picks_ignore_health (ws : List Nat) (h2 : 2 ≤ ws.length) (hneq : wsEqual ws = false) (hp0 : List Bool)
    (rr0 : Nat) (pre : List (Option Nat)) (evs : List Ev) :
    ∃ H, ((refresh (wrrWeight ws) ws.length pre).run (wrrWeight ws) H).1 =
      allPicks (runEv ws hp0 (newStateH ws hp0 rr0 pre) evs).1 := by
  obtain ⟨H, s', _, _, h, _⟩ := runEv_facts ws h2 evs hp0 _ _ (newStateH_sched ws h2 hneq hp0 rr0 pre) (refresh_ok ws pre)
  exact ⟨H, by rw [h]⟩

/-- **wrr_serves_all_healthy**: for every host set with a weighted balancer, every build-time health pattern `hp0`, every
sequence `before` of health flips and lookups after the build, and every window `window` of further flips and lookups:
a host that is healthy at every lookup of the window is served by a weighted pick within the window, as soon as the
window holds `serveWindow ws i = ⌊Σw/wᵢ⌋ + n + 1` lookups — in particular a host that was failing its health check when
the balancer was built and recovers later gets its weighted picks. -/
theorem wrr_serves_all_healthy (ws : List Nat) (h2 : 2 ≤ ws.length) (hneq : wsEqual ws = false) (hp0 : List Bool)
    (rr0 : Nat) (pre : List (Option Nat)) (before window : List Ev) (i : Nat) (hi : i < ws.length) :
    let mid := (runEv ws hp0 (newStateH ws hp0 rr0 pre) before).2
    let recs := (runEv ws mid.1 mid.2 window).1
    (∀ r ∈ recs, r.healthyAt i = true) → serveWindow ws i ≤ recs.length →
      ∃ r ∈ recs, r.weighted = true ∧ r.result = some i := by
  intro mid recs hh hw
  have he : expectSched ws = true := (expectSched_iff ws).mpr ⟨h2, hneq⟩
  obtain ⟨_, s1, hs1, ok1⟩ := runEv_isRun ws h2 before hp0 _ _ (newStateH_sched ws h2 hneq hp0 rr0 pre) (refresh_ok ws pre)
  obtain ⟨run2, _⟩ := runEv_isRun ws h2 window mid.1 mid.2 s1 hs1 ok1
  have hpos := isRun_serves ws he s1 ok1 recs run2 i hi (by simpa [healthyThroughout] using hh) hw
  unfold served at hpos
  obtain ⟨r, hr, hp⟩ := List.countP_pos_iff.mp hpos
  simp only [Bool.and_eq_true, beq_iff_eq] at hp
  exact ⟨r, hr, hp.1, hp.2⟩

/-- **wrr_health_window_bound**: same quantification; for two hosts `i`, `j` that are healthy at every lookup of the
window, the numbers of lookups of the window that served them (by weighted picks) satisfy
`nᵢ/wᵢ − nⱼ/wⱼ ≤ 1/wᵢ + 1/wⱼ` for the effective weights (swap `i`, `j` for the absolute value) — from every reachable
scheduler state, whatever the other hosts' health does meanwhile. -/
theorem wrr_health_window_bound (ws : List Nat) (h2 : 2 ≤ ws.length) (hneq : wsEqual ws = false) (hp0 : List Bool)
    (rr0 : Nat) (pre : List (Option Nat)) (before window : List Ev) (i j : Nat) (hi : i < ws.length) (hj : j < ws.length) :
    let mid := (runEv ws hp0 (newStateH ws hp0 rr0 pre) before).2
    let recs := (runEv ws mid.1 mid.2 window).1
    (∀ r ∈ recs, r.healthyAt i = true ∧ r.healthyAt j = true) →
      ((served recs i : Nat) : Rat) / wrrWeight ws i - ((served recs j : Nat) : Rat) / wrrWeight ws j
        ≤ 1 / wrrWeight ws i + 1 / wrrWeight ws j := by
  intro mid recs hh
  obtain ⟨_, s1, hs1, ok1⟩ := runEv_isRun ws h2 before hp0 _ _ (newStateH_sched ws h2 hneq hp0 rr0 pre) (refresh_ok ws pre)
  obtain ⟨run2, _⟩ := runEv_isRun ws h2 window mid.1 mid.2 s1 hs1 ok1
  exact isRun_pair_rat ws s1 ok1 recs run2 i j hi hj
    (by simpa [healthyThroughout] using fun r hr => (hh r hr).1)
    (by simpa [healthyThroughout] using fun r hr => (hh r hr).2)

/-- **wrr_health_lookup_good** (C05 under health changes): every lookup of every sequence of health flips and lookups
after the build returns a member of the host set, a healthy one when some host is healthy at that moment, and no host
only when none is — for every weight vector and build-time health pattern. -/
theorem wrr_health_lookup_good (ws : List Nat) (hp0 : List Bool) (rr0 : Nat) (pre : List (Option Nat)) (evs : List Ev) :
    ∀ r ∈ (runEv ws hp0 (newStateH ws hp0 rr0 pre) evs).1, specChoice (mkH ws r.health) r.result = true := by
  intro r hr
  have h := specH_model ws hp0 rr0 pre [] evs
  simp only [runEv] at h
  unfold specH at h
  simp only [Bool.and_eq_true, List.all_eq_true] at h
  exact lookupOk_specChoice (h.1 r hr)

/-- **wrr_health_spec_holds_on_model**: the executable predicate the check evaluates on the real balancer's lookups
(`specH`: per lookup — picks are skipped only while unhealthy, a healthy pick is returned, the fallback only after
`total` unhealthy picks and then a healthy host if there is one; per window of consecutive lookups, every start and
length — the lag bound for all pairs of hosts healthy throughout, and service within `serveWindow`) holds of every
model run, from every reachable state. -/
theorem wrr_health_spec_holds_on_model (ws : List Nat) (hp0 : List Bool) (rr0 : Nat) (pre : List (Option Nat))
    (before window : List Ev) :
    specH ws (runEv ws (runEv ws hp0 (newStateH ws hp0 rr0 pre) before).2.1
      (runEv ws hp0 (newStateH ws hp0 rr0 pre) before).2.2 window).1 = true :=
  specH_model ws hp0 rr0 pre before window

/-- weights 3, 2, 1; host 1 is unhealthy while the balancer is built and recovers before the first lookup. -/
private def recovering (step : Bool → Bool × Bool) (drops : Bool) : List Rec :=
  (runEv [3, 2, 1] [true, false, true] (newStateWith step drops [3, 2, 1] [true, false, true] 0 [])
    (Ev.flip 1 true :: List.replicate 12 (Ev.look []))).1

-- non-vacuity: with the regenerated `refresh` the recovered host 1 is served (4 of 12 lookups), host 0 six times
example : ((recovering EdfRefresh.rangeStep EdfRefresh.dropsEmpty).map (·.result) ==
      [some 0, some 1, some 0, some 2, some 1, some 0, some 0, some 1, some 0, some 2, some 1, some 0]) = true ∧
    (recovering EdfRefresh.rangeStep EdfRefresh.dropsEmpty).all (fun r => r.healthyAt 1 && r.healthyAt 0) = true ∧
    (serveWindow [3, 2, 1] 1 == 7) = true := by
  decide +kernel

/-- **filtered_refresh_starves** (negative witness, machine-checked): a `refresh` whose Range adds only the hosts that
are healthy WHEN THE BALANCER IS BUILT (`fun healthy => (healthy, true)`, scheduler dropped when empty): host 1
(weight 2), unhealthy at build time and healthy at every one of the 12 following lookups, is never picked — the
scheduler holds hosts 0 and 2 only — and the executable predicate rejects the run (window bound between hosts 0 and 1,
and no service within `serveWindow = 7` lookups); with NO host healthy at build time no scheduler exists and no lookup
makes a weighted pick at all. -/
theorem filtered_refresh_starves :
    (recovering (fun healthy => (healthy, true)) true).all (fun r => r.result != some 1 && r.healthyAt 1) = true ∧
    served (recovering (fun healthy => (healthy, true)) true) 0 = 9 ∧
    specH [3, 2, 1] (recovering (fun healthy => (healthy, true)) true) = false ∧
    specH [3, 2, 1] (recovering EdfRefresh.rangeStep EdfRefresh.dropsEmpty) = true ∧
    specH [3, 2] ((runEv [3, 2] [false, false] (newStateWith (fun healthy => (healthy, true)) true [3, 2] [false, false] 0 [])
      [Ev.flip 0 true, Ev.flip 1 true, Ev.look [], Ev.look []]).1) = false := by
  decide +kernel

end HealthChanges

/-! ## concurrent requests on ONE weighted route: the shared random generator

`RouteRuleImplBase.ClusterName` draws from one `math/rand.Rand` per rule (not safe for concurrent use) inside `rri.lock`.
`Gen/WcLock` is the regenerated lock structure of `ClusterName` and of every other shared generator / cursor of the
weighted-selection family; `Model/WcLock` runs any number of requests under every schedule, a draw being TWO atomic steps
(read the generator state; write it back and hand out the output). -/
section SharedGenerator
open MosnVerif.Gen MosnVerif.Gen.WcLock MosnVerif.Model.WcLock MosnVerif.Lemmas.WcLock

/-- **rng_lock_discipline** (regenerated fact): in `ClusterName` and in every mutex-protected site of the family
(`random` balancer, round-robin factory, least-active and peak-EWMA fallbacks) every use of the shared generator — lazy
creation, a method call, a copy of the pointer, a call through a copy — lies between `Lock()` and the matching `Unlock()`, and
the pointer does not escape (`disciplinedCreated`: the sites whose generator is created by the constructor have no lazy
creation to protect); the round-robin cursor is only accessed by `sync/atomic` read-modify-write operations; the
unlocked draw of `EdfLoadBalancer.refresh` is reachable from the constructor only. -/
theorem rng_lock_discipline :
    disciplined WcLock.clusterName = true ∧ (∀ p ∈ WcLock.lockSites, disciplinedCreated p = true) ∧
    (∀ p ∈ WcLock.atomicSites, atomicOnly p = true) ∧ WcLock.refreshOnlyFromConstructor = true := by
  decide

/-- **draws_are_a_permutation_of_stream**: requests `t = 0, 1, …` (any number) run ANY disciplined step programs (each its
own: `safe false created0` = `disciplined` when the generator is created lazily, `disciplinedCreated` when it exists from the
start); after EVERY schedule (complete or not) the outputs handed out so far, in
hand-out order, are exactly the first outputs of the generator's stream — each output used exactly once, none lost, none
handed to two requests — and the generator's state is the number of outputs handed out. -/
theorem draws_are_a_permutation_of_stream (stream : Nat → Nat) (progs : Nat → List Step) (created0 : Bool)
    (hd : ∀ t, safe false created0 (progs t) = true) (sched : List Nat) :
    let c := runSched stream (initConf progs created0) sched
    handed c = prefixOf stream c.log.length ∧ c.pos = c.log.length := by
  have h := inv_run stream sched _ (inv_init stream progs created0 hd)
  exact ⟨h.stream_eq, h.pos_eq⟩

/-- the instance for the regenerated `ClusterName`: any number of concurrent requests on one weighted route. -/
theorem clusterName_draws_follow_stream (stream : Nat → Nat) (created0 : Bool) (sched : List Nat) :
    let c := runSched stream (initConf (fun _ => WcLock.clusterName) created0) sched
    handed c = prefixOf stream c.log.length ∧ c.pos = c.log.length :=
  draws_are_a_permutation_of_stream stream _ created0 (fun _ => disciplined_safe _ _ rng_lock_discipline.1) sched

/-- **concurrent_weights_exact**: hence the exact proportions survive concurrency. Whatever the schedule of the concurrent
requests on a weighted route, the number of handed-out draws that select cluster `n` is the number of stream outputs that do;
over a full period of a generator that enumerates `[0, total)` (`stream i = i`, `total l` draws handed out) every cluster with
weight `w` is selected exactly `w` times. -/
theorem concurrent_weights_exact (l : List Entry) (hnd : (l.map (·.1)).Nodup) (n : String) (w : Nat) (hn : (n, w) ∈ l)
    (progs : Nat → List Step) (created0 : Bool) (hd : ∀ t, safe false created0 (progs t) = true) (sched : List Nat)
    (hfull : (runSched id (initConf progs created0) sched).log.length = total l) :
    ((handed (runSched id (initConf progs created0) sched)).filter (fun v => select l v == some n)).length = w := by
  have h := (draws_are_a_permutation_of_stream id progs created0 hd sched).1
  rw [h, hfull]
  have : prefixOf id (total l) = List.range (total l) := by simp [prefixOf]
  rw [this]
  exact count_exact l hnd n w hn

example : disciplined [Step.other, .lock, .initRng, .draw, .unlock, .other] = true := by decide
example : (runSched id (initConf (fun _ => WcLock.clusterName) false) [0, 0, 1, 1, 0, 0, 1, 0, 0, 1, 1, 1, 1, 1, 1, 0]).log =
    [(0, 0), (1, 1)] := by decide

/-- **draw_after_unlock_duplicates_and_loses** (negative witness, machine-checked): the shape "copy `rri.randInstance` under
the lock, call `Intn` on the copy after `Unlock()`" is not disciplined, and with two requests the schedule below lets both read
the generator state before either writes it back: both are handed output 0 of the stream, output 1 is never handed out, and
after two draws the generator has advanced by one — `handed` is not the stream prefix. Both requests are complete and the
mutex is free. -/
theorem draw_after_unlock_duplicates_and_loses :
    disciplined drawAfterUnlock = false ∧
    (let c := runSched id (initConf (fun _ => drawAfterUnlock) false) [0, 0, 0, 0, 0, 1, 1, 1, 1, 1, 0, 1, 0, 1, 0, 1]
     handed c = [0, 0] ∧ prefixOf id 2 = [0, 1] ∧ c.pos = 1 ∧ c.holder = none ∧
     [0, 1].map (fun t => ((c.threads t).todo, (c.threads t).got)) = [([], [0]), ([], [0])]) := by
  decide

end SharedGenerator

end MosnVerif.Props.C06
