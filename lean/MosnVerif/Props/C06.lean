import MosnVerif.Lemmas.WeightedCluster
/-!
# C06 — configured weights are honoured exactly (property theorems only)
-/
namespace MosnVerif.Props.C06
open MosnVerif.Model.WeightedCluster

/-- **count_exact**: for every weight vector, in *every* storage order, with distinct names, over the whole
draw space `[0, total)` each cluster is selected by exactly `weight` draws — probability `weight/total`. -/
theorem count_exact (l : List Entry) (hnd : (l.map (·.1)).Nodup) (c : String) (w : Nat)
    (hc : (c, w) ∈ l) : hits l c (total l) = w := by
  rw [hits_eq_ref]; exact hitsRef_exact l hnd c w hc

/-- **zero_never**: a zero-weight cluster is never selected, for every order and every draw. -/
theorem zero_never (l : List Entry) (hnd : (l.map (·.1)).Nodup) (c : String) (hc : (c, 0) ∈ l) (v : Nat)
    (hv : v < total l) : select l v ≠ some c := by
  intro h
  have := count_exact l hnd c 0 hc
  unfold hits at this
  rw [List.length_eq_zero_iff, List.filter_eq_nil_iff] at this
  exact this v (by simpa using hv) (by simp [h])

/-- **order_independent**: the number of draws selecting a cluster does not depend on the storage order. -/
theorem order_independent (l l' : List Entry) (hp : l.Perm l') (hnd : (l.map (·.1)).Nodup) (c : String) (w : Nat)
    (hc : (c, w) ∈ l) : hits l c (total l) = hits l' c (total l') := by
  have hnd' : (l'.map (·.1)).Nodup := (hp.map _).nodup_iff.mp hnd
  rw [count_exact l hnd c w hc, count_exact l' hnd' c w (hp.mem_iff.mp hc)]

/-- every draw in range selects *some* configured cluster (never falls through to the default). -/
theorem select_total (l : List Entry) (v : Nat) (hv : v < total l) : ∃ c, select l v = some c ∧ c ∈ l.map (·.1) := by
  rw [select_eq_ref]
  induction l generalizing v with
  | nil => simp [total] at hv
  | cons e r ih =>
    obtain ⟨n, w⟩ := e
    simp only [selectRef]
    by_cases h : v < w
    · exact ⟨n, by simp [h], by simp⟩
    · have : v - w < total r := by simp [total] at hv ⊢; omega
      obtain ⟨c, hc, hm⟩ := ih (v - w) this
      exact ⟨c, by simp [h, hc], by simp at hm ⊢; right; exact hm⟩

/-- the executable predicate evaluated on implementation outputs is implied by the model. -/
theorem spec_holds_on_model (l : List Entry) (hnd : (l.map (·.1)).Nodup) :
    specCounts l ((List.range (total l)).map (select l)) = true := by
  unfold specCounts
  simp only [List.length_map, List.length_range, beq_self_eq_true, Bool.true_and, List.all_eq_true]
  intro e he
  have := count_exact l hnd e.1 e.2 he
  unfold hits at this
  simp only [beq_iff_eq]
  rw [← this, List.filter_map, List.length_map]
  rfl

-- non-vacuity: a concrete non-trivial vector (zero weight, dominant weight, non-power-of-two total)
example : (([("a", 0), ("b", 5), ("c", 1)] : List Entry).map (·.1)).Nodup ∧
    (("a", 0) : Entry) ∈ [("a", 0), ("b", 5), ("c", 1)] ∧ 3 < total [("a", 0), ("b", 5), ("c", 1)] := by decide
example : select [("a", 0), ("b", 5), ("c", 1)] 0 = some "b" := by decide
example : select [("a", 0), ("b", 5), ("c", 1)] 5 = some "c" := by decide

end MosnVerif.Props.C06
