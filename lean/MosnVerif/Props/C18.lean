import MosnVerif.Lemmas.Flow
import MosnVerif.Lemmas.FlowWake
import MosnVerif.Lemmas.HpackInt
import MosnVerif.Lemmas.H2Frame
import MosnVerif.Lemmas.HpackTable
import MosnVerif.Lemmas.HpackWire
import MosnVerif.Lemmas.HpackEmit
import MosnVerif.Lemmas.H2Limits
import MosnVerif.Lemmas.HuffWalk
import MosnVerif.Lemmas.H2Payload
/-!
# C18 — HTTP/2 wire compatibility and flow control (property theorems only)

Flow control (`Model/Flow.lean`): the regenerated `flow.add/available/take` and `awaitFlowControl` amount, every
interleaving of sender passes with the peer's WINDOW_UPDATE / SETTINGS frames, any number of streams sharing the
connection window, both of MOSN's senders (`MClientConn`, `MServerConn`).
Wire format: HPACK prefix integers and plain string literals (`Model/HpackInt.lean`), the 9-byte frame header and
the padding/priority arithmetic of DATA and HEADERS payloads (`Model/H2Frame.lean`).
-/
namespace MosnVerif.Props.C18
open MosnVerif.Gen.Flow MosnVerif.Model.Flow MosnVerif.Lemmas.Flow

/-! ## flow control -/

/-- **flow_add_correct**: on int32 operands `flow.add` returns true iff the mathematical sum fits an int32; then the
window is the sum, otherwise it is unchanged.  (For a non-negative window or increment — every WINDOW_UPDATE — the
lower bound is automatic: true iff the sum ≤ 2^31-1; see `flow_add_increment`.) -/
theorem flow_add_correct (w n : Int) (hw : -2147483648 ≤ w ∧ w ≤ 2147483647) (hn : -2147483648 ≤ n ∧ n ≤ 2147483647) :
    ((add w n).2 = true ↔ (-2147483648 ≤ w + n ∧ w + n ≤ 2147483647)) ∧
    ((add w n).2 = true → (add w n).1 = w + n) ∧ ((add w n).2 = false → (add w n).1 = w) :=
  add_spec w n hw hn

/-- a WINDOW_UPDATE increment (1..2^31-1) is accepted iff the mathematical sum is ≤ 2^31-1 -/
theorem flow_add_increment (w inc : Int) (hw : -2147483648 ≤ w ∧ w ≤ 2147483647) (hi : 1 ≤ inc ∧ inc ≤ 2147483647) :
    (add w inc).2 = true ↔ w + inc ≤ 2147483647 := by
  have := (add_spec w inc hw (by omega)).1
  constructor
  · intro h; exact (this.1 h).2
  · intro h; exact this.2 ⟨by omega, h⟩

example : add 2147483647 1 = (2147483647, false) := by decide
example : add 2147483646 1 = (2147483647, true) := by decide
example : add (-5) 2147483647 = (2147483642, true) := by decide
-- the one way `add` refuses although the sum is ≤ 2^31-1: int32 underflow (never reached, see `sender_respects_windows`)
example : add (-2147483648) (-1) = (-2147483648, false) := by decide

/-- **flow_take_correct**: `take n` with `0 ≤ n ≤ available` never panics and debits stream and connection. -/
theorem flow_take_correct (w cw n : Int) (hw : -2147483648 ≤ w ∧ w ≤ 2147483647) (hc : -2147483648 ≤ cw ∧ cw ≤ 2147483647)
    (hn : 0 ≤ n ∧ n ≤ available w true cw) : take w true cw n = some (w - n, cw - n) := by
  rw [available_eq] at hn
  exact take_ok w cw n hw hc (by omega)

/-- the amount of one sender pass is min(stream window, connection window, remaining, max frame size) -/
theorem take_is_min (side : Side) (w cw rem mf : Int) (ha : 0 < available w true cw ∧ available w true cw ≤ 2147483647)
    (hr : 0 < rem) (hm : 1 ≤ mf ∧ mf ≤ 2147483647) :
    takeAmount side (available w true cw) rem mf = min (min w cw) (min rem mf) := by
  rw [takeAmount_spec side _ rem mf ha hr hm, available_eq]

/-- **sender_respects_windows**: for either sender, for EVERY schedule (any interleaving of sender passes on any
streams with WINDOW_UPDATE / SETTINGS_INITIAL_WINDOW_SIZE / SETTINGS_MAX_FRAME_SIZE / stream openings) the observable
trace passes the peer's bookkeeping: every batch of DATA written on a stream is within the stream window
(initial window in force + Σ stream increments + SETTINGS deltas − bytes already sent), within the connection window
(65535 + Σ connection increments − bytes sent on all streams), and every DATA frame is ≤ the advertised maximum
frame size.  No Go panic (`took too much`, bad slice) is reachable. -/
theorem sender_respects_windows (side : Side) (sched : List Label) (hw : ∀ l ∈ sched, l.wf = true) :
    peerOk (run (St.initial side) sched).trace = true ∧ (run (St.initial side) sched).panicked = false :=
  let h := inv_run _ sched hw (inv_initial side)
  ⟨h.ok, h.nopanic⟩

/-- the invariant behind it: on a live connection MOSN's window of every stream still in its stream table is at most
the peer's book value (initial window in force + Σ increments + SETTINGS deltas − bytes sent), and likewise for the
connection — MOSN can only under-, never over-estimate what it may send. -/
theorem sent_le_granted (side : Side) (sched : List Label) (hw : ∀ l ∈ sched, l.wf = true) (i : Nat)
    (hlive : (run (St.initial side) sched).closed = false) (hi : tracked (run (St.initial side) sched) i = true) :
    ((run (St.initial side) sched).strm i).n ≤ (peerOf (run (St.initial side) sched).trace).w i ∧
    (run (St.initial side) sched).cn ≤ (peerOf (run (St.initial side) sched).trace).connW :=
  let h := inv_run _ sched hw (inv_initial side)
  ⟨((h.live hlive).strm i hi).1, (h.live hlive).cn_le⟩

/-- **progress**: in every reachable state, if stream `i` still has body bytes and both its window and the
connection window are positive, a sender pass is enabled and writes ≥ 1 byte — exactly
min(stream window, connection window, remaining, max frame size) bytes. -/
theorem progress (side : Side) (sched : List Label) (hw : ∀ l ∈ sched, l.wf = true) (i : Nat) :
    let s := run (St.initial side) sched
    s.closed = false → i < s.count → 0 < (s.strm i).rem → 0 < (s.strm i).n → 0 < s.cn →
    let t := min (min (s.strm i).n s.cn) (min ((s.strm i).rem : Int) s.maxFrame)
    1 ≤ t ∧ (sendStep s i).trace = s.trace ++ [Obs.data i (splitFrames t.toNat)] ∧
    ((splitFrames t.toNat).sum : Int) = t ∧ ((sendStep s i).strm i).rem = (s.strm i).rem - t.toNat := by
  intro s hc hi hr hn hcn t
  have h : Inv s := inv_run _ sched hw (inv_initial side)
  have hmf := (h.live hc).mf_range
  have ht1 : 1 ≤ t := by omega
  refine ⟨ht1, ?_, ?_, ?_⟩
  · rw [sendStep_fire s i h hc hi hr (by omega)]
  · rw [sum_split]; omega
  · rw [sendStep_fire s i h hc hi hr (by omega)]; simp only [upd, ↓reduceIte]; rfl

/-- **progress (completion)**: in every reachable state, once stream window and connection window cover the rest of
the body, repeating the sender pass delivers the complete body: `rem` reaches 0 and exactly the remaining bytes are
written as DATA, without the connection being torn down. -/
theorem body_completes (side : Side) (sched : List Label) (hw : ∀ l ∈ sched, l.wf = true) (i : Nat) :
    let s := run (St.initial side) sched
    s.closed = false → i < s.count → ((s.strm i).rem : Int) ≤ (s.strm i).n → ((s.strm i).rem : Int) ≤ s.cn →
    ((pump s i (s.strm i).rem).strm i).rem = 0 ∧
    sentOn i (pump s i (s.strm i).rem).trace = sentOn i s.trace + (s.strm i).rem := by
  intro s hc hi hn hcn
  have h : Inv s := inv_run _ sched hw (inv_initial side)
  have := pump_completes i (s.strm i).rem s h hc hi (Nat.le_refl _) hn hcn
  exact ⟨this.1, this.2.1⟩

/-- **windows are exact against a conformant peer**: if the peer itself never lets a window exceed 2^31-1 and sends
only valid increments/settings (RFC 7540 §6.9.1, §6.5.2), MOSN's stream and connection windows EQUAL the peer's books
after every schedule and the connection is never torn down — so `body_completes` applies as soon as the peer has
granted the rest of the body ("delivers the complete body as window updates arrive"). -/
theorem windows_exact (side : Side) (sched : List Label) (hw : ∀ l ∈ sched, l.wf = true)
    (hconf : (peerOf (run (St.initial side) sched).trace).conformant = true) :
    let s := run (St.initial side) sched
    s.closed = false ∧ s.cn = (peerOf s.trace).connW ∧ ∀ i, tracked s i = true → (s.strm i).n = (peerOf s.trace).w i :=
  exact_run _ sched hw (inv_initial side) (exact_initial side) hconf

/-- the body completes once a conformant peer has granted at least the rest of it on the stream and the connection -/
theorem body_completes_when_granted (side : Side) (sched : List Label) (hw : ∀ l ∈ sched, l.wf = true) (i : Nat)
    (hconf : (peerOf (run (St.initial side) sched).trace).conformant = true) :
    let s := run (St.initial side) sched
    i < s.count → ((s.strm i).rem : Int) ≤ (peerOf s.trace).w i → ((s.strm i).rem : Int) ≤ (peerOf s.trace).connW →
    ((pump s i (s.strm i).rem).strm i).rem = 0 := by
  intro s hi hw1 hw2
  obtain ⟨hc, e2, e3⟩ := windows_exact side sched hw hconf
  by_cases hr : (s.strm i).rem = 0
  · rw [hr]; exact hr
  · have htr := tracked_of s i hi (by omega)
    exact (body_completes side sched hw i hc hi (by rw [e3 i htr]; exact hw1) (by rw [e2]; exact hw2)).1

-- non-vacuity: a schedule with two streams, a window of 0, shrinking and growing SETTINGS, all labels well-formed,
-- the peer conformant; the first body is blocked by its stream window (0), later by the connection window
example : (∀ l ∈ demoSchedule, l.wf = true) := by decide
example : (peerOf (run (St.initial .client) demoSchedule).trace).conformant = true := by decide
example : (run (St.initial .client) demoSchedule).trace =
    [.sInit 0, .opened, .wuS 0 20000, .data 0 [16384], .data 0 [3616], .sMax 32768, .sInit 30000, .opened, .data 1 [10],
     .data 0 [16384, 13616], .wuS 0 20000, .data 0 [15525], .wuC 100000, .data 0 [4475]] := by decide
example : ((run (St.initial .client) demoSchedule).strm 0).rem = 0 ∧ (run (St.initial .client) demoSchedule).cn = 95525 := by decide
-- a peer that overflows the connection window gets a connection error, after which nothing is sent
example : (run (St.initial .server) [.openStream 5, .wuConn 2147483647, .send 0]).trace =
    [.opened, .wuC 2147483647, .connError] := by decide

/-! ## wake-up discipline (senders parked in `cond.Wait()`; `Model/FlowWake.lean`) -/
section wake
open MosnVerif.Model.FlowWake MosnVerif.Lemmas.FlowWake

/-- **no_lost_wakeup**: with the Broadcast conditions regenerated from `processWindowUpdate` / `processSettings` of
either connection, for EVERY schedule (sender goroutines scheduled at arbitrary points between WINDOW_UPDATE /
SETTINGS frames and stream openings): a sender that sleeps in `cond.Wait()` with no Broadcast pending never has a
positive available window — whenever a parked sender's window became positive, the step that made it so (or an
earlier one since it parked) executed `cond.Broadcast()`. -/
theorem no_lost_wakeup (side : Side) (sched : List Label) (hw : ∀ l ∈ sched, l.wf = true) (i : Nat) :
    let w := wrun (codePolicy side) (WSt.initial side) sched
    w.base.closed = false → asleep w i = true →
    enabled w.base.side (available (w.base.strm i).n true w.base.cn) = false ∧ lostWakeup w i = false := by
  intro w hc hs
  have h : WInv w := winv_run _ (codePolicy_ok side) _ sched hw (winv_initial side)
  have hq : min (w.base.strm i).n w.base.cn ≤ 0 := h.quiet i hs hc
  have he : enabled w.base.side (available (w.base.strm i).n true w.base.cn) = false := by
    rw [available_eq]
    cases hh : enabled w.base.side (min (w.base.strm i).n w.base.cn)
    · rfl
    · rw [enabled_iff] at hh; omega
  exact ⟨he, by simp [lostWakeup, he]⟩

/-- **parking_refines**: the model with explicit parking and Broadcasts writes exactly what the model of enabled sends
writes, for every schedule — so `sender_respects_windows`, `progress`, `body_completes`, `windows_exact` hold of the
parking senders as well (this is where the wake-up discipline enters: under a policy that loses a wake-up it fails,
see `lazy_broadcast_loses_wakeup`). -/
theorem parking_refines (side : Side) (sched : List Label) (hw : ∀ l ∈ sched, l.wf = true) :
    (wrun (codePolicy side) (WSt.initial side) sched).base = run (St.initial side) sched :=
  wrun_base _ (codePolicy_ok side) _ sched hw (winv_initial side)

/-- **body_completes_with_parking**: in every reachable state, once stream and connection window cover the rest of the
body, scheduling the (possibly parked) sender of stream `i` delivers the complete body. -/
theorem body_completes_with_parking (side : Side) (sched : List Label) (hw : ∀ l ∈ sched, l.wf = true) (i : Nat) :
    let s := run (St.initial side) sched
    s.closed = false → i < s.count → ((s.strm i).rem : Int) ≤ (s.strm i).n → ((s.strm i).rem : Int) ≤ s.cn →
    ((wrun (codePolicy side) (WSt.initial side) (sched ++ List.replicate (s.strm i).rem (.send i))).base.strm i).rem = 0 := by
  intro s hc hi hn hcn
  have hw' : ∀ l ∈ sched ++ List.replicate (s.strm i).rem (Label.send i), l.wf = true := by
    intro l hl
    rcases List.mem_append.1 hl with h | h
    · exact hw l h
    · rw [(List.mem_replicate.1 h).2]; rfl
  rw [parking_refines side _ hw']
  have hp : ∀ (k : Nat) (t : St), run t (List.replicate k (Label.send i)) = pump t i k := by
    intro k
    induction k with
    | zero => intro t; rfl
    | succ k ih => intro t; simp only [List.replicate_succ, run, List.foldl_cons, pump, step]; exact ih _
  have hr : run (St.initial side) (sched ++ List.replicate (s.strm i).rem (Label.send i)) = pump s i (s.strm i).rem := by
    simp only [run, List.foldl_append]; exact hp _ _
  rw [hr]
  exact (body_completes side sched hw i hc hi hn hcn).1

/-- **lazy_broadcast_loses_wakeup** (machine-checked witness): "Broadcast only if the window was exactly 0 before the
increment" violates the obligation, and the violation is reachable: after the peer lowered
SETTINGS_INITIAL_WINDOW_SIZE mid-body the stream window is negative, the WINDOW_UPDATE that makes it positive is not
announced, the writer sleeps with 4565 bytes of window and 4465 bytes of body left, and no number of further scheduling
attempts or positive-window WINDOW_UPDATEs completes the body. -/
theorem lazy_broadcast_loses_wakeup :
    (∀ l ∈ lostSchedule, l.wf = true) ∧
    (peerOf (wrun lazyPolicy (WSt.initial .server) lostSchedule).base.trace).conformant = true ∧
    lostWakeup (wrun lazyPolicy (WSt.initial .server) lostSchedule) 0 = true ∧
    ((wrun lazyPolicy (WSt.initial .server) lostSchedule).base.strm 0).n = 5565 ∧
    ((wrun lazyPolicy (WSt.initial .server) (lostSchedule ++ [.send 0, .wuStream 0 5, .send 0, .send 0])).base.strm 0).rem = 4465 ∧
    ((wrun (codePolicy .server) (WSt.initial .server) lostSchedule).base.strm 0).rem = 0 := by decide

example : ¬ lazyPolicy.Ok := lazyPolicy_not_ok
-- non-vacuity of no_lost_wakeup: a reachable state with a sender asleep (window 0 after 65535 bytes)
example : asleep (wrun (codePolicy .server) (WSt.initial .server) [.openStream 70000, .send 0, .send 0, .send 0, .send 0, .send 0]) 0 = true ∧
    (wrun (codePolicy .server) (WSt.initial .server) [.openStream 70000, .send 0, .send 0, .send 0, .send 0, .send 0]).base.closed = false := by decide
end wake

/-! ## HPACK primitive representations -/
section hpack
open MosnVerif.Model.HpackInt MosnVerif.Lemmas.HpackInt

/-- **int_roundtrip**: for every prefix size `n ∈ 1..8`, every flag pattern above the prefix, every value the decoder
admits (`i - (2^n-1) < 2^63`, which includes every index, length and uint32 table size) and any following bytes,
`readVarInt` returns exactly the value `appendVarInt` wrote and consumes exactly its bytes. -/
theorem int_roundtrip (n i flags : Nat) (rest : Bytes) (hn1 : 1 ≤ n) (hn8 : n ≤ 8)
    (hf : flags % 2 ^ n = 0) (hfl : flags < 256) (hi : i < 2 ^ 63 + (2 ^ n - 1)) :
    readVarInt n (orFirst flags (appendVarInt n i) ++ rest) = .ok (i, rest) :=
  int_roundtrip' n i flags rest hn1 hn8 hf hfl hi

/-- the remaining uint64 values are refused with `errVarintOverflow` — never decoded to a different number -/
theorem int_overflow (n i : Nat) (rest : Bytes) (hn8 : n ≤ 8) (hi : 2 ^ 63 + (2 ^ n - 1) ≤ i) :
    readVarInt n (appendVarInt n i ++ rest) = .error .overflow :=
  int_overflow' n i rest hn8 hi

example : appendVarInt 5 1337 = [31, 154, 10] := by simp [appendVarInt, contBytes]   -- RFC 7541 C.1.2
example : readVarInt 5 [31, 154, 10, 7] = .ok (1337, [7]) := by decide
example : readVarInt 8 [255, 0] = .ok (255, []) := by decide

/-- **string_roundtrip**: every octet string written as a plain (non-Huffman) literal is read back identically,
with the bytes after it untouched, under every `maxStrLen` that admits it. -/
theorem string_roundtrip (s rest : Bytes) (maxLen : Nat) (hl : s.length < 2 ^ 63 + 127)
    (hm : maxLen = 0 ∨ s.length ≤ maxLen) :
    readStringRaw maxLen (appendStringPlain s ++ rest) = .ok (false, s, rest) :=
  string_roundtrip' s rest maxLen hl hm

example : readStringRaw 0 ([2, 104, 105] ++ [1]) = .ok (false, [104, 105], [1]) := by decide
example : readStringRaw 1 [2, 104, 105] = .error .strLen := by decide
end hpack

/-! ## HPACK dynamic table: encoder and decoder stay synchronised -/
section table
open MosnVerif.Model.HpackTable MosnVerif.Lemmas.HpackTable MosnVerif.Model.HpackInt

/-- **table_sync (one field)**: with equal dynamic tables and no size update pending, `WriteField` emits exactly one
representation; the decoder turns it back into the same field (name, value, sensitivity) and both sides end with
EQUAL tables whose size is the sum of the entry sizes and ≤ the maximum — whatever the field, whatever the table. -/
theorem table_sync_field (e : Enc) (d : Dec) (f : Field) (htab : d.tab = e.tab) (hflag : e.tableSizeUpdate = false)
    (hmax : d.maxStrLen = 0) (hc : Consistent e.tab) (hle : e.tab.size ≤ e.tab.maxSize) :
    ∃ r d', (e.plan f).2 = [r] ∧ d.apply r = .ok (d', some f) ∧ d'.tab = (e.plan f).1.tab ∧
      Consistent (e.plan f).1.tab ∧ (e.plan f).1.tab.size ≤ (e.plan f).1.tab.maxSize := by
  obtain ⟨r, hr, ok⟩ := field_sync e d f htab hflag hmax hc hle
  obtain ⟨d', ha, ht, _⟩ := ok.applied
  exact ⟨r, d', hr, ha, ht, ok.cons, ok.le⟩

/-- **table_sync**: for EVERY sequence of header blocks interleaved with table-size changes
(`SetMaxDynamicTableSize`, the peer's SETTINGS_HEADER_TABLE_SIZE, any values, any number between two blocks), starting
from fresh encoder and decoder: every block decodes to exactly the header list that was encoded, and the
between-blocks relation holds at the end — the tables are EQUAL when no size update is pending, otherwise the
encoder's table is the decoder's evicted to the smallest size set since the last block (which the next block
announces first, RFC 7541 §4.2); sizes are consistent and within the maximum. -/
theorem table_sync (ops : List Op) :
    ∃ e d, runOps Enc.new (Dec.new 4096) ops = .ok (e, d, blocksOf ops) ∧ Rel e d :=
  runOps_sync ops Enc.new (Dec.new 4096) rel_initial

/-- after a non-empty block nothing is pending: the tables are equal -/
theorem table_sync_block (e : Enc) (d : Dec) (fs : List Field) (h : Rel e d) (hne : fs ≠ []) :
    ∃ d', d.applyAll (planBlock e fs).2 = .ok (d', fs) ∧ d'.tab = (planBlock e fs).1.tab ∧
      d'.tab.size ≤ d'.tab.maxSize := by
  obtain ⟨d', ha, hrel, heq⟩ := block_sync e d fs h
  exact ⟨d', ha, (heq hne).1, hrel.led⟩

/-- **rep_roundtrip**: the bytes of an indexed field, of a table size update and of every literal representation
(all three kinds, indexed or new name) whose strings are written without Huffman coding are parsed back to the same
representation with the following bytes untouched — so on such header lists `table_sync` holds of the BYTES.
(Huffman-coded strings: the round trip of the tree-walking decoder is established by the correspondence run only;
what is proved of the table is `huffman_prefix_free` / `huffman_complete` below.) -/
theorem rep_roundtrip_indexed (i : Nat) (rest : Bytes) (hi : i < 2 ^ 63) :
    parseOne 0 (serialize (.indexed i) ++ rest) = .ok (.indexed i, rest) :=
  MosnVerif.Lemmas.HpackWire.parse_indexed i rest hi

theorem rep_roundtrip_size_update (v : Nat) (rest : Bytes) (hv : v < 2 ^ 63) :
    parseOne 0 (serialize (.sizeUpdate v) ++ rest) = .ok (.sizeUpdate v, rest) :=
  MosnVerif.Lemmas.HpackWire.parse_sizeUpdate v rest hv

theorem rep_roundtrip_literal (k : LitKind) (idx : Nat) (name value rest : Bytes) (hi : idx < 2 ^ 63)
    (hname : if idx = 0 then MosnVerif.Lemmas.HpackWire.NoHuff name else name = [])
    (hv : MosnVerif.Lemmas.HpackWire.NoHuff value) :
    parseOne 0 (serialize (.literal k idx name value) ++ rest) = .ok (.literal k idx name value, rest) := by
  by_cases h0 : idx = 0
  · subst h0
    simp only [if_true] at hname
    exact MosnVerif.Lemmas.HpackWire.parse_literal_new_name k name value rest hname hv
  · simp only [h0, if_false] at hname
    subst hname
    exact MosnVerif.Lemmas.HpackWire.parse_literal_indexed_name k idx value rest (by omega) hi hv

example : MosnVerif.Lemmas.HpackWire.NoHuff [0xff, 0xfe, 0x00] := by
  constructor <;> decide

-- non-vacuity: repeated and sensitive fields, an entry evicted by a shrink, two size updates opening a block
example : (planBlock Enc.new [⟨[120, 45, 97], [49], false⟩, ⟨[120, 45, 97], [49], false⟩]).2 =
    [.literal .incremental 0 [120, 45, 97] [49], .indexed 62] := by decide +kernel
example : (match runOps Enc.new (Dec.new 4096) demoOps with
    | .ok (e, d, outs) => outs == blocksOf demoOps && e.tab == d.tab && e.tab.ents.length == 1
    | .error _ => false) = true := by decide +kernel
end table

/-! ## HPACK dynamic table while emitting is switched off (`SetEmitEnabled(false)`, Model/HpackEmit.lean) -/
section emit
open MosnVerif.Model.HpackTable MosnVerif.Lemmas.HpackTable MosnVerif.Model.HpackEmit MosnVerif.Lemmas.HpackEmit
open MosnVerif.Model.HpackAt

/-- **table_sync_emit_disabled**: for EVERY sequence of header blocks and table-size changes in which the framer's emit
callback switches emitting off at an arbitrary point of any block (`cut`: at its k-th call — header list beyond
MAX_HEADER_LIST_SIZE, invalid field — or never; `readMetaFrame` re-enables it at the next block), with `wantStr`, the
guard of `dynTab.add` and the guard of `d.emit` regenerated from parseFieldLiteral / callEmit and table lookups through
the regenerated, checked `Decoder.at`: no block fails or panics, the callback is handed exactly the fields up to the
cut, and after every block the decoder's dynamic table stands in the between-blocks relation to the encoder's
(EQUAL when no size update is pending) — literals with incremental indexing that arrive after the cut-off are in the
table with their real strings. -/
theorem table_sync_emit_disabled (ops : List OpE) :
    ∃ e d, runOpsE codePolicy Enc.new (DecE.new 4096) ops = .ok (e, d, emittedOf ops) ∧ Rel e d.base :=
  let ⟨e, d, h, hr, _⟩ := runOpsE_sync ops Enc.new (DecE.new 4096) rel_initial (bounded_new 4096 (by decide))
  ⟨e, d, h, hr⟩

/-- one block: equal tables afterwards wherever the cut is (block non-empty, so nothing is pending) -/
theorem table_sync_emit_disabled_block (e : Enc) (d : DecE) (fs : List Field) (cut : Option Nat) (h : Rel e d.base)
    (hb : Bounded d.base) (hne : fs ≠ []) :
    ∃ d', d.startBlock.applyAllP codePolicy cut (planBlock e fs).2 = .ok (d', emittedPrefix true cut fs) ∧
      d'.base.tab = (planBlock e fs).1.tab := by
  obtain ⟨b1, ha, _, heq⟩ := block_sync e d.base fs h
  have hstart : d.startBlock = { base := d.base, emit := true } := by
    simp [DecE.startBlock, MosnVerif.Gen.HpackEmit.blockStartsEnabled]
  obtain ⟨em, hE, _, _⟩ := applyAll_refines (planBlock e fs).2 { base := d.base, emit := true } cut b1 fs hb h.maxStr ha
  exact ⟨{ base := b1, emit := em }, by rw [hstart]; exact hE, (heq hne).1⟩

/-- the literal cases of parseHeaderFieldRepr (mask, value, prefix size, index type) are the model's `LitKind`s -/
theorem literal_cases_are_model : MosnVerif.Gen.HpackEmit.literalCases = modelLiteralCases := by decide

-- non-vacuity: emitting is switched off at the first field of block 1, a new indexed literal follows, block 2
-- references it: the callback gets 1 field of block 1, all of block 2, and the tables are equal (2 entries)
example : (match runOpsE codePolicy Enc.new (DecE.new 4096) cutDemoOps with
    | .ok (e, d, outs) => outs == [[⟨[120, 45, 97], [49], false⟩], [⟨[120, 45, 98], [50, 50], false⟩]] &&
        e.tab == d.base.tab && e.tab.ents.length == 2 && !d.emit == false
    | .error _ => false) = true := by decide +kernel

/-- **dropped `indexed()`** (machine-checked witness): with `wantStr := d.emitEnabled` the indexed literal that follows
the cut-off is stored with EMPTY strings and the wrong size; the tables differ after block 1 and block 2, which the
encoder writes as one indexed field, decodes to an empty header instead of `x-b: 22`. -/
theorem dropped_indexed_desyncs :
    (match runOpsE dropIndexedPolicy Enc.new (DecE.new 4096) cutDemoOps with
     | .ok (e, d, outs) => e.tab != d.base.tab && d.base.tab.ents == [([120, 45, 97], [49]), ([], [])] &&
         outs == [[⟨[120, 45, 97], [49], false⟩], [⟨[], [], false⟩]]
     | .error _ => false) = true := by decide +kernel

end emit

/-! ## Huffman coding (`Model/Huffman.lean`, `Model/HuffTree.lean`; code table and every expression of huffman.go regenerated) -/
section huffman
open MosnVerif.Model.Huffman MosnVerif.Model.HuffTree
open MosnVerif.Lemmas.HuffCode (codeBits eosBits)

/-- **huffman_prefix_free**: no code of the table is a prefix of the code of another symbol, EOS included — the
bit-level decoder is unambiguous.  (Checked by the kernel over all 257×257 pairs of the regenerated table.) -/
theorem huffman_prefix_free : prefixFree codes = true := Lemmas.HuffCode.prefix_free

/-- 257 codes of 5..30 bits, each within its length -/
theorem huffman_table_wf : tableWf codes = true := Lemmas.HuffCode.table_wf

/-- Kraft equality: the code is complete, so every octet string of Huffman payload decodes or ends in a prefix of a
code (which the decoder then compares with the EOS padding) -/
theorem huffman_complete : kraftComplete codes = true := Lemmas.HuffCode.kraft_complete

/-- **huffman_tree_is_code_table**: the tree `buildRootHuffmanNode` builds — `addDecoderNode` (loop guard, decrement,
both index expressions, shift and fill range regenerated, uint8 / uint32 wrap-around included) folded over the
regenerated table, evaluated by the kernel — panics nowhere, and every child slot of every internal node is what the
table prescribes: a leaf `(sym, r)` sits exactly where the code of `sym` is the node's path followed by the first `r`
bits of the index; a pointer leads to the internal node of the extended path; the only nil slots are those whose path
starts with EOS; no code is a prefix of the path of an internal node. -/
theorem huffman_tree_is_code_table :
    buildRoot.bad = false ∧ (0, 0, 0) ∈ Lemmas.HuffTreeCheck.nodePaths ∧
    ∀ n d pv, (n, d, pv) ∈ Lemmas.HuffTreeCheck.nodePaths →
      pv < 2 ^ (8 * d) ∧ d < 4 ∧ (∀ s, s < 256 → isPrefixCode (codeOf s, lenOf s) (pv, 8 * d) = false) ∧
      ∀ idx, idx < 256 →
        Lemmas.HuffTreeCheck.entOk codeOf lenOf Lemmas.HuffTreeCheck.nodePaths d pv idx (huffTree.child n idx) = true :=
  ⟨Lemmas.HuffTreeCheck.build_ok, Lemmas.HuffTreeCheck.root_mem, Lemmas.HuffTreeCheck.node_ok⟩

/-- **huffman_tree_walker_refines**: `huffmanDecode` (8-bit steps through the built tree, `cur` / `cbits` / `sbits`
bookkeeping, the trailing loop, the `sbits > 7` and EOS-mask tests, the `maxLen` guard — every expression regenerated)
returns, for EVERY byte string and every `maxLen`, exactly what the declarative bit-level decoder returns: the same
string, or the same error (ErrInvalidHuffman / ErrStringLength). -/
theorem huffman_tree_walker_refines (maxLen : Nat) (v : Bytes) : walk maxLen v = decodeSpecMax maxLen v :=
  Lemmas.HuffWalk.walk_eq_spec maxLen v

/-- **huffman_roundtrip**: for ALL byte strings `s` (no length bound): the declarative decoder and the tree walker
return `s` on the encoder's output, under every `maxLen` that admits `s`; one byte more than `maxLen` is ErrStringLength. -/
theorem huffman_roundtrip (s : Bytes) :
    decodeSpec (encode s) = some s ∧
    (∀ maxLen, maxLen = 0 ∨ s.length ≤ maxLen → walk maxLen (encode s) = .ok s) ∧
    (∀ maxLen, maxLen ≠ 0 → maxLen < s.length → walk maxLen (encode s) = .error .strLen) := by
  refine ⟨Lemmas.HuffSpec.decodeSpec_encode s, fun maxLen h => ?_, fun maxLen h0 hl => ?_⟩
  · rw [huffman_tree_walker_refines]; exact Lemmas.HuffSpec.decodeSpecMax_encode maxLen s h
  · rw [huffman_tree_walker_refines, Lemmas.HuffSpec.decodeSpecMax_eq, Lemmas.HuffSpec.bytesToBits_encode]
    exact Lemmas.HuffSpec.specRun_encode_too_long maxLen s _ [] h0 (Nat.zero_le _) (by simpa using hl)

/-- **huffman_encoded_len_exact**: the encoder emits exactly `⌈Σ codeLen / 8⌉` bytes, and `HuffmanEncodeLength` (uint64
arithmetic regenerated) — the length the string literal header announces — is that number. -/
theorem huffman_encoded_len_exact (s : Bytes) :
    (encode s).length = encodeLen s ∧ (s.length < 2 ^ 58 → goEncodeLen s = encodeLen s) :=
  ⟨Lemmas.HuffSpec.length_encode s, Lemmas.HuffWalk.goEncodeLen_eq s⟩

/-- **huffman_decode_iff**: the decoder accepts exactly the encoder's outputs — `v` decodes to `s` iff `v = encode s`. -/
theorem huffman_decode_iff (v s : Bytes) : walk 0 v = .ok s ↔ v = encode s := by
  rw [huffman_tree_walker_refines]; exact Lemmas.HuffSpec.decodeSpecMax_ok_iff v s

/-- **huffman_injective**: two different strings never encode to the same bytes -/
theorem huffman_injective (s₁ s₂ : Bytes) (h : encode s₁ = encode s₂) : s₁ = s₂ := by
  have h1 := Lemmas.HuffSpec.decodeSpec_encode s₁
  rw [h, Lemmas.HuffSpec.decodeSpec_encode s₂] at h1
  exact (Option.some.inj h1).symm

/-- **huffman_padding_rejects** (the three decoding errors RFC 7541 §5.2 / x/net name), for every payload `v` whose bits
are the codes of any string `s` followed by: (1) 8 or more one-bits — padding longer than 7 bits; (2) trailing bits that
are no complete code and not all ones — padding that is not a prefix of EOS; (3) the 30 bits of EOS and anything — EOS
inside the string: `huffmanDecode` returns ErrInvalidHuffman. -/
theorem huffman_padding_rejects (v s : Bytes) :
    (∀ k, 8 ≤ k → bytesToBits v = encodeBits s ++ List.replicate k true → walk 0 v = .error .invalid) ∧
    (∀ p, matchSym p = none → p.all id = false → bytesToBits v = encodeBits s ++ p → walk 0 v = .error .invalid) ∧
    (∀ rest, bytesToBits v = encodeBits s ++ (eosBits ++ rest) → walk 0 v = .error .invalid) := by
  refine ⟨fun k hk hb => ?_, fun p hp hz hb => ?_, fun rest hb => ?_⟩
  · rw [huffman_tree_walker_refines, Lemmas.HuffSpec.decodeSpecMax_eq, hb]
    exact Lemmas.HuffSpec.reject_long_padding 0 s k hk [] (Or.inl rfl)
  · rw [huffman_tree_walker_refines, Lemmas.HuffSpec.decodeSpecMax_eq, hb]
    exact Lemmas.HuffSpec.reject_bad_padding 0 s p hp hz [] (Or.inl rfl)
  · rw [huffman_tree_walker_refines, Lemmas.HuffSpec.decodeSpecMax_eq, hb]
    exact Lemmas.HuffSpec.reject_eos 0 s rest [] (Or.inl rfl)

-- non-vacuity: "www" (RFC 7541 C.4.1 fragment), its encoding, and instances of the three rejected shapes
example : bytesToBits [0xf1, 0xe3, 0xc7] = encodeBits [119, 119, 119] ++ List.replicate 3 true := by decide
-- (1) `[]` followed by 8 one-bits; "w" followed by 1 + 8 one-bits
example : bytesToBits [0xff] = encodeBits [] ++ List.replicate 8 true := by decide
example : bytesToBits [0xf1, 0xff] = encodeBits [119] ++ List.replicate 9 true := by decide
-- (2) "w" followed by the bit 0: no code, not all ones
example : bytesToBits [0xf0] = encodeBits [119] ++ [false] := by decide
-- (3) EOS (30 one-bits) and two more bits
example : bytesToBits [0xff, 0xff, 0xff, 0xff] = encodeBits [] ++ (eosBits ++ [true, true]) := by decide

end huffman

/-! ## frame header, DATA / HEADERS payload arithmetic -/
section frame
open MosnVerif.Model.H2Frame MosnVerif.Lemmas.H2Frame MosnVerif.Gen.H2Frame

/-- **frame_header_roundtrip**: every header MOSN can write (length < 2^24, one-byte type and flags, 32-bit stream
id) is parsed back field by field; the reserved bit of the stream id is dropped. -/
theorem frame_header_roundtrip (h : FrameHeader) (hl : h.length < 2 ^ 24) (ht : h.type < 256) (hf : h.flags < 256)
    (hs : h.streamID < 2 ^ 32) :
    (encodeHeader h).bind parseHeader = some { h with streamID := h.streamID % 2 ^ 31 } :=
  frame_header_roundtrip' h hl ht hf hs

/-- a frame of 2^24 bytes or more is refused by the writer -/
theorem frame_too_large (h : FrameHeader) (hl : 2 ^ 24 ≤ h.length) : encodeHeader h = none := by
  unfold encodeHeader writeTooLarge
  rw [if_pos (by omega)]

example : encodeHeader ⟨16384, 0, 1, 5⟩ = some [0, 64, 0, 0, 1, 0, 0, 0, 5] := by decide
example : parseHeader [0, 64, 0, 0, 1, 128, 0, 0, 5] = some ⟨16384, 0, 1, 5⟩ := by decide
example : parseHeader [0, 64, 0, 0, 1, 128, 0, 0] = none := by decide

/-- **data_padding**: a DATA payload with any pad length 0..255 parses to exactly the data; without the PADDED
flag the payload is the data. -/
theorem data_padding (flags : Nat) (data : Bytes) (k : Nat) (hk : k < 256) (hf : hasFlag flags flagDataPadded = true) :
    parseData flags (encodeData data (some k)) = .ok data :=
  data_roundtrip_padded flags data k hk hf

theorem data_plain (flags : Nat) (data : Bytes) (hf : hasFlag flags flagDataPadded = false) :
    parseData flags (encodeData data none) = .ok data :=
  data_roundtrip_plain flags data hf

/-- **headers_padding_priority**: a HEADERS payload with any pad length, with or without the 5 priority bytes, and
ANY header block fragment — including the empty one (block carried by CONTINUATION frames) — parses to exactly the
priority and the fragment. -/
theorem headers_padding_priority (flags : Nat) (frag : Bytes) (padLength : Nat) (prio : Option Priority)
    (hp : padLength < 256) (hpr : ∀ pr, prio = some pr → pr.streamDep < 2 ^ 31 ∧ pr.weight < 256)
    (hf1 : hasFlag flags flagHeadersPadded = decide (padLength ≠ 0))
    (hf2 : hasFlag flags flagHeadersPriority = prio.isSome) :
    parseHeaders flags (encodeHeaders frag padLength prio) = .ok (prio, frag) :=
  headers_roundtrip' flags frag padLength prio hp hpr hf1 hf2

example : parseHeaders 0x0c [3, 0, 0, 0] = .ok (none, []) := by decide          -- padded, empty fragment
example : parseHeaders 0x24 [128, 0, 0, 7, 200, 9] = .ok (some ⟨7, true, 200⟩, [9]) := by decide +kernel
example : parseData 8 [5, 1, 2] = .error .protocol := by decide      -- pad length beyond the payload
example : parseHeaders 8 [] = .error .short := by decide
end frame

/-! ## frame payload codecs of every frame type (`Model/H2Payload.lean`; writers and parsers regenerated, `Gen.H2Payload`) -/
section payload
open MosnVerif.Model.H2Payload MosnVerif.Lemmas.H2Payload
open MosnVerif.Model.H2Frame (FrameHeader Priority Bytes)

/-- **all_frame_types_roundtrip**: for EVERY frame `f` of the sum type (the arguments of `Framer.WriteData[Padded] / WriteHeaders /
WritePriority / WriteRSTStream / WriteSettings / WriteSettingsAck / WritePushPromise / WritePing / WriteGoAway /
WriteWindowUpdate / WriteContinuation / WriteRawFrame`) that is well-formed (`WF`: the value ranges of the Go types, 31-bit
stream ids, zero padding, below 2^24 octets, an extension type for a raw frame), with or without `AllowIllegalWrites`: the
writer accepts it, and what it writes — refusal tests, frame type, flag bits, stream id, the byte layout of the payload
(fields, widths, masks, order) all regenerated from the Write* bodies — is read back (stream id through `readFrameHeader`'s
mask, payload through the frame type's parser with every guard, error and field expression regenerated) as exactly `f`. -/
theorem all_frame_types_roundtrip (a : Bool) (f : Frame) (hwf : WF f) : roundTrip a f = some (.ok f) :=
  all_roundtrip a f hwf

theorem frame_roundtrip_settings (a : Bool) (ss : List (Nat × Nat))
    (hr : ∀ s ∈ ss, s.1 < 2 ^ 16 ∧ s.2 < 2 ^ 32 ∧ (s.1 = 4 → s.2 < 2 ^ 31)) (hl : 6 * ss.length < 2 ^ 24) :
    roundTrip a (.settings ss) = some (.ok (.settings ss)) := rt_settings a ss hr hl

theorem frame_roundtrip_settings_ack (a : Bool) : roundTrip a .settingsAck = some (.ok .settingsAck) := rt_settingsAck a

theorem frame_roundtrip_ping (a ack : Bool) (d : Bytes) (hd : d.length = 8) :
    roundTrip a (.ping ack d) = some (.ok (.ping ack d)) := rt_ping a ack d hd

theorem frame_roundtrip_goaway (a : Bool) (last code : Nat) (dbg : Bytes) (hl : last < 2 ^ 31) (hc : code < 2 ^ 32)
    (hd : dbg.length + 8 < 2 ^ 24) : roundTrip a (.goAway last code dbg) = some (.ok (.goAway last code dbg)) :=
  rt_goAway a last code dbg hl hc hd

theorem frame_roundtrip_rst_stream (a : Bool) (sid code : Nat) (h0 : 0 < sid) (hs : sid < 2 ^ 31) (hc : code < 2 ^ 32) :
    roundTrip a (.rst sid code) = some (.ok (.rst sid code)) := rt_rst a sid code h0 hs hc

theorem frame_roundtrip_window_update (a : Bool) (sid incr : Nat) (hs : sid < 2 ^ 31) (h0 : 0 < incr) (hi : incr < 2 ^ 31) :
    roundTrip a (.windowUpdate sid incr) = some (.ok (.windowUpdate sid incr)) := rt_windowUpdate a sid incr hs h0 hi

theorem frame_roundtrip_priority (a : Bool) (sid : Nat) (p : Priority) (h0 : 0 < sid) (hs : sid < 2 ^ 31)
    (hd : p.streamDep < 2 ^ 31) (hw : p.weight < 256) : roundTrip a (.priority sid p) = some (.ok (.priority sid p)) :=
  rt_priority a sid p h0 hs hd hw

theorem frame_roundtrip_push_promise (a : Bool) (sid pr : Nat) (eh : Bool) (pl : Nat) (frag : Bytes) (h0 : 0 < sid)
    (hs : sid < 2 ^ 31) (hp0 : 0 < pr) (hp : pr < 2 ^ 31) (hpl : pl < 256) (hf : frag.length + 260 < 2 ^ 24) :
    roundTrip a (.pushPromise sid pr eh pl frag) = some (.ok (.pushPromise sid pr eh pl frag)) :=
  rt_pushPromise a sid pr eh pl frag h0 hs hp0 hp hpl hf

theorem frame_roundtrip_continuation (a : Bool) (sid : Nat) (eh : Bool) (frag : Bytes) (h0 : 0 < sid) (hs : sid < 2 ^ 31)
    (hf : frag.length < 2 ^ 24) : roundTrip a (.continuation sid eh frag) = some (.ok (.continuation sid eh frag)) :=
  rt_continuation a sid eh frag h0 hs hf

/-- unknown frame types are carried as opaque payloads -/
theorem frame_roundtrip_unknown (a : Bool) (t fl sid : Nat) (pl : Bytes) (ht : 10 ≤ t) (hs : sid < 2 ^ 31) (hp : pl.length < 2 ^ 24) :
    roundTrip a (.raw t fl sid pl) = some (.ok (.raw t fl sid pl)) := rt_raw a t fl sid pl ht hs hp

/-- DATA / HEADERS through the regenerated `WriteDataPadded` / `WriteHeaders` (the parse arithmetic is `data_padding`,
`headers_padding_priority`) -/
theorem frame_roundtrip_data (a : Bool) (sid : Nat) (es : Bool) (d : Bytes) (k : Nat) (h0 : 0 < sid) (hs : sid < 2 ^ 31)
    (hk : k ≤ 255) (hd : d.length + 256 < 2 ^ 24) :
    roundTrip a (.data sid es d none) = some (.ok (.data sid es d none)) ∧
    roundTrip a (.data sid es d (some (List.replicate k 0))) = some (.ok (.data sid es d (some (List.replicate k 0)))) :=
  ⟨rt_data_plain a sid es d h0 hs (by omega), rt_data_padded a sid es d k h0 hs hk hd⟩

theorem frame_roundtrip_headers (a : Bool) (sid : Nat) (es eh : Bool) (pl : Nat) (pr : Priority) (frag : Bytes) (h0 : 0 < sid)
    (hs : sid < 2 ^ 31) (hpl : pl < 256) (hd : pr.streamDep < 2 ^ 31) (hw : pr.weight < 256) (hf : frag.length + 262 < 2 ^ 24) :
    roundTrip a (.headers sid es eh pl pr frag) = some (.ok (.headers sid es eh pl pr frag)) :=
  rt_headers a sid es eh pl pr frag h0 hs hpl hd hw hf

/-- **mframer_writes_what_framer_writes**: the frames MOSN's connections actually write — `MFramer.writeSettings /
writeWindowUpdate / sendData / writeContinuation / writeHeaders` and the SETTINGS ack, PING, RST_STREAM, GOAWAY frames
`MServerConn` / `MClientConn` write in line (statement by statement regenerated) — are byte for byte what `Framer.Write*`
writes for the same arguments; so `all_frame_types_roundtrip` holds of them. -/
theorem mframer_writes_what_framer_writes (server : Bool) (f : Frame) (w : FrameHeader × Bytes) (h : f.mwrite server = some w) :
    f.write true = some w := mwrite_eq_write server f w h

/-- **reserved_bit_ignored**: the reserved high bit of every 31-bit field is masked by the reader — the frame header's stream
id, the WINDOW_UPDATE increment, GOAWAY's last stream id, PUSH_PROMISE's promised stream id: the parse of any 32-bit word
`v` is the parse of `v mod 2^31`; in PRIORITY the bit is the exclusive flag and the dependency is `v mod 2^31`. -/
theorem reserved_bit_ignored (h : FrameHeader) (v : Nat) (hv : v < 2 ^ 32) :
    readHdr { h with streamID := h.streamID % 2 ^ 31 + 2 ^ 31 } = readHdr h ∧
    parseWindowUpdate h (Gen.H2Payload.u32be v) = parseWindowUpdate h (Gen.H2Payload.u32be (v % 2 ^ 31)) ∧
    (∀ c dbg, c < 2 ^ 32 → parseGoAway h (Gen.H2Payload.u32be v ++ Gen.H2Payload.u32be c ++ dbg) =
        parseGoAway h (Gen.H2Payload.u32be (v % 2 ^ 31) ++ Gen.H2Payload.u32be c ++ dbg)) ∧
    (∀ frag, Gen.H2Payload.flagsHas h.flags 8 = false →
        parsePushPromise h (Gen.H2Payload.u32be v ++ frag) = parsePushPromise h (Gen.H2Payload.u32be (v % 2 ^ 31) ++ frag)) ∧
    (∀ w, h.streamID ≠ 0 → w < 256 →
        parsePriority h (Gen.H2Payload.u32be v ++ Gen.H2Payload.u8be w) = .ok (.priority ⟨v % 2 ^ 31, decide (v % 2 ^ 31 ≠ v), w⟩)) :=
  ⟨hdr_reserved h, wu_reserved h v hv, fun c dbg hc => goAway_reserved h v c dbg hv hc,
   fun frag hf => push_reserved h v frag hv hf, fun w hs hw => parsePriority_ok h v w hs hv hw⟩

/-- **frame_parse_total**: for every frame header (type ≥ 2: every type but DATA / HEADERS, whose outcomes are
`read_outcome_matches_reference`) and EVERY payload of the announced length, the parser gives exactly one of: a frame, a
connection error with a code, a stream error with a code (or, for a PUSH_PROMISE too short for its fields, the I/O error) —
and that answer agrees with the declarative table of RFC 7540 §6 (`Model.H2Payload.rfcViolations`, written from the RFC): it
is a frame iff no rule is violated, and an error is one the table lists for a violated rule. -/
theorem frame_parse_total (h : FrameHeader) (p : Bytes) (hl : h.length = p.length) (hf : h.flags < 256) (ht : 2 ≤ h.type) :
    Agrees (parsePayload h p) (rfcViolations h.type h.flags h.streamID p) := parse_total h p hl hf ht

theorem frame_parse_total_settings (h : FrameHeader) (p : Bytes) (hl : h.length = p.length) (hf : h.flags < 256) :
    Agrees (parseSettings h p) (rfcViolations 4 h.flags h.streamID p) := total_settings h p hl hf
theorem frame_parse_total_ping (h : FrameHeader) (p : Bytes) : Agrees (parsePing h p) (rfcViolations 6 h.flags h.streamID p) :=
  total_ping h p
theorem frame_parse_total_goaway (h : FrameHeader) (p : Bytes) : Agrees (parseGoAway h p) (rfcViolations 7 h.flags h.streamID p) :=
  total_goAway h p
theorem frame_parse_total_rst_stream (h : FrameHeader) (p : Bytes) : Agrees (parseRst h p) (rfcViolations 3 h.flags h.streamID p) :=
  total_rst h p
theorem frame_parse_total_window_update (h : FrameHeader) (p : Bytes) :
    Agrees (parseWindowUpdate h p) (rfcViolations 8 h.flags h.streamID p) := total_windowUpdate h p
theorem frame_parse_total_priority (h : FrameHeader) (p : Bytes) : Agrees (parsePriority h p) (rfcViolations 2 h.flags h.streamID p) :=
  total_priority h p
theorem frame_parse_total_push_promise (h : FrameHeader) (p : Bytes) (hf : h.flags < 256) :
    Agrees (parsePushPromise h p) (rfcViolations 5 h.flags h.streamID p) := total_pushPromise h p hf
theorem frame_parse_total_continuation (h : FrameHeader) (p : Bytes) :
    Agrees (parseContinuation h p) (rfcViolations 9 h.flags h.streamID p) := total_continuation h p
theorem frame_parse_total_unknown (h : FrameHeader) (p : Bytes) (ht : 10 ≤ h.type) :
    Agrees (parsePayload h p) (rfcViolations h.type h.flags h.streamID p) := total_unknown h p ht

-- non-vacuity: well-formed frames of several types; what the writers produce; rejected payloads with the table's verdict
example : WF (.settings [(3, 100), (4, 65535), (4, 2147483647), (5, 16384)]) := by
  refine ⟨?_, by decide⟩
  intro s hs
  simp only [List.mem_cons, List.not_mem_nil, or_false] at hs
  rcases hs with h | h | h | h <;> subst h <;> decide
example : WF (.windowUpdate 0 2147483647) ∧ WF (.goAway 2147483647 2 [1, 2]) ∧ WF (.ping true [1, 2, 3, 4, 5, 6, 7, 8]) ∧
    WF (.priority 3 ⟨1, true, 255⟩) ∧ WF (.pushPromise 1 2 true 3 [9]) ∧ WF (.raw 10 255 7 [1]) := by
  refine ⟨?_, ?_, ?_, ?_, ?_, ?_⟩ <;> simp [WF]
example : (Frame.goAway 5 2 [7]).write false = some (⟨9, 7, 0, 0⟩, [0, 0, 0, 5, 0, 0, 0, 2, 7]) := by decide
example : (Frame.priority 3 ⟨1, true, 255⟩).write false = some (⟨5, 2, 0, 3⟩, [128, 0, 0, 1, 255]) := by decide
example : (Frame.windowUpdate 1 0).write false = none ∧ (Frame.windowUpdate 1 2147483648).write false = none := by decide
example : parsePing ⟨7, 6, 0, 0⟩ [1, 2, 3, 4, 5, 6, 7] = .error (.conn 6) ∧
    rfcViolations 6 0 0 [1, 2, 3, 4, 5, 6, 7] = [.conn FRAME_SIZE_ERROR] := by decide
example : parseWindowUpdate ⟨4, 8, 0, 5⟩ [128, 0, 0, 0] = .error (.stream 5 1) ∧
    parseWindowUpdate ⟨4, 8, 0, 0⟩ [0, 0, 0, 0] = .error (.conn 1) ∧
    parseWindowUpdate ⟨4, 8, 0, 5⟩ [128, 0, 0, 9] = .ok (.windowUpdate 9) := by decide
example : parseSettings ⟨6, 4, 1, 0⟩ [0, 3, 0, 0, 0, 100] = .error (.conn 6) ∧
    parseSettings ⟨5, 4, 0, 0⟩ [0, 3, 0, 0, 0] = .error (.conn 6) ∧
    parseSettings ⟨6, 4, 0, 0⟩ [0, 4, 128, 0, 0, 0] = .error (.conn 3) := by decide

end payload

/-! ## limits: what MOSN advertises in SETTINGS is what its framer and connections enforce (RFC 7540 §4.2, §6.5.2, §6.9)

`Gen.H2Limits` holds EVERY limit comparison of the re-implemented framer and of the server / client connection, regenerated
from the Go source; `Model.H2Limits.readOutcome` is `MFramer.ReadFrame` built from them, `refOutcome` the RFC. -/
section limits
open Model.H2Limits (Frame Out readOutcome refOutcome setMaxRead settingCode refSettingCode windowUpdate refWindowUpdate iLen)

/-- **limits_match_reference**: each regenerated comparison equals the reference predicate of RFC 7540, for ALL values:
ReadFrame's size test, header / payload completeness tests, the SetMaxReadFrameSize clamp, the fixed lengths of
PRIORITY / RST_STREAM / PING / WINDOW_UPDATE / GOAWAY / SETTINGS, the zero-increment test, the three padding tests
(`pad length > remaining payload`), the header list size test, the concurrent streams test, the SETTINGS value ranges
of server and client (INITIAL_WINDOW_SIZE ≤ 2^31-1, MAX_FRAME_SIZE ∈ [16384, 2^24-1], ENABLE_PUSH ∈ {0,1}) with their
error codes, and the WINDOW_UPDATE overflow test (window + increment > 2^31-1). -/
theorem limits_match_reference :
    (∀ len lim : Nat, Gen.H2Limits.readTooLarge (iLen len) (iLen lim) = true ↔ len > lim) ∧
    (∀ avail : Nat, Gen.H2Limits.readHeaderIncomplete (iLen avail) 0 = true ↔ avail < 9) ∧
    (∀ len avail : Nat, Gen.H2Limits.readPayloadIncomplete (iLen len) (iLen avail) 0 = true ↔ avail < 9 + len) ∧
    (∀ v : Nat, setMaxRead v = min v (2 ^ 24 - 1)) ∧
    (∀ n : Nat, Gen.H2Limits.priorityBadLength (iLen n) = decide (n ≠ 5)) ∧
    (∀ n : Nat, Gen.H2Limits.rstBadLength (iLen n) = decide (n ≠ 4)) ∧
    (∀ n : Nat, Gen.H2Limits.pingBadLength (iLen n) = decide (n ≠ 8)) ∧
    (∀ n : Nat, Gen.H2Limits.windowUpdateBadLength (iLen n) = decide (n ≠ 4)) ∧
    (∀ n : Nat, Gen.H2Limits.goAwayBadLength (iLen n) = decide (n < 8)) ∧
    (∀ n : Nat, Gen.H2Limits.settingsBadLength (iLen n) = decide (n % 6 ≠ 0)) ∧
    (∀ (a : Bool) (n : Nat), Gen.H2Limits.settingsAckWithPayload a (iLen n) = (a && decide (n > 0))) ∧
    (∀ inc : Nat, Gen.H2Limits.windowUpdateZero (iLen inc) = decide (inc = 0)) ∧
    (∀ pad n : Nat, Gen.H2Frame.dataPadTooBig (iLen pad) (iLen n) = decide (pad > n)) ∧
    (∀ n pad : Nat, Gen.H2Frame.headersPadTooBig (iLen n) (iLen pad) = decide (pad > n)) ∧
    (∀ pad n : Nat, Gen.H2Limits.pushPadTooBig (iLen pad) (iLen n) = decide (pad > n)) ∧
    (∀ size remain : Nat, Gen.H2Limits.headerListOver (iLen size) (iLen remain) = decide (size > remain)) ∧
    (∀ cur adv : Nat, Gen.H2Limits.tooManyStreams (iLen cur) (iLen adv) = decide (cur ≥ adv)) ∧
    (∀ (server : Bool) (id val : Nat), settingCode server id val = refSettingCode server id val) ∧
    (∀ (w : Int) (inc : Nat), -2147483648 ≤ w ∧ w ≤ 2147483647 → inc ≤ 2147483647 →
        windowUpdate w inc = refWindowUpdate w inc) := by
  open Lemmas.H2Limits in
  refine ⟨readTooLarge_iff, readHeaderIncomplete_iff, readPayloadIncomplete_iff, setMaxRead_eq, priorityBadLength_eq,
    rstBadLength_eq, pingBadLength_eq, windowUpdateBadLength_eq, goAwayBadLength_eq, settingsBadLength_eq,
    settingsAckWithPayload_eq, windowUpdateZero_eq, dataPadTooBig_eq, headersPadTooBig_eq, pushPadTooBig_eq,
    headerListOver_eq, tooManyStreams_eq, settingCode_eq, ?_⟩
  intro w inc hw hi
  unfold windowUpdate refWindowUpdate
  rw [windowUpdateZero_eq]
  by_cases h0 : inc = 0
  · simp [h0, Gen.H2Limits.errCodeProtocol]
  · have hs := add_spec w (iLen inc) hw (by unfold iLen; omega)
    simp only [h0, decide_false, Bool.false_eq_true, if_false]
    cases hb : (add w (iLen inc)).2
    · have h1 := hs.1
      rw [hb] at h1
      have : w + (inc : Int) > 2147483647 := by
        by_cases c : w + (inc : Int) > 2147483647
        · exact c
        · exact absurd (h1.2 ⟨by unfold iLen at *; omega, by unfold iLen at *; omega⟩) (by simp)
      simp [this, Gen.H2Limits.errCodeFlowControl]
    · have h1 := hs.1.1 hb
      have h2 := hs.2.1 hb
      have : ¬ (w + (inc : Int) > 2147483647) := by unfold iLen at h1; omega
      simp [this, h2, iLen]

/-- **read_outcome_matches_reference**: for every frame header (type, flags, stream id, length), pad length octet, read
limit and number of buffered octets, `MFramer.ReadFrame` (size test, completeness tests and the payload parser's length,
padding and stream-id tests, in the order of the code) answers what RFC 7540 prescribes. -/
theorem read_outcome_matches_reference (limit avail : Nat) (f : Frame) :
    readOutcome limit avail f = refOutcome limit avail f :=
  Lemmas.H2Limits.readOutcome_eq_ref limit avail f

/-- **frame_size_limit_exact**: once its 9-octet header is buffered, a frame is refused with ErrFrameTooLarge iff its
PAYLOAD length exceeds the limit — whatever its type, flags, stream id or content. -/
theorem frame_size_limit_exact (limit avail : Nat) (f : Frame) (h : 9 ≤ avail) :
    readOutcome limit avail f = .tooLarge ↔ f.len > limit := by
  rw [read_outcome_matches_reference]
  unfold refOutcome
  have h9 : ¬ avail < 9 := by omega
  simp only [h9, if_false]
  by_cases b : f.len > limit
  · simp [b]
  · simp only [b, if_false]
    constructor
    · intro e
      split at e
      · cases e
      · exact absurd e (Lemmas.H2Limits.refParse_ne_tooLarge f)
    · intro e; exact e.elim

example : readOutcome 1048576 (9 + 1048576) ⟨0, 0, 1, 1048576, 0, 1⟩ = .ok 1048576 := by decide +kernel
example : readOutcome 1048576 9 ⟨0, 0, 1, 1048577, 0, 1⟩ = .tooLarge := by decide +kernel
example : readOutcome 1048576 9 ⟨0, 0, 1, 1048576, 0, 1⟩ = .again := by decide +kernel

/-- negation witness: the variant that counts the 9-octet header against the limit (`fh.Length+frameHeaderLen > maxReadSize`)
is NOT the reference predicate — it refuses a frame that fills the advertised maximum exactly. -/
theorem header_counted_variant_refuted :
    ¬ (∀ len lim : Nat, decide (iLen len + 9 > iLen lim) = true ↔ len > lim) := by
  intro h
  have := (h 1048576 1048576).1 (by decide)
  omega

/-- **advertised_is_enforced**: the values of MOSN's first SETTINGS frame (regenerated from MServerConn.Init /
MClientConn.WriteInitFrame) are the values its own framer and connection are configured with (regenerated from
NewServerConn / NewClientConn): MAX_FRAME_SIZE = the read limit after the SetMaxReadFrameSize clamp, MAX_HEADER_LIST_SIZE
= Framer.MaxHeaderListSize, MAX_CONCURRENT_STREAMS = advMaxStreams; every advertised value is valid by the rules the
server applies to its peer; the client advertises no MAX_FRAME_SIZE (RFC default 16384) and reads up to a larger limit. -/
theorem advertised_is_enforced :
    Gen.H2Limits.serverAdvertised.lookup Gen.H2Limits.settingMaxFrameSize = some (setMaxRead Gen.H2Limits.serverReadSizeArg) ∧
    Gen.H2Limits.serverAdvertised.lookup Gen.H2Limits.settingMaxHeaderListSize = some Gen.H2Limits.serverMaxHeaderListSize ∧
    Gen.H2Limits.serverAdvertised.lookup Gen.H2Limits.settingMaxConcurrentStreams = some Gen.H2Limits.serverAdvMaxStreams ∧
    (∀ p ∈ Gen.H2Limits.serverAdvertised ++ Gen.H2Limits.clientAdvertised, refSettingCode true p.1 p.2 = 0) ∧
    Gen.H2Limits.clientAdvertised.lookup Gen.H2Limits.settingMaxFrameSize = none ∧
    Gen.H2Limits.initialMaxFrameSize ≤ setMaxRead Gen.H2Limits.clientReadSizeArg ∧
    Gen.H2Limits.clientAdvertised.lookup Gen.H2Limits.settingMaxHeaderListSize = some Gen.H2Limits.clientMaxHeaderListSize := by
  decide +kernel

end limits

end MosnVerif.Props.C18
