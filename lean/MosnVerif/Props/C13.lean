import MosnVerif.Lemmas.TlsSelect
import MosnVerif.Lemmas.TlsMatch
import MosnVerif.Lemmas.TlsUpdate
import MosnVerif.Model.TlsTrust
import MosnVerif.Model.TlsConnect
import MosnVerif.Lemmas.TlsSds
import MosnVerif.Lemmas.TlsShare
import MosnVerif.Lemmas.TlsAccept
/-!
# C13 — TLS policy is enforced as configured (property theorems only)

The objects are the model of pkg/mtls in `Model/TlsSelect.lean`; `walkStep/walkFinish` (GetConfigForClient),
`getClientAuth`, `clientVerify`, `connDecision`, `requiresClientCert`, `alpnSupported` and the ClientAuthType constants
are regenerated from the Go source on every check (`Gen/TlsPolicy.lean`).  The selection code itself — `buildMatch`,
`MatchedServerName`, `MatchedALPN`, the ALPN filter of `tlsConfigTemplate` and the whole of `GetConfigForClient` — is
regenerated statement by statement (`Gen/TlsMatch.lean`); the `gen_*_eq_model` theorems below prove the model's functions
equal to the regenerated ones, so every theorem about `select` / `matchedServerName` / `buildMatch` is a theorem about
the regenerated code.
-/
namespace MosnVerif.Props.C13
open MosnVerif MosnVerif.Model.TlsSelect MosnVerif.Gen.TlsPolicy
open MosnVerif.Lemmas.TlsMatch (provs NamespacesApart certKeys)
open MosnVerif.Model.TlsMatchBase (X509 Prov)

/-! ### the model IS the regenerated selection code -/

/-- **gen_buildMatch_eq_model**: the regenerated `buildMatch` (over the context's certificate, the NextProtos the
regenerated ALPN filter of `tlsConfigTemplate` keeps, and the server_name) stores exactly the model's key set. -/
theorem gen_buildMatch_eq_model (c : Ctx) :
    Gen.TlsMatch.buildMatch [some ⟨c.cn, c.sans⟩] (Gen.TlsMatch.alpnFilter c.alpnCfg) c.serverName = buildMatch c :=
  Lemmas.TlsMatch.gen_buildMatch_eq c

/-- the regenerated `buildMatch` for ANY certificate list (certificates that do not parse are skipped), NextProtos and
server_name: which strings enter `matches`, lower-cased, never the empty string for CN / SAN / server_name. -/
theorem gen_buildMatch_keys (certs : List (Option X509)) (protos : List Name) (sn : Name) :
    Gen.TlsMatch.buildMatch certs protos sn =
      certs.flatMap certKeys ++ protos.map lower ++ (if sn.length > 0 then [lower sn] else []) :=
  Lemmas.TlsMatch.gen_buildMatch_spec certs protos sn

/-- the regenerated ALPN filter of `tlsConfigTemplate` is the model's `parseALPN`. -/
theorem gen_alpnFilter_eq_model (cfg : Name) : Gen.TlsMatch.alpnFilter cfg = parseALPN cfg :=
  Lemmas.TlsMatch.gen_alpnFilter_eq cfg

/-- **gen_matchedServerName_eq_model**: the regenerated `MatchedServerName` (lower-casing, the trailing-dot loop, the
exact lookup, the label-by-label wildcard walk) is the model's, for every key set, every string, and however much fuel
beyond their termination measures the two loops are given. -/
theorem gen_matchedServerName_eq_model (m : List Name) (sn : Name) (fuel : Nat) :
    Gen.TlsMatch.matchedServerName m sn fuel = matchedServerName m sn :=
  Lemmas.TlsMatch.gen_matchedServerName_eq m sn fuel

theorem gen_matchedALPN_eq_model (m : List Name) (protos : List Name) :
    Gen.TlsMatch.matchedALPN m protos = matchedALPN m protos :=
  Lemmas.TlsMatch.gen_matchedALPN_eq m protos

/-- **gen_select_eq_model**: the regenerated `GetConfigForClient` (whole function: the provider loop with its `Ready()`
test, default / server-name / ALPN bookkeeping, the early return, and the tail), run on the providers of the contexts
`ps` (position, readiness, regenerated key set), is the model's `select`. -/
theorem gen_select_eq_model (ps : List Ctx) (sni : Name) (protos : List Name) (fuel : Nat) :
    Gen.TlsMatch.getConfigForClient (provs ps 0) sni protos fuel = select ps sni protos :=
  Lemmas.TlsMatch.gen_select_eq ps sni protos fuel

/-- **select_precedence**: for EVERY provider list and EVERY ClientHello (SNI, ALPN list), `GetConfigForClient` returns
the first ready provider whose match set matches the SNI, else the first ready provider whose match set contains a
client ALPN entry, else the first ready provider, else `ErrorNoCertConfigure`. -/
theorem select_precedence (ps : List Ctx) (sni : Name) (protos : List Name) :
    select ps sni protos =
      ofOpt (orElse' (ps.findIdx? (fun c => c.ready && c.sniMatch sni))
        (orElse' (ps.findIdx? (fun c => c.ready && c.alpnMatch protos)) (ps.findIdx? (fun c => c.ready)))) := by
  unfold select
  rw [walk_eq, pick_eq_ofOpt]
  simp [orElse']

/-- `select_precedence` spelled out over the regenerated functions only: the regenerated `GetConfigForClient` returns the
first ready context whose regenerated key set (regenerated `buildMatch` over the regenerated ALPN filter) the regenerated
`MatchedServerName` accepts for the SNI, else the first ready one the regenerated `MatchedALPN` accepts, else the first
ready context, else the error. -/
theorem gen_select_precedence (ps : List Ctx) (sni : Name) (protos : List Name) (fuel : Nat) :
    Gen.TlsMatch.getConfigForClient (provs ps 0) sni protos fuel =
      ofOpt (orElse'
        (ps.findIdx? (fun c => c.ready && Gen.TlsMatch.matchedServerName
          (Gen.TlsMatch.buildMatch [some ⟨c.cn, c.sans⟩] (Gen.TlsMatch.alpnFilter c.alpnCfg) c.serverName) sni fuel))
        (orElse'
          (ps.findIdx? (fun c => c.ready && Gen.TlsMatch.matchedALPN
            (Gen.TlsMatch.buildMatch [some ⟨c.cn, c.sans⟩] (Gen.TlsMatch.alpnFilter c.alpnCfg) c.serverName) protos))
          (ps.findIdx? (fun c => c.ready)))) := by
  simp only [gen_select_eq_model, select_precedence, gen_buildMatch_eq_model, gen_matchedServerName_eq_model,
    gen_matchedALPN_eq_model]
  rfl

/-- `findIdx?` is "the first": index `i` is returned iff the predicate holds at `i` and at no smaller index (core lemma,
restated so that `select_precedence` can be read without the library). -/
theorem first_means_first (ps : List Ctx) (p : Ctx → Bool) (i : Nat) :
    ps.findIdx? p = some i ↔ ∃ h : i < ps.length, p ps[i] = true ∧ ∀ j (hj : j < i), ¬ p (ps[j]'(Nat.lt_trans hj h)) = true :=
  List.findIdx?_eq_some_iff_getElem

/-- the walk never dereferences a nil provider, and fails exactly when no provider is ready. -/
theorem select_error_iff (ps : List Ctx) (sni : Name) (protos : List Name) :
    select ps sni protos ≠ Outcome.config none ∧
    (select ps sni protos = Outcome.errNoCert ↔ ∀ c ∈ ps, c.ready = false) := by
  rw [select_precedence]
  constructor
  · generalize orElse' _ _ = o; cases o <;> simp [ofOpt]
  · cases h : ps.findIdx? (fun c => c.ready) with
    | some i =>
      have hi := (List.findIdx?_eq_some_iff_getElem.mp h)
      obtain ⟨hl, hp, _⟩ := hi
      constructor
      · intro he
        generalize ps.findIdx? (fun c => c.ready && c.sniMatch sni) = s at he
        generalize ps.findIdx? (fun c => c.ready && c.alpnMatch protos) = a at he
        cases s <;> cases a <;> simp [orElse', ofOpt] at he
      · intro hall
        have := hall ps[i] (List.getElem_mem hl)
        simp [this] at hp
    | none =>
      have hn := List.findIdx?_eq_none_iff.mp h
      have hs : ps.findIdx? (fun c => c.ready && c.sniMatch sni) = none := by
        apply List.findIdx?_eq_none_iff.mpr; intro x hx; simp [hn x hx]
      have ha : ps.findIdx? (fun c => c.ready && c.alpnMatch protos) = none := by
        apply List.findIdx?_eq_none_iff.mpr; intro x hx; simp [hn x hx]
      rw [hs, ha]
      simp only [orElse', ofOpt, true_iff]
      intro c hc
      simpa using hn c hc

/-- **matched_server_name**: `MatchedServerName` over ANY match set and ANY SNI string: true iff the lower-cased SNI
without trailing dots is in the set ("exact"), or for some dot of it the string `*.` + (what follows that dot) is in the
set ("some wildcard-label generalisation": a non-empty run of leading labels replaced by one `*`). -/
theorem matched_server_name (m : List Name) (sn : Name) :
    matchedServerName m sn = true ↔
      normSni sn ∈ m ∨ ∃ pre suf, normSni sn = pre ++ '.' :: suf ∧ ('*' :: '.' :: suf) ∈ m :=
  matchedServerName_iff m sn

/-- `MatchedALPN`: true iff some client entry, lower-cased, is in the set. -/
theorem matched_alpn (m : List Name) (protos : List Name) :
    matchedALPN m protos = true ↔ ∃ q ∈ protos, lower q ∈ m :=
  matchedALPN_iff m protos

/-- **select_statement**: the FULL statement of the property for the regenerated `GetConfigForClient`: for EVERY ordered
list of contexts (any certificate names incl. empty and wildcard ones, any alpn / server_name strings, any readiness)
and EVERY ClientHello, the context that answers is the first ready context whose certificate names or server_name
match the SNI exactly or by wildcard label, else the first ready context whose ALPN list intersects the client's, else
the first ready context (else ErrorNoCertConfigure) — `specSelect`, written with separate name and ALPN namespaces —
under the single hypothesis `NamespacesApart`: "no configured name equals an ALPN token and vice versa" as far as this
ClientHello can tell (the SNI is not an ALPN token of a ready context, no offered ALPN entry is a name of a ready
context).  Without it the statement FAILS (MOSN keeps names and ALPN tokens in ONE set): recorded finding, key `xns`,
machine-checked witnesses `select_statement_exception_*` below. -/
theorem select_statement (ps : List Ctx) (sni : Name) (protos : List Name) (fuel : Nat)
    (hns : NamespacesApart ps sni protos) :
    Gen.TlsMatch.getConfigForClient (provs ps 0) sni protos fuel = ofOpt (specSelect ps sni protos) := by
  rw [gen_select_eq_model, select_precedence]
  unfold specSelect
  rw [findIdx?_congr ps (fun c => c.ready && c.sniMatch sni) (fun c => c.ready && nameRule c sni),
    findIdx?_congr ps (fun c => c.ready && c.alpnMatch protos) (fun c => c.ready && alpnRule c protos)]
  · intro c hc
    cases hr : c.ready
    · rfl
    · simp only [Bool.true_and]; exact alpnMatch_eq_alpnRule c protos (hns c hc hr).2
  · intro c hc
    cases hr : c.ready
    · rfl
    · simp only [Bool.true_and]; exact sniMatch_eq_nameRule c sni (hns c hc hr).1

/-- the exception, machine-checked (1): an SNI equal to an ALPN token selects the context offering that token although
no name matches and the client offers no ALPN — the statement selects the first ready context. -/
theorem select_statement_exception_sni_is_token :
    ∃ ps sni protos, ¬ NamespacesApart ps sni protos ∧
      Gen.TlsMatch.getConfigForClient (provs ps 0) sni protos 0 ≠ ofOpt (specSelect ps sni protos) :=
  ⟨[⟨true, "c.net".toList, [], [], []⟩, ⟨true, "a.com".toList, ["*.a.com".toList], "h2".toList, []⟩], "h2".toList, [],
    by decide, by decide⟩

/-- the exception, machine-checked (2): a client ALPN entry equal to a certificate name counts as an ALPN intersection. -/
theorem select_statement_exception_proto_is_name :
    ∃ ps sni protos, ¬ NamespacesApart ps sni protos ∧
      Gen.TlsMatch.getConfigForClient (provs ps 0) sni protos 0 ≠ ofOpt (specSelect ps sni protos) :=
  ⟨[⟨true, "c.net".toList, [], [], []⟩, ⟨true, "a.com".toList, ["*.a.com".toList], "h2".toList, []⟩], "zzz".toList,
    ["a.com".toList], by decide, by decide⟩

/-- **wildcard_labels** (MOSN's wildcard semantics, over the regenerated walk, for ALL suffixes and ALL host strings):
a key `*.suffix` matches the host h iff h (lower-cased, trailing dots removed) is `l₁.l₂.….lₖ.suffix` with k ≥ 1
dot-free labels — ONE OR MORE labels (RFC 6125 allows exactly one; MOSN walks every label boundary). -/
theorem wildcard_labels (suf h : Name) (fuel : Nat) :
    Gen.TlsMatch.matchedServerName ['*' :: '.' :: suf] h fuel = true ↔
      ∃ ls : List Name, ls ≠ [] ∧ (∀ l ∈ ls, '.' ∉ l) ∧ normSni h = joinDot (ls ++ [suf]) := by
  rw [gen_matchedServerName_eq_model, matchedServerName_iff]
  simp only [List.mem_singleton, List.cons.injEq, true_and]
  constructor
  · rintro (he | ⟨pre, suf', e, hs⟩)
    · exact ⟨[['*']], by simp, by simp, by rw [he]; rfl⟩
    · subst hs
      refine ⟨splitOn '.' pre, splitOn_ne_nil _ _, Lemmas.TlsMatch.splitOn_no_sep '.' pre, ?_⟩
      rw [Lemmas.TlsMatch.joinDot_append_singleton _ _ (splitOn_ne_nil _ _), joinDot_splitOn, e]
  · rintro ⟨ls, hne, _, e⟩
    rw [Lemmas.TlsMatch.joinDot_append_singleton _ _ hne] at e
    exact Or.inr ⟨joinDot ls, suf, e, rfl⟩

/-- never a partial label, never the bare suffix: if the host is `pre ++ suffix` where `pre` does not end in a dot
(`pre` empty = the bare suffix; `xa.com` against `*.a.com`), the key `*.suffix` does not match it. -/
theorem wildcard_never_inside_a_label (suf pre h : Name) (fuel : Nat) (e : normSni h = pre ++ suf)
    (hp : ¬ ∃ p, pre = p ++ ['.']) :
    Gen.TlsMatch.matchedServerName ['*' :: '.' :: suf] h fuel = false := by
  rw [Bool.eq_false_iff, Ne, gen_matchedServerName_eq_model, matchedServerName_iff]
  simp only [List.mem_singleton, List.cons.injEq, true_and]
  rintro (he | ⟨pre', suf', e', hs⟩)
  · rw [e] at he
    have : pre ++ suf = ['*', '.'] ++ suf := he
    exact hp ⟨['*'], List.append_cancel_right this⟩
  · subst hs
    rw [e] at e'
    have : pre ++ suf' = (pre' ++ ['.']) ++ suf' := by simpa using e'
    exact hp ⟨pre', List.append_cancel_right this⟩

theorem wildcard_never_bare_suffix (suf h : Name) (fuel : Nat) (e : normSni h = suf) :
    Gen.TlsMatch.matchedServerName ['*' :: '.' :: suf] h fuel = false :=
  wildcard_never_inside_a_label suf [] h fuel (by simpa using e) (by rintro ⟨p, hp⟩; simp at hp)

/-- **client_auth_table**: verify_client / require_client_cert ↦ tls.ClientAuthType, all four combinations, with the
numeric values of crypto/tls. -/
theorem client_auth_table (req ver : Bool) : getClientAuth req ver = specClientAuth req ver := by
  cases req <;> cases ver <;> decide

/-- the handshake is mutually authenticated (RequireAndVerifyClientCert) iff both flags are set. -/
theorem require_and_verify_iff (req ver : Bool) :
    getClientAuth req ver = RequireAndVerifyClientCert ↔ (req = true ∧ ver = true) := by
  cases req <;> cases ver <;> decide

/-- **server_trust_table**: with the regenerated table, `requiresClientCert` and the thresholds of the forked handshake,
the server-side handshake result for every flag combination and every peer kind is the statement's. -/
theorem server_trust_table (req ver : Bool) (p : Peer) :
    serverAccepts (getClientAuth req ver) p = specServerAccepts req ver p := by
  cases req <;> cases ver <;> cases p <;> decide

/-- **mutual_tls**: with verify_client and require_client_cert the handshake succeeds only for a peer that presents a
certificate chaining to the configured CA and proves possession of its key. -/
theorem mutual_tls (p : Peer) : serverAccepts (getClientAuth true true) p = true ↔ p = Peer.rightCA := by
  cases p <;> decide

/-- **client_verify**: on the client side verification is skipped (InsecureSkipVerify without a verify hook) iff
`insecure_skip` is set — whatever the extension hook returns. -/
theorem client_verify (hookVerify insecureSkip : Bool) :
    verifySkipped (clientVerify hookVerify insecureSkip) = insecureSkip := by
  cases hookVerify <;> cases insecureSkip <;> decide

/-- **upstream_verified**: with the default hooks an upstream handshake succeeds iff insecure_skip is set, or a
server_name is configured and the upstream certificate chains to the configured CA for that name. -/
theorem upstream_verified (insecureSkip serverNameSet : Bool) (s : ServerCert) (hookOK : Bool) :
    clientAccepts false insecureSkip serverNameSet s hookOK = true ↔
      (insecureSkip = true ∨ (serverNameSet = true ∧ s = ServerCert.rightCA)) := by
  cases insecureSkip <;> cases serverNameSet <;> cases s <;> cases hookOK <;> decide

/-- **inspector**: on a TCP connection of a TLS-enabled listener whose first byte `b` was read, plaintext is served iff
inspector mode is on and `b ≠ 0x16`; otherwise a TLS server connection is returned. For every byte value. -/
theorem inspector (insp : Bool) (b : Nat) :
    (servesPlain (connDecision true true insp false b) = true ↔ (insp = true ∧ b ≠ 0x16)) ∧
    (servesPlain (connDecision true true insp false b) = false →
      connDecision true true insp false b = ConnResult.tls ∨ connDecision true true insp false b = ConnResult.tlsPeeked) := by
  cases insp <;> by_cases h : b = 0x16 <;> simp [connDecision, servesPlain, h]

/-- without inspector mode an enabled listener never serves plaintext on a TCP connection, whatever arrives. -/
theorem no_plaintext_without_inspector (peekFailed : Bool) (b : Nat) :
    servesPlain (connDecision true true false peekFailed b) = false := by
  simp [connDecision, servesPlain]

/-- **spec_holds_on_model**: the executable predicates the driver evaluates on implementation outputs hold of the
model's outputs, for every input (`auth`, `trust`, `cv`; `trustc` for a ready provider; `insp` for a listener that is
either TCP with a ready context or in inspector mode — see `plaintext_only_when_inspector_allows` and its exceptions); for
`sel`/`hs`/`msn`/`mal` this is `select_statement` under `NamespacesApart`. -/
theorem spec_holds_on_model :
    (∀ req ver, getClientAuth req ver = specClientAuth req ver) ∧
    (∀ req ver p, serverAccepts (getClientAuth req ver) p = specServerAccepts req ver p) ∧
    (∀ hook ins, specCv hook ins (clientVerify hook ins) = true) ∧
    (∀ hook ins sn s hok, clientAccepts hook ins sn s hok = specClientAccepts hook ins sn s hok) ∧
    (∀ hook ins sn s hok, specClientConn hook ins sn s hok (clientConn true hook ins sn s hok) = true) ∧
    (∀ tcp cfgd en ins pf b, (en = true → cfgd = true) → (cfgd = true → (tcp = true ∧ en = true) ∨ ins = true) →
      specConn tcp cfgd en ins pf b (connDecision tcp en ins pf b) = true) := by
  refine ⟨client_auth_table, server_trust_table, ?_, ?_, ?_, ?_⟩
  · intro hook ins; cases hook <;> cases ins <;> decide
  · intro hook ins sn s hok; cases hook <;> cases ins <;> cases sn <;> cases s <;> cases hok <;> decide
  · intro hook ins sn s hok; cases hook <;> cases ins <;> cases sn <;> cases s <;> cases hok <;> decide
  · intro tcp cfgd en ins pf b h1 h2
    cases tcp <;> cases cfgd <;> cases en <;> cases ins <;> cases pf <;> by_cases h : b = 22 <;>
      simp_all [connDecision, specConn, servesPlain, specPlain]

/-- **plaintext_only_when_inspector_allows**: the FULL statement "plaintext is served on a TLS listener only when inspector
mode allows it", for every connection of a listener with TLS contexts, every inspector flag, every outcome of the peek
and every first byte — under the one hypothesis `ReadyTcp` (the connection is TCP and some context is ready): plaintext
is served iff inspector mode is on, the first byte could be read and is not 0x16; and the driver's predicate `specConn`
holds of the regenerated decision. Outside `ReadyTcp` lie the two recorded findings (no context ready: sds secret
pending; transport not TCP), machine-checked in `plaintext_exception_pending` / `plaintext_exception_not_tcp`. -/
theorem plaintext_only_when_inspector_allows (tcp en ins pf : Bool) (b : Nat) (h : ReadyTcp tcp en) :
    (servesPlain (connDecision tcp en ins pf b) = true ↔ (ins = true ∧ pf = false ∧ b ≠ 0x16)) ∧
    specConn tcp true en ins pf b (connDecision tcp en ins pf b) = true := by
  obtain ⟨ht, he⟩ := h
  subst ht; subst he
  cases ins <;> cases pf <;> by_cases hb : b = 22 <;> simp [connDecision, servesPlain, specConn, specPlain, hb]

/-- what `Conn` does outside `ReadyTcp` (the code, described completely): the connection is returned untouched. -/
theorem passthrough_outside_ready_tcp (tcp en ins pf : Bool) (b : Nat) (h : ¬ ReadyTcp tcp en) :
    connDecision tcp en ins pf b = ConnResult.raw := by
  unfold ReadyTcp at h
  cases tcp <;> cases en <;> simp_all [connDecision]

/-- the exception, machine-checked (1): a listener with TLS contexts whose contexts are all pending serves plaintext on a
TCP connection although inspector mode is off (finding `insp … pending`). -/
theorem plaintext_exception_pending :
    ∃ tcp en ins pf b, ¬ ReadyTcp tcp en ∧ tcp = true ∧ ins = false ∧ servesPlain (connDecision tcp en ins pf b) = true ∧
      specConn tcp true en ins pf b (connDecision tcp en ins pf b) = false :=
  ⟨true, false, false, false, 0x47, by decide, rfl, rfl, by decide, by decide⟩

/-- the exception, machine-checked (2): on a transport that is not TCP plaintext is served with a ready context and
inspector mode off (finding `insp … nontcp`). -/
theorem plaintext_exception_not_tcp :
    ∃ tcp en ins pf b, ¬ ReadyTcp tcp en ∧ en = true ∧ ins = false ∧ servesPlain (connDecision tcp en ins pf b) = true ∧
      specConn tcp true en ins pf b (connDecision tcp en ins pf b) = false :=
  ⟨false, true, false, false, 0x47, by decide, rfl, rfl, by decide, by decide⟩

/-- **upstream_tls_unless_pending**: the upstream side of the same clause: with a ready provider the upstream connection is
never left in plaintext and succeeds exactly per the statement's table; the exception (provider pending: plaintext,
finding `trustc pending`) is machine-checked in `upstream_exception_pending`. -/
theorem upstream_tls_unless_pending (hook ins sn : Bool) (s : ServerCert) (hok : Bool) :
    clientConn true hook ins sn s hok ≠ ClientResult.notls ∧
    specClientConn hook ins sn s hok (clientConn true hook ins sn s hok) = true := by
  cases hook <;> cases ins <;> cases sn <;> cases s <;> cases hok <;> decide

theorem upstream_exception_pending :
    ∃ hook ins sn s hok, clientConn false hook ins sn s hok = ClientResult.notls ∧
      specClientConn hook ins sn s hok (clientConn false hook ins sn s hok) = false :=
  ⟨false, false, true, .selfSigned, false, by decide, by decide⟩

def exA : Ctx := ⟨true, "a.com".toList, ["*.a.com".toList], "h2".toList, []⟩
def exB : Ctx := ⟨true, [], ["b.org".toList], "http/1.1,h2".toList, "b.org".toList⟩
def exN : Ctx := ⟨false, "n.io".toList, [], [], []⟩

/-! ### listener updates: the policy in force is the last accepted configuration's

`Gen.TlsUpdate` (regenerated from `connHandler.AddOrUpdateListener`, `newActiveListener` and
`NewTLSServerContextManager`) says which expression supplies the name, the inspector flag and the TLS contexts of the
configuration the replacement context manager is built from, what is written into the stored configuration, and
whether the manager is installed. -/
section Update
open MosnVerif.Model.TlsUpdate MosnVerif.Gen.TlsUpdate

/-- **update_policy_current**: after ANY sequence of AddOrUpdateListener calls for one listener name (accepted or
rejected, any inspector flags, any context lists) the listener exists iff some call was accepted, its stored
configuration is the last accepted call's, and its LIVE context manager is the one `NewTLSServerContextManager` builds
from exactly that configuration: inspector flag and provider list are those of the last accepted update. -/
theorem update_policy_current (ops : List Op) (n : String) (hn : ∀ op ∈ ops, op.lc.name = n) :
    run ops = (lastAccepted ops).map (fun lc => (⟨lc, newManager lc⟩ : LState)) := by
  have h := foldl_apply_coherent n ops hn none (by intro lc h; cases h)
  rw [specLast_eq] at h
  simp only [Option.map_none, Option.or_none] at h
  exact h

/-- the live manager's inspector flag and provider list, spelled out. -/
theorem update_live_fields (ops : List Op) (n : String) (hn : ∀ op ∈ ops, op.lc.name = n) (st : LState)
    (h : run ops = some st) :
    ∃ lc, lastAccepted ops = some lc ∧ st.stored = lc ∧ st.live.inspector = lc.inspector ∧
      st.live.providers = lc.contexts ∧ st.live.name = n := by
  rw [update_policy_current ops n hn] at h
  cases hl : lastAccepted ops with
  | none => simp [hl] at h
  | some lc =>
    simp only [hl, Option.map_some, Option.some.injEq] at h
    subst h
    refine ⟨lc, rfl, rfl, rfl, rfl, ?_⟩
    -- the last accepted call is one of the calls, all of which carry the name n
    have hm : ∃ op ∈ ops, op.lc = lc := by
      simp only [lastAccepted] at hl
      cases hg : (ops.filter (·.buildOk)).getLast? with
      | none => simp [hg] at hl
      | some op =>
        simp only [hg, Option.map_some, Option.some.injEq] at hl
        exact ⟨op, (List.mem_filter.mp (List.mem_of_getLast? hg)).1, hl⟩
    obtain ⟨op, hop, he⟩ := hm
    simpa [newManager, he] using hn op hop

/-- a rejected call (its context manager cannot be built) changes nothing, whatever it carries. -/
theorem rejected_update_no_trace (s : Option LState) (lc : LCfg) : apply s ⟨lc, false⟩ = s := by
  cases s <;> rfl

/-- **inspector_current**: hence the `inspector` theorem applies to the CURRENT policy: after any sequence of calls, on
a listener whose last accepted configuration has a ready context, plaintext is served on a TCP connection with first
byte `b` iff that configuration's inspector flag is set and `b ≠ 0x16` — never the flag of a configuration that was
replaced. -/
theorem inspector_current (ops : List Op) (n : String) (hn : ∀ op ∈ ops, op.lc.name = n) (lc : LCfg)
    (hl : lastAccepted ops = some lc) (hen : lc.contexts.any (·.2.ready) = true) (b : Nat) :
    ∃ st, run ops = some st ∧ st.stored = lc ∧
      (servesPlain (st.conn b) = true ↔ (lc.inspector = true ∧ b ≠ 0x16)) := by
  refine ⟨⟨lc, newManager lc⟩, ?_, rfl, ?_⟩
  · rw [update_policy_current ops n hn, hl]; rfl
  · have he : (newManager lc).enabled = true := by simpa [Manager.enabled, newManager] using hen
    have hi : (newManager lc).inspector = lc.inspector := by cases lc; rfl
    simp only [LState.conn, he, hi]
    exact (inspector lc.inspector b).1

/-- **certificate_current**: the context answering a ClientHello after any sequence of calls is the one
`select_precedence` picks among the contexts of the last accepted configuration. -/
theorem certificate_current (ops : List Op) (n : String) (hn : ∀ op ∈ ops, op.lc.name = n) (st : LState)
    (h : run ops = some st) (sni : Name) (protos : List Name) :
    ∃ lc, lastAccepted ops = some lc ∧ st.select sni protos = select (lc.contexts.map (·.2)) sni protos := by
  obtain ⟨lc, hl, _, _, hp, _⟩ := update_live_fields ops n hn st h
  exact ⟨lc, hl, by simp [LState.select, hp]⟩

/-- **upd_spec_holds_on_model**: the predicate the driver evaluates on `upd` lines (plaintext served iff the last
accepted configuration has no ready context or allows it by inspector mode; stored inspector flag and context count are
the last accepted configuration's) holds of the model's listener, for every call sequence and first byte. -/
theorem upd_spec_holds_on_model (ops : List Op) (n : String) (hn : ∀ op ∈ ops, op.lc.name = n) (st : LState)
    (h : run ops = some st) (b : Nat) :
    ∃ lc, specLast none ops = some lc ∧ servesPlain (st.conn b) = specPlainServed lc b ∧
      st.stored.inspector = lc.inspector ∧ st.stored.contexts.length = lc.contexts.length := by
  obtain ⟨lc, hl, hs, hi, hp, _⟩ := update_live_fields ops n hn st h
  refine ⟨lc, by rw [specLast_eq, hl]; rfl, ?_, by rw [hs], by rw [hs]⟩
  simp only [LState.conn, Manager.enabled, hi, hp, specPlainServed]
  cases lc.contexts.any (·.2.ready) <;> cases lc.inspector <;> by_cases hb : b = 22 <;>
    simp [connDecision, servesPlain, hb]

/-! resumption: the second handshake is judged by the trust table on the peer class as it is NOW (tied to the forked
crypto/tls differentially only — kind `res`) -/

/-- **resumed_trust_table**: for every flag combination, every change between the two handshakes and every peer kind
the model's verdict on the second handshake is the statement's trust table applied to the current peer class. -/
theorem resumed_trust_table (req ver : Bool) (ch : Change) (p : Peer) :
    secondAccepts (getClientAuth req ver) ch p = specServerAccepts req ver (peerAfter ch p) :=
  server_trust_table req ver (peerAfter ch p)

/-- **mutual_tls_resumed**: with verify_client and require_client_cert a second handshake — abbreviated or full —
succeeds only for a certificate that chains to the configured CA and is valid NOW. -/
theorem mutual_tls_resumed (ch : Change) (p : Peer) :
    secondAccepts (getClientAuth true true) ch p = true ↔ peerAfter ch p = Peer.rightCA :=
  mutual_tls (peerAfter ch p)

/-- a certificate accepted by the full handshake is refused afterwards once it expired or the CA was replaced, under
both verifying modes. -/
theorem expiry_and_ca_swap_revoke (req : Bool) :
    serverAccepts (getClientAuth req true) Peer.rightCA = true ∧
    secondAccepts (getClientAuth req true) Change.clock Peer.rightCA = false ∧
    secondAccepts (getClientAuth req true) Change.caSwap Peer.rightCA = false := by
  cases req <;> decide

-- non-vacuity: a three-call history with a rejected call in the middle
def exL (i : Bool) (t : Nat) : LCfg := ⟨"l", i, [(t, exA), (t, exB)]⟩
example : (∀ op ∈ [(⟨exL true 0, true⟩ : Op), ⟨exL false 1, false⟩, ⟨exL false 2, true⟩], op.lc.name = "l") := by decide
example : lastAccepted [⟨exL true 0, true⟩, ⟨exL false 1, false⟩, ⟨exL false 2, true⟩] = some (exL false 2) := by decide
example : (run [⟨exL true 0, true⟩, ⟨exL false 1, false⟩, ⟨exL false 2, true⟩]).map (fun st => servesPlain (st.conn 0x47)) = some false := by decide
example : (run [⟨exL true 0, true⟩, ⟨exL false 1, false⟩]).map (fun st => servesPlain (st.conn 0x47)) = some true := by decide
example : (run [⟨exL true 0, true⟩, ⟨exL false 2, true⟩]).bind (fun st => st.presented "b.org".toList []) = some (2, 1) := by decide
-- what a manager lagging one update behind would do (inspector read from the replaced configuration): it differs
example : servesPlain (connDecision true true (exL true 0).inspector false 0x47) ≠
    servesPlain (connDecision true true (exL false 1).inspector false 0x47) := by decide
example : peerAfter .clock .rightCA = .expired ∧ peerAfter .caSwap .otherCA = .rightCA ∧
    secondAccepts (getClientAuth true true) .caSwap .otherCA = true := by decide

end Update

/-! ### trust anchors: a configured ca_cert is the ONLY anchor

`Gen.TlsPool` (regenerated from `defaultConfigHooks.GetX509Pool` and `newTLSContext`) says what the pool starts from
(`x509.NewCertPool` / `x509.SystemCertPool`), what is appended to it, whether an unconfigured ca_cert yields a nil pool,
and which pool is installed as `RootCAs` / `ClientCAs`. `sys` = the content of the host's root store, `cfg` = the
authorities of the configured ca_cert — both arbitrary. -/
section Trust
open MosnVerif.Model.TlsTrust MosnVerif.Gen.TlsPool

/-- the anchors of a pool of ANY shape (base constructor, appended items), for a configured ca_cert: an authority is an
anchor iff the base is the system pool and the host's store lists it, or the configured certificates are appended and
it is one of them. -/
theorem pool_anchor_iff (nw : Bool) (base : Base) (items : List Item) (sys cfg : List CA) (ca : CA) (h : cfg ≠ []) :
    ca ∈ effective (poolOf nw base items sys cfg) sys ↔
      ((base = Base.system ∧ ca ∈ sys) ∨ (Item.configured ∈ items ∧ ca ∈ cfg)) := by
  have hc : cfg.isEmpty = false := by cases cfg <;> simp_all
  have hx : (∃ x, x ∈ items) ↔ Item.configured ∈ items :=
    ⟨fun ⟨x, hx⟩ => by cases x; exact hx, fun h => ⟨_, h⟩⟩
  cases base <;> simp [poolOf, hc, effective, List.mem_flatMap, hx]

/-- **trust_exact**: for EVERY content of the host's root store and EVERY configured set of authorities (ca_cert
present), in both directions (a listener verifying clients: `ClientCAs`; a cluster verifying its upstream: `RootCAs`),
an authority is a trust anchor iff it is one of the CONFIGURED ones. -/
theorem trust_exact (sys cfg : List CA) (ca : CA) (h : cfg ≠ []) :
    (ca ∈ listenerAnchors sys cfg ↔ ca ∈ cfg) ∧ (ca ∈ upstreamAnchors sys cfg ↔ ca ∈ cfg) := by
  have hc : cfg.isEmpty = false := by cases cfg <;> simp_all
  simp [listenerAnchors, upstreamAnchors, fieldOf, clientCAsSrc, rootCAsSrc, hookPool, poolOf,
    poolNilWhenUnconfigured, poolBase, poolItems, effective, hc]

/-- without a ca_cert the pool is nil and crypto/x509 uses the host's root store (what newTLSContext documents). -/
theorem unconfigured_uses_host_store (sys : List CA) :
    listenerAnchors sys [] = sys ∧ upstreamAnchors sys [] = sys := by
  simp [listenerAnchors, upstreamAnchors, fieldOf, clientCAsSrc, rootCAsSrc, hookPool, poolOf,
    poolNilWhenUnconfigured, effective]

/-- **listener_trust_exact**: with verify_client and require_client_cert and a configured ca_cert a handshake succeeds
iff the peer presents a certificate that was issued by a CONFIGURED authority, is currently valid, and whose key the
peer holds — whatever the host's root store contains. -/
theorem listener_trust_exact (sys cfg : List CA) (p : Option Cert) (h : cfg ≠ []) :
    listenerAccepts sys cfg true true p = true ↔
      ∃ c, p = some c ∧ c.issuer ∈ cfg ∧ c.expired = false ∧ c.possession = true := by
  have ha : ∀ ca, ca ∈ listenerAnchors sys cfg ↔ ca ∈ cfg := fun ca => (trust_exact sys cfg ca h).1
  cases p with
  | none => simp [listenerAccepts, serverAccepts2, getClientAuth, RequestClientCert, RequireAndVerifyClientCert,
      requiresClientCert, RequireAnyClientCert]
  | some c =>
    simp only [listenerAccepts, serverAccepts2, getClientAuth, RequestClientCert, RequireAndVerifyClientCert,
      VerifyClientCertIfGiven, chainOK, Option.some.injEq, exists_eq_left']
    simp
    grind

/-- **upstream_trust_exact**: with the default hooks, insecure_skip off and a configured ca_cert an upstream handshake
succeeds iff a server_name is configured and the upstream's certificate was issued by a CONFIGURED authority, is valid
and carries that name — whatever the host's root store contains. -/
theorem upstream_trust_exact (sys cfg : List CA) (sn : Bool) (s : SCert) (h : cfg ≠ []) :
    upstreamAccepts sys cfg false false sn s = true ↔
      (sn = true ∧ s.cert.issuer ∈ cfg ∧ s.cert.expired = false ∧ s.nameOK = true) := by
  have ha : ∀ ca, ca ∈ upstreamAnchors sys cfg ↔ ca ∈ cfg := fun ca => (trust_exact sys cfg ca h).2
  simp [upstreamAccepts, clientAccepts2, clientVerify, chainOK, ha]
  grind

/-- **trust_spec_holds_on_model**: the predicates the driver evaluates on `trust2` / `trustc2` lines (the statement's
trust tables over arbitrary stores and configured sets, the sni_verify extension included) hold of the model, for every
store, configured set (present or not), flag combination and peer. -/
theorem trust_spec_holds_on_model (sys cfg : List CA) :
    (∀ req ver p, listenerAccepts sys cfg req ver p = specListenerAccepts sys cfg req ver p) ∧
    (∀ hook ins sn s, upstreamAccepts sys cfg hook ins sn s = specUpstreamAccepts sys cfg hook ins sn s) := by
  have hl : listenerAnchors sys cfg = specAnchors sys cfg := by
    cases cfg <;> simp [listenerAnchors, fieldOf, clientCAsSrc, hookPool, poolOf, poolNilWhenUnconfigured, poolBase,
      poolItems, effective, specAnchors]
  have hu : upstreamAnchors sys cfg = specAnchors sys cfg := by
    cases cfg <;> simp [upstreamAnchors, fieldOf, rootCAsSrc, hookPool, poolOf, poolNilWhenUnconfigured, poolBase,
      poolItems, effective, specAnchors]
  constructor
  · intro req ver p
    cases req <;> cases ver <;> cases p <;>
      simp [listenerAccepts, serverAccepts2, hl, specListenerAccepts, specTrusted, chainOK, getClientAuth,
        RequestClientCert, RequireAndVerifyClientCert, VerifyClientCertIfGiven, NoClientCert, requiresClientCert,
        RequireAnyClientCert]
  · intro hook ins sn s
    cases hook <;> cases ins <;> cases sn <;>
      simp [upstreamAccepts, clientAccepts2, hu, specUpstreamAccepts, specTrusted, chainOK, clientVerify]

/-- **system_base_leaks** (the negation, for the OTHER base constructor): a pool that starts from the system pool and
appends the configured certificates trusts every authority of the host's store, configured or not. -/
theorem system_base_leaks (sys cfg : List CA) (ca : CA) (h : ca ∈ sys) :
    ca ∈ effective (poolOf true Base.system [Item.configured] sys cfg) sys := by
  cases cfg <;> simp [poolOf, effective, h]

-- non-vacuity: store {3}, configured {0, 1}; authority 2 is private and not configured, 9 = a self-signed certificate
example : ([0, 1] : List CA) ≠ [] := by decide
example : listenerAnchors [3] [0, 1] = [0, 1] ∧ upstreamAnchors [3] [0] = [0] ∧ listenerAnchors [3] [] = [3] := by decide
example : listenerAccepts [3] [0, 1] true true (some ⟨1, false, true⟩) = true ∧
    listenerAccepts [3] [0, 1] true true (some ⟨3, false, true⟩) = false ∧
    listenerAccepts [3] [0, 1] true true (some ⟨0, true, true⟩) = false ∧
    listenerAccepts [3] [0, 1] true true (some ⟨0, false, false⟩) = false ∧
    listenerAccepts [3] [0, 1] false true none = true ∧
    listenerAccepts [3] [] true true (some ⟨3, false, true⟩) = true := by decide
example : upstreamAccepts [3] [0] false false true ⟨⟨0, false, true⟩, true, false⟩ = true ∧
    upstreamAccepts [3] [0] false false true ⟨⟨3, false, true⟩, true, false⟩ = false ∧
    upstreamAccepts [3] [0] true false false ⟨⟨0, false, true⟩, false, true⟩ = true ∧
    upstreamAccepts [3] [0] true false false ⟨⟨3, false, true⟩, false, true⟩ = false := by decide
-- NEGATION WITNESS: with the system pool as the base, authority 3 of the host's store is an anchor of a context whose
-- ca_cert configures authority 0 only — `trust_exact` fails for that shape
example : ∃ sys cfg ca, cfg ≠ [] ∧ ca ∈ effective (poolOf true Base.system [Item.configured] sys cfg) sys ∧ ca ∉ cfg :=
  ⟨[3], [0], 3, by decide⟩
example : serverAccepts2 (getClientAuth true true) (effective (poolOf true Base.system [Item.configured] [3] [0]) [3])
    (some ⟨3, false, true⟩) = true := by decide

end Trust

/-! ### non-vacuity and the machine-checked witnesses of the shared-namespace discrepancy -/


-- the hypothesis of `select_statement` is satisfiable by a non-trivial case (wildcard match on the 2nd rule, a context
-- with an EMPTY SAN in the list)
def exE : Ctx := ⟨true, [], [[], "e.org".toList], [], []⟩
example : NamespacesApart [exN, exE, exB, exA] "x.y.A.com.".toList ["h2".toList] := by decide
example : Gen.TlsMatch.getConfigForClient (provs [exN, exE, exB, exA] 0) "x.y.A.com.".toList ["h2".toList] 0 = .config (some 3) := by decide
example : select [exN, exB, exA] "x.y.A.com.".toList ["h2".toList] = .config (some 2) := by decide
example : select [exN, exB, exA] "c.net".toList ["h2".toList] = .config (some 1) := by decide   -- ALPN rule
example : select [exN, exB, exA] "c.net".toList [] = .config (some 1) := by decide              -- default skips the non-ready
example : select [exN] "n.io".toList [] = .errNoCert := by decide
-- an SNI-less ClientHello falls to the ALPN rule / default (after the fixes of the empty server_name / empty SAN keys)
example : select [exA, exB] [] ["http/1.1".toList] = .config (some 1) := by decide
example : select [exE, exA, exB] [] ["http/1.1".toList] = .config (some 2) := by decide
example : buildMatch exE = ["e.org".toList] := by decide
-- the regenerated buildMatch: which strings enter `matches` (lower-cased; unsupported ALPN tokens and empty names never)
example : Gen.TlsMatch.buildMatch [some ⟨"Cn.X".toList, ["A.b".toList, [], "*.C".toList]⟩, none] (Gen.TlsMatch.alpnFilter "H2,bogus,,sofa".toList) "Sn".toList =
    ["cn.x", "a.b", "*.c", "h2", "sofa", "sn"].map String.toList := by decide
-- wildcard_labels instances: one OR MORE labels, empty labels count, never the bare suffix, never a partial label
example : Gen.TlsMatch.matchedServerName ["*.a.com".toList] "x.a.com".toList 0 = true ∧
    Gen.TlsMatch.matchedServerName ["*.a.com".toList] "y.x.A.COM..".toList 0 = true ∧
    Gen.TlsMatch.matchedServerName ["*.a.com".toList] ".a.com".toList 0 = true ∧
    Gen.TlsMatch.matchedServerName ["*.a.com".toList] "*.a.com".toList 0 = true ∧
    Gen.TlsMatch.matchedServerName ["*.a.com".toList] "a.com".toList 0 = false ∧
    Gen.TlsMatch.matchedServerName ["*.a.com".toList] "xa.com".toList 0 = false ∧
    Gen.TlsMatch.matchedServerName ["*.a.com".toList] "x.a.com.b".toList 0 = false := by decide
example : normSni "y.x.A.COM..".toList = joinDot (["y".toList, "x".toList] ++ ["a.com".toList]) := by decide
example : normSni "xa.com".toList = "x".toList ++ "a.com".toList ∧ ¬ ∃ p, "x".toList = p ++ ['.'] := by
  refine ⟨by decide, ?_⟩; rintro ⟨p, hp⟩; cases p <;> simp at hp
-- NEGATION WITNESS 1 (SNI = ALPN token): SNI `h2` selects the context offering ALPN h2 although no name matches and the
-- client offers no ALPN: the statement selects the first ready context
example : select [exB, exA] "h2".toList [] = .config (some 0) ∧ specSelect [⟨true, "c.net".toList, [], [], []⟩, exA] "h2".toList [] = some 0 ∧
    select [⟨true, "c.net".toList, [], [], []⟩, exA] "h2".toList [] = .config (some 1) := by decide
-- NEGATION WITNESS 2 (client ALPN entry = name): a client ALPN entry `a.com` "intersects" the context named a.com
example : specSelect [⟨true, "c.net".toList, [], [], []⟩, exA] "zzz".toList ["a.com".toList] = some 0 ∧
    select [⟨true, "c.net".toList, [], [], []⟩, exA] "zzz".toList ["a.com".toList] = .config (some 1) := by decide
example : ∃ ps sni protos, select ps sni protos ≠ ofOpt (specSelect ps sni protos) :=
  ⟨[⟨true, "c.net".toList, [], [], []⟩, exA], "h2".toList, [], by decide⟩
-- NEGATION WITNESSES of the pass-through: inspector off, TLS contexts configured, plaintext served
example : servesPlain (connDecision true false false false 0x47) = true ∧ specConn true true false false false 0x47 (connDecision true false false false 0x47) = false := by decide
example : servesPlain (connDecision false true false false 0x47) = true := by decide
example : clientConn false false false true .selfSigned false = .notls ∧ specClientConn false false true .selfSigned false .notls = false := by decide
-- client-auth / trust / verification / inspector instances
example : getClientAuth true false = RequestClientCert ∧ getClientAuth false true = VerifyClientCertIfGiven := by decide
example : serverAccepts (getClientAuth true true) .stolenKey = false ∧ serverAccepts (getClientAuth false false) .none = true := by decide
example : clientVerify true false = (true, true) ∧ clientVerify true true = (true, false) := by decide
example : connDecision true true true false 0x47 = .plainPeeked ∧ connDecision true true true false 0x16 = .tlsPeeked := by decide

/-! ## No downgrade to plaintext (upstream connect, downstream accept)

`tryConnect`, `clientMngConn`, `mngFallback`, `acceptDecision` are regenerated from pkg/network/connection.go,
pkg/mtls/tls_context_manager.go and pkg/server/handler.go (`Gen/TlsConnect.lean`); the guard of the plaintext re-dial is
rendered as a boolean expression over the manager's fallback flag and named predicates of the handshake error. -/
section NoDowngrade
open MosnVerif.Model.TlsConnect MosnVerif.Gen.TlsConnect MosnVerif.Gen.TlsPolicy

/-- **connect_meets_spec**: for every cluster TLS configuration, every handshake outcome and every outcome of the two
dials, the regenerated `tryConnect` (over the regenerated `clientContextManager.Conn` / `Fallback`) ends where the
statement says, and opens exactly the connections the statement allows. -/
theorem connect_meets_spec (c : Cfg) (hs : Hs) (d1 d2 : Bool) :
    reached (connect c hs d1 d2) = specReached c hs d1 d2 ∧ (connect c hs d1 d2).dials = specDials c hs d1 ∧
    ((connect c hs d1 d2).event = .connected ↔ specReached c hs d1 d2 ≠ .failed) := by
  cases c with | mk hm en fb =>
  cases hm <;> cases en <;> cases fb <;> cases hs <;> cases d1 <;> cases d2 <;> decide

/-- **no_downgrade_without_fallback**: for EVERY failing handshake outcome (bad certificate, alert, reset, EOF, timeout,
other), a connect ends in a plaintext connection iff the first dial succeeded and (TLS is not configured, or `fallback`
is set and the re-dial succeeded). No predicate of the error takes part. -/
theorem no_downgrade_without_fallback (c : Cfg) (hs : Hs) (d1 d2 : Bool) (hne : hs ≠ .ok) :
    reached (connect c hs d1 d2) = .plainConnected ↔
      d1 = true ∧ (c.tls = false ∨ (c.fallback = true ∧ d2 = true)) := by
  cases c with | mk hm en fb =>
  cases hm <;> cases en <;> cases fb <;> cases hs <;> cases d1 <;> cases d2 <;> first | (exact absurd rfl hne) | decide

/-- **tls_only_never_plain**: TLS configured, `fallback` off: whatever the upstream does, the connect never ends in
plaintext, MOSN dials exactly once (no second, plaintext connection is ever opened), and a failed handshake is reported
as a failed connect. -/
theorem tls_only_never_plain (c : Cfg) (htls : c.tls = true) (hfb : c.fallback = false) (hs : Hs) (d1 d2 : Bool) :
    reached (connect c hs d1 d2) ≠ .plainConnected ∧ (connect c hs d1 d2).dials = 1 ∧
    (hs ≠ .ok → (connect c hs d1 d2).failed = true ∧ (connect c hs d1 d2).event ≠ .connected) := by
  cases c with | mk hm en fb =>
  cases hm <;> cases en <;> cases fb <;> simp [Cfg.tls] at htls hfb <;>
    cases hs <;> cases d1 <;> cases d2 <;> decide

/-- **redial_guard_is_fallback**: the second (plaintext) dial happens iff the first dial succeeded, TLS is configured,
the handshake failed and the `fallback` flag of the cluster's TLS configuration is set. -/
theorem redial_guard_is_fallback (c : Cfg) (hs : Hs) (d1 d2 : Bool) :
    (connect c hs d1 d2).dials = 2 ↔ (d1 = true ∧ c.tls = true ∧ hs ≠ .ok ∧ c.fallback = true) := by
  cases c with | mk hm en fb =>
  cases hm <;> cases en <;> cases fb <;> cases hs <;> cases d1 <;> cases d2 <;> decide

/-- a completed handshake gives a TLS connection (never plaintext), with or without `fallback` -/
theorem handshake_ok_is_tls (c : Cfg) (htls : c.tls = true) (d2 : Bool) :
    reached (connect c .ok true d2) = .tlsConnected := by
  cases c with | mk hm en fb =>
  cases hm <;> cases en <;> cases fb <;> simp [Cfg.tls] at htls <;> cases d2 <;> decide

/-- **accept_plain_iff**: an accepted downstream connection is served in plaintext iff the listener has no TLS manager,
or the connection was handed over by the old process (it is wrapped there), or it is not TCP / no context is ready (the
two known pass-through findings), or inspector mode is on and the first byte read is not 0x16. For every first byte. -/
theorem accept_plain_iff (hasMng tr tcp en ins pf : Bool) (b : Nat) :
    accepted hasMng tr tcp en ins pf b = .plain ↔
      (hasMng = false ∨ tr = true ∨ tcp = false ∨ en = false ∨ (ins = true ∧ pf = false ∧ b ≠ 0x16)) := by
  cases hasMng <;> cases tr <;> cases tcp <;> cases en <;> cases ins <;> cases pf <;> by_cases h : b = 0x16 <;>
    simp [accepted, acceptDecision, connDecision, connPlain, h]

/-- **tls_only_listener_never_plain**: a TCP listener with a ready TLS context and inspector off serves every accepted
connection through a TLS server connection: no first byte, no peek outcome leads to plaintext; an error of the
manager closes the connection. -/
theorem tls_only_listener_never_plain (pf : Bool) (b : Nat) :
    accepted true false true true false pf b = .tls ∧
    (∀ tr tcp en ins, accepted true tr tcp en ins pf b = .closed → (ins = true ∧ pf = true)) := by
  refine ⟨by simp [accepted, acceptDecision, connDecision, connPlain], ?_⟩
  intro tr tcp en ins
  cases tr <;> cases tcp <;> cases en <;> cases ins <;> cases pf <;> by_cases h : b = 0x16 <;>
    simp [accepted, acceptDecision, connDecision, connPlain, h]

-- instances: every failing outcome without fallback fails; with fallback it re-dials in plaintext
example : Hs.all.map (fun hs => reached (connect ⟨true, true, false⟩ hs true true)) =
    [.tlsConnected, .failed, .failed, .failed, .failed, .failed, .failed] := by decide
example : Hs.all.map (fun hs => reached (connect ⟨true, true, true⟩ hs true true)) =
    [.tlsConnected, .plainConnected, .plainConnected, .plainConnected, .plainConnected, .plainConnected, .plainConnected] := by decide
example : (connect ⟨true, true, true⟩ .timeout true false).dials = 2 ∧ reached (connect ⟨true, true, true⟩ .timeout true false) = .failed := by decide
-- hypotheses of tls_only_never_plain are satisfiable
example : (⟨true, true, false⟩ : Cfg).tls = true ∧ (⟨true, true, false⟩ : Cfg).fallback = false := by decide
/-- NEGATION WITNESS: the guard of the re-dial with one more disjunct (`fallback ∨ the error is a net.Error timeout`,
"the peer does not speak TLS") -/
def connectTimeoutDowngrade (c : Cfg) (hs : Hs) (dial1 dial2 : Bool) : Try :=
  let m := clientMngConn true c.enabled (hs == .ok)
  tryConnect dial1 c.hasMng m.1 m.2 hs.isEOF hs.isNetError hs.isTimeout
    (mngFallback c.fallback || (hs.isNetError && hs.isTimeout)) dial2
example : reached (connectTimeoutDowngrade ⟨true, true, false⟩ .timeout true true) = .plainConnected ∧
    (connectTimeoutDowngrade ⟨true, true, false⟩ .timeout true true).dials = 2 ∧
    reached (connectTimeoutDowngrade ⟨true, true, false⟩ .timeout true true) ≠ specReached ⟨true, true, false⟩ .timeout true true := by decide
example : accepted true false true true true false 0x47 = .plain ∧ accepted true false true true true false 0x16 = .tls ∧
    accepted true false true true true true 0 = .closed ∧ accepted false false true true false false 0x16 = .plain := by decide
end NoDowngrade
/-! ## sds-backed contexts under configuration updates (pkg/mtls/secret_manager.go; `Gen/TlsSds.lean`) -/
section SdsUpdate
open MosnVerif.Model.TlsSds MosnVerif.Lemmas.TlsSds MosnVerif.Gen.TlsSds

/-- **sds_context_follows_latest_config**: for EVERY initial configuration, EVERY secret the pem provider may already
hold, EVERY sequence of configuration updates (listener / cluster updates through NewProvider → updateConfig, whatever
the value `g` of a guard around the rebuild), secret pushes and empty pushes, the TLS context in force is built from the
LATEST configuration and the LATEST secret (none before the first secret), and the stored configuration / secret are
the latest ones. `updateConfig`'s store and rebuild, the rebuild of a push and `update()`'s guard are regenerated. -/
theorem sds_context_follows_latest_config {κ σ : Type} (cfg0 : κ) (s0 : Option σ) (g : Bool) (ops : List (SOp κ σ)) :
    (run cfg0 s0 g ops).ctx = specCtx cfg0 s0 ops ∧
    (run cfg0 s0 g ops).config = latestCfg cfg0 ops ∧ (run cfg0 s0 g ops).secret = latestSecret s0 ops := by
  have hc := foldl_coherent ops _ (create_coherent cfg0 s0 g)
  have hf := foldl_fields ops (create cfg0 s0 g)
  rw [(create_fields cfg0 s0 g).1, (create_fields cfg0 s0 g).2] at hf
  refine ⟨?_, hf.1, hf.2⟩
  unfold Coherent at hc
  unfold run specCtx
  rw [hc, hf.1, hf.2]

/-- **sds_context_current_at_every_point**: the same after every prefix of the history (a handshake made between any
two operations meets the context of the latest configuration). -/
theorem sds_context_current_at_every_point {κ σ : Type} (cfg0 : κ) (s0 : Option σ) (g : Bool) (ops : List (SOp κ σ)) (n : Nat) :
    (run cfg0 s0 g (ops.take n)).ctx = specCtx cfg0 s0 (ops.take n) :=
  (sds_context_follows_latest_config cfg0 s0 g (ops.take n)).1

/-- a policy-only update takes effect at once: after `update cfg` the context (if a secret is there) carries `cfg` -/
theorem sds_update_takes_effect {κ σ : Type} (cfg0 : κ) (s0 : Option σ) (g g' : Bool) (ops : List (SOp κ σ)) (cfg : κ) (s : σ)
    (hs : latestSecret s0 ops = some s) :
    (run cfg0 s0 g (ops ++ [.update cfg g'])).ctx = some (cfg, s) := by
  rw [(sds_context_follows_latest_config cfg0 s0 g _).1]
  have h1 : ∀ (c : κ) (l : List (SOp κ σ)), latestCfg c (l ++ [.update cfg g']) = cfg := by
    intro c l; induction l generalizing c with
    | nil => simp [latestCfg]
    | cons o r ih => cases o <;> simp [latestCfg, ih]
  have h2 : ∀ (x : Option σ) (l : List (SOp κ σ)), latestSecret x (l ++ [.update cfg g']) = latestSecret x l := by
    intro x l; induction l generalizing x with
    | nil => simp [latestSecret]
    | cons o r ih => cases o <;> simp [latestSecret, ih]
  simp [specCtx, h1, h2, hs]

/-- **sdsu_spec_holds_on_model**: what a handshake observes on the model's context is what the statement's tables give
for the same context — listener side for every policy over the run's server names, every SNI of the run and every peer
class; cluster side for every policy, server certificate class and hook verdict. -/
theorem sdsu_listener_spec_holds_on_model (pol : Option LPol) (sni : Name) (peer : Peer)
    (hp : ∀ q, pol = some q → q.sname ∈ [[], snA, snB]) (hs : sni ∈ [sdsCN, snA, snB, snNone, defaultCN]) :
    listenerPick pol sni peer = specListenerPick pol sni peer := by
  cases pol with
  | none =>
    simp only [List.mem_cons, List.not_mem_nil, or_false] at hs
    rcases hs with h | h | h | h | h <;> subst h <;> cases peer <;> decide
  | some q =>
    obtain ⟨v, r, sn⟩ := q
    have := hp _ rfl
    simp only [List.mem_cons, List.not_mem_nil, or_false] at this hs
    rcases this with h | h | h <;> subst h <;> rcases hs with h | h | h | h | h <;> subst h <;>
      cases v <;> cases r <;> cases peer <;> decide

theorem sdsu_cluster_spec_holds_on_model (ctx : Option (CPol × Nat)) (cert : ServerCert) (hookOK : Bool) :
    clusterObs ctx cert hookOK = specClusterObs ctx cert hookOK := by
  cases ctx with
  | none => rfl
  | some c =>
    obtain ⟨⟨i, s, h⟩, k⟩ := c
    have e : clientAccepts h i s cert hookOK = specClientAccepts h i s cert hookOK := by
      cases i <;> cases s <;> cases h <;> cases cert <;> cases hookOK <;> decide
    simp only [clusterObs, specClusterObs, Option.map, e]

-- instances: a listener that turns on require_client_cert + verify_client after its secret arrived
example : (run (⟨false, false, []⟩ : LPol) none true [.push 1, .update ⟨true, true, []⟩ true]).ctx = some (⟨true, true, []⟩, 1) := by decide
example : listenerObs (some (⟨true, true, []⟩, 1)) sdsCN .none = some (some 1, false) ∧
    listenerObs (some (⟨false, false, []⟩, 1)) sdsCN .none = some (some 1, true) ∧
    listenerObs (some (⟨false, false, snA⟩, 1)) snA .none = some (some 1, true) ∧
    listenerObs (some (⟨false, false, snB⟩, 1)) snA .none = some (none, true) ∧
    listenerObs none sdsCN .stolenKey = some (none, true) := by decide
example : clusterObs (some (⟨false, true, false⟩, 2)) .otherCA false = some (2, false) ∧
    clusterObs (some (⟨true, true, false⟩, 2)) .otherCA false = some (2, true) := by decide
/-- NEGATION WITNESS: `updateConfig` that rebuilds only when the tls.Config template changed (`g` = it changed): a
policy-only update (g = false) leaves the old context in force until the next push — a listener that just turned on
require_client_cert / verify_client still accepts a client without certificate. -/
def stepTemplateOnly {κ σ : Type} (p : Prov κ σ) : SOp κ σ → Prov κ σ
  | .update cfg g => let p' := { p with config := cfg }; if g then rebuild p' else p'
  | op => step p op
example :
    let ops : List (SOp LPol Nat) := [.push 1, .update ⟨true, true, []⟩ false]
    let p := ops.foldl stepTemplateOnly (create ⟨false, false, []⟩ none true)
    p.ctx = some (⟨false, false, []⟩, 1) ∧ p.ctx ≠ specCtx ⟨false, false, []⟩ none ops ∧
    listenerObs p.ctx sdsCN .none = some (some 1, true) ∧
    specListenerObs (specCtx ⟨false, false, []⟩ none ops) sdsCN .none = some (some 1, false) ∧
    ((ops ++ [SOp.pushEmpty]).foldl stepTemplateOnly (create (⟨false, false, []⟩ : LPol) none true)).ctx = some ((⟨true, true, []⟩ : LPol), 1) := by decide
end SdsUpdate
/-! ## sds contexts that share secret names (pkg/mtls/tls_context_manager.go, secret_manager.go; `Gen/TlsShare.lean`)

The provider cache is keyed by (validation secret name, certificate secret name, index); `Gen.TlsShare.serverIndex` is the
index `NewTLSServerContextManager` gives the context at a position of a listener (regenerated), `cacheKey` the regenerated
key. -/
section SharedSecrets
open MosnVerif.Model.TlsShare MosnVerif.Lemmas.TlsShare MosnVerif.Gen.TlsShare

/-- **provider_index_injective**: the regenerated provider index determines listener name AND position: no two contexts of
one listener, and no two listeners, share a provider index; a cluster's index is never a listener's. -/
theorem provider_index_injective (name name' : Name) (n n' : Nat) :
    (serverIndex name n = serverIndex name' n' → name = name' ∧ n = n') ∧
    (∀ c, clientIndex c ≠ serverIndex name n) ∧ (∀ c c', clientIndex c = clientIndex c' → c = c') :=
  ⟨serverIndex_injective name name' n n', fun c => clientIndex_ne_serverIndex c name n, clientIndex_injective⟩

/-- **update_policy_current_shared** (`update_policy_current` / `sds_context_follows_latest_config` for contexts that share
secret names): after ANY history of listener builds (any listeners, any context lists, contexts naming the same or
different certificate / validation secrets in any pattern, static contexts in between), cluster builds and secret
deliveries, the tls context in force at EVERY position of the latest build of a listener is built from THAT position's
own configuration and the latest complete secret of the names it uses — never from another context's configuration. -/
theorem update_policy_current_shared {κ : Type} (ops : List (COp κ)) (name : Name) (cs : List (Option (SCtx κ)))
    (h : lastBuild ops name = some cs) (i : Nat) (c : SCtx κ) (hc : cs[i]? = some (some c)) :
    ctxAt (run ops) name i c.ref = specCtxAt (run ops) c := by
  obtain ⟨h1, h2⟩ := foldl_inv ops _ _ (empty_inv (κ := κ))
  obtain ⟨p, hp, hcfg⟩ := h2 name cs h i c hc
  obtain ⟨hco, hsec, _⟩ := h1 _ p hp
  unfold ctxAt specCtxAt
  show (((run ops).provs (serverKey name i c.ref)).bind (·.ctx)) = _
  unfold run
  rw [hp]
  simp only [Option.bind_some]
  rw [hco, hsec, hcfg, pemOf_serverKey]

/-- the contexts the live manager selects among ARE the configured ones, each with its own configuration. -/
theorem manager_view_is_configured (names : Name → Nat → Name × List Name) (statics : Nat → Ctx) (ops : List (COp LCfg))
    (name : Name) (cs : List (Option (SCtx LCfg))) (h : lastBuild ops name = some cs) :
    managerView names statics (run ops) name cs = specView names statics (run ops) cs := by
  unfold managerView specView
  apply viewFrom_congr
  intro i c hc
  simp only [Nat.zero_add]
  rw [update_policy_current_shared ops name cs h i c hc]

/-- **select_statement_shared**: `select_statement` for a listener whose sds contexts share secret names in any pattern:
the regenerated `GetConfigForClient`, run on the providers the live manager holds, selects by the statement's rule among
the CONFIGURED contexts (own server_name / alpn, the certificate names of the latest secret; not ready while the secret
is incomplete), under `NamespacesApart`. -/
theorem select_statement_shared (names : Name → Nat → Name × List Name) (statics : Nat → Ctx) (ops : List (COp LCfg))
    (name : Name) (cs : List (Option (SCtx LCfg))) (h : lastBuild ops name = some cs)
    (sni : Name) (protos : List Name) (fuel : Nat)
    (hns : NamespacesApart (specView names statics (run ops) cs) sni protos) :
    Gen.TlsMatch.getConfigForClient (provs (managerView names statics (run ops) name cs) 0) sni protos fuel =
      ofOpt (specSelect (specView names statics (run ops) cs) sni protos) := by
  rw [manager_view_is_configured names statics ops name cs h]
  exact select_statement _ sni protos fuel hns

/-- **client_auth_table_shared**: `client_auth_table` for such a listener: the ClientAuthType in force at every position is
the statement's table on THAT position's verify_client / require_client_cert (once its secret is complete). -/
theorem client_auth_table_shared (ops : List (COp LCfg)) (name : Name) (cs : List (Option (SCtx LCfg)))
    (h : lastBuild ops name = some cs) (i : Nat) (c : SCtx LCfg) (hc : cs[i]? = some (some c)) :
    authOf (ctxAt (run ops) name i c.ref) =
      (pemSecret (run ops) (c.ref.val, c.ref.cert)).map (fun _ => specClientAuth c.cfg.require c.cfg.verify) := by
  rw [update_policy_current_shared ops name cs h i c hc]
  unfold specCtxAt
  cases pemSecret (run ops) (c.ref.val, c.ref.cert) with
  | none => rfl
  | some s => simp [authOf, client_auth_table]

/-- **client_auth_table_every_kind**: `client_auth_table` / `require_and_verify_iff` for EVERY kind of context — static with
ca_cert, static without (host root store), sds with a validation secret, sds WITHOUT a validation secret (host root store)
— ready or pending: a built context's ClientAuthType is the statement's table on ITS verify_client / require_client_cert
and nothing else (RequireAndVerifyClientCert iff both are set; a pending context has none and is never selected).
Regenerated: the fields GetClientAuth reads are exactly the two flags, and every context's tls.Config.ClientAuth is set,
unconditionally, from GetClientAuth of its own configuration. -/
theorem client_auth_table_every_kind (k : CtxKind) (req ver : Bool) :
    getClientAuthReads = ["RequireClientCert", "VerifyClient"] ∧ clientAuthFromHookForEveryContext = true ∧
    ctxClientAuth k true req ver = some (specClientAuth req ver) ∧
    (ctxClientAuth k true req ver = some RequireAndVerifyClientCert ↔ (req = true ∧ ver = true)) ∧
    ctxClientAuth k false req ver = none := by
  refine ⟨by decide, by decide, ?_, ?_, rfl⟩
  · simp [ctxClientAuth, client_auth_table]
  · simp only [ctxClientAuth, ↓reduceIte, Option.some.injEq]
    exact require_and_verify_iff req ver

/-- **server_trust_every_kind**: hence the server-side handshake result of every kind of context is the statement's trust
table on its flags and the peer's class relative to ITS trust anchor (the configured CA, or the host's root store for a
context without ca_cert / validation secret — `unconfigured_uses_host_store`): with verify_client and require_client_cert
only a peer proving possession of a certificate of that anchor gets through, whatever the kind. -/
theorem server_trust_every_kind (k : CtxKind) (req ver : Bool) (p : Peer) :
    (ctxClientAuth k true req ver).map (fun a => serverAccepts a p) = some (specServerAccepts req ver p) ∧
    ((ctxClientAuth k true true true).map (fun a => serverAccepts a p) = some true ↔ p = Peer.rightCA) := by
  refine ⟨by simp [ctxClientAuth, server_trust_table], ?_⟩
  simp only [ctxClientAuth, ↓reduceIte, Option.map_some, Option.some.injEq]
  exact mutual_tls p

example : CtxKind.all.map (fun k => ctxClientAuth k true true true) = [some 4, some 4, some 4, some 4] ∧
    ctxClientAuth .sdsWithoutValidation true false true = some 3 ∧ ctxClientAuth .sdsWithoutValidation false true true = none := by decide
-- NEGATION WITNESS (the seeded class): verify_client read as false for an sds context without validation secret turns
-- verify+require into RequestClientCert and lets a peer without trusted certificate through
example : getClientAuth true false = RequestClientCert ∧ serverAccepts (getClientAuth true false) .selfSigned = true ∧
    specServerAccepts true true .selfSigned = false ∧ serverAccepts (getClientAuth false false) .none = true ∧
    specServerAccepts false true .otherCA = false := by decide

def shA : SCtx LCfg := ⟨⟨true, true, "a.com".toList, []⟩, ⟨"rootca".toList, "default".toList⟩⟩
def shB : SCtx LCfg := ⟨⟨false, false, "b.org".toList, "h2".toList⟩, ⟨"rootca".toList, "default".toList⟩⟩
def shNames : Name → Nat → Name × List Name := fun c _ => (c, [c])
def shOps : List (COp LCfg) := [.build "l".toList [some shA, none, some shB] true, .complete ("rootca".toList, "default".toList) 1,
  .build "m".toList [some shB] true, .complete ("rootca".toList, "default".toList) 2]
-- two contexts of ONE listener naming the same secrets keep their own policies; a later listener and a rotation do not disturb them
example : lastBuild shOps "l".toList = some [some shA, none, some shB] := by decide
example : ctxAt (run shOps) "l".toList 0 shA.ref = some (shA.cfg, 2) ∧ ctxAt (run shOps) "l".toList 2 shB.ref = some (shB.cfg, 2) := by decide
example : authOf (ctxAt (run shOps) "l".toList 0 shA.ref) = some 4 ∧ authOf (ctxAt (run shOps) "l".toList 2 shB.ref) = some 0 := by decide
example : serverIndex "l".toList 12 = "server_12_l".toList ∧ clientIndex "c".toList = "client_c".toList := by decide
-- NEGATION WITNESS (the repaired defect: every context of a listener had the index server_<listener>): two contexts behind
-- ONE cache key — the configuration of the last one is the configuration of both
example : ((addOrUpdate (addOrUpdate (Cache.empty : Cache LCfg) (cacheKey shA.ref.val shA.ref.cert "server_l".toList) shA.cfg true)
    (cacheKey shB.ref.val shB.ref.cert "server_l".toList) shB.cfg true).provs (cacheKey shA.ref.val shA.ref.cert "server_l".toList)).map (·.config) =
    some shB.cfg := by decide
end SharedSecrets

/-! ## the accept path with use_original_dst (pkg/server/handler.go, originaldst listener filter; `Gen/TlsAccept.lean`) -/
section AcceptPath
open MosnVerif.Model.TlsAccept MosnVerif.Lemmas.TlsAccept MosnVerif.Gen.TlsAccept MosnVerif.Gen.TlsConnect

/-- **every_accepted_connection_passes_its_listeners_tls**: for EVERY table of listeners (which of the accepting listener
A, the listener B matching the original destination and the fallback-ip listener C have a TLS manager, which managers
fail), every outcome of the original-destination lookup (read or not, B exists or not, C exists or not), with and
without use_original_dst, transferred or not: the path from the raw accept ends in `newConnection` of the listener that
must own the connection (B, else C, else A) and on the way the connection went through `tlsMng.Conn` of exactly that
listener, exactly once, and of no other (not at all when the owner has no manager or the old process already wrapped
it) — or the owner's manager failed and the connection was closed. The guard around the TLS block, the filter's three
answers, the end of the filter chain and the three branches of UseOriginalDst are regenerated. -/
theorem every_accepted_connection_passes_its_listeners_tls (e : Env) (useOrig : Bool) (htcp : e.isTCP = true) :
    let tr := accept e 3 .self useOrig
    let o := specOwner useOrig e.lookupOk e.matched e.localMatched
    (tr.getLast? = some (.serve o) ∧ wraps tr = (if e.mng o && !e.transferred then [o] else [])) ∨
    (tr = [.closed o] ∧ e.mng o = true ∧ e.transferred = false ∧ e.mngErr o = true) := by
  have h := pathOk_all e useOrig htcp
  unfold pathOk at h
  rw [Bool.or_eq_true] at h
  rcases h with h | h
  · rw [Bool.and_eq_true, beq_iff_eq, beq_iff_eq] at h
    exact Or.inl h
  · simp only [Bool.and_eq_true, beq_iff_eq, Bool.not_eq_true'] at h
    exact Or.inr ⟨h.1.1.1, h.1.1.2, h.1.2, h.2⟩

/-- **tls_listener_with_original_dst_never_raw**: a listener with a TLS manager never serves a freshly accepted TCP
connection that did not go through its `tlsMng.Conn` — whichever way the connection reached it. -/
theorem tls_listener_with_original_dst_never_raw (e : Env) (useOrig : Bool) (htcp : e.isTCP = true) (hnt : e.transferred = false)
    (t : Target) (hs : (accept e 3 .self useOrig).getLast? = some (.serve t)) (hm : e.mng t = true) :
    wraps (accept e 3 .self useOrig) = [t] := by
  have h := every_accepted_connection_passes_its_listeners_tls e useOrig htcp
  simp only at h
  rcases h with ⟨h1, h2⟩ | ⟨h1, _⟩
  · rw [h1] at hs
    have : specOwner useOrig e.lookupOk e.matched e.localMatched = t := by simpa using hs
    rw [this] at h2
    simpa [hm, hnt] using h2
  · rw [h1] at hs; simp at hs

-- instances: the three outcomes, the failed lookup, a listener without use_original_dst
def exAll : Env := ⟨fun _ => true, fun _ => false, false, true, true, true, true⟩
example : accept exAll 3 .self true = [.wrap .matched, .serve .matched] := by decide
example : accept { exAll with matched := false } 3 .self true = [.wrap .localFallback, .serve .localFallback] := by decide
example : accept { exAll with matched := false, localMatched := false } 3 .self true = [.wrap .self, .serve .self] := by decide
example : accept { exAll with lookupOk := false } 3 .self true = [.wrap .self, .serve .self] := by decide
example : accept exAll 3 .self false = [.wrap .self, .serve .self] := by decide
example : accept { exAll with mngErr := fun _ => true, matched := false } 3 .self true = [.closed .localFallback] := by decide
example : exAll.isTCP = true := rfl
/-- NEGATION WITNESS 1: the 'nothing matches' branch of UseOriginalDst serving the connection directly
(`arc.activeListener.newConnection(ctx, arc.rawc)`, "avoid accepting twice"): a listener with TLS contexts serves the
raw socket. -/
def acceptDirectSelf (e : Env) (useOrig : Bool) : List Ev :=
  let pre := if acceptWrapGuard useOrig && e.mng .self && !e.transferred then [Ev.wrap .self] else []
  if acceptAddsOrigDst useOrig then
    match origDstFilter true e.lookupOk e.isTCP with
    | .redirect addrSet =>
      if addrSet && e.matched then pre ++ accept e 2 .matched false
      else if addrSet && e.localMatched then pre ++ accept e 2 .localFallback false
      else pre ++ [.serve .self]
    | _ => pre ++ [.serve .self]
  else pre ++ [.serve .self]
example : acceptDirectSelf { exAll with matched := false, localMatched := false } true = [.serve .self] ∧
    wraps (acceptDirectSelf { exAll with matched := false, localMatched := false } true) = [] ∧
    acceptDirectSelf exAll true = [.wrap .matched, .serve .matched] := by decide
/-- NEGATION WITNESS 2 (the repaired defect): the filter answering a failed lookup with Continue -/
def origDstFilterOld (useOrig lookupOk : Bool) : FilterOut :=
  if !useOrig then .continue else if !lookupOk then .continue else .redirect true
example : origDstFilterOld true false = .continue ∧ chainEnd = .serve .self ∧ acceptWrapGuard true = false := by decide
end AcceptPath
end MosnVerif.Props.C13
