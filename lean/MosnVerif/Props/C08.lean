import MosnVerif.Lemmas.FrameChk
import MosnVerif.Lemmas.FrameRefine
import MosnVerif.Model.FrameSpec
import MosnVerif.Lemmas.FrameH2
import MosnVerif.Lemmas.FrameHpack
import MosnVerif.Lemmas.HpackAt
import MosnVerif.Lemmas.H2Lock
import MosnVerif.Lemmas.DispatchLoop
import MosnVerif.Model.DispatchCodec
import MosnVerif.Lemmas.PoolRecover
import MosnVerif.Lemmas.H2ReadLoop
import MosnVerif.Model.DubboMeta
import MosnVerif.Lemmas.H1Serve
import MosnVerif.Lemmas.H2ClientSettings
import MosnVerif.Lemmas.NeedMoreLive
import MosnVerif.Lemmas.H2Trailers
import MosnVerif.Lemmas.CheckedMatch
import MosnVerif.Lemmas.CheckedH2Parse
import MosnVerif.Model.CheckedWire
import MosnVerif.Lemmas.H2Alloc
import MosnVerif.Lemmas.HpackNoPanic
import MosnVerif.Lemmas.StreamAlloc
import MosnVerif.Lemmas.CheckedMatchEq
import MosnVerif.Lemmas.HpackRead
/-!
# C08 — malformed input is contained (property theorems only)

`chk_P` is `XProtocol.Decode` of protocol `P` written with **checked access** (Model/FrameChk.lean): every index and
slice expression of decoder.go / protocol.go is mirrored by a primitive that answers `oob` when it leaves the received
bytes (Go: index/slice out of range panic).  Offsets, length tests and `Drain` arguments are regenerated.
The theorems hold for EVERY byte string.
-/
namespace MosnVerif.Props.C08
open MosnVerif.Model.Framing MosnVerif.Model.FrameBytes MosnVerif.Model.KVBlock MosnVerif.Model.FrameChk
open MosnVerif.Model.FrameSpec

theorem good_of (proto : String) (oracle : Bytes → Bool) (chk : Bytes → Res) (h : chkOf proto oracle = some chk)
    (b : Bytes) : Good b.length (b.length + b.length / 8) (chk b) := by
  unfold chkOf at h
  split at h <;> simp at h <;> subst h
  · exact chkBolt_good false b
  · exact chkBolt_good true b
  · exact good_mono _ _ _ _ (chkDubbo_good oracle b) (by omega)
  · exact good_mono _ _ _ _ (chkThrift_good oracle b) (by omega)
  · exact good_mono _ _ _ _ (chkTars_good oracle b) (by omega)

/-- **classify_total**: on every byte string, each decoder (bolt, boltv2, dubbo, dubbothrift, tars; for every behaviour
of the payload black boxes) asks for more data, yields a frame or fails — it never reads outside the received bytes. -/
theorem classify_total (proto : String) (oracle : Bytes → Bool) (chk : Bytes → Res) (h : chkOf proto oracle = some chk)
    (b : Bytes) : (chk b).out ≠ .oob :=
  (good_of proto oracle chk h b).noOob

/-- **no_overread**: a frame drains a positive number of bytes, never more than were received; so does a failure
that had already drained (bolt: header-block error after `Drain`). -/
theorem no_overread (proto : String) (oracle : Bytes → Bool) (chk : Bytes → Res) (h : chkOf proto oracle = some chk)
    (b : Bytes) : (∀ n, (chk b).out = .frame n → 0 < n ∧ n ≤ b.length) ∧ (∀ k, (chk b).out = .error k → k ≤ b.length) :=
  ⟨(good_of proto oracle chk h b).frame, (good_of proto oracle chk h b).error⟩

/-- **alloc_bounded**: what a decoder allocates (frame copy, header table slots) is bounded by what was received —
never by an announced length whose bytes have not arrived. -/
theorem alloc_bounded (proto : String) (oracle : Bytes → Bool) (chk : Bytes → Res) (h : chkOf proto oracle = some chk)
    (b : Bytes) : (chk b).alloc ≤ b.length + b.length / 8 :=
  (good_of proto oracle chk h b).alloc

/-- **checked_refines_frameStep**: the checked-access decoder of every protocol classifies every buffer exactly as the
`frameStep` that C07's segmentation theorems are about (same frame bytes, same drained length, `error` for both kinds
of failure): C07 and C08 talk about one and the same decoder. -/
theorem checked_refines_frameStep (proto : String) (oracle : Bytes → Bool) (chk : Bytes → Res) (d : Bytes → Step Bytes)
    (h : chkOf proto oracle = some chk) (hd : MosnVerif.Model.FrameSteps.frameStepOf proto oracle = some d) (b : Bytes) :
    (chk b).out.toStep b = d b := by
  unfold chkOf at h
  unfold MosnVerif.Model.FrameSteps.frameStepOf at hd
  split at h <;> simp at h hd <;> subst h <;> subst hd
  · exact chkBolt_refines false b
  · exact chkBolt_refines true b
  · exact chkDubbo_refines oracle b
  · exact chkThrift_refines oracle b
  · exact chkTars_refines oracle b

/-- **kv_no_oob**: `xprotocol.DecodeHeader` (validation + `header.DecodeHeader`) never reads outside the block,
for every block. -/
theorem kv_no_oob (b : Bytes) : safe b ≠ .oob := safe_no_oob b

/-- a validated block is decoded without out-of-range reads, at every position of the walk -/
theorem kv_validated_decode_safe (fuel : Nat) (b : Bytes) (i k : Nat) (h : check fuel b i = true) :
    decode fuel b i k ≠ .oob := decode_no_oob fuel b i k h

/-- each decoded pair consumed at least 8 bytes of the block: the table never has more slots than bytes/8 -/
theorem kv_alloc_bounded (b : Bytes) (p : Nat) (h : safe b = .ok p) : 8 * p ≤ b.length := safe_pairs b p h

/-- **http2_no_overread_partial**: the HTTP/2 frame extraction (`ReadPreface`, `MFramer.ReadFrame` incl.
HEADERS+CONTINUATION groups) never reports an item that drains nothing or more than was received, in either state, on
every byte string, for every behaviour of the payload parsers and HPACK.
Partial: this is the drained-length half of the statement; the HTTP/2 model reads with total accessors guarded by the
regenerated length tests, not with checked access, so "no out-of-range read" is not separately proved for it, and the
frame-type payload parsers / HPACK decoder are oracles (exercised by the correspondence run under panic recovery). -/
theorem http2_no_overread_partial (maxRead : Nat) (parseOk groupOk : Bytes → Bool) (st : Bool) (b : Bytes)
    (f : Option Bytes × Bool) (n : Nat)
    (h : MosnVerif.Model.FrameH2.h2Step maxRead parseOk groupOk st b = .frame f n) : 0 < n ∧ n ≤ b.length :=
  (MosnVerif.Model.FrameH2.h2Step_stable maxRead parseOk groupOk).pos st b f n h

/-- **http2_stream_error_consumes_frame**: what a failing `ReadFrame` consumes — nothing, or, for a StreamError (which
does not end the connection), exactly the complete frame resp. the complete HEADERS+CONTINUATION group that answered it
(the stream-error `Drain` calls regenerated from ReadFrame) — is never more than was received, on every byte string. -/
theorem http2_stream_error_consumes_frame (maxRead : Nat) (parseOk : Bytes → Bool) (b : Bytes) (n : Nat)
    (h : n ∈ MosnVerif.Model.FrameH2.errDrains maxRead parseOk b) : n ≤ b.length :=
  MosnVerif.Model.FrameH2.errDrains_le maxRead parseOk b n h

-- a WINDOW_UPDATE of 13 bytes whose parser answers a stream error (increment 0) is consumed whole
example : MosnVerif.Model.FrameH2.errDrains 16384 (fun _ => true) [0,0,4, 8, 0, 0,0,0,1, 0,0,0,0, 7] = [0, 13, 13] := by
  decide +kernel

/-- **hpack_varint_no_overread**: an HPACK integer (`readVarInt`, every prefix size) that decodes consumed at least
one byte and only bytes of the input (what remains is a proper suffix); otherwise the decoder asks for more or reports
an overflow — on every byte string (the loop stops after at most 10 bytes). -/
theorem hpack_varint_no_overread (n : Nat) (p : Bytes) (v : Nat) (r : Bytes)
    (h : MosnVerif.Model.FrameHpack.readVarInt n p = .ok v r) : ∃ k, 0 < k ∧ k ≤ p.length ∧ r = p.drop k :=
  MosnVerif.Model.FrameHpack.readVarInt_suffix n p v r h

/-- **hpack_string_bounded**: a raw HPACK string is materialised only when all its announced bytes have arrived
(never an allocation for an announced-but-absent length), is shorter than the input, and respects `maxStrLen`. -/
theorem hpack_string_bounded (maxStrLen : Nat) (p s r : Bytes)
    (h : MosnVerif.Model.FrameHpack.readString maxStrLen p = .ok s r) :
    s.length + r.length < p.length ∧ (maxStrLen ≠ 0 → s.length ≤ maxStrLen) :=
  MosnVerif.Model.FrameHpack.readString_bounded maxStrLen p s r h

/-- **hpack_at_no_oob**: `hpack.Decoder.at` — its comparisons, the integer type each is made in (uint64 vs int), its
conversions and its two index expressions regenerated from hpack.go (Gen/HpackAt) and evaluated with checked access —
never indexes outside the static or the dynamic table, for EVERY value of its uint64 argument (every index `readVarInt`
can deliver, 2^63 and above included) and every dynamic table: it returns an entry, or no entry (`InvalidIndexError`)
exactly for 0 and for indices beyond the last entry; and the entry is the one of `Model/HpackTable.Dec.at` (the lookup
the table-synchronisation theorems of C18 are about).  (`length + 61 < 2^63`: Go slice lengths are ints.) -/
theorem hpack_at_no_oob (d : MosnVerif.Model.HpackTable.Dec) (i : Nat) (hi : i < 2 ^ 64)
    (hlen : d.tab.ents.length + MosnVerif.Model.HpackTable.staticLen < 2 ^ 63) :
    MosnVerif.Model.HpackAt.lookup d i ≠ .oob ∧
    (MosnVerif.Model.HpackAt.lookup d i = .none ↔ (i = 0 ∨ d.tab.ents.length + MosnVerif.Model.HpackTable.staticLen < i)) ∧
    MosnVerif.Model.HpackAt.lookup d i = MosnVerif.Model.HpackAt.Look.ofOption (d.at i) :=
  ⟨MosnVerif.Lemmas.HpackAt.lookup_no_oob d i hi hlen, MosnVerif.Lemmas.HpackAt.lookup_none_iff d i hi hlen,
   MosnVerif.Lemmas.HpackAt.lookup_eq d i hi hlen⟩

/-- the same at the level of the regenerated function: every uint64 against table lengths `sl`, `dl` -/
theorem hpack_at_spec (sl dl i : Int) (hs : 0 ≤ sl) (hd : 0 ≤ dl) (hsum : sl + dl < 2 ^ 63) (hi0 : 0 ≤ i) (hi : i < 2 ^ 64) :
    MosnVerif.Gen.HpackAt.tableAt sl dl i =
      if i = 0 ∨ sl + dl < i then .none
      else if i ≤ sl then .entry .static (i - 1).toNat else .entry .dyn (dl - (i - sl)).toNat :=
  MosnVerif.Lemmas.HpackAt.tableAt_spec sl dl i hs hd hsum hi0 hi

-- the maximal 10-byte varint `ff ff ff ff ff ff ff ff ff 7f` (2^63 + 126) and 2^64 - 1 are refused, 61 / 62 are the last
-- static and the newest dynamic entry
example : MosnVerif.Gen.HpackAt.tableAt 61 3 9223372036854775934 = .none := by decide
example : MosnVerif.Gen.HpackAt.tableAt 61 3 18446744073709551615 = .none := by decide
example : MosnVerif.Gen.HpackAt.tableAt 61 3 61 = .entry .static 60 := by decide
example : MosnVerif.Gen.HpackAt.tableAt 61 3 62 = .entry .dyn 2 := by decide
example : MosnVerif.Gen.HpackAt.tableAt 61 3 64 = .entry .dyn 0 := by decide
example : MosnVerif.Gen.HpackAt.tableAt 61 3 65 = .none := by decide
-- the class the theorem excludes: the static-table test made on `int(i)` sends every index ≥ 2^63 into
-- `staticTable.ents[i-1]` — out of range
example : MosnVerif.Gen.HpackAt.chkIdx .static 61 (MosnVerif.Gen.HpackAt.wrapU64 (9223372036854775934 - 1)) = .oob ∧
    decide (MosnVerif.Gen.HpackAt.wrapS64 9223372036854775934 ≤ 61) = true := by decide

/-! ## "never wedge the proxy": the connection mutex of the HTTP/2 stream connections (Model/H2Lock.lean) -/
section h2lock
open MosnVerif.Gen.H2Lock MosnVerif.Model.H2Lock MosnVerif.Lemmas.H2Lock

/-- **no_self_deadlock**: on EVERY control-flow path of EVERY method of clientStreamConnection / clientStream (and of
serverStreamConnection.handleError) — the paths, their Lock / Unlock / `defer Unlock` positions, the calls made in between
and the set of methods that take `conn.mutex` (`ResetStream` unless `connReset`, `handleError`, `endStream`, …,
`conn.conn.Close` through the synchronous close event) all regenerated from stream.go — no call that acquires
`conn.mutex` is made while the goroutine holds it, nothing is unlocked that is not held in that mode, and the mutex is
free again when the method returns. -/
theorem no_self_deadlock :
    (∀ p ∈ clientPaths, checkOps none (flatten clientAcquires p.acts) = none) ∧
    (∀ p ∈ serverPaths, checkOps none (flatten serverAcquires p.acts) = none) := by
  have h : (clientPaths.all (disciplined clientAcquires) && serverPaths.all (disciplined serverAcquires)) = true := by
    decide +kernel
  simp only [Bool.and_eq_true, List.all_eq_true, disciplined, beq_iff_eq] at h
  exact h

/-- **no_wedge**: any number of goroutines, each running any method of the client family along any of its paths, under
ANY schedule: no reachable state is stuck (somebody can always move while somebody is unfinished), and from every
reachable state all of them finish after exactly the remaining number of mutex operations — the connection's read
goroutine always gets back to reading and a later request always gets through `endStream`. -/
theorem no_wedge (ps : List Path) (hp : ∀ p ∈ ps, p ∈ clientPaths) (sched : List Nat) :
    let s := (Sys.start (ps.map (fun p => flatten clientAcquires p.acts))).run sched
    s.stuck = false ∧ ∃ rest, rest.length = s.remaining ∧ (s.run rest).allDone = true := by
  intro s
  have hg : Good s := by
    apply run_good
    apply good_start
    intro o ho
    obtain ⟨p, hpm, rfl⟩ := List.mem_map.1 ho
    exact no_self_deadlock.1 p (hp p hpm)
  exact ⟨not_stuck s hg, completes s.remaining s hg rfl⟩

/-- the same for ANY set of disciplined paths (not only the regenerated ones): discipline is what excludes the wedge -/
theorem disciplined_never_stuck (acq : List (String × Bool)) (ps : List Path) (hp : ∀ p ∈ ps, disciplined acq p = true)
    (sched : List Nat) : ((Sys.start (ps.map (fun p => flatten acq p.acts))).run sched).stuck = false := by
  apply not_stuck
  apply run_good
  apply good_start
  intro o ho
  obtain ⟨p, hpm, rfl⟩ := List.mem_map.1 ho
  have := hp p hpm
  simpa [disciplined] using this

-- non-vacuity: the StreamError branch of handleError exists, locks, unlocks and THEN calls ResetStream, which locks
example : (findPath clientPaths "handleError" ["case http2.StreamError", "s != nil"]).map (·.acts) =
    some [.lock, .unlock, .call "ResetStream" false, .ret] := by decide +kernel
example : acquiresNow clientAcquires "ResetStream" false = true ∧ acquiresNow clientAcquires "ResetStream" true = false ∧
    acquiresNow clientAcquires "connClose" false = true := by decide +kernel
-- Reset holds the mutex while it resets every stream: accepted only because it sets connReset first
example : (clientPaths.filter (fun p => p.fn == "Reset")).map (·.acts) =
    [[.lock, .deferUnlock, .ret], [.lock, .deferUnlock, .call "ResetStream" true, .ret],
     [.lock, .deferUnlock, .call "ResetStream" true, .call "ResetStream" true, .ret]] := by decide +kernel

/-- the `defer` shape of the StreamError branch -/
def deferShape : Path :=
  { fn := "handleError", conds := ["case http2.StreamError", "s != nil"],
    acts := [.lock, .deferUnlock, .call "ResetStream" false, .ret] }

/-- **defer_unlock_self_deadlocks** (machine-checked witness): with `conn.mutex.Lock(); defer conn.mutex.Unlock()` around
the lookup, `s.ResetStream` is called with the mutex held: the path is not disciplined (self-deadlock); the read
goroutine stops in front of its second Lock, a later request's `endStream` stops in front of its first, and the system
of the two is stuck under every continuation — the stream is never reset, the connection never read again. -/
theorem defer_unlock_self_deadlocks :
    checkOps none (flatten clientAcquires deferShape.acts) = some .selfDeadlock ∧
    (let s := (Sys.start [flatten clientAcquires deferShape.acts, [.acq true, .rel true]]).run [0, 1, 0, 1, 1, 0];
     s.stuck = true ∧ s.remaining = 5) := by decide +kernel

end h2lock

def toOutcome : Out → Outcome
  | .needMore => .needMore 0
  | .frame n => .frame n
  | .error k => .error k
  | .oob => .panic

/-- the executable predicate `specContained` (evaluated on implementation outcomes) holds of the model -/
theorem spec_holds_on_model (proto : String) (oracle : Bytes → Bool) (chk : Bytes → Res)
    (h : chkOf proto oracle = some chk) (b : Bytes) : specContained b.length (toOutcome (chk b).out) = true := by
  have g := good_of proto oracle chk h b
  cases ho : (chk b).out with
  | needMore => simp [toOutcome, specContained]
  | frame n => have := g.frame n ho; simp [toOutcome, specContained]; omega
  | error k => have := g.error k ho; simp [toOutcome, specContained]; omega
  | oob => exact absurd ho g.noOob

-- the defect that was repaired (DESIGN.md §6 row 4): without the validation, a block with dangling bytes, or a key
-- without a value, reads out of range
example : unsafeDecode [0,0,0,1,97, 0,0,0,1,98, 0] = .oob := by decide
example : unsafeDecode [0,0,0,1,97] = .oob := by decide
example : safe [0,0,0,1,97, 0,0,0,1,98, 0] = .err := by decide
example : safe [0,0,0,1,97, 0,0,0,1,98] = .ok 1 := by decide
example : safe [255,255,255,255, 0,0,0,1,97, 0,0,0,0] = .ok 1 := by decide
-- non-vacuity: each outcome class is reachable
def boltReq : Bytes := [1,1,0,1,1,0,0,0,7,1,0,0,3,232, 0,1, 0,10, 0,0,0,2, 99, 0,0,0,1,97,0,0,0,1,98, 120,121]
example : chkBolt false boltReq = ⟨.frame 35, 36⟩ := by decide
example : (chkBolt false (boltReq.take 30)).out = .needMore := by decide
example : (chkBolt false (boltReq.set 17 11 ++ [0])).out = .error 36 := by decide
example : (chkBolt false (boltReq.set 1 9)).out = .error 0 := by decide
example : (chkThrift (fun _ => true) [0,0,0,2,0xda,0xbc]).out = .error 0 := by decide
-- [c08l9] an announced package length below the prefix itself (PACKAGE_ERROR) is a decode error since the tars fix
example : (chkTars (fun _ => true) [0,0,0,3,1,2,3]).out = .error 0 := by decide
example : (chkTars (fun _ => true) [0,0,0,9,1,2,3]).out = .needMore := by decide

-- HPACK: a 10-byte continuation run overflows, a length beyond the received bytes asks for more (DecodeFull: error)
example : MosnVerif.Model.FrameHpack.readVarInt 7 [0x7f, 0x83, 0x01] = .ok 258 [] := by decide
example : MosnVerif.Model.FrameHpack.readVarInt 7 [0x7f,0x80,0x80,0x80,0x80,0x80,0x80,0x80,0x80,0x80,0x01] = .overflow := by decide
example : MosnVerif.Model.FrameHpack.decodeFull 0 [0x10, 1, 97, 2, 98, 99] = .ok [(1, 2)] := by decide
example : MosnVerif.Model.FrameHpack.decodeFull 0 [0x10, 1, 97, 0x7f, 0xff, 0xff, 0x03, 98] = .err := by decide

/-! ## No unbounded loop: the decode loop of `streamConn.Dispatch` (control structure regenerated: Gen/C08Loop) -/
section dispatch
open MosnVerif.Model.DispatchLoop MosnVerif.Lemmas.DispatchLoop

/-- the loop as written returns after an empty buffer, need-more, a decode error (behind handleError) and a frame of
the wrong Go type; it goes round again only after a frame -/
theorem dispatch_policy_safe : xPolicy.Safe ∧ xPolicy.againFrame = true ∧ MosnVerif.Gen.C08Loop.decodesEmpty = 0 ∧
    MosnVerif.Gen.C08Loop.errorHandled = true := by decide

/-- **dispatch_terminates**: for EVERY read buffer and EVERY decoder whose successes drain at least one byte, one
`Dispatch` returns (the small-step loop has a terminating run: the buffer length is the variant), after at most
`|buffer|` (hence `≤ |buffer| + 1`) Decode calls, and it never grows the buffer. -/
theorem dispatch_terminates (dec : List UInt8 → DStep) (hd : Progress dec) (b : List UInt8) :
    ∃ c', Returns xPolicy dec ⟨b, 0⟩ c' ∧ c'.calls ≤ b.length ∧ c'.calls ≤ b.length + 1 ∧ c'.buf.length ≤ b.length := by
  obtain ⟨c', hr, hc, hl⟩ := run_terminates xPolicy dec dispatch_policy_safe.1 hd b.length ⟨b, 0⟩ (Nat.le_refl _)
  refine ⟨c', run_sound _ _ _ _ _ hr, ?_, ?_, hl⟩ <;> simp at hc <;> omega

/-- the executable loop the driver runs needs no more fuel than `|buffer| + 1` -/
theorem dispatch_run_total (dec : List UInt8 → DStep) (hd : Progress dec) (b : List UInt8) :
    (run xPolicy dec (b.length + 1) ⟨b, 0⟩).isSome = true := by
  obtain ⟨c', hr, _⟩ := run_terminates xPolicy dec dispatch_policy_safe.1 hd b.length ⟨b, 0⟩ (Nat.le_refl _)
  simp [hr]

/-- **error_ends_dispatch**: a failed Decode is the LAST Decode call of that Dispatch (zero further calls), whatever
it drained — in particular when it drained nothing (bolt unknown command type, dubbo / thrift / tars decodeFrame). -/
theorem error_ends_dispatch (dec : List UInt8 → DStep) (c : Cfg) (k : Nat) (hne : c.buf.isEmpty = false)
    (he : dec c.buf = .error k) : Returns xPolicy dec c ⟨c.buf.drop k, c.calls + 1⟩ := by
  have h2 : (turn xPolicy dec c).2 = false := by simp [turn, hne, he]; decide
  have h1 : (turn xPolicy dec c).1 = ⟨c.buf.drop k, c.calls + 1⟩ := by simp [turn, hne, he]
  have := Returns.done (p := xPolicy) (dec := dec) (c := c) h2
  rwa [h1] at this

/-- every modelled codec (checked-access decoders of bolt, boltv2, dubbo, dubbothrift, tars; every payload oracle)
is a decoder `dispatch_terminates` applies to -/
theorem codecs_progress (proto : String) (oracle : Bytes → Bool) (chk : Bytes → Res) (h : chkOf proto oracle = some chk) :
    Progress (decOf chk) := by
  intro b n hb
  unfold decOf at hb
  cases ho : (chk b).out with
  | needMore => simp [ho, ofOut] at hb
  | error k => simp [ho, ofOut] at hb
  | oob => simp [ho, ofOut] at hb
  | frame m =>
    simp [ho, ofOut] at hb
    subst hb
    exact ((no_overread proto oracle chk h b).1 m ho).1

/-- negation witness: a loop that CONTINUES behind handleError never returns on a decoder whose failure drains
nothing (one buffered byte suffices): the configuration repeats for ever -/
theorem continue_after_error_diverges :
    ¬ ∃ c', Returns { xPolicy with againError := true } (fun _ => DStep.error 0) ⟨[1], 0⟩ c' := by
  rintro ⟨c', h⟩
  exact fixed_point_diverges { xPolicy with againError := true } (fun _ => DStep.error 0) [1]
    (fun k => by simp [turn]) _ _ h rfl

-- non-vacuity: a pipelined buffer (two 3-byte frames, then a failure that drains nothing) — 3 calls, 2 bytes left
example : run xPolicy (fun b => if b.length > 2 then .frame 3 else .error 0) 9 ⟨[1,2,3,4,5,6,7,8], 0⟩
    = some ⟨[7,8], 3⟩ := by decide
example : Progress (fun b => if b.length > 2 then DStep.frame 3 else .error 0) := by
  intro b n h
  have h' : (if b.length > 2 then DStep.frame 3 else DStep.error 0) = DStep.frame n := h
  split at h' <;> simp at h'; omega
-- the same script under continue-after-error burns all its fuel
example : run { xPolicy with againError := true } (fun b => if b.length > 2 then .frame 3 else .error 0) 50
    ⟨[1,2,3,4,5,6,7,8], 0⟩ = none := by decide
end dispatch

/-! ## No panic escapes: every goroutine a read turn may run in recovers (tables regenerated: Gen/C08Recover) -/
section recover
open MosnVerif.Model.PoolRecover MosnVerif.Lemmas.PoolRecover MosnVerif.Gen.C08Recover

/-- **panic_contained**: for each of `Schedule`, `ScheduleAlways`, `ScheduleAuto`, EVERY pool state at every select
statement (worker parked or not, slot free or not — including the saturated pool) and WHICHEVER ready clause Go picks,
the goroutine the task runs in has a recover: a panicking task never ends the process. -/
theorem panic_contained (name : String) (api : Selects) (h : apiOf name = some api) (st : Nat → PoolState) :
    ∀ a ∈ outcomes st 0 api, survives a = true := by
  have hall : allSurvive api = true := by
    unfold apiOf at h
    split at h
    · cases h; decide
    · split at h
      · cases h; decide
      · split at h
        · cases h; decide
        · cases h
  exact outcomes_survive st api 0 hall

/-- the netpoll read turn (eventloop.go readCallback: onRead → filters → Dispatch → Decode) goes through a pool method
that is in the table, and the non-netpoll read and write loops are started with a recover -/
theorem read_path_contained :
    (netpollTaskRecovers = true ∨ ∃ api, apiOf netpollReadVia = some api ∧ allSurvive api = true) ∧
    (∀ l ∈ rwLoops, l.2 = true) ∧ ("startReadLoop", true) ∈ rwLoops := by
  refine ⟨Or.inr ⟨scheduleAuto, by decide, by decide⟩, by decide, by decide⟩

-- the saturated pool: Schedule blocks, ScheduleAlways / ScheduleAuto use the temporary goroutine
example : verdicts schedule ⟨false, false⟩ = ["blocked"] := by decide
example : verdicts scheduleAuto ⟨false, false⟩ = ["survived"] := by decide
example : verdicts scheduleAlways ⟨true, true⟩ = ["survived", "survived"] := by decide
example : verdicts scheduleAuto ⟨false, true⟩ = ["survived"] := by decide
-- negation witness: the same table with a bare `go task()` in the default clause loses the process when saturated
example : (outcomes (fun _ => ⟨false, false⟩) 0
    [[("work", "handoff"), ("default", "none")], [("work", "handoff"), ("sem", "spawn"), ("default", "bare")]]).map survives
    = [false] := by decide
end recover

/-! ## The HTTP/2 read path: `MFramer.ReadFrame` with checked access and the two `Dispatch` loops
(slice bounds, indices, offsets and the loop structure regenerated: Gen/C08H2Loop; length tests: Gen/FrameLen) -/
section h2loop
open MosnVerif.Model.H2ReadLoop MosnVerif.Lemmas.H2ReadLoop

/-- both loops as written return after ErrAGAIN and after a connection error (which handleFrame → handleError has seen);
they go round again after a frame and after a StreamError -/
theorem h2_policy_safe : srvPolicy.Safe ∧ cliPolicy.Safe ∧
    srvPolicy.againFrame = true ∧ cliPolicy.againFrame = true ∧ srvPolicy.againStream = true ∧ cliPolicy.againStream = true ∧
    MosnVerif.Gen.C08H2Loop.srvHandledConnErr = true ∧ MosnVerif.Gen.C08H2Loop.cliHandledConnErr = true ∧
    MosnVerif.Gen.C08H2Loop.srvHandledStreamErr = true ∧ MosnVerif.Gen.C08H2Loop.cliHandledStreamErr = true := by decide

/-- **h2_readframe_no_overread**: for EVERY buffer content, EVERY offset, every read limit and every behaviour of the
payload parsers / header-block validation: `readFrameHeader` (slice `data.Bytes()[off:]`, the indices 0..4, the 4-byte
read at 5), the payload slice of `ReadFrame` and every nested read of `readMetaFrame` (any start offset, any stream, any
number of CONTINUATION frames) stay inside the buffered bytes (checked access never answers `oob`); and a top-level
`ReadFrame` that delivers a frame or a StreamError drained at least one whole frame header (9 bytes) and never more than
was buffered. -/
theorem h2_readframe_no_overread (mx : Nat) (o : Orc) (b : List UInt8) :
    (∀ off, readHdr b off ≠ .oob ∧ one mx o b off ≠ .oob) ∧
    (∀ off0 sid fuel ms, contLoop mx o b off0 sid fuel ms ≠ .oob) ∧
    readFrame mx o b ≠ .oob ∧
    (∀ k, (readFrame mx o b = .frame k ∨ readFrame mx o b = .stream k) → 9 ≤ k ∧ k ≤ b.length) :=
  ⟨fun off => ⟨(readHdr_spec b off).1, (one_spec mx o b off).1⟩,
   fun off0 sid fuel ms => (contLoop_spec mx o b off0 sid fuel ms).1,
   (readFrame_spec mx o b).1, (readFrame_spec mx o b).2⟩

/-- **h2_dispatch_terminates**: `serverStreamConnection.Dispatch` and `clientStreamConnection.Dispatch`, for EVERY read
buffer and EVERY (possibly stateful) decoder whose frames and stream errors consume ≥ 9 buffered bytes, return — after
at most `|buffer|/9 + 1` Decode calls, never enlarging the buffer (small-step loop without fuel; the buffer length is
the variant). -/
theorem h2_dispatch_terminates (p : Policy) (hp : p = srvPolicy ∨ p = cliPolicy) (dec : Nat → List UInt8 → DStep)
    (hd : Progress dec) (b : List UInt8) :
    ∃ c', Returns p dec ⟨b, 0⟩ c' ∧ c'.calls ≤ b.length / 9 + 1 ∧ c'.buf.length ≤ b.length := by
  have hs : p.Safe := by rcases hp with rfl | rfl; exact h2_policy_safe.1; exact h2_policy_safe.2.1
  obtain ⟨c', hr, _, hc, hl⟩ := run_terminates p dec hs hd (b.length / 9) ⟨b, 0⟩ (by simp only; omega)
  exact ⟨c', run_sound _ _ _ _ _ hr, by simpa using hc, hl⟩

/-- … in particular with the framer itself as the decoder (`clientCodec.Decode`; `serverCodec.Decode` behind the
preface): every read limit, every behaviour of the parsers and of the header-block validation -/
theorem h2_dispatch_terminates_framer (p : Policy) (hp : p = srvPolicy ∨ p = cliPolicy) (mx : Nat) (o : Orc) (b : List UInt8) :
    ∃ c', Returns p (frameDec mx o) ⟨b, 0⟩ c' ∧ c'.calls ≤ b.length / 9 + 1 ∧ c'.buf.length ≤ b.length :=
  h2_dispatch_terminates p hp (frameDec mx o) (frameDec_progress mx o) b

/-- every turn that goes round again drained ≥ 9 bytes that were buffered -/
theorem h2_again_turn_drains (p : Policy) (hp : p = srvPolicy ∨ p = cliPolicy) (dec : Nat → List UInt8 → DStep)
    (hd : Progress dec) (c : Cfg) (ha : (turn p dec c).2 = true) :
    (turn p dec c).1.buf.length + 9 ≤ c.buf.length ∧ 9 ≤ (dec c.calls c.buf).drained := by
  have hs : p.Safe := by rcases hp with rfl | rfl; exact h2_policy_safe.1; exact h2_policy_safe.2.1
  exact turn_measure p dec hs hd c ha

/-- ErrAGAIN and a connection error END the Dispatch: that Decode call is its last one -/
theorem h2_again_connerr_end_dispatch (p : Policy) (hp : p = srvPolicy ∨ p = cliPolicy) (dec : Nat → List UInt8 → DStep)
    (c : Cfg) (k : Nat) (he : dec c.calls c.buf = .again k ∨ dec c.calls c.buf = .conn k) :
    Returns p dec c ⟨c.buf.drop k, c.calls + 1⟩ := by
  have hs : p.Safe := by rcases hp with rfl | rfl; exact h2_policy_safe.1; exact h2_policy_safe.2.1
  have h2 : (turn p dec c).2 = false := by
    rcases he with he | he <;> simp [turn, he, Policy.again, hs.1, hs.2]
  have h1 : (turn p dec c).1 = ⟨c.buf.drop k, c.calls + 1⟩ := by
    rcases he with he | he <;> simp [turn, he, DStep.drained]
  have := Returns.done (p := p) (dec := dec) (c := c) h2
  rwa [h1] at this

/-- negation witness: a loop that CONTINUES after a connection error never returns (a connection error drains nothing) -/
theorem h2_continue_after_connerr_diverges :
    ¬ ∃ c', Returns { srvPolicy with againConn := true } (fun _ _ => DStep.conn 0) ⟨[1], 0⟩ c' := by
  rintro ⟨c', h⟩
  exact MosnVerif.Lemmas.H2ReadLoop.fixed_point_diverges { srvPolicy with againConn := true } (fun _ _ => DStep.conn 0) [1]
    (fun k => by simp [turn, DStep.drained, Policy.again]) _ _ h rfl

-- non-vacuity. A PING (8 bytes payload) behind which 3 bytes of the next header wait: frame, then ErrAGAIN
def h2Ping : List UInt8 := [0,0,8, 6, 0, 0,0,0,0, 1,2,3,4,5,6,7,8]
def okOrc : Orc := ⟨fun _ => .ok, fun _ => .ok⟩
example : readFrame 16384 okOrc (h2Ping ++ [0,0,0]) = .frame 17 := by decide
example : run srvPolicy (frameDec 16384 okOrc) 3 ⟨h2Ping ++ [0,0,0], 0⟩ = some ⟨[0,0,0], 2⟩ := by decide
-- HEADERS (stream 1, no END_HEADERS, 1 byte) + CONTINUATION (END_HEADERS, 2 bytes): one group of 21 bytes
def h2Group : List UInt8 := [0,0,1, 1, 0, 0,0,0,1, 0x82,  0,0,2, 9, 4, 0,0,0,1, 0x84, 0x86]
example : readFrame 16384 okOrc h2Group = .frame 21 := by decide
-- the same with only 0..8 bytes of the CONTINUATION header buffered: ErrAGAIN, nothing read out of range
example : (List.range 9).all (fun n => readFrame 16384 okOrc (h2Group.take (10 + n)) == .again) = true := by decide
-- the class the theorem excludes: a completeness test that forgets the offset (`data.Len() < frameHeaderLen`) lets the
-- header read at offset 10 run past the 12 buffered bytes
example : hdrOf ((h2Group.take 12).drop 10) = .oob := by decide
-- payload length at / one above the read limit; a stream error consumes its frame, the loop goes on
example : readFrame 8 okOrc h2Ping = .frame 17 ∧ readFrame 7 okOrc h2Ping = .conn := by decide
example : run cliPolicy (frameDec 16384 ⟨fun _ => .stream, fun _ => .ok⟩) 4 ⟨h2Ping ++ h2Ping, 0⟩ = some ⟨[], 3⟩ := by decide
-- continue-after-connection-error burns all its fuel
example : run { srvPolicy with againConn := true } (frameDec 7 okOrc) 50 ⟨h2Ping, 0⟩ = none := by decide
end h2loop

/-! ## dubbo service-aware metadata: every risky site of the hessian walk lies behind the deferred recover
(sites and domination regenerated from the AST of getServiceAwareMeta: Gen/C08DubboMeta) -/
section dubbometa
open MosnVerif.Model.DubboMeta MosnVerif.Gen.C08DubboMeta

/-- **dubbo_meta_sites_recovered**: getServiceAwareMeta has a deferred recover and EVERY unchecked type assertion,
index / bounded slice expression and call of a function of the package in it is dominated by that defer statement
(it is a direct statement of a block and the site lies in a later statement of the same block). -/
theorem dubbo_meta_sites_recovered : recoverPresent = true ∧ ∀ s ∈ riskySites, s.2.2 = true := by decide

/-- **dubbo_meta_walk_no_panic**: for EVERY sequence of decoded fields (string, nil, any other type, decode error at
every position), every announced argument count, both kinds of listener: the walk ends in `ok` or a decode error —
never in a panic that leaves the function. -/
theorem dubbo_meta_walk_no_panic (aware : Bool) (f : Nat → Fld) (nargs : Nat) : walk aware f nargs ≠ .panic := by
  have hk : ∀ (x : Fld) (b : Bool) (k : WOut), k ≠ .panic → needStr x b k ≠ .panic := by
    intro x b k hk
    cases x <;> cases b <;> simp [needStr, hk]
  have hs : ∀ (n p : Nat) (k : WOut), k ≠ .panic → skipArgs f p n k ≠ .panic := by
    intro n
    induction n with
    | zero => intro p k hk; simpa [skipArgs] using hk
    | succ n ih =>
      intro p k hk
      unfold skipArgs
      split
      · simp
      · exact ih _ _ hk
  have ht : typesNonString ≠ .panic := by decide
  unfold walk
  refine hk _ _ _ (hk _ _ _ (hk _ _ _ (hk _ _ _ ?_)))
  cases aware
  · simp
  · simp only [Bool.not_true, Bool.false_eq_true, if_false]
    cases f 4
    · apply hs; split <;> simp
    · exact ht
    · exact ht
    · simp

-- non-vacuity: an int where the argument-type descriptor is expected is an error on an aware listener and never looked
-- at on another one; a missing version (nil) is accepted; two arguments are skipped whatever their type
example : walk true (fun i => if i = 4 then .other else .str) 0 = .err ∧
    walk false (fun i => if i = 4 then .other else .str) 0 = .ok := by decide
example : walk true (fun i => if i = 2 then .null else if i = 5 ∨ i = 6 then .other else .str) 2 = .ok := by decide
example : walk true (fun i => if i < 6 then .str else .derr) 2 = .err := by decide
example : riskySites.length = 2 ∧ uncheckedStringAsserts = 1 := by decide
end dubbometa

/-! ## HTTP/1 (pkg/stream/http/stream.go): the serve loop behind the Dispatch pipe, the pipe itself, the limits -/
section http1
open MosnVerif.Model.H1Serve MosnVerif.Gen.C08H1Loop MosnVerif.Lemmas.H1Serve

/-- For EVERY finite input and EVERY parser (fasthttp is an oracle) whose messages consume at least one byte of what they
were given, `serverStreamConnection.serve()` and `clientStreamConnection.serve()` (what a turn does per class of parser
answer regenerated: Gen/C08H1Loop) stop turning after at most |input| + 1 parse calls, and they end blocked in Read waiting
for more bytes or with the failure acted upon (server: connection closed; client: waiting stream reset) — never gone
without anybody having been told (`Fin.dead`), also when the parser panics. -/
theorem http1_serve_terminates_per_input (parse : List UInt8 → PStep) (hp : Progress parse) (input : List UInt8)
    (p : Policy) (hpol : p = srvPolicy ∨ p = cliPolicy) :
    ∃ c' f, Returns p parse ⟨input, 0, []⟩ c' f ∧ c'.calls ≤ input.length + 1 ∧ 0 < c'.calls ∧
      (f = .waiting ∨ f = .closed) := by
  have hc : p.Contained := by cases hpol with
    | inl h => rw [h]; decide
    | inr h => rw [h]; decide
  obtain ⟨c', f, hr, h1, h2⟩ := returns_of_progress p hc.1 parse hp input.length ⟨input, 0, []⟩ rfl
  exact ⟨c', f, hr, by simpa using h1, by omega, returns_fin_contained p hc parse hr⟩

-- non-vacuity: a parser that takes 3 bytes per message and fails on a short rest: two requests answered, then 400 + close
example : run srvPolicy (fun b => if b.length ≥ 3 then .msg 3 false false else if b.isEmpty then .needMore false else .err false)
    9 ⟨[1, 2, 3, 4, 5, 6, 7], 0, []⟩ = some (⟨[7], 3, [.q, .r, .q, .r, .b, .x]⟩, .closed) := by decide
example : Progress (fun b => if b.length ≥ 3 then .msg 3 false false else .err false) := by
  intro b n c k h
  dsimp only at h
  split at h
  · cases h; omega
  · cases h
-- a parser panic (fasthttp on a Content-Length above 2^31) is answered and the connection closed
example : run srvPolicy (fun _ => .panic false) 3 ⟨[1], 0, []⟩ = some (⟨[1], 1, [.b, .x]⟩, .closed) := by decide
example : run cliPolicy (fun _ => .panic false) 3 ⟨[1], 0, []⟩ = some (⟨[1], 1, [.t]⟩, .closed) := by decide

/-- machine-checked witness for the seeded mistake: a serve loop that goes round again behind a parse error never stops
when the parser fails without consuming (fasthttp discards nothing on a header error) -/
theorem http1_continue_after_error_diverges (parse : List UInt8 → PStep) (he : ∀ b, parse b = .err false)
    (c c' : Cfg) (f : Fin) : ¬ Returns { srvPolicy with errAgain := true } parse c c' f :=
  fun h => spins _ rfl parse he h

/-- `Dispatch` never blocks behind a parse error (or a parser panic) on a server connection: the error turn calls Close,
the connection's close event reaches `Reset` (the stream connection listens, OnEvent -> Reset), Reset closes `bufChan`,
and a send on the closed channel panics under Dispatch's deferred recover: Dispatch returns, whatever it still holds.
The same Reset releases a serve goroutine blocked in Read (closed channel -> error -> serve returns). -/
theorem http1_dispatch_never_blocks_after_error (len : Nat) :
    dispatchOn h1_dispatchRecovers (srvPipeAfter srvPolicy.errCloses srvPolicy.errAgain) len = .returns ∧
    dispatchOn h1_dispatchRecovers (srvPipeAfter srvPolicy.panicCloses false) len = .returns ∧
    readReleasedByReset = true := by
  have h1 : srvPipeAfter srvPolicy.errCloses srvPolicy.errAgain = ⟨true, false⟩ := by decide
  have h2 : srvPipeAfter srvPolicy.panicCloses false = ⟨true, false⟩ := by decide
  have hr : h1_dispatchRecovers = true := by decide
  refine ⟨?_, ?_, by decide⟩
  · rw [h1, hr]; unfold dispatchOn; split <;> simp
  · rw [h2, hr]; unfold dispatchOn; split <;> simp

/-- what the code does on the CLIENT side, exactly: a failed response read resets the waiting stream and serve returns
WITHOUT closing the connection (h1_cliErrCloses = 0): a Dispatch that still holds bytes stays blocked until the owner of
the connection (the pool: activeClient.OnResetStream marks it, OnDestroyStream closes it) closes it; then it returns. -/
theorem http1_client_dispatch_released_by_close (len : Nat) (h : 0 < len) :
    dispatchOn h1_dispatchRecovers ⟨false, cliPolicy.errAgain⟩ len = .blockedUntilClose ∧
    dispatchOn h1_dispatchRecovers ⟨h1_resetCloses.contains "bufChan", false⟩ len = .returns := by
  have hr : h1_dispatchRecovers = true := by decide
  have ha : cliPolicy.errAgain = false := by decide
  have hc : h1_resetCloses.contains "bufChan" = true := by decide
  rw [hr, ha, hc]
  unfold dispatchOn
  have : ¬ len = 0 := by omega
  simp [this]

-- non-vacuity: a pipe nobody reads from and nobody closed blocks; without the recover the send would panic
example : dispatchOn true ⟨false, false⟩ 5 = .blockedUntilClose ∧ dispatchOn false ⟨true, false⟩ 5 = .panics := by decide

theorem headRead_large (size headLen avail : Nat) (h : effReader size < headLen) :
    (headRead size headLen avail).1 ≠ .parsed ∧ (headRead size headLen avail).2 ≤ effReader size ∧
    (effReader size ≤ avail → (headRead size headLen avail).1 = .tooLarge) := by
  unfold headRead
  dsimp only
  by_cases ha : avail < effReader size
  · have h1 : ¬ headLen ≤ avail := by omega
    have h2 : ¬ avail = effReader size := by omega
    simp only [ha, if_true, h1, h2, if_false]
    refine ⟨by simp, by omega, by omega⟩
  · have h1 : ¬ headLen ≤ effReader size := by omega
    simp only [ha, if_false, h1, if_true]
    refine ⟨by simp, by omega, fun _ => trivial⟩

/-- The limits, exactly as the code sets them. HEAD: the bufio.Reader of a server connection has the configured
MaxHeaderSize (default `defaultMaxHeaderSize` = 8192; bufio's minimum is 16), the client's the configured
max_header_size or the default; a message head LARGER than that reader is never parsed, never more than the reader's size
is buffered for it, and as soon as that many bytes have arrived the parser fails loudly (ErrSmallBuffer) — which serve
answers with 400 + Close and returns (client: stream reset).  BODY: the server hands the configured MaxRequestBodySize to
ReadLimitBody / ContinueReadBody; its DEFAULT IS 0 = NO LIMIT, and the client reads responses with no limit at all
(fasthttp then allocates for the announced Content-Length: not bounded by this code). -/
theorem http1_limits_enforced (cfg headLen avail : Nat) (h : effReader (h1_srvReaderSize cfg) < headLen) :
    (headRead (h1_srvReaderSize cfg) headLen avail).1 ≠ .parsed ∧
    (headRead (h1_srvReaderSize cfg) headLen avail).2 ≤ effReader (h1_srvReaderSize cfg) ∧
    (effReader (h1_srvReaderSize cfg) ≤ avail → (headRead (h1_srvReaderSize cfg) headLen avail).1 = .tooLarge) ∧
    (0 < srvPolicy.errW400 ∧ 0 < srvPolicy.errCloses ∧ srvPolicy.errAgain = false) ∧
    (0 < cliPolicy.errResets ∧ cliPolicy.errAgain = false) ∧
    h1_srvReaderSize h1_defaultMaxHeaderSize = 8192 ∧ h1_cliReaderSize 0 = 8192 ∧
    (∀ b, h1_srvBodyLimit b = b) ∧ h1_defaultMaxRequestBodySize = 0 ∧ h1_cliBodyLimit = 0 := by
  obtain ⟨a, b, c⟩ := headRead_large (h1_srvReaderSize cfg) headLen avail h
  exact ⟨a, b, c, by decide, by decide, by decide, by decide, fun _ => rfl, by decide, by decide⟩

-- non-vacuity: default reader, heads of 8192 / 8193 bytes fully arrived; a head that never ends
example : (headRead 8192 8192 9000).1 = .parsed ∧ (headRead 8192 8193 9000) = (.tooLarge, 8192) ∧
    (headRead 8192 100000 5000) = (.needMore, 5000) ∧ (headRead 3 17 40) = (.tooLarge, 16) := by decide
end http1

/-! ## [c08l9] SETTINGS of an upstream are validated before they are applied; the request writers' loops end -/
section c08l9settings
open MosnVerif.Model.H2ClientSettings MosnVerif.Lemmas.H2ClientSettings MosnVerif.Gen

/-- the tie of this section, decided on the regenerated structure: on BOTH sides (MServerConn via the embedded
serverConn.processSetting, MClientConn via its callback) the function handed to `ForeachSetting` returns the error of
`s.Valid()` before it assigns anything; MAX_FRAME_SIZE is stored in the field the writers read; the HEADERS loop has the
shape the model is written from and its callers pass that field. -/
theorem settings_validated_before_applied :
    C08H2Settings.clientValidatesFirst = true ∧ C08H2Settings.serverValidatesFirst = true ∧
    stores C08H2Settings.clientApplies 5 "cc.maxFrameSize" = true ∧
    stores C08H2Settings.serverApplies 5 "sc.maxFrameSize" = true ∧
    C08H2Settings.headersLoopShape = ["len(hdrs)>0", "chunk:=hdrs", "cut:chunk=chunk[:maxFrameSize]", "hdrs=hdrs[len(chunk):]"] ∧
    C08H2Settings.headersMaxArgs.all (fun a => a == "int(cc.maxFrameSize)" || a == "int(cc.conn.maxFrameSize)") = true ∧
    0 < C08H2Settings.dataFragMax := by decide

/-- **client_settings_keep_frame_size_in_range**: whatever SETTINGS frames an upstream sends (EVERY list of
(id, value) pairs, every id and every 32-bit or larger value), if `processSettings` (regenerated: validates first,
assignments) accepts them the stored MAX_FRAME_SIZE is inside [16384, 2^24-1]. -/
theorem client_settings_keep_frame_size_in_range (ss : List (Nat × Nat)) (c0 c : Conn) (h0 : c0.Ok)
    (h : processSettings C08H2Settings.clientValidatesFirst C08H2Settings.clientApplies c0 ss = .ok c) : c.Ok := by
  have hv : C08H2Settings.clientValidatesFirst = true := by decide
  rw [hv] at h
  exact processSettings_ok _ ss c0 c h0 h

/-- **client_request_writers_terminate** (no unbounded loop on the goroutine that writes a request): after ANY accepted
sequence of SETTINGS, for EVERY header block length and EVERY body length covered by the send window, the
HEADERS/CONTINUATION loop of `writeHeaders` and the DATA loop of `writeDataAndTrailer` end within (length) turns, every
frame carries at least one octet (progress), header fragments are at most the peer's frame size, and the fragments add
up to what was to be written. -/
theorem client_request_writers_terminate (ss : List (Nat × Nat)) (c : Conn)
    (h : processSettings C08H2Settings.clientValidatesFirst C08H2Settings.clientApplies init ss = .ok c)
    (hlen b avail : Nat) (hb : b ≤ avail) :
    (∃ fs, headerFrames c.maxFrameSize (hlen + 1) hlen = some fs ∧ sumI fs = hlen ∧
      (∀ f ∈ fs, 0 < f ∧ f ≤ (c.maxFrameSize : Int)) ∧ (fs.length : Int) ≤ hlen) ∧
    (∃ fs, dataFrames c.maxFrameSize (b + 1) avail b = some fs ∧ sumI fs = b ∧ ∀ f ∈ fs, 0 < f) := by
  have hok := client_settings_keep_frame_size_in_range ss init c init_ok h
  have hm : (0 : Int) < (c.maxFrameSize : Int) := by have := hok.1; omega
  exact ⟨headerFrames_terminates _ hm hlen hlen (by omega) (by omega),
    dataFrames_terminates _ hm b avail b (by omega) (by omega) (by omega)⟩

/-- the model's outcome of EVERY `h2set` case satisfies the executable predicate (the request ends; every frame makes
progress) — for every setting id, every value, every header block and every body covered by the initial window -/
theorem h2set_spec_holds_on_model (id val hdr hlen b : Nat) (hb : b ≤ 65535) :
    h2setSpec (h2setModel C08H2Settings.clientValidatesFirst C08H2Settings.clientApplies id val hdr hlen b) = true := by
  unfold h2setModel
  split
  · exact request_spec _ _ _ _ _ (by decide) (by decide) hb
  · rename_i c hc
    split
    · decide
    · have hok := client_settings_keep_frame_size_in_range _ init c init_ok hc
      exact request_spec _ _ _ _ _ (by decide) (by have := hok.1; omega) hb

/-- machine-checked witness of the defect that was repaired (fix: MClientConn.processSettings calls Valid first): a
callback that does NOT validate accepts MAX_FRAME_SIZE = 0, and then neither loop ever ends, whatever the fuel — for every
non-empty header block and every non-empty body. -/
theorem unvalidated_settings_wedge :
    ∃ c, processSettings false C08H2Settings.clientApplies init [(5, 0)] = .ok c ∧
      (∀ fuel (rest : Int), 0 < rest → headerFrames c.maxFrameSize fuel rest = none) ∧
      (∀ fuel (avail rest : Int), 0 < rest → 0 < avail → dataFrames c.maxFrameSize fuel avail rest = none) := by
  refine ⟨{ init with maxFrameSize := 0 }, by rfl, ?_, ?_⟩
  · intro fuel rest hr; exact headerFrames_diverges 0 (by omega) fuel rest hr
  · intro fuel avail rest hr ha; exact dataFrames_diverges fuel avail rest hr ha

-- non-vacuity: a SETTINGS frame that is accepted and changes the frame size; 40019 octets of header block in 3 frames
example : processSettings C08H2Settings.clientValidatesFirst C08H2Settings.clientApplies init [(4, 70000), (5, 20000)]
    = .ok { init with maxFrameSize := 20000, initialWindow := 70000 } := by rfl
example : headerFrames 20000 40020 40019 = some [20000, 20000, 19] := by decide
example : dataFrames 20000 30001 65535 30000 = some [16384, 3616, 10000] := by decide
example : processSettings C08H2Settings.clientValidatesFirst C08H2Settings.clientApplies init [(5, 0)] = .error 1 := by rfl
example : headerFrames 0 40 5 = none := by decide
end c08l9settings

/-! ## [c08l9] "need more data" is honest: no connection waits for ever on bytes that can never become a frame -/
section c08l9needmore
open MosnVerif.Model.FrameSteps MosnVerif.Model.NeedMoreLive MosnVerif.Lemmas.NeedMoreLive MosnVerif.Gen.FrameConsts

/-- **needmore_is_live_partial**: for dubbo, dubbothrift and tars (either payload oracle) and EVERY byte string the
decoder answers "need more data" on, there is a continuation on which it answers a frame or an error: the connection is
never stuck whatever the peer sends next.  (tars: since the fix that maps TarsGo's PACKAGE_ERROR to a decode error —
regenerated flag `tars_packageErrorFails`; with the flag false the statement is false, see the witness below.)
Full statement: the same for bolt and boltv2 (their selection on the first bytes is not done here). -/
theorem needmore_is_live_partial (proto : String) (oracle : Bytes → Bool) (step : Bytes → Step Bytes)
    (hp : proto = "dubbo" ∨ proto = "thrift" ∨ proto = "tars") (hs : frameStepOf proto oracle = some step)
    (b : Bytes) (h : step b = .needMore) : ∃ e, step (b ++ e) ≠ .needMore := by
  rcases hp with rfl | rfl | rfl <;> simp only [frameStepOf, Option.some.injEq] at hs <;> subst hs
  · exact envelope_live _ _ dubboHdr_live b h
  · exact envelope_live _ _ thriftHdr_live b h
  · exact envelope_live _ _ tarsHdr_live b h

/-- the checked tars decoder (the one the `dec` / `disp` cases are compared with) never answers need-more on a buffer
the declarative reference calls hopeless (announced package length < 4 or > 10 MiB): the predicate added to kinds
`dec` and `disp` holds of the model -/
theorem tars_needmore_never_hopeless (oracle : Bytes → Bool) (b : Bytes)
    (h : (chkTars oracle b).out.toStep b = .needMore) : hopeless "tars" b = false := by
  rw [MosnVerif.Model.FrameChk.chkTars_refines] at h
  apply tarsHdr_needMore_not_hopeless
  unfold frameStep_tars envelope at h
  split at h
  · assumption
  · cases h
  · split at h <;> cases h

/-- witness of the repaired defect: a decoder that maps PACKAGE_ERROR to "need more data" (the code before the fix)
waits for ever on the prefix 00 00 00 00 — whatever follows -/
theorem tars_package_error_as_needmore_is_stuck (e : Bytes) :
    (fun (b : Bytes) => if b.length < 4 then Hdr.needMore else
      if be b 0 4 < 4 ∨ be b 0 4 > 10485760 then Hdr.needMore else
      if b.length < be b 0 4 then Hdr.needMore else Hdr.len (be b 0 4)) ([0, 0, 0, 0] ++ e) = .needMore := by
  have h : be ([0, 0, 0, 0] ++ e) 0 4 = 0 := by
    rw [MosnVerif.Model.FrameSteps.be_append [0, 0, 0, 0] e 0 4 (by simp)]; decide
  simp only [h]; simp

-- non-vacuity: buffers tars answers need-more on (short prefix; 6 announced, 5 buffered) and their completions
example : frameStep_tars (fun _ => true) [0, 0] = .needMore ∧ frameStep_tars (fun _ => true) [0, 0, 0, 6, 16] = .needMore ∧
    frameStep_tars (fun _ => true) ([0, 0, 0, 6, 16] ++ [1]) = .frame [0, 0, 0, 6, 16, 1] 6 := by decide
example : frameStep_tars (fun _ => true) [0, 0, 0, 3] = .error ∧ frameStep_tars (fun _ => true) [0xff, 0xff, 0xff, 0xff, 1] = .error ∧
    hopeless "tars" [0, 0, 0, 3] = true ∧ hopeless "tars" [0, 0, 0, 4] = false ∧ hopeless "tars" [0, 0xa0, 0, 1] = true := by decide
end c08l9needmore

/-! ## [c08l9] trailers: a second HEADERS frame on a request stream never reaches a nil trailer object -/
section c08l9trailers
open MosnVerif.Model.H2Trailers MosnVerif.Lemmas.H2Trailers MosnVerif.Gen

/-- the facts read off the regenerated structure (Gen/C08H2Trailers): processHeaders refuses HEADERS for a stream that
is half-closed(remote) BEFORE mprocessTrailerHeaders; handleFrame allocates the trailer object of every request that
is not ended by its HEADERS frame; mprocessTrailerHeaders has the order of tests the model is written from -/
theorem trailers_cfg_safe : Cfg.Safe cfgGen ∧
    C08H2Trailers.srvTrailerSteps = ["sc:=st.sc", "if st.gotTrailerHeader", "st.gotTrailerHeader=true",
      "if !f.StreamEnded()", "if len(f.PseudoFields())>0", "if st.trailer!=nil", "st.state=stateHalfClosedRemote"] := by
  refine ⟨⟨by decide, by decide⟩, by decide⟩

/-- **trailers_never_nil_deref**: for EVERY sequence of HEADERS (request head / trailers, with or without END_STREAM,
declared `Trailer` or not, pseudo or forbidden fields) and DATA frames a client sends on a stream, the server's
handleFrame never assigns through a nil `stream.trailer` (no panic on the connection's read goroutine), and a
registered stream that is still open always has its trailer object. -/
theorem trailers_never_nil_deref (evs : List Ev) :
    (run cfgGen {} evs).panicked = false ∧
    ((run cfgGen {} evs).reg = true → (run cfgGen {} evs).ms = .open → (run cfgGen {} evs).tobj = true) :=
  run_inv cfgGen trailers_cfg_safe.1 evs {} ⟨rfl, by intro h; cases h⟩

/-- the model's outcome of EVERY `h2trail` case satisfies the predicate -/
theorem h2trail_spec_holds_on_model (evs : List Ev) :
    h2trailSpec (if (run cfgGen {} evs).panicked then "panic" else "ret") = true := by
  rw [(trailers_never_nil_deref evs).1]; decide

/-- witness of the repaired defect: WITHOUT the half-closed(remote) test, HEADERS(END_STREAM) followed by trailers
HEADERS(END_STREAM) — a request that already ended has no trailer object — is a nil dereference -/
theorem trailers_without_state_check_panic :
    (run { cfgGen with stateCheck := false } {} [.headers .head false true, .headers .trail false true]).panicked = true := by
  decide

-- non-vacuity: legitimate trailers are delivered; trailers after the end of the request are refused with a reset
example : (run cfgGen {} [.headers .head true false, .data false, .headers .trail false true]).del = ["hbt"] := by decide
example : let s := run cfgGen {} [.headers .head false true, .headers .trail false true]
    s.del = ["h"] ∧ s.resets = 1 ∧ s.rst = 1 ∧ s.closed = false ∧ s.panicked = false := by decide
end c08l9trailers

/-! ## [c08p10] protocol matchers and HTTP/2 frame payload parsers as regenerated checked-access programs
(Gen/C08Matchers, Gen/C08H2Parse: the Go function bodies translated statement by statement, every index / slice /
big-endian read a checked primitive of Model/CheckedGo); allocation structure of the HTTP/2 read path (Gen/C08H2Alloc) -/
section c08p10
open MosnVerif.Model.CheckedGo MosnVerif.Model.CheckedWire MosnVerif.Gen.C08H2Parse
open MosnVerif.Lemmas.CheckedMatch MosnVerif.Lemmas.CheckedH2Parse

/-- every registered matcher is safe (no out-of-range access) and answers a MatchResult -/
theorem matcher_safe (name : String) (m : MosnVerif.Model.CheckedGo.Bytes → Chk MR) (h : matcherOf name = some m)
    (b : MosnVerif.Model.CheckedGo.Bytes) : (m b).Safe (fun _ => True) := by
  unfold matcherOf at h
  split at h <;> simp only [Option.some.injEq, reduceCtorEq] at h <;> subst h
  · exact Safe.bind (bolt_safe b) (fun _ _ => Safe.ok trivial)
  · exact Safe.bind (boltv2_safe b) (fun _ _ => Safe.ok trivial)
  · exact Safe.bind (dubbo_safe b) (fun _ _ => Safe.ok trivial)
  · exact Safe.bind (thrift_safe b) (fun _ _ => Safe.ok trivial)
  · exact Safe.bind (tars_safe b) (fun _ _ => Safe.ok trivial)
  · exact Safe.bind (http1_safe b) (fun _ _ => Safe.ok trivial)
  · exact Safe.bind (http2_safe b) (fun _ _ => Safe.ok trivial)

/-- **matchers_no_oob**: for EVERY byte string (empty, 1..N bytes, any content) NO registered protocol matcher —
`boltMatcher`, `boltv2Matcher`, `dubboMatcher`, `thriftMatcher`, `tarsMatcher` incl. TarsGo's `TarsRequest` (the
functions the codecs hand out in `ProtocolMatch()`), `ProtocolMatch` of the HTTP/1 and HTTP/2 stream factories, each
regenerated statement by statement with checked access — reads at or beyond the length it was given (Go: index / slice
bounds out of range panic; with spare capacity behind the peeked bytes: a read of bytes that were not received). -/
theorem matchers_no_oob (name : String) (m : MosnVerif.Model.CheckedGo.Bytes → Chk MR) (h : matcherOf name = some m)
    (b : MosnVerif.Model.CheckedGo.Bytes) : m b ≠ .oob :=
  Safe.ne_oob (matcher_safe name m h b)

/-- **matchers_total**: on every byte string every matcher answers, and the answer is one of MatchFailed / MatchAgain /
MatchSuccess -/
theorem matchers_total (name : String) (m : MosnVerif.Model.CheckedGo.Bytes → Chk MR) (h : matcherOf name = some m)
    (b : MosnVerif.Model.CheckedGo.Bytes) : ∃ r, m b = .ok r ∧ (r = .failed ∨ r = .again ∨ r = .success) := by
  obtain ⟨r, hr, _⟩ := matcher_safe name m h b
  exact ⟨r, hr, by cases r <;> simp⟩

/-- `streamConnFactory.ProtocolMatch` hands the matcher's verdict on unchanged: success ↦ nil, again ↦ EAGAIN, failed ↦ FAILED -/
theorem xfactory_result_faithful (r : MR) : errToMR (MosnVerif.Gen.C08Matchers.xfactory_result r) = r ∧
    MosnVerif.Gen.C08Matchers.xfactory_noMatcher = Err.failed := by
  cases r <;> decide

/-- **gen_matchers_eq_model** (one matcher semantics for C07 and C08): for every registered matcher and EVERY byte string
the regenerated checked-access program answers exactly what the hand-written matcher model of C07 (Model/Match.lean:
the functions `match_monotone`, `scope_monotone`, `select_*` are about) answers, and never `oob`; the two tables have the
same names (`genMatcherOf_eq`, `genScopeOf_eq` in Lemmas/CheckedMatchEq: C07's `matcherOf` / `scopeOf` ARE the regenerated
functions). -/
theorem gen_matchers_eq_model (name : String) (g : MosnVerif.Model.CheckedGo.Bytes → Chk MR)
    (m : List UInt8 → MosnVerif.Model.Match.MR) (hg : matcherOf name = some g)
    (hm : MosnVerif.Model.Match.matcherOf name = some m) (b : List UInt8) :
    g b = .ok (MosnVerif.Lemmas.CheckedMatchEq.toMR (m b)) ∧
    MosnVerif.Lemmas.CheckedMatchEq.genMatcherOf name = MosnVerif.Model.Match.matcherOf name :=
  ⟨MosnVerif.Lemmas.CheckedMatchEq.gen_eq name g m hg hm b, MosnVerif.Lemmas.CheckedMatchEq.genMatcherOf_eq name⟩

-- non-vacuity: all seven names are matchers; boundary answers of the regenerated programs
example : matcherNames.all (fun n => (matcherOf n).isSome) = true := by decide
example : (matcherNames.map (fun n => ((matcherOf n).map (fun m => matchTok (m []))).getD "-")) =
    ["again", "again", "again", "again", "again", "again", "again"] := by decide
example : (matcherOf "tars").map (fun m => matchTok (m [0, 0, 0, 6, 0x10, 1])) = some "success" := by decide
example : (matcherOf "tars").map (fun m => matchTok (m [0, 0, 0, 6, 0x10])) = some "again" := by decide
example : (matcherOf "http1").map (fun m => matchTok (m [71, 69, 84])) = some "success" := by decide
example : (matcherOf "http2").map (fun m => matchTok (m [80, 82, 73, 32, 42])) = some "again" := by decide
-- the class the theorem excludes: an index one past a length test
example : idx [1, 2, 3, 4] 4 = .oob ∧ slc [1, 2, 3, 4] 2 5 = .oob ∧ slc [1, 2, 3, 4] 3 2 = .oob ∧ beU 4 [1, 2, 3] = .oob := by decide

/-- **h2_payload_parsers_no_oob**: for EVERY frame header (any type incl. unknown ones, any flags incl. every
PADDED / PRIORITY / ACK combination, any stream id, any announced length) and EVERY payload, the payload parser
`typeFrameParser(fh.Type)` picks (`parseDataFrame`, `parseHeadersFrame`, `parsePriorityFrame`, `parseRSTStreamFrame`,
`parseSettingsFrame` with `Value` / `Setting` / `NumSettings`, `parsePushPromise`, `parsePingFrame`, `parseGoAwayFrame`,
`parseWindowUpdateFrame`, `parseContinuationFrame`, `parseUnknownFrame`; `readByte`, `readUint32`, `Flags.Has`),
regenerated with checked access, makes no access outside `[0, len payload)`. -/
theorem h2_payload_parsers_no_oob (fh : FH) (payload : MosnVerif.Model.CheckedGo.Bytes) : h2p_parse fh payload ≠ .oob :=
  Safe.ne_oob (parse_spec fh payload)

/-- what the parsers hand on lies inside the payload: an error comes with no frame; a frame's byte-slice fields (data,
header block fragment, debug data, settings, opaque payload) are never longer than the payload -/
theorem h2_fragments_within_payload (fh : FH) (payload : MosnVerif.Model.CheckedGo.Bytes) (f : Frm) (e : Err)
    (h : h2p_parse fh payload = .ok (f, e)) :
    (e ≠ .nil → f = Frm.nil) ∧ (e = .nil → f.isNil = false ∧ ∀ d ∈ f.bs, d.length ≤ payload.length) := by
  have hs := Safe.value (parse_spec fh payload) h
  refine ⟨hs.1, fun he => ⟨(hs.2 he).1, fun d hd => ?_⟩⟩
  have := (hs.2 he).2 d hd
  simp only [len] at this
  omega

/-- **h2_padding_checked**: DATA, HEADERS (with or without PRIORITY) and PUSH_PROMISE, for EVERY header and payload:
the parser answers (no panic), and a frame is delivered only together with ONE fragment for which
`|fragment| + (1 + pad length, if PADDED) + fixed fields = |payload|` — so a pad length larger than what remains behind
the pad-length octet and the fixed fields (5 with PRIORITY, 4 for the promised stream id) is ALWAYS an error, never a
negative or overlong slice bound. -/
theorem h2_padding_checked (fh : FH) (p : MosnVerif.Model.CheckedGo.Bytes) :
    let padded := decide (land fh.Flags 8 = 8)
    let over : Int := if padded then 1 + byteAt p 0 else 0
    (∃ f e, h2p_parseDataFrame fh p = .ok (f, e) ∧ (len p < over → e ≠ .nil) ∧
      (e = .nil → ∃ d, f.bs = [d] ∧ len d + over = len p)) ∧
    (∃ f e, h2p_parseHeadersFrame fh p = .ok (f, e) ∧ (len p < over + (if land fh.Flags 32 = 32 then 5 else 0) → e ≠ .nil) ∧
      (e = .nil → ∃ d, f.bs = [d] ∧ len d + over + (if land fh.Flags 32 = 32 then 5 else 0) = len p)) ∧
    (∃ f e, h2p_parsePushPromise fh p = .ok (f, e) ∧ (len p < over + 4 → e ≠ .nil) ∧
      (e = .nil → ∃ d, f.bs = [d] ∧ len d + over + 4 = len p)) := by
  intro padded over
  have key : ∀ (fixed : Int) (x : Chk (Frm × Err)), x.Safe (PadSpec padded fixed p) →
      ∃ f e, x = .ok (f, e) ∧ (len p < over + fixed → e ≠ .nil) ∧ (e = .nil → ∃ d, f.bs = [d] ∧ len d + over + fixed = len p) := by
    intro fixed x hx
    obtain ⟨⟨f, e⟩, hr, hp⟩ := hx
    refine ⟨f, e, hr, fun hlt he => ?_, fun he => ?_⟩
    · obtain ⟨d, _, _, hl⟩ := hp.1 he
      have : 0 ≤ len d := len_nonneg d
      omega
    · obtain ⟨d, hd, _, hl⟩ := hp.1 he
      exact ⟨d, hd, hl⟩
  refine ⟨?_, key _ _ (headers_spec fh p), key 4 _ (push_spec fh p)⟩
  obtain ⟨f, e, h1, h2, h3⟩ := key 0 _ (data_spec fh p)
  exact ⟨f, e, h1, fun h => h2 (by omega), fun he => by obtain ⟨d, hd, hl⟩ := h3 he; exact ⟨d, hd, by omega⟩⟩

-- non-vacuity: padded DATA on stream 1: pad 2 of 3 remaining bytes; pad 3 = all of them; pad 4 > remaining: error
example : parseTok (h2p_parseDataFrame ⟨4, 0, 8, 1⟩ [2, 7, 0, 0]) = "ok:07:_" := by decide
example : parseTok (h2p_parseDataFrame ⟨4, 0, 8, 1⟩ [3, 7, 0, 0]) = "ok:-:_" := by decide
example : parseTok (h2p_parseDataFrame ⟨4, 0, 8, 1⟩ [4, 7, 0, 0]) = "conn:1" := by decide
-- HEADERS with PADDED and PRIORITY: 1 + 5 fixed octets; 6 bytes with pad 0: empty fragment; 5 bytes: unexpected EOF
example : parseTok (h2p_parseHeadersFrame ⟨6, 1, 40, 1⟩ [0, 128, 0, 0, 3, 9]) = "ok:-:1,3,9" := by decide
example : parseTok (h2p_parseHeadersFrame ⟨5, 1, 40, 1⟩ [0, 128, 0, 0, 3]) = "eof" := by decide
example : parseTok (h2p_parseHeadersFrame ⟨7, 1, 40, 1⟩ [2, 128, 0, 0, 3, 9, 0]) = "stream:1" := by decide
-- SETTINGS: INITIAL_WINDOW_SIZE 2^31 is refused, a 7-byte payload is a frame size error
example : parseTok (h2p_parse ⟨6, 4, 0, 0⟩ [0, 4, 128, 0, 0, 0]) = "conn:3" := by decide
example : parseTok (h2p_parse ⟨7, 4, 0, 0⟩ [0, 4, 0, 0, 0, 0, 0]) = "conn:6" := by decide

section h2path
open MosnVerif.Model.H2ReadLoop MosnVerif.Lemmas.H2ReadLoop

/-- the out-of-range case of the parser oracle is dead: on the bytes of every frame the regenerated parser answers -/
theorem genParse_defined (frame : List UInt8) : genParse? frame ≠ none := by
  unfold genParse?
  split
  · rename_i h _
    have hs := parse_spec (fhOf h) (frame.drop 9)
    obtain ⟨⟨f, e⟩, hr, _⟩ := hs
    rw [hr]
    cases e <;> simp
  · simp

/-- **http2_no_overread** (lifts `http2_no_overread_partial`): the HTTP/2 read path `MFramer.ReadFrame` with its payload
parsers being the REGENERATED ones (`genOrc`: no oracle for them) — for EVERY buffer content, offset, read limit and
EVERY verdict function of the header-block validation:
(1) `readFrameHeader`, the payload slice and every nested read of `readMetaFrame` stay inside the buffered bytes;
(2) every payload parser, on every header and payload, stays inside the payload, and the parser oracle of the loop model
never takes its out-of-range branch;
(3) a frame or a StreamError drained ≥ 9 bytes and never more than were buffered.
The ONLY parameter left is the verdict (ok / connection error / StreamError) on a COMPLETE header block.  What that
verdict reads of the buffer it reads through the HPACK decoder: `hpack_block_no_oob` below (every table access, for every
block, callback and bounded decoder state) with `hpack_varint_no_overread` / `hpack_string_bounded` (its byte reads) — a
hand-written mirror of hpack.go (only `Decoder.at` is regenerated), compared with the real decoder by kinds hpack /
hpackx on exact-capacity buffers; the rest of the verdict (field validation) sees decoded fields only. -/
theorem http2_no_overread (mx : Nat) (group : List UInt8 → PRes) (b : List UInt8) :
    (∀ off, readHdr b off ≠ .oob ∧ one mx (genOrc group) b off ≠ .oob) ∧
    (∀ off0 sid fuel ms, contLoop mx (genOrc group) b off0 sid fuel ms ≠ .oob) ∧
    readFrame mx (genOrc group) b ≠ .oob ∧
    (∀ fh payload, h2p_parse fh payload ≠ .oob) ∧ (∀ frame, genParse? frame ≠ none) ∧
    (∀ k, (readFrame mx (genOrc group) b = .frame k ∨ readFrame mx (genOrc group) b = .stream k) → 9 ≤ k ∧ k ≤ b.length) :=
  ⟨fun off => ⟨(readHdr_spec b off).1, (one_spec mx _ b off).1⟩,
   fun off0 sid fuel ms => (contLoop_spec mx _ b off0 sid fuel ms).1,
   (readFrame_spec mx _ b).1, h2_payload_parsers_no_oob, genParse_defined, (readFrame_spec mx _ b).2⟩

-- non-vacuity: a 13-byte WINDOW_UPDATE with increment 0 on stream 1 is a StreamError of the REGENERATED parser and is
-- drained whole; a padded DATA frame whose pad length exceeds the payload is a connection error
example : readFrame 16384 (genOrc (fun _ => .ok)) [0,0,4, 8, 0, 0,0,0,1, 0,0,0,0] = .stream 13 := by decide +kernel
example : readFrame 16384 (genOrc (fun _ => .ok)) [0,0,2, 0, 8, 0,0,0,1, 5,0] = .conn := by decide +kernel
example : readFrame 16384 (genOrc (fun _ => .ok)) [0,0,2, 0, 8, 0,0,0,1, 1,0] = .frame 11 := by decide +kernel

open MosnVerif.Model.HpackEmit MosnVerif.Lemmas.HpackEmit in
/-- **hpack_block_no_oob** (the last stage of the HTTP/2 read path): `hpack.Decoder.Write` + `Close` on the header block a
HEADERS+CONTINUATION group delivers — EVERY block, EVERY emit callback (whatever `readMetaFrame`'s callback keeps and
whenever it switches emitting off), from EVERY decoder state whose dynamic table is consistent and within 32 bits (what
`NewDecoder` / SETTINGS establish and every representation preserves) — never indexes the static or the dynamic table out
of range (`Decoder.at`, regenerated with Go's integer types and checked access: Gen/HpackAt); the indices it is given come
out of `readVarInt` (< 2^64).  Together with `hpack_varint_no_overread` / `hpack_string_bounded` (the decoder's byte reads)
this covers what the header-block verdict of `http2_no_overread` reads: the verdict oracle left there decides only
ok / connection error / StreamError from DECODED fields (field validation, pseudo-header rules) and reads no buffer. -/
theorem hpack_block_no_oob {σ : Type} (cb : Callback σ) (d : DecE) (st : σ) (block : List UInt8) (hb : Bounded d.base) :
    d.decodeFullP codePolicy cb st block ≠ .error .panic :=
  MosnVerif.Lemmas.HpackNoPanic.decodeFullP_no_panic codePolicy cb d st block hb

open MosnVerif.Model.HpackEmit MosnVerif.Lemmas.HpackEmit MosnVerif.Model.HpackTable in
-- non-vacuity: a fresh decoder is bounded; an indexed field with the maximal 10-byte index (2^63 + 126) is refused, not a panic
example : Bounded (DecE.new 4096).base := bounded_new 4096 (by decide)
open MosnVerif.Model.HpackEmit MosnVerif.Model.HpackTable in
example : (match (DecE.new 4096).decodeFullP codePolicy (fun (_ : Unit) _ => ((), false)) ()
      [0xff, 0xff, 0xff, 0xff, 0xff, 0xff, 0xff, 0xff, 0xff, 0x7f] with
    | .error (.dec _) => true | _ => false) = true := by decide +kernel

open MosnVerif.Model.H2Alloc MosnVerif.Lemmas.H2Alloc MosnVerif.Gen.C08H2Alloc in
/-- **h2_alloc_bounded**: (1) `MFramer.readFrameHeader` / `ReadFrame` allocate NOTHING in front of the payload slice
(no make / new / append / &T{} / buffer call), the test "payload not buffered yet ⇒ ErrAGAIN" precedes the slice and the
parser call, the payload is a view of the read buffer, and the whole function allocates nothing itself (all regenerated);
in the loop model a payload parser runs only on a frame whose 9 + announced-length bytes have all arrived;
(2) the header list `mh.Fields` built by `readMetaFrame` — the emit callback run as the regenerated step program on EVERY
sequence of decoded fields — never holds fields of more than `fr.maxHeaderListSize()` (regenerated; what both connection
constructors configure: 1 MiB; ≤ 16 MiB whatever is configured ≤ that) in total size, hence at most limit/32 entries. -/
theorem h2_alloc_bounded :
    (h2a_allocBeforePayload = [] ∧ h2a_waitPrecedesSlice = true ∧ h2a_payloadIsView = true ∧ h2a_readFrameAllocs = []) ∧
    (∀ mx o b off h, (one mx o b off = .ok h ∨ one mx o b off = .stream h) → off + 9 + h.len ≤ b.length) ∧
    (∀ c ∈ h2a_configured, 0 ≤ h2a_maxHeaderListSize c ∧ h2a_maxHeaderListSize c ≤ 16777216) ∧
    (∀ (limit : Int), 0 ≤ limit → ∀ fields : List (Nat × Nat),
      let s := emitAll h2a_emitOps limit fields
      MosnVerif.Model.H2Alloc.sum s.kept ≤ limit ∧ 32 * (s.kept.length : Int) ≤ limit) := by
  refine ⟨by decide, fun mx o b off h hh => ?_, by decide, fun limit hl fields => ?_⟩
  · have := (one_spec mx o b off).2 h hh
    simp only [MosnVerif.Gen.FrameLen.h2_size] at this
    omega
  · obtain ⟨h0, h1, h2⟩ := emitAll_inv limit hl fields
    show MosnVerif.Model.H2Alloc.sum (emitAll h2a_emitOps limit fields).kept ≤ limit ∧
      32 * ((emitAll h2a_emitOps limit fields).kept.length : Int) ≤ limit
    constructor <;> omega

open MosnVerif.Model.H2Alloc MosnVerif.Gen.C08H2Alloc in
-- non-vacuity: budget 100: fields of size 40 (3+5+32), 40, 40: two are kept, the third truncates; later fields are dropped
example : let s := emitAll h2a_emitOps 100 [(3, 5), (3, 5), (3, 5), (0, 0)]
    s.kept = [40, 40] ∧ s.remain = 20 ∧ s.truncated = true ∧ s.enabled = false := by decide
open MosnVerif.Model.H2Alloc in
-- the class the theorem excludes: appending before the test overshoots the budget
example : (emitAll ["size", "append", "test", "take"] 50 [(20, 20)]).kept = [72] := by decide
end h2path

section streamalloc
open MosnVerif.Model.StreamAlloc MosnVerif.Lemmas.StreamAlloc MosnVerif.Gen.C08StreamAlloc

/-- **stream_alloc_bounded** (allocation, STREAM layer): (1) every sized buffer allocation on the stream-layer receive
paths (pkg/stream/http2/stream.go both `handleFrame`s; pkg/stream/http/stream.go and pkg/stream/xprotocol/{conn,stream}.go
have none) — `buffer.GetIoBuffer(n)` / `NewIoBuffer` / `NewPipeBuffer` / `GetBytes` / `make([]byte, n)` / `Grow(n)`, regenerated
with the provenance of `n` — is sized by a constant or by the length of RECEIVED bytes, never by an announced value;
(2) for EVERY announced content-length (any integer: huge, negative, what a non-numeric header parses to) and EVERY
sequence of DATA payload lengths, the buffer that collects the request (server side) resp. response (client side) body —
first allocation of the regenerated size, then `Write` per payload — holds exactly what arrived, in a capacity of at most
`8 · received + 4096` bytes: a function of the bytes that ARRIVED only;
(3) the pipe of streaming mode is sized by the received payload as well, the buffer of an empty body is a constant. -/
theorem stream_alloc_bounded :
    (sa_sites.all (fun s => s.2.2.2 == "received-length" || s.2.2.2 == "constant") = true) ∧
    (∀ (ann : Int) (chunks : List Nat) (b : Buf), collect sa_srv_collect ann chunks = some b →
      b.len = total chunks ∧ b.cap ≤ capBound (total chunks)) ∧
    (∀ (ann : Int) (chunks : List Nat) (b : Buf), collect sa_cli_collect ann chunks = some b →
      b.len = total chunks ∧ b.cap ≤ capBound (total chunks)) ∧
    (∀ recv ann : Int, sa_srv_pipe recv ann = recv ∧ sa_cli_pipe recv ann = recv ∧ sa_srv_empty recv ann = 0 ∧
      sa_cli_empty recv ann = 0) :=
  ⟨by decide,
   fun ann chunks b h => collect_bounded sa_srv_collect (fun _ _ => rfl) ann chunks b h,
   fun ann chunks b h => collect_bounded sa_cli_collect (fun _ _ => rfl) ann chunks b h,
   fun _ _ => ⟨rfl, rfl, rfl, rfl⟩⟩

-- non-vacuity: content-length 268435456 announced, one byte arrives: a 64-byte slot; 65 + 1000 bytes: 128, then 2048
example : collect sa_srv_collect 268435456 [1] = some ⟨64, 1⟩ := by decide
example : collect sa_cli_collect (-5) [65, 1000] = some ⟨2048, 1065⟩ := by decide +kernel
example : sa_sites.length = 6 := by decide
-- the class the theorem excludes: a collecting buffer sized by the announcement holds 1 byte in 256 MiB
example : (collect (fun recv ann => if ann > recv then ann else recv) 268435456 [1]).map (·.cap) = some 268435456 := by
  decide +kernel
example : parseInt64 "99999999999999999999" = 9223372036854775807 ∧ parseInt64 "abc" = 0 ∧ parseInt64 "-5" = -5 := by decide
end streamalloc

/-- **hpack_varint_gen_no_overread** (HPACK byte reads, regenerated): `readVarInt` of hpack.go translated statement by
statement (Gen/C08HpackRead: `p[0]`, `p[1:]` checked; the continuation loop with its state; `panic("bad n")`), for every
prefix size the decoder uses (1..8) and EVERY byte string: no access outside the bytes given, no panic, the loop ends;
success consumed ≥ 1 byte and never more than were given; an error (need-more, overflow) consumed nothing.
This is `hpack_varint_no_overread` re-proved over the regenerated program instead of the hand-written mirror.
NOT yet regenerated (still the mirror of Model/HpackInt / HpackEmit): `Decoder.readString`, `parseHeaderFieldRepr` and the
three `parseField…` functions; Huffman decoding of the string body stays a named oracle. -/
theorem hpack_varint_gen_no_overread (n : Int) (p : MosnVerif.Model.CheckedGo.Bytes) (h1 : 1 ≤ n) (h8 : n ≤ 8) :
    MosnVerif.Gen.C08HpackRead.hpk_readVarInt n p ≠ .oob ∧
    ∀ v r e, MosnVerif.Gen.C08HpackRead.hpk_readVarInt n p = .ok (v, r, e) →
      (e = Err.nil → len r < len p) ∧ (e ≠ Err.nil → r = p) := by
  have hs := MosnVerif.Lemmas.HpackRead.readVarInt_spec n p h1 h8
  refine ⟨Safe.ne_oob hs, fun v r e h => ?_⟩
  have hv : MosnVerif.Lemmas.HpackRead.VarIntSpec p (v, r, e) := Safe.value hs h
  exact hv

-- non-vacuity: 7-bit prefix: 10 fits the prefix; 127 + 0x9a 0x0a = 1337 (RFC 7541 C.1.2 with a 7-bit prefix); truncated: need more
example : MosnVerif.Gen.C08HpackRead.hpk_readVarInt 7 [10, 99] = .ok (10, [99], Err.nil) := by decide +kernel
example : MosnVerif.Gen.C08HpackRead.hpk_readVarInt 5 [31, 154, 10, 7] = .ok (1337, [7], Err.nil) := by decide +kernel
example : MosnVerif.Gen.C08HpackRead.hpk_readVarInt 5 [31, 154] = .ok (0, [31, 154], Err.again) := by decide +kernel
end c08p10

end MosnVerif.Props.C08
