import MosnVerif.Model.Subset
namespace MosnVerif.Props.C15
open MosnVerif.Model.Subset
theorem placeholder : (1 : Nat) = 1 := rfl
end MosnVerif.Props.C15
