import MosnVerif.Lemmas.Subset
import MosnVerif.Lemmas.SubsetRequest
import MosnVerif.Lemmas.SubsetSlice
import MosnVerif.Lemmas.SubsetKeys
import MosnVerif.Lemmas.CriteriaFlow
/-!
# C15 — subset load balancing honours metadata and its fallback policy (property theorems only)

Objects (see `Model/Subset.lean`): `hosts : List Host` with metadata association lists, `raw : List (List Key)` the
configured selectors (any order, repeated keys, repeated or empty selectors), `policy : Nat` the configured
`fall_back_policy` byte, `dflt : Path` the default subset, `c : Path` the request's match criteria, sorted by key as
the router builds them (`strictSorted`).  `lbF` is the balancer of the filtering builder (`NewSubsetLoadBalancer`),
`lbPS grow shuf` the one of the pre-index builder (`NewSubsetLoadBalancerPreIndex`) under an arbitrary Go map iteration
order `shuf` and an arbitrary capacity policy `grow` of `append` (the builder's combination prefix is a Go slice:
backing array, len, cap — `Model/SubsetSlice.lean`; the statements extending it are the regenerated
`Gen.SubsetSlice.comboExtend`).  `inner` is any inner load balancer meeting the contract `InnerOK` (a chosen host is a healthy member;
some host is chosen when a healthy member exists — property C05); `rrChoose`, the round-robin balancer as written,
is proved to meet it.  `d1`, `d2` are arbitrary states of the subset's and the fallback's inner balancers.
-/
namespace MosnVerif.Props.C15
open MosnVerif MosnVerif.Model.Subset MosnVerif.Model.SubsetSlice

/-- the regenerated policy constants are the values the declarative reference `specFallbackPool` is written with. -/
theorem policy_constants :
    Gen.Subset.noFallBack = 0 ∧ Gen.Subset.anyEndPoint = 1 ∧ Gen.Subset.defaultSubset = 2 := by decide

/-- **find_refines**: for criteria sorted by key, in the trie of *either* builder `findSubset` yields an active entry
exactly when a configured selector has the criteria's key set and some host's metadata contains the criteria, and
that entry's hosts are exactly `{h | metadata h ⊇ criteria}` (in host order); otherwise it yields nothing usable
(no entry, or an entry without load balancer). -/
theorem find_refines (hosts : List Host) (raw : List (List Key)) (dflt : Path) (grow : Grow)
    (shuf : List Val → List Val) (hshuf : ∀ l v, v ∈ shuf l ↔ v ∈ l)
    (c : Path) (hs : strictSorted (c.map (·.1)) = true) :
    let sels := generateSubsetKeys raw
    let expected := if selectorExists raw c = true then hosts.filter (contains · c) else []
    (((findSubset (buildFilter hosts sels) c).bind Trie.lb).getD [] = expected ∧
     ((findSubset (buildFilter hosts sels) c).elim false entryActive = true ↔ expected ≠ [])) ∧
    (((findSubset (buildPreS grow (mkIndex hosts (mergeKeys sels dflt)) shuf hosts sels) c).bind Trie.lb).getD [] = expected ∧
     ((findSubset (buildPreS grow (mkIndex hosts (mergeKeys sels dflt)) shuf hosts sels) c).elim false entryActive = true
        ↔ expected ≠ [])) := by
  intro sels expected
  rw [buildPreS_eq]
  have hF : activeHosts (buildFilter hosts sels) c = expected := by
    have := activeHosts_lbF hosts raw 0 dflt c
    rw [refHosts_sorted hosts raw c hs] at this
    exact this
  have hP : activeHosts (buildPre (mkIndex hosts (mergeKeys sels dflt)) shuf hosts sels) c = expected := by
    have := activeHosts_lbP shuf hshuf hosts raw 0 dflt c
    rw [refHosts_sorted hosts raw c hs] at this
    exact this
  constructor
  · obtain ⟨h1, _, _, h4, _⟩ := findSubset_data (buildFilter hosts sels) c
    refine ⟨by rw [h4, hF], ?_⟩
    simp only [Gen.Subset.tryReject, hF] at h1
    cases hx : (findSubset (buildFilter hosts sels) c).isSome <;>
      cases hy : (findSubset (buildFilter hosts sels) c).elim false entryActive <;> simp_all
  · obtain ⟨h1, _, _, h4, _⟩ :=
      findSubset_data (buildPre (mkIndex hosts (mergeKeys sels dflt)) shuf hosts sels) c
    refine ⟨by rw [h4, hP], ?_⟩
    simp only [Gen.Subset.tryReject, hP] at h1
    cases hx : (findSubset (buildPre (mkIndex hosts (mergeKeys sels dflt)) shuf hosts sels) c).isSome <;>
      cases hy : (findSubset (buildPre (mkIndex hosts (mergeKeys sels dflt)) shuf hosts sels) c).elim false entryActive <;>
      simp_all

/-- **find_refines_any_path**: without assuming sorted criteria — at *every* path `q` both tries hold the hosts
`{h | metadata h ⊇ q}` when `q`'s key list is one of the normalised (sorted, deduplicated) selectors and nothing
otherwise. -/
theorem find_refines_any_path (hosts : List Host) (raw : List (List Key)) (dflt : Path) (grow : Grow)
    (shuf : List Val → List Val) (hshuf : ∀ l v, v ∈ shuf l ↔ v ∈ l) (q : Path) :
    let sels := generateSubsetKeys raw
    activeHosts (buildFilter hosts sels) q =
        (if q ≠ [] ∧ q.map (·.1) ∈ sels then hosts.filter (contains · q) else []) ∧
    activeHosts (buildPreS grow (mkIndex hosts (mergeKeys sels dflt)) shuf hosts sels) q =
        (if q ≠ [] ∧ q.map (·.1) ∈ sels then hosts.filter (contains · q) else []) := by
  intro sels
  rw [buildPreS_eq]
  exact ⟨activeHosts_lbF hosts raw 0 dflt q, activeHosts_lbP shuf hshuf hosts raw 0 dflt q⟩

/-- the normalised selectors are exactly the configured key *sets*: sorted, duplicate-free, each configured selector
represented. -/
theorem selectors_normalised (raw : List (List Key)) (s : List Key) :
    s ∈ generateSubsetKeys raw ↔ ∃ r ∈ raw, s = initSet r ∧ strictSorted s = true ∧ ∀ k, k ∈ s ↔ k ∈ r := by
  rw [mem_generateSubsetKeys]
  constructor
  · rintro ⟨r, hr, rfl⟩
    exact ⟨r, hr, rfl, (strictSorted_iff _).mpr (initSet_sorted r), fun k => mem_initSet r k⟩
  · rintro ⟨r, hr, e, _⟩
    exact ⟨r, hr, e⟩

/-- **combinations_independent** (no aliasing between sibling combinations): with the statements the builder is written
with (`Gen.SubsetSlice.comboExtend`, regenerated: a fresh allocation + copy before the append), the combinations
`metadataCombinations` hands to `createSubsets` — slices, read after the whole product has been built — are exactly the
declarative cartesian product of the indexed values, key by key, for EVERY selector length, EVERY capacity policy of
`append`, every index and every map iteration order; in particular a path is among them iff it names the selector's keys
in order with an indexed value each. -/
theorem combinations_independent (grow : Grow) (ix : Index) (shuf : List Val → List Val) (keys : List Key) :
    combosSl grow ix shuf keys =
        (if keys = [] then [] else cartesian (keys.map (fun k => (k, shuf (vals ix k))))) ∧
    ((∀ l v, v ∈ shuf l ↔ v ∈ l) → ∀ q, q ∈ combosSl grow ix shuf keys ↔
        keys ≠ [] ∧ q.map (·.1) = keys ∧ ∀ kv ∈ q, kv.2 ∈ vals ix kv.1) := by
  refine ⟨by rw [combosSl_eq, combos_cartesian], fun hshuf q => ?_⟩
  rw [combosSl_eq, mem_combos ix shuf hshuf]

/-- what makes it so: the regenerated extension only ever ADDS a backing array to the store (it never writes into an
array that existed before) and hands on a slice denoting `prefix ++ [pair]`. -/
theorem extension_is_fresh : FreshExt Gen.SubsetSlice.comboExtend Gen.SubsetSlice.comboResult := comboExtend_fresh

/-- **builders_equiv**: for every host set, selector configuration, default subset, fallback policy, Go map
iteration order and capacity policy of `append`, the two builders' tries are equal as maps from paths to active host
lists (hence host sets), and the two balancers are observationally equal: same `ChooseHost` for every query and every
inner-balancer state, same `HostNum`, same `IsExistsHosts`.  (Rests on `combinations_independent`, i.e. on the
regenerated shape of the statement that extends the combination prefix.) -/
theorem builders_equiv (hosts : List Host) (raw : List (List Key)) (policy : Nat) (dflt : Path) (grow : Grow)
    (shuf : List Val → List Val) (hshuf : ∀ l v, v ∈ shuf l ↔ v ∈ l) (inner : Inner) :
    (∀ q, activeHosts (lbF hosts raw policy dflt).subsets q = activeHosts (lbPS grow shuf hosts raw policy dflt).subsets q) ∧
    (∀ q d1 d2, chooseHost inner (lbF hosts raw policy dflt) q d1 d2 =
        chooseHost inner (lbPS grow shuf hosts raw policy dflt) q d1 d2) ∧
    (∀ c, hostNum (lbF hosts raw policy dflt) c = hostNum (lbPS grow shuf hosts raw policy dflt) c) ∧
    (∀ c, isExists (lbF hosts raw policy dflt) c = isExists (lbPS grow shuf hosts raw policy dflt) c) := by
  rw [lbPS_eq]
  have hact : ∀ q, activeHosts (lbF hosts raw policy dflt).subsets q =
      activeHosts (lbP shuf hosts raw policy dflt).subsets q := fun q => by
    rw [activeHosts_lbF, activeHosts_lbP shuf hshuf]
  exact ⟨hact, observe_congr inner _ _ (by rw [full_lbF, full_lbP]) (fallback_lbP shuf hosts raw policy dflt).symm hact⟩

/-- **choose_exact** (`ChooseHost` against the reference): a chosen host is one of `specTargets` — the healthy hosts
containing the criteria when a selector for the key set exists and such a host exists, otherwise the healthy hosts the
fallback policy allows — and a host *is* chosen whenever `specTargets` is non-empty. -/
theorem choose_exact (inner : Inner) (hin : InnerOK inner) (hosts : List Host) (raw : List (List Key))
    (policy : Nat) (dflt : Path) (c : Path) (hs : strictSorted (c.map (·.1)) = true) (d1 d2 : Nat) :
    (∀ h, chooseHost inner (lbF hosts raw policy dflt) (.crit c) d1 d2 = some h →
        h ∈ specTargets hosts raw policy dflt c) ∧
    (specTargets hosts raw policy dflt c ≠ [] →
        ∃ h, chooseHost inner (lbF hosts raw policy dflt) (.crit c) d1 d2 = some h) := by
  rw [chooseHost_lbF_char inner hin hosts raw policy dflt c hs, specTargets_eq]
  by_cases hc : selectorExists raw c = true ∧ (hosts.filter (contains · c)).filter (·.healthy) ≠ []
  · rw [if_pos hc, if_pos hc]
    constructor
    · intro h hh
      obtain ⟨h1, h2⟩ := hin.sound _ _ _ hh
      exact List.mem_filter.mpr ⟨h1, by simpa using h2⟩
    · intro hne
      obtain ⟨x, hx⟩ := List.exists_mem_of_ne_nil _ hne
      obtain ⟨hx1, hx2⟩ := List.mem_filter.mp hx
      exact hin.complete _ d1 ⟨x, hx1, by simpa using hx2⟩
  · rw [if_neg hc, if_neg hc]
    exact ⟨fun h hh => fallbackChoice_sound inner hin hosts raw policy dflt d2 h hh,
      fun hne => fallbackChoice_complete inner hin hosts raw policy dflt d2 hne⟩

/-- **fallback_exact**: when no selector has the criteria's key set, or no healthy host contains the criteria
(in particular: no host at all does), the configured fallback applies exactly — `none` (0): no host;
`any-endpoint` (1): some healthy host of the cluster, any of them; `default-subset` (2): only healthy hosts containing
the default subset (all hosts when the default subset is empty); an undefined policy value: no host. -/
theorem fallback_exact (inner : Inner) (hin : InnerOK inner) (hosts : List Host) (raw : List (List Key))
    (policy : Nat) (dflt : Path) (c : Path) (hs : strictSorted (c.map (·.1)) = true) (d1 d2 : Nat)
    (hno : selectorExists raw c = false ∨ ∀ h ∈ hosts, contains h c = true → h.healthy = false) :
    let pool : List Host := match policy with
      | 1 => hosts
      | 2 => hosts.filter (contains · dflt)
      | _ => []
    (∀ h, chooseHost inner (lbF hosts raw policy dflt) (.crit c) d1 d2 = some h → h ∈ pool ∧ h.healthy = true) ∧
    ((∃ h ∈ pool, h.healthy = true) → ∃ h, chooseHost inner (lbF hosts raw policy dflt) (.crit c) d1 d2 = some h) := by
  intro pool
  have hpool : pool = specFallbackPool hosts policy dflt := rfl
  have htargets : specTargets hosts raw policy dflt c = (specFallbackPool hosts policy dflt).filter (·.healthy) := by
    rw [specTargets_eq]
    apply if_neg
    rintro ⟨hsel, hm⟩
    rcases hno with h | h
    · rw [h] at hsel; cases hsel
    · apply hm
      rw [List.filter_eq_nil_iff]
      intro x hx hxh
      have := h x (List.mem_filter.mp hx).1 (List.mem_filter.mp hx).2
      simp [this] at hxh
  obtain ⟨h1, h2⟩ := choose_exact inner hin hosts raw policy dflt c hs d1 d2
  rw [htargets, ← hpool] at h1 h2
  constructor
  · intro h hh
    have := List.mem_filter.mp (h1 h hh)
    exact ⟨this.1, by simpa using this.2⟩
  · rintro ⟨x, hx1, hx2⟩
    apply h2
    intro e
    have : x ∈ pool.filter (·.healthy) := List.mem_filter.mpr ⟨hx1, by simpa using hx2⟩
    rw [e] at this; simp at this

/-- **subset_only**: a request whose criteria's key set has a selector, and whose subset has a healthy host, is only
ever sent to hosts whose metadata contain all the criteria's key/value pairs (and it is sent somewhere). -/
theorem subset_only (inner : Inner) (hin : InnerOK inner) (hosts : List Host) (raw : List (List Key))
    (policy : Nat) (dflt : Path) (c : Path) (hs : strictSorted (c.map (·.1)) = true) (d1 d2 : Nat)
    (hsel : selectorExists raw c = true) (hhost : ∃ h ∈ hosts, contains h c = true ∧ h.healthy = true) :
    (∀ h, chooseHost inner (lbF hosts raw policy dflt) (.crit c) d1 d2 = some h →
        h ∈ hosts ∧ contains h c = true ∧ h.healthy = true) ∧
    ∃ h, chooseHost inner (lbF hosts raw policy dflt) (.crit c) d1 d2 = some h := by
  have hm : (hosts.filter (contains · c)).filter (·.healthy) ≠ [] := by
    obtain ⟨x, hx, hxc, hxh⟩ := hhost
    intro e
    have : x ∈ (hosts.filter (contains · c)).filter (·.healthy) :=
      List.mem_filter.mpr ⟨List.mem_filter.mpr ⟨hx, hxc⟩, by simpa using hxh⟩
    rw [e] at this; simp at this
  have htargets : specTargets hosts raw policy dflt c = (hosts.filter (contains · c)).filter (·.healthy) := by
    rw [specTargets_eq, if_pos ⟨hsel, hm⟩]
  obtain ⟨h1, h2⟩ := choose_exact inner hin hosts raw policy dflt c hs d1 d2
  rw [htargets] at h1 h2
  refine ⟨fun h hh => ?_, h2 hm⟩
  have := List.mem_filter.mp (h1 h hh)
  have h3 := List.mem_filter.mp this.1
  exact ⟨h3.1, h3.2, by simpa using this.2⟩

/-- `HostNum` and `IsExistsHosts` speak about the matching subset when a selector exists and a host (healthy or
not) is in it, about the fallback pool otherwise. -/
theorem hostnum_exact (hosts : List Host) (raw : List (List Key)) (policy : Nat) (dflt : Path) (c : Path)
    (hs : strictSorted (c.map (·.1)) = true) :
    hostNum (lbF hosts raw policy dflt) (some c) = ((specPool hosts raw policy dflt c).length : Int) ∧
    isExists (lbF hosts raw policy dflt) (some c) = decide ((specPool hosts raw policy dflt c).length > 0) := by
  rw [hostNum_crit, isExists_crit, activeHosts_lbF, refHosts_sorted hosts raw c hs, specPool_eq]
  unfold fallbackNum fallbackExists
  have hfb := fallbackPool_lbF hosts raw policy dflt
  by_cases he : selectorExists raw c = true
  · by_cases hm : hosts.filter (contains · c) = []
    · have hn : ¬ (selectorExists raw c = true ∧ hosts.filter (contains · c) ≠ []) := fun h => h.2 hm
      rw [if_pos he, if_pos hm, if_pos hm, if_neg hn, ← hfb]
      cases (lbF hosts raw policy dflt).fallback <;> simp
    · rw [if_pos he, if_neg hm, if_neg hm, if_pos ⟨he, hm⟩]
      have : 0 < (hosts.filter (contains · c)).length := List.length_pos_iff.mpr hm
      simp [this]
  · have hn : ¬ (selectorExists raw c = true ∧ hosts.filter (contains · c) ≠ []) := fun h => he h.1
    rw [if_neg he, if_neg hn, ← hfb]
    cases (lbF hosts raw policy dflt).fallback <;> simp

/-- requests without match criteria use the whole cluster; requests without context use the fallback entry. -/
theorem no_criteria (inner : Inner) (hin : InnerOK inner) (hosts : List Host) (raw : List (List Key))
    (policy : Nat) (dflt : Path) (d1 d2 : Nat) :
    (∀ h, chooseHost inner (lbF hosts raw policy dflt) .nilCrit d1 d2 = some h → h ∈ hosts ∧ h.healthy = true) ∧
    ((∃ h ∈ hosts, h.healthy = true) → ∃ h, chooseHost inner (lbF hosts raw policy dflt) .nilCrit d1 d2 = some h) ∧
    (∀ h, chooseHost inner (lbF hosts raw policy dflt) .nilCtx d1 d2 = some h →
        h ∈ specFallbackPool hosts policy dflt ∧ h.healthy = true) := by
  refine ⟨?_, ?_, ?_⟩
  · intro h hh
    rw [chooseHost_nilCrit, full_lbF] at hh
    cases hi : inner hosts d1 with
    | some x =>
      simp only [hi, Option.some.injEq] at hh; subst hh
      exact hin.sound _ _ _ hi
    | none =>
      simp only [hi] at hh
      have := List.mem_filter.mp (fallbackChoice_sound inner hin hosts raw policy dflt d2 h hh)
      refine ⟨?_, by simpa using this.2⟩
      have hp := this.1
      unfold specFallbackPool at hp
      match policy, hp with
      | 0, hp => simp at hp
      | 1, hp => exact hp
      | 2, hp => exact (List.mem_filter.mp hp).1
      | n + 3, hp => simp at hp
  · intro hex
    rw [chooseHost_nilCrit, full_lbF]
    obtain ⟨x, hx⟩ := hin.complete hosts d1 hex
    exact ⟨x, by simp [hx]⟩
  · intro h hh
    rw [chooseHost_nilCtx] at hh
    have := List.mem_filter.mp (fallbackChoice_sound inner hin hosts raw policy dflt d2 h hh)
    exact ⟨this.1, by simpa using this.2⟩

/-- **criteria_sorted**: the criteria list the router builds from a criteria map (pairs in any iteration order, keys
unique) is sorted by key and has exactly the map's pairs — the hypothesis `strictSorted` of the theorems above. -/
theorem criteria_sorted (kvs : Path) (hnd : (kvs.map (·.1)).Nodup) :
    strictSorted ((mkCriteria kvs).map (·.1)) = true ∧ ∀ kv, kv ∈ mkCriteria kvs ↔ kv ∈ kvs :=
  ⟨mkCriteria_sorted kvs hnd, mem_mkCriteria kvs⟩

/-- **request_exact** (the statement end to end, no sortedness hypothesis): for a request carrying the criteria *map*
`kvs` (any iteration order), a chosen host is among the reference targets of `kvs`, a host is chosen when there is a
target, and `HostNum`/`IsExistsHosts` describe the reference pool — for the filtering builder and, by
`builders_equiv`, for the pre-index builder. -/
theorem request_exact (inner : Inner) (hin : InnerOK inner) (hosts : List Host) (raw : List (List Key))
    (policy : Nat) (dflt : Path) (grow : Grow) (shuf : List Val → List Val) (hshuf : ∀ l v, v ∈ shuf l ↔ v ∈ l)
    (kvs : Path) (hnd : (kvs.map (·.1)).Nodup) (d1 d2 : Nat) :
    (∀ lb, (lb = lbF hosts raw policy dflt ∨ lb = lbPS grow shuf hosts raw policy dflt) →
      (∀ h, chooseHost inner lb (.crit (mkCriteria kvs)) d1 d2 = some h → h ∈ specTargets hosts raw policy dflt kvs) ∧
      (specTargets hosts raw policy dflt kvs ≠ [] → ∃ h, chooseHost inner lb (.crit (mkCriteria kvs)) d1 d2 = some h) ∧
      hostNum lb (some (mkCriteria kvs)) = ((specPool hosts raw policy dflt kvs).length : Int) ∧
      isExists lb (some (mkCriteria kvs)) = decide ((specPool hosts raw policy dflt kvs).length > 0)) := by
  have hs := mkCriteria_sorted kvs hnd
  have hm := mem_mkCriteria kvs
  have hF := choose_exact inner hin hosts raw policy dflt (mkCriteria kvs) hs d1 d2
  have hN := hostnum_exact hosts raw policy dflt (mkCriteria kvs) hs
  rw [specTargets_congr hosts raw policy dflt _ kvs hm] at hF
  rw [specPool_congr hosts raw policy dflt _ kvs hm] at hN
  obtain ⟨_, hch, hnum, hex⟩ := builders_equiv hosts raw policy dflt grow shuf hshuf inner
  intro lb hlb
  rcases hlb with rfl | rfl
  · exact ⟨hF.1, hF.2, hN.1, hN.2⟩
  · refine ⟨?_, ?_, ?_, ?_⟩
    · intro h hh; rw [← hch] at hh; exact hF.1 h hh
    · intro hne; obtain ⟨h, hh⟩ := hF.2 hne; exact ⟨h, by rw [← hch]; exact hh⟩
    · rw [← hnum]; exact hN.1
    · rw [← hex]; exact hN.2

/-- the round-robin inner balancer, as written in `roundRobinLoadBalancer.ChooseHost`, meets the inner contract. -/
theorem round_robin_ok : InnerOK rrChoose := rrChoose_ok

/-- **spec_holds_on_model** (the executable predicate evaluated on implementation outputs is implied by the model):
with the round-robin inner balancer, the set of hosts `ChooseHost` returns over all balancer states is exactly
`specTargets`, for both builders; `HostNum`/`IsExistsHosts` are `specPool`'s size / non-emptiness. -/
theorem spec_holds_on_model (hosts : List Host) (raw : List (List Key)) (policy : Nat) (dflt : Path)
    (grow : Grow) (shuf : List Val → List Val) (hshuf : ∀ l v, v ∈ shuf l ↔ v ∈ l)
    (c : Path) (hs : strictSorted (c.map (·.1)) = true) (h : Host) :
    ((∃ d1 d2, chooseHost rrChoose (lbF hosts raw policy dflt) (.crit c) d1 d2 = some h) ↔
        h ∈ specTargets hosts raw policy dflt c) ∧
    ((∃ d1 d2, chooseHost rrChoose (lbPS grow shuf hosts raw policy dflt) (.crit c) d1 d2 = some h) ↔
        h ∈ specTargets hosts raw policy dflt c) ∧
    hostNum (lbPS grow shuf hosts raw policy dflt) (some c) = ((specPool hosts raw policy dflt c).length : Int) ∧
    isExists (lbPS grow shuf hosts raw policy dflt) (some c) = decide ((specPool hosts raw policy dflt c).length > 0) := by
  obtain ⟨_, hch, hnum, hex⟩ := builders_equiv hosts raw policy dflt grow shuf hshuf rrChoose
  have hF : (∃ d1 d2, chooseHost rrChoose (lbF hosts raw policy dflt) (.crit c) d1 d2 = some h) ↔
      h ∈ specTargets hosts raw policy dflt c := by
    constructor
    · rintro ⟨d1, d2, hh⟩
      exact (choose_exact rrChoose rrChoose_ok hosts raw policy dflt c hs d1 d2).1 h hh
    · intro hmem
      -- pick the balancer state that makes round-robin start at `h`
      by_cases hc : selectorExists raw c = true ∧ (hosts.filter (contains · c)).filter (·.healthy) ≠ []
      · rw [specTargets_eq, if_pos hc] at hmem
        obtain ⟨hm1, hm2⟩ := List.mem_filter.mp hmem
        obtain ⟨d, hd⟩ := rrChoose_sweeps _ h hm1 (by simpa using hm2)
        refine ⟨d, 0, ?_⟩
        rw [chooseHost_lbF_char rrChoose rrChoose_ok hosts raw policy dflt c hs, if_pos hc, hd]
      · rw [specTargets_eq, if_neg hc] at hmem
        obtain ⟨hm1, hm2⟩ := List.mem_filter.mp hmem
        rw [← fallbackPool_lbF hosts raw policy dflt] at hm1
        cases hf : (lbF hosts raw policy dflt).fallback with
        | none => simp [hf] at hm1
        | some f =>
          simp only [hf, Option.getD_some] at hm1
          obtain ⟨d, hd⟩ := rrChoose_sweeps f h hm1 (by simpa using hm2)
          refine ⟨0, d, ?_⟩
          rw [chooseHost_lbF_char rrChoose rrChoose_ok hosts raw policy dflt c hs, if_neg hc]
          simp [fallbackChoice, hf, hd]
  refine ⟨hF, ?_, ?_, ?_⟩
  · rw [← hF]
    constructor
    · rintro ⟨d1, d2, hh⟩; exact ⟨d1, d2, by rw [hch]; exact hh⟩
    · rintro ⟨d1, d2, hh⟩; exact ⟨d1, d2, by rw [← hch]; exact hh⟩
  · rw [← hnum]; exact (hostnum_exact hosts raw policy dflt c hs).1
  · rw [← hex]; exact (hostnum_exact hosts raw policy dflt c hs).2

/-! ### non-vacuity and the health interaction (design section 6, row 16) -/

def exHosts : List Host :=
  [ { name := "h0", md := [("a", "1"), ("b", "1")], healthy := true },
    { name := "h1", md := [("a", "1")], healthy := true },
    { name := "h2", md := [("a", "2"), ("b", "1")], healthy := false },
    { name := "h3", md := [("b", "2")], healthy := true } ]

/-- configured selectors: unsorted with a repeated key, a duplicate up to order, a single key, an empty selector -/
def exRaw : List (List Key) := [["b", "a", "b"], ["a", "b"], ["a"], []]

example : generateSubsetKeys exRaw = [["a", "b"], ["a"], []] := by decide
example : strictSorted ([("a", "1"), ("b", "1")].map (·.1)) = true ∧ selectorExists exRaw [("a", "1"), ("b", "1")] = true ∧
    (∃ h ∈ exHosts, contains h [("a", "1"), ("b", "1")] = true ∧ h.healthy = true) := by decide
-- both builders, equal criteria: exactly the matching host; strict subset [a=1]: selector [a] exists: h0, h1
example : (activeHosts (lbF exHosts exRaw 1 []).subsets [("a", "1"), ("b", "1")]).map (·.name) = ["h0"] ∧
    (activeHosts (lbP id exHosts exRaw 1 []).subsets [("a", "1"), ("b", "1")]).map (·.name) = ["h0"] ∧
    (activeHosts (lbP List.reverse exHosts exRaw 1 []).subsets [("a", "1")]).map (·.name) = ["h0", "h1"] := by decide
-- criteria [b=1]: hosts contain it but no selector has key set {b}: fallback (any endpoint: the healthy hosts)
example : selectorExists exRaw [("b", "1")] = false ∧
    (specTargets exHosts exRaw 1 [] [("b", "1")]).map (·.name) = ["h0", "h1", "h3"] ∧
    (specTargets exHosts exRaw 0 [] [("b", "1")]) = [] ∧
    (specTargets exHosts exRaw 2 [("b", "2")] [("b", "1")]).map (·.name) = ["h3"] := by decide
example : (chooseHost rrChoose (lbF exHosts exRaw 2 [("b", "2")]) (.crit [("b", "1")]) 0 0).map (·.name) = some "h3" ∧
    chooseHost rrChoose (lbP id exHosts exRaw 0 []) (.crit [("b", "1")]) 0 0 = none := by decide
example : InnerOK rrChoose := round_robin_ok
-- a criteria map in reversed iteration order: the router's list is sorted and hits the [a, b] subset
example : (([("b", "1"), ("a", "1")] : Path).map (·.1)).Nodup ∧ mkCriteria [("b", "1"), ("a", "1")] = [("a", "1"), ("b", "1")] ∧
    (specTargets exHosts exRaw 0 [] [("b", "1"), ("a", "1")]).map (·.name) = ["h0"] := by decide

/-- **health interaction, decided as inside the statement's fallback clause** ("no host in it" is read as "no host a
load balancer can return"): the subset for `a=2` exists and contains only the unhealthy `h2`; with the any-endpoint
policy the request is sent to a host that does *not* contain the criteria, while `HostNum`/`IsExistsHosts` still
describe the subset.  `subset_only` therefore needs its hypothesis "the subset has a *healthy* host". -/
example : selectorExists exRaw [("a", "2")] = true ∧
    (∃ h ∈ exHosts, contains h [("a", "2")] = true) ∧
    (chooseHost rrChoose (lbF exHosts exRaw 1 []) (.crit [("a", "2")]) 0 0).map (·.name) = some "h1" ∧
    (chooseHost rrChoose (lbF exHosts exRaw 1 []) (.crit [("a", "2")]) 0 0).map (contains · [("a", "2")]) = some false ∧
    hostNum (lbF exHosts exRaw 1 []) (some [("a", "2")]) = 1 ∧
    isExists (lbF exHosts exRaw 1 []) (some [("a", "2")]) = true := by decide

/-! ### the combination prefix as a Go slice: non-vacuity, and the witness against a bare `append(kvs, pair)` -/

/-- a selector with FOUR keys whose last key (in sorted order) has two values on one prefix -/
def wideHosts : List Host :=
  [ { name := "h0", md := [("a", "1"), ("b", "1"), ("c", "1"), ("d", "1")], healthy := true },
    { name := "h1", md := [("a", "1"), ("b", "1"), ("c", "1"), ("d", "2")], healthy := true } ]

def wideIx : Index := mkIndex wideHosts ["a", "b", "c", "d"]

def wideD1 : Path := [("a", "1"), ("b", "1"), ("c", "1"), ("d", "1")]
def wideD2 : Path := [("a", "1"), ("b", "1"), ("c", "1"), ("d", "2")]

-- the regenerated extension is the three-statement fresh copy; under Go's doubling policy both combinations come out
example : Gen.SubsetSlice.comboExtend =
    [.make 1 (.len 0) (.add (.len 0) (.lit 1)), .copy 1 (.var 0), .appendPair 1 (.var 1)] ∧
    Gen.SubsetSlice.comboResult = 1 := by decide
example : combosSl goGrow wideIx id ["a", "b", "c", "d"] = [wideD1, wideD2] ∧
    cartesian (["a", "b", "c", "d"].map (fun k => (k, vals wideIx k))) = [wideD1, wideD2] := by decide
example : (activeHosts (lbPS goGrow id wideHosts [["d", "c", "b", "a"]] 1 []).subsets wideD1).map (·.name) = ["h0"] ∧
    (activeHosts (lbPS exactGrow List.reverse wideHosts [["d", "c", "b", "a"]] 1 []).subsets wideD2).map (·.name) = ["h1"] := by
  decide

/-- the pre-index balancer as it would be with the bare extension `newkvs := append(kvs, pair)` -/
def bareLB (grow : Grow) (policy : Int) (sels : List (List Key)) : LB :=
  { full := wideHosts
    fallback := fallbackOf policy wideHosts wideHosts
    subsets := buildPreWith bareExtend 1 grow wideIx id wideHosts sels }

/-- **a bare append loses combinations** (`decide`): under Go's doubling policy the prefix of length 3 has capacity 4,
so the two sibling combinations of the 4-key selector share one backing array and both read `d=2` once the product is
complete; the subset `d=1` is never built, a request for `d=1` — selector exists, `h0` matches — is sent to `h1`
(any-endpoint), which does not carry `d=1`, or nowhere (no fallback), and the two builders differ.  The same shape is
harmless for 3 and 5 keys and under a policy without spare capacity — which is why the capacity policy is a
parameter. -/
example :
    combosWith bareExtend 1 goGrow wideIx id ["a", "b", "c", "d"] = [wideD2, wideD2] ∧
    combosWith bareExtend 1 goGrow wideIx id ["a", "b", "c", "d"] ≠ combos wideIx id ["a", "b", "c", "d"] ∧
    activeHosts (bareLB goGrow 1 [["a", "b", "c", "d"]]).subsets wideD1 = [] ∧
    (activeHosts (lbF wideHosts [["a", "b", "c", "d"]] 1 []).subsets wideD1).map (·.name) = ["h0"] ∧
    (chooseHost rrChoose (bareLB goGrow 1 [["a", "b", "c", "d"]]) (.crit wideD1) 0 0).map (·.name) = some "h1" ∧
    chooseHost rrChoose (bareLB goGrow 0 [["a", "b", "c", "d"]]) (.crit wideD1) 0 0 = none ∧
    (specTargets wideHosts [["a", "b", "c", "d"]] 1 [] wideD1).map (·.name) = ["h0"] ∧
    hostNum (bareLB goGrow 1 [["a", "b", "c", "d"]]) (some wideD1) = 2 ∧
    combosWith bareExtend 1 goGrow wideIx id ["a", "b", "d"] = combos wideIx id ["a", "b", "d"] ∧
    combosWith bareExtend 1 goGrow wideIx id ["a", "b", "c", "a", "d"] = combos wideIx id ["a", "b", "c", "a", "d"] ∧
    combosWith bareExtend 1 goGrow wideIx id ["a", "b", "c", "a", "b", "d"] ≠ combos wideIx id ["a", "b", "c", "a", "b", "d"] ∧
    combosWith bareExtend 1 exactGrow wideIx id ["a", "b", "c", "d"] = combos wideIx id ["a", "b", "c", "d"] := by decide

/-- the bare extension is not fresh: with spare capacity it writes into the array it received. -/
example : ¬ FreshExt bareExtend 1 := by
  intro h
  obtain ⟨ext, h1, _, _⟩ := h goGrow ⟨0, 0, 1⟩ ("k", "v") [[zeroKV]] (Nat.zero_le _)
  have h2 : (extendWith bareExtend 1 goGrow ⟨0, 0, 1⟩ ("k", "v") [[zeroKV]]).2 = [[("k", "v")]] := by decide
  rw [h2] at h1
  simp [zeroKV] at h1

/-! ## The request path: criteria assembly per request, sequences of requests on one route

Objects (see `Model/SubsetRequest.lean`): `rc : Option Meta` the `metadata_match` map the route (or its weighted
cluster) is configured with (`none`: the route owns no criteria object), whose criteria object — shared by every
request matching the route — is `rc.map mkCriteria`; `reqs : List (Option Meta)` a sequence of requests, each with its
per-request criteria map (`types.VarRouterMeta`; `none`: unset); `assemble` = `downStream.MetadataMatchCriteria` as
regenerated; `runSeq` threads the shared object through the sequence; `proxyChoose` = the cluster manager's
`HostNum(criteria) == 0 ⇒ no host, else ChooseHost`. -/

open MosnVerif.Model.SubsetRequest

/-- the criteria objects of the router: `NewMetadataMatchCriteriaImpl` returns a *new* object holding the map's pairs
sorted by key; a route owns one iff its `metadata_match` is non-empty, a weighted cluster always. -/
theorem criteria_objects (md : Meta) :
    newImpl md = some (mkCriteria md) ∧
    routeObject md = (if md = [] then none else some (mkCriteria md)) ∧
    weightedObject md = some (mkCriteria md) :=
  ⟨newImpl_eq md, routeObject_eq md, weightedObject_eq md⟩

/-- **criteria_history_independent**: for every criteria object of the route and every sequence of requests with
arbitrary per-request criteria, the criteria used for request `k` are `merge(route, request k)` — the assembly applied
to the route's *configured* object and that request alone — and the route's shared object is the configured one before
and after every request. -/
theorem criteria_history_independent (route : Option Path) (reqs : List (Option Meta)) :
    runSeq route reqs = reqs.map (assemble route) ∧
    (∀ k (hk : k < reqs.length), ((runSeq route reqs)[k]?).map (·.used) = some (assemble route reqs[k]).used) ∧
    (∀ x ∈ runSeq route reqs, x.route = route) := by
  refine ⟨runSeq_eq route reqs, fun k hk => ?_, fun x hx => ?_⟩
  · rw [runSeq_eq, List.getElem?_map, List.getElem?_eq_getElem hk]; rfl
  · rw [runSeq_eq] at hx
    obtain ⟨r, _, rfl⟩ := List.mem_map.mp hx
    exact assemble_route route r

/-- **criteria_assembled** (what `merge(route, request)` is): without per-request criteria the route's object itself;
with per-request criteria `m` a new object, sorted by key, holding exactly `m`'s pairs and the route's pairs for the
keys `m` does not set (the request wins key by key). -/
theorem criteria_assembled (rc : Option Meta) (hrc : ∀ r, rc = some r → (r.map (·.1)).Nodup) :
    (assemble (rc.map mkCriteria) none).used = rc.map mkCriteria ∧
    ∀ m : Meta, (m.map (·.1)).Nodup →
      ∃ c, (assemble (rc.map mkCriteria) (some m)).used = some c ∧ strictSorted (c.map (·.1)) = true ∧
        ∀ kv, kv ∈ c ↔ kv ∈ m ∨ (kv ∈ rc.getD [] ∧ kv.1 ∉ m.map (·.1)) := by
  refine ⟨by rw [assemble_none], fun m hm => ?_⟩
  obtain ⟨h1, h2⟩ := effList_spec rc m hrc hm
  refine ⟨_, by rw [assemble_some], mkCriteria_sorted _ h1, fun kv => ?_⟩
  rw [mem_mkCriteria, h2 kv]
  simp [List.mem_append, List.mem_filter]

/-- the proxy's host choice for criteria built from a map: `request_exact` behind the cluster manager's
`HostNum == 0` gate (the gate never changes the outcome). -/
theorem proxy_criteria_exact (inner : Inner) (hin : InnerOK inner) (hosts : List Host) (raw : List (List Key))
    (policy : Nat) (dflt : Path) (grow : Grow) (shuf : List Val → List Val) (hshuf : ∀ l v, v ∈ shuf l ↔ v ∈ l)
    (kvs : Path) (hnd : (kvs.map (·.1)).Nodup) (d1 d2 : Nat) :
    ∀ lb, (lb = lbF hosts raw policy dflt ∨ lb = lbPS grow shuf hosts raw policy dflt) →
      (∀ h, proxyChoose inner lb (some (mkCriteria kvs)) d1 d2 = some h → h ∈ specTargets hosts raw policy dflt kvs) ∧
      (specTargets hosts raw policy dflt kvs ≠ [] → ∃ h, proxyChoose inner lb (some (mkCriteria kvs)) d1 d2 = some h) := by
  intro lb hlb
  obtain ⟨ha, hb, hn, _⟩ := request_exact inner hin hosts raw policy dflt grow shuf hshuf kvs hnd d1 d2 lb hlb
  unfold proxyChoose Gen.SubsetRequest.noHostWhen
  by_cases hz : hostNum lb (some (mkCriteria kvs)) = 0
  · have hp : specPool hosts raw policy dflt kvs = [] := by
      rw [hn] at hz
      exact List.eq_nil_of_length_eq_zero (by omega)
    have ht := specTargets_nil_of_pool_nil hosts raw policy dflt kvs hp
    simp only [hz, decide_true, if_true]
    exact ⟨fun h hh => (by cases hh), fun hne => absurd ht hne⟩
  · simp only [hz, decide_false, Bool.false_eq_true, if_false]
    exact ⟨ha, hb⟩

/-- the proxy's host choice for a request without any criteria: a healthy host of the cluster, whenever there is one. -/
theorem proxy_no_criteria_exact (inner : Inner) (hin : InnerOK inner) (hosts : List Host) (raw : List (List Key))
    (policy : Nat) (dflt : Path) (grow : Grow) (shuf : List Val → List Val) (hshuf : ∀ l v, v ∈ shuf l ↔ v ∈ l) (d1 d2 : Nat) :
    ∀ lb, (lb = lbF hosts raw policy dflt ∨ lb = lbPS grow shuf hosts raw policy dflt) →
      (∀ h, proxyChoose inner lb none d1 d2 = some h → h ∈ hosts.filter (·.healthy)) ∧
      (hosts.filter (·.healthy) ≠ [] → ∃ h, proxyChoose inner lb none d1 d2 = some h) := by
  intro lb hlb
  obtain ⟨h1, h2, _⟩ := no_criteria inner hin hosts raw policy dflt d1 d2
  obtain ⟨_, hch, _, _⟩ := builders_equiv hosts raw policy dflt grow shuf hshuf inner
  have hfull : lb.full = hosts := by
    rcases hlb with rfl | rfl
    · exact full_lbF hosts raw policy dflt
    · rw [lbPS_eq]; exact full_lbP shuf hosts raw policy dflt
  have hchoose : chooseHost inner lb .nilCrit d1 d2 = chooseHost inner (lbF hosts raw policy dflt) .nilCrit d1 d2 := by
    rcases hlb with rfl | rfl
    · rfl
    · exact (hch _ _ _).symm
  have hnum : hostNum lb none = (hosts.length : Int) := by
    show ((lb.full.length : Nat) : Int) = _
    rw [hfull]
  unfold proxyChoose Gen.SubsetRequest.noHostWhen
  rw [hnum]
  by_cases hz : hosts = []
  · subst hz
    simp
  · have hlen : ((hosts.length : Nat) : Int) ≠ 0 := by
      have := List.length_pos_iff.mpr hz
      omega
    simp only [hlen, decide_false, Bool.false_eq_true, if_false]
    show (∀ h, chooseHost inner lb .nilCrit d1 d2 = some h → _) ∧ (_ → ∃ h, chooseHost inner lb .nilCrit d1 d2 = some h)
    rw [hchoose]
    constructor
    · intro h hh
      obtain ⟨a, b⟩ := h1 h hh
      exact List.mem_filter.mpr ⟨a, by simpa using b⟩
    · intro hne
      obtain ⟨x, hx⟩ := List.exists_mem_of_ne_nil _ hne
      obtain ⟨a, b⟩ := List.mem_filter.mp hx
      exact h2 ⟨x, a, by simpa using b⟩

/-- **request_path_exact** (the statement per request, independent of the history of earlier requests): on a route
configured with the criteria map `rc`, for every sequence of requests with arbitrary per-request criteria, request `k`
is sent — by either builder's balancer, behind the cluster manager's gate, whatever the inner balancer states — only to
a host among `requestTargets … rc (request k)`: the reference targets of exactly that request's pairs (its own and the
route's for the keys it does not set), and it is sent somewhere whenever that set is non-empty. -/
theorem request_path_exact (inner : Inner) (hin : InnerOK inner) (hosts : List Host) (raw : List (List Key))
    (policy : Nat) (dflt : Path) (grow : Grow) (shuf : List Val → List Val) (hshuf : ∀ l v, v ∈ shuf l ↔ v ∈ l)
    (rc : Option Meta) (hrc : ∀ r, rc = some r → (r.map (·.1)).Nodup)
    (reqs : List (Option Meta)) (hreqs : ∀ m, some m ∈ reqs → (m.map (·.1)).Nodup)
    (k : Nat) (hk : k < reqs.length) (d1 d2 : Nat) :
    ∀ lb, (lb = lbF hosts raw policy dflt ∨ lb = lbPS grow shuf hosts raw policy dflt) →
      ∃ res, (runSeq (rc.map mkCriteria) reqs)[k]? = some res ∧ res.route = rc.map mkCriteria ∧
        (∀ h, proxyChoose inner lb res.used d1 d2 = some h → h ∈ requestTargets hosts raw policy dflt rc reqs[k]) ∧
        (requestTargets hosts raw policy dflt rc reqs[k] ≠ [] → ∃ h, proxyChoose inner lb res.used d1 d2 = some h) := by
  intro lb hlb
  refine ⟨assemble (rc.map mkCriteria) reqs[k], ?_, assemble_route _ _, ?_⟩
  · rw [runSeq_eq, List.getElem?_map, List.getElem?_eq_getElem hk]; rfl
  have hmem : reqs[k] ∈ reqs := List.getElem_mem hk
  generalize reqs[k] = req at hmem
  cases req with
  | none =>
    rw [assemble_none]
    cases rc with
    | none => exact proxy_no_criteria_exact inner hin hosts raw policy dflt grow shuf hshuf d1 d2 lb hlb
    | some r => exact proxy_criteria_exact inner hin hosts raw policy dflt grow shuf hshuf r (hrc r rfl) d1 d2 lb hlb
  | some m =>
    rw [assemble_some]
    obtain ⟨h1, h2⟩ := effList_spec rc m hrc (hreqs m hmem)
    have := proxy_criteria_exact inner hin hosts raw policy dflt grow shuf hshuf _ h1 d1 d2 lb hlb
    rw [specTargets_congr hosts raw policy dflt _ _ h2] at this
    exact this

/-! ### non-vacuity of the request path, and the witness against an in-place merge -/

def zoneHosts : List Host :=
  [ { name := "h0", md := [("version", "v1"), ("zone", "a")], healthy := true },
    { name := "h1", md := [("version", "v2"), ("zone", "b")], healthy := true },
    { name := "h2", md := [("version", "v1"), ("zone", "b")], healthy := true } ]

/-- route `metadata_match {zone: a}`, selector `[zone]`; request 1 carries `{version: v2}`, request 2 nothing -/
def zoneReqs : List (Option Meta) := [some [("version", "v2")], none, some [("zone", "b")], some []]

example : routeObject [("zone", "a")] = some [("zone", "a")] ∧ routeObject [] = none ∧ weightedObject [] = some [] := by decide
-- hypotheses of `request_path_exact` hold for the example
example : (∀ r, some [("zone", "a")] = some r → (r.map (·.1)).Nodup) ∧ (∀ m, some m ∈ zoneReqs → (m.map (·.1)).Nodup) := by
  refine ⟨fun r h => by cases h; decide, fun m hm => ?_⟩
  simp [zoneReqs] at hm
  rcases hm with rfl | rfl | rfl <;> decide
-- the model as regenerated: every request sees the configured route object; request 2 is looked up with `zone=a` alone
example : (runSeq (routeObject [("zone", "a")]) zoneReqs).map (·.used) =
      [some [("version", "v2"), ("zone", "a")], some [("zone", "a")], some [("zone", "b")], some [("zone", "a")]] ∧
    (runSeq (routeObject [("zone", "a")]) zoneReqs).map (·.route) = List.replicate 4 (some [("zone", "a")]) := by decide
example : (requestTargets zoneHosts [["zone"]] 1 [] (some [("zone", "a")]) none).map (·.name) = ["h0"] ∧
    (requestTargets zoneHosts [["zone"]] 0 [] (some [("zone", "a")]) (some [("version", "v2")])) = [] ∧
    (requestTargets zoneHosts [["zone"]] 1 [] (some [("zone", "a")]) (some [("zone", "b")])).map (·.name) = ["h1", "h2"] ∧
    (requestTargets zoneHosts [["zone"]] 1 [] none none).map (·.name) = ["h0", "h1", "h2"] := by decide

/-- **an in-place merge violates history independence and the property** (`MergeMatchCriteria` as it is written merges
into its receiver: `Gen.SubsetRequest.mergeMatchRecv = 1`): had `downStream.MetadataMatchCriteria` returned
`routerMeta.MergeMatchCriteria(varMeta)`, request 1's `version=v2` would stay in the route's shared object, request 2
(route criteria only, selector `[zone]` exists, `h0` matches) would be looked up with `version=v2;zone=a`, find no
subset and be sent to `h1` (any-endpoint), which does not carry `zone=a` — or to no host at all (no fallback). -/
example :
    Gen.SubsetRequest.mergeMatchRecv = 1 ∧ Gen.SubsetRequest.mergeMatchRet = 1 ∧
    (runSeqInPlace (routeObject [("zone", "a")]) zoneReqs).map (·.used) ≠
      zoneReqs.map (fun r => (assembleInPlace (routeObject [("zone", "a")]) r).used) ∧
    ((runSeqInPlace (routeObject [("zone", "a")]) zoneReqs)[1]?).map (·.used) =
      some (some [("version", "v2"), ("zone", "a")]) ∧
    (proxyChoose rrChoose (lbF zoneHosts [["zone"]] 1 []) (some [("version", "v2"), ("zone", "a")]) 0 0).map (·.name) = some "h1" ∧
    (requestTargets zoneHosts [["zone"]] 1 [] (some [("zone", "a")]) none).map (·.name) = ["h0"] ∧
    proxyChoose rrChoose (lbF zoneHosts [["zone"]] 0 []) (some [("version", "v2"), ("zone", "a")]) 0 0 = none ∧
    (requestTargets zoneHosts [["zone"]] 0 [] (some [("zone", "a")]) none).map (·.name) = ["h0"] := by decide

/-! ## one request, several host selections: the criteria are recomputed at EVERY selection

`Model/CriteriaFlow.lean`: a request is a list of steps — a filter stores / edits / unsets the request-level variable, the
route entry is replaced, `select` (= `chooseHost` after a re-choose-host, `doRetry`). `runGen` runs them with the regenerated
facts: `Gen.CriteriaFlow.memoized` (does `downStream.MetadataMatchCriteria` keep a result across calls), and
`Gen.SubsetRequest.varCopiedBeforeMerge` (the route's pairs go into a copy of the variable's map). Every element of
`runGen s steps` is (the state current at that selection, the criteria handed to the balancer). -/
section EverySelection
open MosnVerif.Model.CriteriaFlow

/-- **criteria_flow_discipline**: `MetadataMatchCriteria` reads only the stream context (the variable), the request info (the
route entry) and the current cluster, writes no field of the stream (nothing is kept across calls), merges into a copy of
the variable's map; hosts are selected by `chooseHost` and `doRetry`, both with the stream itself as balancer context, which
`initializeUpstreamConnectionPool` hands on to the cluster manager. -/
theorem criteria_flow_discipline :
    Gen.CriteriaFlow.memoized = false ∧ Gen.SubsetRequest.varCopiedBeforeMerge = true ∧
    Gen.CriteriaFlow.reads = [.cluster, .context, .requestInfo] ∧
    Gen.CriteriaFlow.selectionSites = [("chooseHost", "s"), ("doRetry", "s")] ∧ Gen.CriteriaFlow.contextPassedOn = true := by
  decide

/-- **criteria_fresh_every_selection**: for EVERY start state and EVERY sequence of steps, selection number `k` uses exactly
`merge(route entry current at k, variable current at k)` — never the result of an earlier selection — and a selection
leaves the variable and the route's object as they were. -/
theorem criteria_fresh_every_selection (s : S) (steps : List Step) :
    (∀ x ∈ runGen s steps, x.2 = (assemble x.1.route x.1.var).used) ∧
    (∀ t : S, ((select Gen.CriteriaFlow.memoized Gen.SubsetRequest.varCopiedBeforeMerge t).2.var,
               (select Gen.CriteriaFlow.memoized Gen.SubsetRequest.varCopiedBeforeMerge t).2.route) = (t.var, t.route)) := by
  have hm : Gen.CriteriaFlow.memoized = false := criteria_flow_discipline.1
  have hc : Gen.SubsetRequest.varCopiedBeforeMerge = true := criteria_flow_discipline.2.1
  unfold runGen
  rw [hm, hc]
  exact ⟨run_fresh true steps s, select_keeps⟩

/-- **request_exact_every_selection**: composition with `request_path_exact` (hence `choose_exact` / `fallback_exact`): at
every selection of every step sequence, when the current route entry is configured with the map `rc` and the variable
holds `vm` (unique keys), the host the cluster manager hands back is among `requestTargets … rc vm` — the reference targets
of exactly the pairs current at THAT selection — and a host is found whenever that set is non-empty. -/
theorem request_exact_every_selection (inner : Inner) (hin : InnerOK inner) (hosts : List Host) (raw : List (List Key))
    (policy : Nat) (dflt : Path) (grow : Grow) (shuf : List Val → List Val) (hshuf : ∀ l v, v ∈ shuf l ↔ v ∈ l)
    (s : S) (steps : List Step) (d1 d2 : Nat) :
    ∀ x ∈ runGen s steps, ∀ (rc : Option Meta), x.1.route = rc.map mkCriteria →
      (∀ r, rc = some r → (r.map (·.1)).Nodup) → (∀ m, x.1.var = some m → (m.map (·.1)).Nodup) →
      ∀ lb, (lb = lbF hosts raw policy dflt ∨ lb = lbPS grow shuf hosts raw policy dflt) →
        (∀ h, proxyChoose inner lb x.2 d1 d2 = some h → h ∈ requestTargets hosts raw policy dflt rc x.1.var) ∧
        (requestTargets hosts raw policy dflt rc x.1.var ≠ [] → ∃ h, proxyChoose inner lb x.2 d1 d2 = some h) := by
  intro x hx rc hroute hrc hvar lb hlb
  have hu := (criteria_fresh_every_selection s steps).1 x hx
  obtain ⟨res, hres, _, h1, h2⟩ := request_path_exact inner hin hosts raw policy dflt grow shuf hshuf rc hrc [x.1.var]
    (by intro m hm; simp only [List.mem_singleton] at hm; exact hvar m hm.symm) 0 (by simp) d1 d2 lb hlb
  simp only [runSeq, List.getElem?_cons_zero, Option.some.injEq] at hres
  subst hres
  rw [hu, hroute]
  exact ⟨h1, h2⟩

-- non-vacuity: the request carries zone=a, is sent to h0; a filter stores zone=b before the retry: the retry is looked up
-- with zone=b. Route zone=a with version=v1 in the variable, then the route entry is replaced by one with zone=b.
example : (runGen { var := some [("zone", "a")], route := none } [.select, .store (some [("zone", "b")]), .select]).map (·.2) =
    [some [("zone", "a")], some [("zone", "b")]] := by decide
example : (runGen { var := some [("version", "v1")], route := routeObject [("zone", "a")] }
    [.select, .route (routeObject [("zone", "b")]), .select]).map (·.2) =
    [some [("version", "v1"), ("zone", "a")], some [("version", "v1"), ("zone", "b")]] := by decide

/-- **stale_criteria_witness** (negative witnesses, machine-checked): (1) a per-stream cache of the merged criteria makes the
second selection use the FIRST selection's pairs: the request now carries zone=b and is looked up with zone=a — `h0`, which
is not among the targets of zone=b; (2) merging in place (no copy) leaves the old route's zone=a in the variable's map, and
it wins over the new route entry's zone=b. -/
theorem stale_criteria_witness :
    (run true true { var := some [("zone", "a")], route := none } [.select, .store (some [("zone", "b")]), .select]).map (·.2) =
      [some [("zone", "a")], some [("zone", "a")]] ∧
    (proxyChoose rrChoose (lbF zoneHosts [["zone"]] 1 []) (some [("zone", "a")]) 0 0).map (·.name) = some "h0" ∧
    (requestTargets zoneHosts [["zone"]] 1 [] none (some [("zone", "b")])).map (·.name) = ["h1", "h2"] ∧
    (run false false { var := some [("version", "v1")], route := routeObject [("zone", "a")] }
      [.select, .route (routeObject [("zone", "b")]), .select]).map (·.2) =
      [some [("version", "v1"), ("zone", "a")], some [("version", "v1"), ("zone", "a")]] := by decide

end EverySelection

/-! ### selector keys: `GenerateSubsetKeys` as regenerated (`Gen.SubsetKeys`) -/

/-- **keys_exact**: the key lists `GenerateSubsetKeys` (regenerated statement by statement: normalise with `InitSet`,
compare with every list kept so far, append when none is equal) hands to both builders are, as a set of key lists,
exactly the configured selectors' sorted key lists — for arbitrary key strings (empty, prefixes or concatenations of
one another, containing any separator): a list is in the result iff it is strictly sorted and has the key set of some
configured selector; every configured selector's sorted key list occurs exactly once; nothing occurs twice. -/
theorem keys_exact (raw : List (List Key)) :
    let ks := Gen.SubsetKeys.generateSubsetKeys initSet raw
    (∀ s, s ∈ ks ↔ strictSorted s = true ∧ ∃ r ∈ raw, ∀ k, k ∈ s ↔ k ∈ r) ∧
    (∀ r ∈ raw, ∃ s, ks.count s = 1 ∧ strictSorted s = true ∧ ∀ k, k ∈ s ↔ k ∈ r) ∧
    ks.Nodup := by
  intro ks
  have hks : ks = generateSubsetKeys raw := genKeys_eq raw
  rw [hks]
  refine ⟨fun s => ⟨fun h => ?_, fun ⟨hs, r, hr, h⟩ => ?_⟩, fun r hr => ?_, generateSubsetKeys_nodup raw⟩
  · obtain ⟨r, hr, _, h2, h3⟩ := (selectors_normalised raw s).mp h
    exact ⟨h2, r, hr, h3⟩
  · exact (sorted_mem_generateSubsetKeys raw s hs).mpr ⟨r, hr, fun k => (h k).symm⟩
  · have hm : initSet r ∈ generateSubsetKeys raw := (mem_generateSubsetKeys raw _).mpr ⟨r, hr, rfl⟩
    exact ⟨initSet r, count_eq_one_of_nodup _ _ (generateSubsetKeys_nodup raw) hm,
      (strictSorted_iff _).mpr (initSet_sorted r), fun k => mem_initSet r k⟩

/-- **selector_request_confined** (`keys_exact` composed with `find_refines` / `fallback_exact` through both builders):
a request whose criteria's key set equals the key set of ANY configured selector `r` (whatever the other selectors
are and whatever strings the keys are) finds its key list among the regenerated subset keys, and on the balancers
built from them — filtering builder and pre-index builder — it is confined to the healthy hosts whose metadata contain
all its pairs whenever there is one (and is sent to one); only when there is none does the fallback pool apply. -/
theorem selector_request_confined (inner : Inner) (hin : InnerOK inner) (hosts : List Host) (raw : List (List Key))
    (policy : Nat) (dflt : Path) (grow : Grow) (shuf : List Val → List Val) (hshuf : ∀ l v, v ∈ shuf l ↔ v ∈ l)
    (c : Path) (hs : strictSorted (c.map (·.1)) = true) (d1 d2 : Nat)
    (r : List Key) (hr : r ∈ raw) (hne : c ≠ []) (hk : ∀ k, k ∈ r ↔ k ∈ c.map (·.1)) :
    let keys := Gen.SubsetKeys.generateSubsetKeys initSet raw
    let lbs : List LB := [newFilter hosts (policy : Int) dflt keys, newPreS grow shuf hosts (policy : Int) dflt keys]
    c.map (·.1) ∈ keys ∧
    ∀ lb ∈ lbs,
      ((∃ h ∈ hosts, contains h c = true ∧ h.healthy = true) →
        (∀ h, chooseHost inner lb (.crit c) d1 d2 = some h → h ∈ hosts ∧ contains h c = true ∧ h.healthy = true) ∧
        ∃ h, chooseHost inner lb (.crit c) d1 d2 = some h) ∧
      ((∀ h ∈ hosts, contains h c = true → h.healthy = false) →
        ∀ h, chooseHost inner lb (.crit c) d1 d2 = some h →
          h ∈ specFallbackPool hosts policy dflt ∧ h.healthy = true) := by
  intro keys lbs
  have hkeys : keys = generateSubsetKeys raw := genKeys_eq raw
  have hsel : selectorExists raw c = true := (selectorExists_iff raw c).mpr ⟨hne, r, hr, hk⟩
  have hF : newFilter hosts (policy : Int) dflt keys = lbF hosts raw policy dflt := by rw [hkeys]; rfl
  have hP : newPreS grow shuf hosts (policy : Int) dflt keys = lbPS grow shuf hosts raw policy dflt := by rw [hkeys]; rfl
  have heq := (builders_equiv hosts raw policy dflt grow shuf hshuf inner).2.1 (.crit c) d1 d2
  refine ⟨?_, ?_⟩
  · rw [hkeys]
    exact (sorted_mem_generateSubsetKeys raw _ hs).mpr ⟨r, hr, hk⟩
  · intro lb hlb
    have hch : chooseHost inner lb (.crit c) d1 d2 = chooseHost inner (lbF hosts raw policy dflt) (.crit c) d1 d2 := by
      simp only [lbs, List.mem_cons, List.mem_nil_iff, or_false] at hlb
      rcases hlb with rfl | rfl
      · rw [hF]
      · rw [hP, ← heq]
    rw [hch]
    exact ⟨fun hh => subset_only inner hin hosts raw policy dflt c hs d1 d2 hsel hh,
      fun hno => (fallback_exact inner hin hosts raw policy dflt c hs d1 d2 (Or.inr hno)).1⟩

/-- adversarial selector configuration: keys that concatenate to the same string, a key containing the separator, the
empty key, a permuted duplicate -/
def advRaw : List (List Key) := [["version", "app"], ["appversion"], ["a,b"], ["a", "b"], ["", "ab"], ["ab"], ["app", "version"]]
def advHosts : List Host :=
  [ { name := "h0", md := [("app", "x"), ("version", "1")], healthy := true },
    { name := "h1", md := [("appversion", "1")], healthy := true },
    { name := "h2", md := [("a,b", "1"), ("ab", "1")], healthy := true } ]

example : Gen.SubsetKeys.generateSubsetKeys initSet advRaw =
    [["app", "version"], ["appversion"], ["a,b"], ["a", "b"], ["", "ab"], ["ab"]] := by decide
-- the hypotheses of `selector_request_confined` at the second selector, and what it yields on both balancers
example : strictSorted ([("appversion", "1")].map (·.1)) = true ∧ ["appversion"] ∈ advRaw ∧
    (∃ h ∈ advHosts, contains h [("appversion", "1")] = true ∧ h.healthy = true) := by decide
example :
    let keys := Gen.SubsetKeys.generateSubsetKeys initSet advRaw
    (chooseHost rrChoose (newFilter advHosts 0 [] keys) (.crit [("appversion", "1")]) 0 0).map (·.name) = some "h1" ∧
    (chooseHost rrChoose (newPreS goGrow id advHosts 0 [] keys) (.crit [("a,b", "1")]) 0 0).map (·.name) = some "h2" := by
  decide

/-- `GenerateSubsetKeys` as it would be with a seen-map keyed by `strings.Join(keys, sep)` (what the extractor would
regenerate for that shape: state = result list × stored map keys) -/
def joinKeyed (sep : String) (raw : List (List Key)) : List (List Key) :=
  (raw.foldl (fun (st : List (List Key) × List String) ks =>
    let s := initSet ks
    let id := String.intercalate sep s
    if st.2.contains id then st else (st.1 ++ [s], st.2 ++ [id])) ([], [])).1

/-- **de-duplicating by a joined string loses selectors** (`decide`): with the empty separator `[app version]` and
`[appversion]` collide, with `","` `[a b]` and `[a,b]` do; the later selector is dropped (so `keys_exact` fails), no
subset is built for it, and a request for `appversion=1` — a configured selector, `h1` carries the pair — gets no host
under NoFallBack and `h0`, which does not carry the pair, under AnyEndPoint. -/
example :
    ["appversion"] ∈ advRaw ∧ ["appversion"] ∉ joinKeyed "" advRaw ∧
    ["a", "b"] ∈ advRaw ∧ ["a", "b"] ∉ joinKeyed "," advRaw ∧
    chooseHost rrChoose (newFilter advHosts 0 [] (joinKeyed "" advRaw)) (.crit [("appversion", "1")]) 0 0 = none ∧
    (chooseHost rrChoose (newPreS goGrow id advHosts 1 [] (joinKeyed "" advRaw)) (.crit [("appversion", "1")]) 0 2).map (·.name)
      = some "h0" ∧
    (specTargets advHosts advRaw 0 [] [("appversion", "1")]).map (·.name) = ["h1"] := by decide

end MosnVerif.Props.C15
