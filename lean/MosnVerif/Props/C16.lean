import MosnVerif.Lemmas.HealthFlags
import MosnVerif.Lemmas.HealthRegistry
import MosnVerif.Lemmas.HealthCheck
import MosnVerif.Lemmas.HealthLoop
import MosnVerif.Lemmas.HealthDispatch
import MosnVerif.Lemmas.HealthLifecycleRef
import MosnVerif.Lemmas.HealthShare
/-!
# C16 — host health state is never lost, and thresholds are exact (property theorems only)

Part A (`HealthFlags`): the shared flag word under every interleaving of the atomic accesses that
`SetHealthFlag`/`ClearHealthFlag` perform (step structure regenerated from health.go).
Part A' (`HealthRegistry`): the allocation of that word — host objects created concurrently for the same address obtain the
SAME word under every interleaving of the `healthStore` operations `GetHealthFlagPointer` performs (step program
regenerated from health.go), so Part A applies across host objects.
Part B (`HealthCheck`): the regenerated `HandleSuccess/HandleFailure` automaton against a run-length reference.
Part C (`HealthLifecycle`): the life cycle — several clusters' session checkers sharing the word of an address, created and
dropped by host-set updates / `Stop` (effects of `startCheck`/`stopCheck`/… regenerated from healthchecker.go).
-/
namespace MosnVerif.Props.C16
open MosnVerif.Model

section Flags
open MosnVerif.Model.HealthFlags

/-- **linearizable**: for EVERY initial word, EVERY set of threads (any number, any calls, any flag masks) and EVERY
schedule that runs them to completion, the final word is the result of applying the calls one after the other in the
order of their single atomic update (`log`), and that order contains each thread's calls exactly once, in the thread's
program order.  (Fairness-free: nothing is assumed about the schedule except that it completes; retries of a failed
CAS are part of the schedule.) -/
theorem linearizable (w0 : Word) (ops : List (List Op)) (s : List Nat)
    (hdone : ((Config.init w0 ops).run genP s).done = true) :
    ((Config.init w0 ops).run genP s).word = applyAll w0 ((Config.init w0 ops).log genP s) ∧
    ∀ j, proj j ((Config.init w0 ops).log genP s) = ops[j]?.getD [] := by
  rw [genP_cas] at hdone ⊢
  obtain ⟨hw, hp⟩ := run_cas (Config.init w0 ops) s
  refine ⟨hw, fun j => ?_⟩
  have := hp j
  rw [done_pendingAt _ hdone, List.append_nil, init_pendingAt] at this
  exact this

/-- the same invariant for every *prefix* of an execution (schedules that have not completed yet): what has been
logged explains the current word, nothing is lost and nothing is applied twice. -/
theorem linearizable_prefix (c : Config) (s : List Nat) :
    (c.run genP s).word = applyAll c.word (c.log genP s) ∧
    ∀ j, proj j (c.log genP s) ++ (c.run genP s).pendingAt j = c.pendingAt j := by
  rw [genP_cas]; exact run_cas c s

/-- **no bit lost, no bit invented**: after any complete schedule, every bit of the word is what the calls *naming that
bit* make of it, in linearization order — calls on other bits have no influence on it. -/
theorem bits_independent (w0 : Word) (ops : List (List Op)) (s : List Nat)
    (hdone : ((Config.init w0 ops).run genP s).done = true) (i : Nat) :
    ((Config.init w0 ops).run genP s).word.getLsbD i =
      bitRun i (w0.getLsbD i) (((Config.init w0 ops).log genP s).map (·.2)) := by
  rw [(linearizable w0 ops s hdone).1, applyAll_getLsbD]

/-- a condition nobody sets or clears keeps its initial value under every interleaving -/
theorem untouched_bit_kept (w0 : Word) (ops : List (List Op)) (s : List Nat)
    (hdone : ((Config.init w0 ops).run genP s).done = true) (i : Nat)
    (hno : ∀ l ∈ ops, ∀ op ∈ l, op.flag.getLsbD i = false) :
    ((Config.init w0 ops).run genP s).word.getLsbD i = w0.getLsbD i := by
  rw [bits_independent w0 ops s hdone]
  apply bitRun_untouched
  intro op hop
  obtain ⟨e, he, rfl⟩ := List.mem_map.mp hop
  -- e is in the log, hence in its thread's projection, hence in ops[e.1]
  have hp := (linearizable w0 ops s hdone).2 e.1
  have hin : e.2 ∈ proj e.1 ((Config.init w0 ops).log genP s) := by
    simp only [proj, List.mem_map, List.mem_filter]
    exact ⟨e, ⟨he, by simp⟩, rfl⟩
  rw [hp] at hin
  cases hj : ops[e.1]? with
  | none => simp [hj] at hin
  | some l =>
    simp only [hj, Option.getD_some] at hin
    exact hno l (List.mem_of_getElem? hj) _ hin

/-- **a condition owned by one thread** (the situation of the statement: the active health checker owns
`FAILED_ACTIVE_HC`, the outlier detector owns `FAILED_OUTLIER_CHECK`, …): if only thread `t` issues calls naming bit `i`,
the final value of bit `i` is what `t`'s own calls make of it in `t`'s program order — whatever the other threads do,
under every interleaving. -/
theorem owned_condition (w0 : Word) (ops : List (List Op)) (s : List Nat)
    (hdone : ((Config.init w0 ops).run genP s).done = true) (i t : Nat)
    (hown : ∀ j, j ≠ t → ∀ op ∈ ops[j]?.getD [], op.flag.getLsbD i = false) :
    ((Config.init w0 ops).run genP s).word.getLsbD i = bitRun i (w0.getLsbD i) (ops[t]?.getD []) := by
  rw [bits_independent w0 ops s hdone, ← (linearizable w0 ops s hdone).2 t]
  apply bitRun_filter
  intro e he hb
  by_cases hne : e.1 = t
  · exact hne
  · exfalso
    have hp := (linearizable w0 ops s hdone).2 e.1
    have hin : e.2 ∈ proj e.1 ((Config.init w0 ops).log genP s) := by
      simp only [proj, List.mem_map, List.mem_filter]
      exact ⟨e, ⟨he, by simp⟩, rfl⟩
    rw [hp] at hin
    have := hown e.1 hne e.2 hin
    rw [this] at hb
    cases hb

/-- **Health ↔ word = 0**: the host is reported healthy exactly when no condition is set (regenerated `Health()`) -/
theorem health_iff (w : Word) : health w = true ↔ ∀ i, w.getLsbD i = false := by
  simp only [health, Gen.HealthFlags.health, decide_eq_true_eq]
  constructor
  · intro h i; rw [h]; simp
  · intro h
    apply BitVec.eq_of_getLsbD_eq
    intro i _
    rw [h i]; simp

/-- `ContainHealthFlag f` (regenerated) is true exactly when the word and `f` share a bit -/
theorem contain_iff (w f : Word) : Gen.HealthFlags.containFlag w f = true ↔ ∃ i, w.getLsbD i = true ∧ f.getLsbD i = true := by
  simp only [Gen.HealthFlags.containFlag, decide_eq_true_eq, gt_iff_lt]
  constructor
  · intro h
    false_or_by_contra
    rename_i hne
    have : w &&& f = 0 := by
      apply BitVec.eq_of_getLsbD_eq
      intro i _
      simp only [BitVec.getLsbD_and]
      cases hw : w.getLsbD i <;> cases hf : f.getLsbD i <;> simp
      exact hne ⟨i, hw, hf⟩
    rw [this] at h
    exact absurd h (by decide)
  · intro ⟨i, hw, hf⟩
    have hne : w &&& f ≠ 0 := by
      intro h0
      have : (w &&& f).getLsbD i = true := by simp [hw, hf]
      rw [h0] at this
      simp at this
    exact (BitVec.pos_iff_ne_zero _).mpr hne

/-- **progress** (lock-freedom step): a CAS attempted with an up-to-date value succeeds — the thread's call takes effect
in that very step.  Hence a CAS can only fail because ANOTHER call took effect since the thread's load. -/
theorem cas_progress (w : Word) (op : Op) (rest : List Op) :
    (Thread.step genP w ⟨op :: rest, 1, w⟩).2.2 = some op ∧
    (Thread.step genP w ⟨op :: rest, 1, w⟩).1 = op.apply w ∧
    (Thread.step genP w ⟨op :: rest, 1, w⟩).2.1.ops = rest := by
  rw [genP_cas]; simp [Thread.step, casLoopP]

/-- a thread running alone completes a call in two steps (load, CAS): no schedule can make a lone caller spin -/
theorem solo_call_completes (w : Word) (op : Op) (rest : List Op) (r : Word) :
    (Config.run genP ⟨w, [⟨op :: rest, 0, r⟩]⟩ [0, 0]) = ⟨op.apply w, [⟨rest, 0, w⟩]⟩ := by
  rw [genP_cas]; simp [Config.run, Config.step, Thread.step, casLoopP, Thread.next]

/-- **a completing schedule always exists** (the hypothesis of `linearizable` is never vacuous, and no set of threads can
be wedged): from the initial configuration of ANY set of threads some schedule runs all of them to completion — built
by letting one thread at a time run alone, each call then completing within three steps (lock-freedom). -/
theorem complete_schedule_exists (w0 : Word) (ops : List (List Op)) :
    ∃ s, ((Config.init w0 ops).run genP s).done = true := by
  rw [genP_cas]; exact exists_complete_cas _ (init_WF w0 ops)

/-- the executable predicate evaluated on implementation traces is implied by the model: every complete run's trace of
words is accepted by the declarative linearizability checker. -/
theorem spec_holds_on_model_flags (w0 : Word) (ops : List (List Op)) (s : List Nat)
    (hdone : ((Config.init w0 ops).run genP s).done = true) :
    linCheck ops w0 ((Config.init w0 ops).trace genP s) = true := by
  rw [genP_cas] at hdone ⊢
  have := linCheck_trace_cas (Config.init w0 ops) s hdone
  have hp : (Config.init w0 ops).pending = ops := by
    simp [Config.pending, Config.init, Thread.init, Function.comp_def]
  rw [hp] at this
  exact this

-- non-vacuity: a concrete contended schedule of two threads on different bits completes (thread 1's first CAS fails
-- and is retried), and a three-thread one with a clear
example : ((Config.init 0 [[.set 1], [.set 2]]).run genP [0, 1, 0, 1, 1, 1]).done = true ∧
    ((Config.init 0 [[.set 1], [.set 2]]).run genP [0, 1, 0, 1, 1, 1]).word = 3 ∧
    (Config.init 0 [[.set 1], [.set 2]]).log genP [0, 1, 0, 1, 1, 1] = [(0, .set 1), (1, .set 2)] := by decide
example : ((Config.init 2 [[.set 1, .clear 1], [.clear 2], [.set 4]]).run genP [0, 1, 2, 2, 1, 1, 1, 0, 0, 0, 0, 0]).done = true := by decide

/-- **the load / modify / store shape is NOT linearizable** (DESIGN.md §6 row 11; the code before the `fix:` commit):
two threads setting different bits, schedule load₀ load₁ store₀ store₁ — the run completes, bit 1 is lost, and no
interleaving of the two calls explains the final word. -/
theorem load_store_loses_update :
    ((Config.init 0 [[.set 1], [.set 2]]).run loadStoreP [0, 1, 0, 1]).done = true ∧
    ((Config.init 0 [[.set 1], [.set 2]]).run loadStoreP [0, 1, 0, 1]).word = 2 ∧
    applyAll 0 [(0, .set 1), (1, .set 2)] = 3 ∧ applyAll 0 [(1, .set 2), (0, .set 1)] = 3 ∧
    linCheck [[.set 1], [.set 2]] 0 ((Config.init 0 [[.set 1], [.set 2]]).trace loadStoreP [0, 1, 0, 1]) = false := by
  decide

end Flags


section Allocation
open MosnVerif.Model.HealthFlags MosnVerif.Model.HealthRegistry

/-- **pointer_unique**: for EVERY well-formed initial `healthStore` (any known addresses with any words), EVERY set of
threads (each creating a host object for some address, then making any Set/Clear calls through it) and EVERY schedule —
complete or not, pointer lookups and flag updates interleaved arbitrarily — any two host objects of the SAME address that
have obtained their word hold the same word, and it is the word `healthStore` holds for the address (so every later
lookup gets it too). -/
theorem pointer_unique (reg : Reg) (heap : List Word) (hreg : RegOK reg heap) (specs : List (Addr × List Op))
    (s : List Nat) (i j : Nat) (ti tj : HThread) (x y : Nat)
    (hi : ((World.init reg heap specs).run genPP genP s).threads[i]? = some ti)
    (hj : ((World.init reg heap specs).run genPP genP s).threads[j]? = some tj)
    (ha : ti.addr = tj.addr) (hx : ti.ptr = some x) (hy : tj.ptr = some y) :
    x = y ∧ ((World.init reg heap specs).run genPP genP s).reg.lookup ti.addr = some x := by
  have inv := winv_run genPP genP genPP_safe _ (winv_init reg heap hreg specs) s
  have h1 := inv.ptr ti (List.mem_of_getElem? hi) x hx
  have h2 := inv.ptr tj (List.mem_of_getElem? hj) y hy
  rw [← ha, h1] at h2
  exact ⟨by cases h2; rfl, h1⟩

/-- host objects of DIFFERENT addresses never share a word (a condition of one address is never reported for another) -/
theorem pointer_separate (reg : Reg) (heap : List Word) (hreg : RegOK reg heap) (specs : List (Addr × List Op))
    (s : List Nat) (i j : Nat) (ti tj : HThread) (x y : Nat)
    (hi : ((World.init reg heap specs).run genPP genP s).threads[i]? = some ti)
    (hj : ((World.init reg heap specs).run genPP genP s).threads[j]? = some tj)
    (ha : ti.addr ≠ tj.addr) (hx : ti.ptr = some x) (hy : tj.ptr = some y) : x ≠ y := by
  have inv := winv_run genPP genP genPP_safe _ (winv_init reg heap hreg specs) s
  have h1 := inv.ptr ti (List.mem_of_getElem? hi) x hx
  have h2 := inv.ptr tj (List.mem_of_getElem? hj) y hy
  intro he; subst he
  exact ha (inv.inj _ _ _ h1 h2)

/-- an address keeps its word: once `healthStore` maps an address to a word, no step of any thread changes that entry -/
theorem registry_stable (w : World) (s : List Nat) (a : Addr) (id : Nat) (h : w.reg.lookup a = some id) :
    (w.run genPP genP s).reg.lookup a = some id :=
  reg_stable_run genPP genP genPP_safe w s a id h

/-- **hosts_refine_one_word** (this is what makes Part A apply across host objects): under every schedule of the world,
what the host objects of address `a` do is exactly a run of the one-word model of Part A — the calls of all host
objects of `a` as threads over the ONE word of `a` — under the sub-schedule of the accesses of that word; pointer lookups,
registrations of other addresses and updates of other addresses' words are invisible to it. -/
theorem hosts_refine_one_word (reg : Reg) (heap : List Word) (hreg : RegOK reg heap) (specs : List (Addr × List Op))
    (s : List Nat) (a : Addr) :
    ((World.init reg heap specs).run genPP genP s).view a =
      (Config.init ((World.init reg heap specs).wordOf a) (callsOf specs a)).run genP
        ((World.init reg heap specs).flagSched genPP genP a s) := by
  rw [view_run genPP genP genPP_safe _ (winv_init reg heap hreg specs) a s, init_view]

/-- **linearizable_across_hosts**: for every initial `healthStore`, every set of host-creating threads and every schedule
that runs them to completion, the final word of EVERY address is the result of applying, one after the other in the
order of their single atomic update, the calls made through ALL host objects of that address, each host object's calls
exactly once and in its program order; calls made through host objects of other addresses do not occur in it. -/
theorem linearizable_across_hosts (reg : Reg) (heap : List Word) (hreg : RegOK reg heap) (specs : List (Addr × List Op))
    (s : List Nat) (a : Addr) (hdone : ((World.init reg heap specs).run genPP genP s).done = true) :
    ((World.init reg heap specs).run genPP genP s).wordOf a =
      applyAll ((World.init reg heap specs).wordOf a)
        ((Config.init ((World.init reg heap specs).wordOf a) (callsOf specs a)).log genP
          ((World.init reg heap specs).flagSched genPP genP a s)) ∧
    ∀ j, proj j ((Config.init ((World.init reg heap specs).wordOf a) (callsOf specs a)).log genP
          ((World.init reg heap specs).flagSched genPP genP a s)) = (callsOf specs a)[j]?.getD [] := by
  have hv := hosts_refine_one_word reg heap hreg specs s a
  have hd : ((Config.init ((World.init reg heap specs).wordOf a) (callsOf specs a)).run genP
      ((World.init reg heap specs).flagSched genPP genP a s)).done = true := by
    rw [← hv]; exact done_view _ hdone a
  obtain ⟨h1, h2⟩ := linearizable _ _ _ hd
  refine ⟨?_, h2⟩
  rw [← h1, ← hv]; rfl

/-- a condition no host object of the address sets or clears keeps its value — also when the host objects are created
concurrently (Part A's `untouched_bit_kept` through the refinement) -/
theorem untouched_bit_kept_across_hosts (reg : Reg) (heap : List Word) (hreg : RegOK reg heap)
    (specs : List (Addr × List Op)) (s : List Nat) (a : Addr)
    (hdone : ((World.init reg heap specs).run genPP genP s).done = true) (i : Nat)
    (hno : ∀ sp ∈ specs, sp.1 = a → ∀ op ∈ sp.2, op.flag.getLsbD i = false) :
    (((World.init reg heap specs).run genPP genP s).wordOf a).getLsbD i =
      ((World.init reg heap specs).wordOf a).getLsbD i := by
  have hv := hosts_refine_one_word reg heap hreg specs s a
  have hd : ((Config.init ((World.init reg heap specs).wordOf a) (callsOf specs a)).run genP
      ((World.init reg heap specs).flagSched genPP genP a s)).done = true := by
    rw [← hv]; exact done_view _ hdone a
  have := untouched_bit_kept _ _ _ hd i (by
    intro l hl op hop
    simp only [callsOf, List.mem_map] at hl
    obtain ⟨sp, hsp, rfl⟩ := hl
    by_cases h : sp.1 = a
    · simp only [h, if_true] at hop; exact hno sp hsp h op hop
    · simp [h] at hop)
  rw [← hv] at this
  exact this

/-- the executable predicate evaluated on the implementation's observations is implied by the model: for every initial
`healthStore`, every set of host-creating threads and every completing schedule, what a harness observes afterwards
through the host objects (every word, every `Health()`, and a probe condition set through each host object in turn)
satisfies `HealthRegistry.holds` — all host objects of an address agree, nothing is lost or invented, healthy ⇔ no
condition. -/
theorem spec_holds_on_model_alloc (reg : Reg) (heap : List Word) (hreg : RegOK reg heap) (specs : List (Addr × List Op))
    (s : List Nat) (hdone : ((World.init reg heap specs).run genPP genP s).done = true) :
    holds specs (fun a => match reg.lookup a with
        | some id => heap[id]?.getD 0
        | none => 0) ((World.init reg heap specs).run genPP genP s).observe = true := by
  apply holds_observe specs _ _ (winv_run genPP genP genPP_safe _ (winv_init reg heap hreg specs) s) hdone
  · rw [run_addr genPP genP genPP_safe, init_addr]
  · intro a
    rw [genP_cas] at hdone ⊢
    obtain ⟨h1, h2⟩ := across_cas genPP genPP_safe reg heap hreg specs s a hdone
    rw [h1, init_wordOf]
    exact seqCheck_of_log _ _ _ h2

/-- **a completing schedule always exists** (the hypothesis `done` of the theorems above is never vacuous, and no set of
host-creating threads can be wedged): from EVERY well-formed initial `healthStore` and every set of threads some
schedule runs all of them to completion — one thread at a time obtains its word within the length of the pointer
program, then completes each call within three steps. -/
theorem complete_schedule_exists_alloc (reg : Reg) (heap : List Word) (hreg : RegOK reg heap)
    (specs : List (Addr × List Op)) : ∃ s, ((World.init reg heap specs).run genPP genP s).done = true := by
  rw [genP_cas]
  obtain ⟨h1, h2⟩ := init_reachable reg heap specs
  exact exists_complete_world genPP genPP_safe genPP_term _ _ (winv_init reg heap hreg specs) h1 h2 rfl

-- non-vacuity: a well-formed non-empty `healthStore`; a contended (round-robin) schedule of three host-creating threads
-- (two for the fresh address 7, one for the known address 3) that completes with the two hosts of address 7 sharing one
-- word.  (Steps of a finished thread are no-ops, so the schedule also completes for pointer programs with two steps.)
example : RegOK [(3, 0)] [5] := ⟨by intro a id; simp [List.lookup]; split <;> simp_all, by
  intro a b id; simp only [List.lookup]; split <;> split <;> simp_all⟩
example :
    ((World.init [(3, 0)] [5] [(7, [.set 1]), (7, [.set 2]), (3, [.clear 4])]).run genPP genP
      [0, 1, 2, 0, 1, 2, 0, 1, 2, 0, 1, 2, 0, 1, 2, 0, 1, 2, 0, 1, 2, 0, 1, 2]).done = true ∧
    ((World.init [(3, 0)] [5] [(7, [.set 1]), (7, [.set 2]), (3, [.clear 4])]).run genPP genP
      [0, 1, 2, 0, 1, 2, 0, 1, 2, 0, 1, 2, 0, 1, 2, 0, 1, 2, 0, 1, 2, 0, 1, 2]).threads.map (·.ptr)
        = [some 1, some 1, some 0] ∧
    ((World.init [(3, 0)] [5] [(7, [.set 1]), (7, [.set 2]), (3, [.clear 4])]).run genPP genP
      [0, 1, 2, 0, 1, 2, 0, 1, 2, 0, 1, 2, 0, 1, 2, 0, 1, 2, 0, 1, 2, 0, 1, 2]).heap = [1, 3] := by decide

/-- **the "Load, and on a miss allocate + Store" shape does NOT give one word per address**: two threads create a host
object for the same not-yet-known address, schedule Load₀ Load₁ Store₀ Store₁ (both miss, both allocate, the later Store
wins the map); thread 0 then sets a condition through its host object.  The run completes, the two host objects hold
DIFFERENT words, the condition is lost for host object 1 — it keeps reporting healthy — and for every later lookup, and
the executable predicate rejects the observation. -/
theorem load_then_store_splits :
    ((World.init [] [] [(7, [.set 1]), (7, [])]).run loadThenStorePP genP [0, 1, 0, 1, 0, 0]).done = true ∧
    ((World.init [] [] [(7, [.set 1]), (7, [])]).run loadThenStorePP genP [0, 1, 0, 1, 0, 0]).threads.map (·.ptr)
      = [some 0, some 1] ∧
    ((World.init [] [] [(7, [.set 1]), (7, [])]).run loadThenStorePP genP [0, 1, 0, 1, 0, 0]).observe.words
      = [(1, false), (0, true)] ∧
    ((World.init [] [] [(7, [.set 1]), (7, [])]).run loadThenStorePP genP [0, 1, 0, 1, 0, 0]).wordOf 7 = 0 ∧
    holds [(7, [.set 1]), (7, [])] (fun _ => 0)
      ((World.init [] [] [(7, [.set 1]), (7, [])]).run loadThenStorePP genP [0, 1, 0, 1, 0, 0]).observe = false := by
  decide

-- the same threads under the current source (round-robin): one word, the condition is seen through both host objects
example :
    ((World.init [] [] [(7, [.set 1]), (7, [])]).run genPP genP [0, 1, 0, 1, 0, 1, 0, 1]).done = true ∧
    ((World.init [] [] [(7, [.set 1]), (7, [])]).run genPP genP [0, 1, 0, 1, 0, 1, 0, 1]).observe.words
      = [(1, false), (1, false)] ∧
    holds [(7, [.set 1]), (7, [])] (fun _ => 0)
      ((World.init [] [] [(7, [.set 1]), (7, [])]).run genPP genP [0, 1, 0, 1, 0, 1, 0, 1]).observe = true := by
  decide

end Allocation

section Thresholds
open MosnVerif.Model.HealthCheck

/-- `newHealthChecker` never stores a zero threshold (zero → regenerated default, which is ≥ 1) -/
theorem thresholds_positive (cfg : Nat) :
    1 ≤ Gen.HealthCheck.effUnhealthyThreshold cfg ∧ 1 ≤ Gen.HealthCheck.effHealthyThreshold cfg := by
  simp only [Gen.HealthCheck.effUnhealthyThreshold, Gen.HealthCheck.effHealthyThreshold,
    Gen.HealthCheck.defaultUnhealthyThreshold, Gen.HealthCheck.defaultHealthyThreshold]
  constructor <;> split <;> simp_all <;> omega

/-- **threshold_exact**: for all thresholds `u, h ≥ 1`, every initial state of the host's flag and EVERY finite
sequence of results (success / failure / timeout), the regenerated `HandleSuccess/HandleFailure` automaton produces
exactly the run-length reference `spec`: the host is marked unhealthy exactly by the check that completes `u`
consecutive failures while it is not failing, marked healthy again exactly by the check that completes `h` consecutive
successes while it is failing, `changed` is reported to the callbacks at exactly those checks and at no other, and
`isHealthy` is the result of the check. -/
theorem threshold_exact (u h : Nat) (hu : 1 ≤ u) (hh : 1 ≤ h) (flag0 : Bool) (rs : List Result) :
    run u h (St.init flag0) rs = spec u h flag0 [] rs :=
  run_eq_spec u h hu hh (St.init flag0) [] rs (inv_init u h hu hh flag0)

/-- the same for the checker as configured (a zero threshold means the default) -/
theorem threshold_exact_cfg (cfgU cfgH : Nat) (flag0 : Bool) (rs : List Result) :
    runCfg cfgU cfgH flag0 rs =
      spec (if cfgU = 0 then 1 else cfgU) (if cfgH = 0 then 1 else cfgH) flag0 [] rs := by
  have e1 : Gen.HealthCheck.effUnhealthyThreshold cfgU = ((if cfgU = 0 then 1 else cfgU : Nat) : Int) := by
    simp only [Gen.HealthCheck.effUnhealthyThreshold, Gen.HealthCheck.defaultUnhealthyThreshold]
    split <;> split <;> simp_all
  have e2 : Gen.HealthCheck.effHealthyThreshold cfgH = ((if cfgH = 0 then 1 else cfgH : Nat) : Int) := by
    simp only [Gen.HealthCheck.effHealthyThreshold, Gen.HealthCheck.defaultHealthyThreshold]
    split <;> split <;> simp_all
  unfold runCfg
  rw [e1, e2]
  exact threshold_exact _ _ (by split <;> omega) (by split <;> omega) flag0 rs

/-- pointwise reading of `threshold_exact`: at check number `i`, with `before` = the host's flag before that check and
`hist` = the results up to and including it (latest first), the callback arguments and the flag afterwards are given
by the two run lengths alone. -/
theorem threshold_pointwise (u h : Nat) (hu : 1 ≤ u) (hh : 1 ≤ h) (flag0 : Bool) (rs : List Result) (i : Nat)
    (r : Result) (hr : rs[i]? = some r) :
    let outs := run u h (St.init flag0) rs
    let before := ((flag0 :: outs.map (·.flagAfter))[i]?).getD false
    let hist := (rs.take (i + 1)).reverse
    let changed := (!before && r.bad && trail Result.bad hist == u) || (before && r.ok && trail Result.ok hist == h)
    outs[i]? = some ⟨changed, r.ok, if changed then !before else before⟩ := by
  rw [threshold_exact u h hu hh]
  have key : ∀ (rs : List Result) (unh : Bool) (rev : List Result) (i : Nat), rs[i]? = some r →
      let outs := spec u h unh rev rs
      let before := ((unh :: outs.map (·.flagAfter))[i]?).getD false
      let hist := (rs.take (i + 1)).reverse ++ rev
      let changed := (!before && r.bad && trail Result.bad hist == u) || (before && r.ok && trail Result.ok hist == h)
      outs[i]? = some ⟨changed, r.ok, if changed then !before else before⟩ := by
    intro rs
    induction rs with
    | nil => intro _ _ i hi; simp at hi
    | cons x xs ih =>
      intro unh rev i hi
      cases i with
      | zero =>
        simp only [List.getElem?_cons_zero, Option.some.injEq] at hi
        subst hi
        simp [spec]
      | succ k =>
        simp only [List.getElem?_cons_succ] at hi
        have := ih (if ((!unh && x.bad && trail Result.bad (x :: rev) == u) ||
                   (unh && x.ok && trail Result.ok (x :: rev) == h)) then !unh else unh) (x :: rev) k hi
        simp only [spec, List.getElem?_cons_succ, List.map_cons, List.take_succ_cons, List.reverse_cons,
          List.append_assoc, List.singleton_append] at this ⊢
        exact this
  have := key rs flag0 [] i hr
  simpa using this

/-- `changed` is reported exactly at the transitions: a check reports `changed` iff the host's flag after it differs
from the flag before it -/
theorem changed_iff_transition (u h : Nat) (hu : 1 ≤ u) (hh : 1 ≤ h) (flag0 : Bool) (rs : List Result) (i : Nat)
    (o : Out) (ho : (run u h (St.init flag0) rs)[i]? = some o) :
    o.changed = (o.flagAfter != ((flag0 :: (run u h (St.init flag0) rs).map (·.flagAfter))[i]?).getD false) := by
  have hi : i < rs.length := by
    have := (List.getElem?_eq_some_iff.mp ho).1
    have hl : (run u h (St.init flag0) rs).length = rs.length := by
      rw [threshold_exact u h hu hh, spec_length]
    omega
  have hp := threshold_pointwise u h hu hh flag0 rs i rs[i] (List.getElem?_eq_getElem hi)
  simp only at hp
  rw [ho] at hp
  injection hp with hp
  subst hp
  simp only
  generalize ((flag0 :: (run u h (St.init flag0) rs).map (·.flagAfter))[i]?).getD false = b
  generalize ((!b && rs[i].bad && trail Result.bad (rs.take (i + 1)).reverse == u) ||
    (b && rs[i].ok && trail Result.ok (rs.take (i + 1)).reverse == h)) = c
  cases b <;> cases c <;> rfl

/-- the counters never exceed their thresholds (so the `uint32` counters of the Go code cannot wrap and the unbounded
integers of the regenerated functions are faithful) -/
theorem counters_bounded (u h : Nat) (hu : 1 ≤ u) (hh : 1 ≤ h) (flag0 : Bool) (rs : List Result) :
    0 ≤ (finalSt u h (St.init flag0) rs).unHealthCount ∧ (finalSt u h (St.init flag0) rs).unHealthCount ≤ u ∧
    0 ≤ (finalSt u h (St.init flag0) rs).healthCount ∧ (finalSt u h (St.init flag0) rs).healthCount ≤ h := by
  have key : ∀ (rs : List Result) (st : St) (rev : List Result), Inv u h st rev →
      (0 ≤ st.unHealthCount ∧ st.unHealthCount ≤ u ∧ 0 ≤ st.healthCount ∧ st.healthCount ≤ h) →
      0 ≤ (finalSt u h st rs).unHealthCount ∧ (finalSt u h st rs).unHealthCount ≤ u ∧
      0 ≤ (finalSt u h st rs).healthCount ∧ (finalSt u h st rs).healthCount ≤ h := by
    intro rs
    induction rs with
    | nil => intro st _ _ hb; exact hb
    | cons r rs ih =>
      intro st rev hinv hb
      refine ih _ (r :: rev) (step_spec u h hu hh st rev r hinv).2.2 ?_
      obtain ⟨uc, hc, flag⟩ := st
      obtain ⟨h1, h2⟩ := hinv
      cases flag with
      | false =>
        obtain ⟨e1, l1⟩ := h1 rfl
        simp only at e1 hb
        cases r <;> simp only [step, isSucc_eq_ok, Result.ok, Gen.HealthCheck.handleSuccess, Gen.HealthCheck.handleFailure, Gen.HealthCheck.incHealthyChanged, Gen.HealthCheck.decHealthyChanged] <;>
          simp <;> (try split) <;> simp_all <;> omega
      | true =>
        obtain ⟨e2, l2⟩ := h2 rfl
        simp only at e2 hb
        cases r <;> simp only [step, isSucc_eq_ok, Result.ok, Gen.HealthCheck.handleSuccess, Gen.HealthCheck.handleFailure, Gen.HealthCheck.incHealthyChanged, Gen.HealthCheck.decHealthyChanged] <;>
          simp <;> (try split) <;> simp_all <;> omega
  exact key rs (St.init flag0) [] (inv_init u h hu hh flag0) (by simp [St.init])

-- non-vacuity: u = 2, h = 3, a history with an interrupted failure run, a timeout counting as a failure, and an
-- interrupted recovery
example : run 2 3 (St.init false) [.failure, .success, .failure, .timeout, .failure, .success, .success, .failure,
      .success, .success, .success, .success] =
    [⟨false, false, false⟩, ⟨false, true, false⟩, ⟨false, false, false⟩, ⟨true, false, true⟩, ⟨false, false, true⟩,
     ⟨false, true, true⟩, ⟨false, true, true⟩, ⟨false, false, true⟩, ⟨false, true, true⟩, ⟨false, true, true⟩,
     ⟨true, true, false⟩, ⟨false, true, false⟩] := by decide
example : (1 : Nat) ≤ 2 ∧ (1 : Nat) ≤ 3 := by decide

end Thresholds

section CheckerLoop
open MosnVerif.Model.HealthLoop MosnVerif.Model.HealthCheck

/-- **loop_exact**: with the regenerated `checkID` bookkeeping of `sessionChecker.Start`, for EVERY sequence of
environment events (check timers firing, `CheckHealth` returning, timeout timers firing, timed-out checks answering
late at any moment, the loop goroutine being scheduled whenever) the handler calls are exactly those of the reference:
every issued check is handled exactly once, as a success/failure if it answered before its timeout and as a timeout
otherwise — late answers of earlier checks have no effect whatsoever. -/
theorem loop_exact (evs : List Ev) :
    (HealthLoop.run genPolicy (Loop.init genPolicy) evs).log = (refRun Ref.init evs).log := by
  rw [genPolicy_new]; exact (sim_run _ _ evs sim_init).2.2.2.2.2.2.2

/-- end to end: the callbacks of the active health checker, for every event sequence and all thresholds ≥ 1, are the
run-length reference applied to the true outcomes of the issued checks. -/
theorem checker_exact (u h : Nat) (hu : 1 ≤ u) (hh : 1 ≤ h) (flag0 : Bool) (evs : List Ev) :
    HealthCheck.run u h (St.init flag0) (HealthLoop.run genPolicy (Loop.init genPolicy) evs).log.reverse =
      spec u h flag0 [] (refRun Ref.init evs).log.reverse := by
  rw [loop_exact, threshold_exact u h hu hh]

/-- **the bookkeeping before the `fix:` commit drops a good answer**: check 1 times out, check 2 is issued, check 1
answers late (expired, but the loop advances `checkID` for it), check 2 answers healthy — its answer is now taken for
an expired one too, and check 2 ends as a timeout failure.  The reference handles check 2 as a success. -/
theorem old_policy_drops_answer :
    (HealthLoop.run oldPolicy (Loop.init oldPolicy) [.top, .issue, .timeout, .top, .issue, .late 1 true, .answer true, .timeout]).log
      = [.timeout, .timeout] ∧
    (refRun Ref.init [.top, .issue, .timeout, .top, .issue, .late 1 true, .answer true, .timeout]).log = [.success, .timeout] := by
  decide

/-- the same bookkeeping armed the next check's timer BEFORE advancing `checkID`: a timer firing before the loop goroutine
reaches the top of its next iteration stamps the check with the old id and its answer is dropped. -/
theorem old_policy_arm_race :
    (HealthLoop.run oldPolicy (Loop.init oldPolicy) [.issue, .top, .answer true, .timeout]).log = [.timeout] ∧
    (refRun Ref.init [.issue, .top, .answer true, .timeout]).log = [.success] := by
  decide

-- non-vacuity: under the current bookkeeping the two event sequences above are handled correctly
example : (HealthLoop.run genPolicy (Loop.init genPolicy) [.top, .issue, .timeout, .top, .issue, .late 1 true, .answer true, .timeout]).log
    = [.success, .timeout] := by decide
example : (HealthLoop.run genPolicy (Loop.init genPolicy) [.issue, .top, .answer true, .timeout]).log = [.success] := by decide

end CheckerLoop

section Dispatch
open MosnVerif.Model.HealthDispatch MosnVerif.Model.HealthCheck

/-- **one_check_one_result**: the dispatch loop of `sessionChecker.Start` as regenerated from the source (ordered actions
of every select branch, the id comparison of the timeout case, the id the timeout timer carries), for EVERY schedule of
interval-timer firings, timeout-timer firings (possible between ANY two steps of the loop goroutine: also between the
receive of an answer and the `checkTimeout.Stop()` that follows it, and during handlers of any duration; a fired timer is
not taken back by a later Stop, its send stays parked on the unbuffered `c.timeout`), answers (of the check in flight or of
older ones, in any order), receives of parked expiries (in any order relative to answers: a select with both ready may take
either), loop progress and Stop: the handler calls, tagged with the check they are accounted to, have strictly increasing
check ids (NO check produces two results: an answered check's timeout is never counted as well, neither for that check nor
for the next one), every one is an event the loop really accepted for a check that was really performed, every check was
issued once, every performed check whose turn is over (`id < checkID`) has produced its result, and every expiry still
parked on the channel belongs to a performed check (never to a future one).
No atomicity of "receive + first action of the branch" is assumed any more. -/
theorem one_check_one_result (evs : List HealthDispatch.Ev) :
    let s := HealthDispatch.run genProg (D.init genProg) evs
    (ids s).Pairwise (· > ·) ∧ s.issued.Pairwise (· > ·) ∧
    (∀ e ∈ s.log, e ∈ s.outcomes ∧ e.1 ∈ s.issued) ∧
    (∀ i ∈ s.issued, i < s.checkID → i ∈ ids s) ∧ (∀ k ∈ s.parked, k ∈ s.issued ∧ k ≤ s.checkID) := by
  rw [genProg_real]
  have h := inv_run _ evs inv_init
  exact ⟨h.log_sorted, h.issued_sorted, fun e he => ⟨h.log_out e he, h.log_issued e he⟩, h.complete,
    fun k hk => ⟨(h.parked_ok k hk).1, (h.parked_ok k hk).2.1⟩⟩

/-- **stale_timeout_ignored**: in every reachable state, when the loop's select receives a parked expiry whose id is not the
awaited check's id (the timer of an answered check that fired before it was stopped), no handler runs, nothing is accepted,
the interval timer and the id counter are untouched and the expiry is gone from the channel. -/
theorem stale_timeout_ignored (evs : List HealthDispatch.Ev) (k : Nat) (rest : List Nat) :
    let s := HealthDispatch.run genProg (D.init genProg) evs
    s.exited = false → s.todo = [] → s.parked = k :: rest → k ≠ s.currentID →
    let s' := HealthDispatch.step genProg s .recvTimeout
    s'.log = s.log ∧ s'.outcomes = s.outcomes ∧ s'.parked = rest ∧ s'.checkID = s.checkID ∧
      (s.stopReq = false → s'.armed = s.armed ∧ s'.tmo = s.tmo ∧ s'.todo = []) := by
  rw [genProg_real]
  intro s hx ht hp hk
  simp only [HealthDispatch.step, hx, hp, idle, ht, realProg, enter, finish]
  by_cases hs : s.stopReq = true <;> simp [hk, hs, perform]

/-- **timeout_not_lost**: the id comparison never drops the timeout of the awaited check: in every reachable state in which
the loop waits in its select for a check that was performed, that check's timeout timer is still running or its expiry is
parked on the channel — and a received expiry that carries the awaited id is accepted as that check's (network-failure)
result. -/
theorem timeout_not_lost (evs : List HealthDispatch.Ev) :
    let s := HealthDispatch.run genProg (D.init genProg) evs
    s.exited = false → s.todo = [] → s.checkID ∈ s.issued →
    (s.tmo = some s.checkID ∨ s.checkID ∈ s.parked) ∧ s.currentID = s.checkID ∧
    (∀ rest, s.parked = s.checkID :: rest →
      (HealthDispatch.step genProg s .recvTimeout).outcomes = (s.checkID, .timeout) :: s.outcomes ∧
      (HealthDispatch.step genProg s .recvTimeout).todo = genProg.onTimeout) := by
  rw [genProg_real]
  intro s hx ht hi
  have h := inv_run _ evs inv_init
  have hc := h.cur_id ht hx
  refine ⟨h.pending ht hx hi, hc, ?_⟩
  intro rest hp
  have hc' : s.currentID = s.checkID := hc
  simp only [HealthDispatch.step, hx, hp, idle, ht, realProg, enter, finish]
  simp [hc']

/-- **dispatch_threshold_exact**: `threshold_exact` lifted from handler sequences to real executions of the loop: for every
schedule and all thresholds ≥ 1, what the callbacks see is the run-length reference applied to the per-check results
(one per check, by `one_check_one_result`). -/
theorem dispatch_threshold_exact (u h : Nat) (hu : 1 ≤ u) (hh : 1 ≤ h) (flag0 : Bool) (evs : List HealthDispatch.Ev) :
    HealthCheck.run u h (St.init flag0) (results (HealthDispatch.run genProg (D.init genProg) evs)) =
      spec u h flag0 [] (results (HealthDispatch.run genProg (D.init genProg) evs)) :=
  threshold_exact u h hu hh flag0 _

/-- **negation witness, the loop before the repair** (`case <-c.timeout:` without the id comparison) under the finer step
semantics: check 1 is answered healthy, its timeout timer fires between the receive of the answer and the Stop; the loop
handles the answer, arms check 2 — and its next select finds the parked expiry: check 1 is counted twice (success, then
network failure) and the armed check 2 is cancelled (`armed` is false after the `stopCheck` of the timeout branch).
Reproduced on the real code: `hl 1 1 0 r => 2o5 w=1` (harness/c16/dispatch.go, letter r). -/
theorem unguarded_timeout_counts_twice :
    let s := HealthDispatch.run unguardedProg (D.init unguardedProg)
      [.fireCheck, .answer 1 true, .fireTimeout, .act, .act, .act, .act, .recvTimeout, .act, .act, .act]
    s.log = [(1, .timeout), (1, .success)] ∧ s.armed = false ∧ s.issued = [1] := by decide

/-- the same when both channels are ready at one select and Go takes the answer: the timer fired BEFORE the answer was received -/
theorem unguarded_select_race_counts_twice :
    (HealthDispatch.run unguardedProg (D.init unguardedProg)
      [.fireCheck, .fireTimeout, .answer 1 true, .act, .act, .act, .act, .recvTimeout, .act, .act, .act]).log
      = [(1, .timeout), (1, .success)] := by decide

/-- **negation witness, stop after the handlers**: check 1 is answered healthy in time, its timeout timer fires while the
handler runs, the loop stops it afterwards: with the id comparison the parked expiry is ignored, but without it
(`guard := false`) check 1 is counted twice. With the comparison the late Stop is harmless for THIS clause — the expiry is
stale by then — which is why the comparison, not the position of Stop, carries the proof. -/
theorem late_stop_counts_twice :
    (HealthDispatch.run { lateStopProg with guard := false } (D.init lateStopProg)
      [.fireCheck, .answer 1 true, .act, .fireTimeout, .act, .act, .act, .recvTimeout, .act, .act, .act, .act, .act]).log
      = [(1, .timeout), (1, .success)] := by decide

/-- **negation witness, next check armed before the handlers** (again without the id comparison): the interval timer
fires while the handler of check 1 runs, check 2 is issued and its timeout expires while the loop is still busy (parked);
the loop then accepts the answer of check 2 AND the parked expiry: check 2 is counted twice. -/
theorem early_arm_counts_twice :
    (HealthDispatch.run { earlyArmProg with guard := false } (D.init earlyArmProg)
      [.fireCheck, .answer 1 true, .act, .act, .act, .fireCheck, .fireTimeout, .act, .answer 2 true, .act, .act, .act, .act,
       .recvTimeout, .act, .act, .act, .act, .act]).log = [(2, .timeout), (2, .success), (1, .success)] := by decide

-- non-vacuity: the same schedules on the current program count check 1 once (the parked expiry is received and ignored),
-- check 2 is still armed; and a timed-out check is counted once, by its own timeout
example :
    let s := HealthDispatch.run genProg (D.init genProg)
      [.fireCheck, .answer 1 true, .fireTimeout, .act, .act, .act, .act, .recvTimeout, .act, .act, .act]
    s.log = [(1, .success)] ∧ s.armed = true ∧ s.parked = [] := by decide
example : (HealthDispatch.run genProg (D.init genProg)
      [.fireCheck, .fireTimeout, .answer 1 true, .act, .act, .act, .act, .recvTimeout, .act, .act, .act]).log = [(1, .success)] := by decide
example : (HealthDispatch.run genProg (D.init genProg)
    [.fireCheck, .fireTimeout, .recvTimeout, .act, .act, .act, .act, .act, .answer 1 true, .fireCheck, .answer 2 false,
     .act, .act, .act, .act]).log = [(2, .failure), (1, .timeout)] := by decide
-- the hypotheses of stale_timeout_ignored / timeout_not_lost are reachable
example :
    let s := HealthDispatch.run genProg (D.init genProg) [.fireCheck, .answer 1 true, .fireTimeout, .act, .act, .act, .act]
    s.exited = false ∧ s.todo = [] ∧ s.parked = [1] ∧ 1 ≠ s.currentID := by decide
example :
    let s := HealthDispatch.run genProg (D.init genProg) [.fireCheck, .fireTimeout]
    s.exited = false ∧ s.todo = [] ∧ s.checkID ∈ s.issued ∧ s.parked = [s.checkID] := by decide

end Dispatch

section Lifecycle
open MosnVerif.Model.HealthLifecycle MosnVerif.Model.HealthCheck MosnVerif.Gen.HealthLifecycle

/-- **stop_preserves_health**: in EVERY state, a life-cycle operation — a cluster's host-set update
(`SetHealthCheckerHostSet`: `startCheck` of the new addresses, `stopCheck` of the deleted ones), `Stop`
(`StopHealthChecking`: `stopCheck` of every listed host), the replacement of a cluster — changes NO health word of any
address and delivers no callback: starting or stopping a session checker never heals or fails a host.
(Holds because the regenerated effect lists of `startCheck` / `stopCheck` contain no flag operation.) -/
theorem stop_preserves_health (w : World) (op : HealthLifecycle.Op) (h : op.isLifecycle = true) :
    (HealthLifecycle.step w op).1.words = w.words ∧ (HealthLifecycle.step w op).2 = none := by
  refine ⟨step_lifecycle_words w op h, ?_⟩
  cases op <;> first | rfl | simp [HealthLifecycle.Op.isLifecycle] at h

/-- **healthy_only_by_successes**: for every configuration of clusters, all initial words and EVERY operation list
(host-set updates, stops, cluster replacements, check results of any cluster's session checker for any address, other
conditions' writers), whenever the next operation clears `FAILED_ACTIVE_HC` of an address `a`, that operation is a
SUCCESSFUL check of a running session checker `c` of some cluster `k` for `a`, and it completes at least
`healthy_threshold(k)` consecutive successes handled by THAT session checker since it was created (`c.rev` = its own
history).  In particular no stop / start / host-set operation and no failure ever makes a host healthy. -/
theorem healthy_only_by_successes (cfg : Cid → Nat × Nat) (words0 : Addr → Word) (ops : List HealthLifecycle.Op)
    (op : HealthLifecycle.Op) (a : Addr)
    (hb : ((runOps (World.init cfg words0) ops).words a).active = true)
    (ha : ((HealthLifecycle.step (runOps (World.init cfg words0) ops) op).1.words a).active = false) :
    ∃ k c, op = .result k a .success ∧ (runOps (World.init cfg words0) ops).chk k a = some c ∧ c.running = true ∧
      ((runOps (World.init cfg words0) ops).thr k).2 ≤ trail Result.ok (.success :: c.rev) :=
  cleared_only_by_success _ (good_runOps ops _ (good_init cfg words0)) op a hb ha

/-- dually, `FAILED_ACTIVE_HC` is set only by a failed / timed-out check that completes at least `unhealthy_threshold`
consecutive failures of the session checker it is handed to -/
theorem unhealthy_only_by_failures (cfg : Cid → Nat × Nat) (words0 : Addr → Word) (ops : List HealthLifecycle.Op)
    (op : HealthLifecycle.Op) (a : Addr)
    (hb : ((runOps (World.init cfg words0) ops).words a).active = false)
    (ha : ((HealthLifecycle.step (runOps (World.init cfg words0) ops) op).1.words a).active = true) :
    ∃ k c r, op = .result k a r ∧ r.bad = true ∧ (runOps (World.init cfg words0) ops).chk k a = some c ∧ c.running = true ∧
      ((runOps (World.init cfg words0) ops).thr k).1 ≤ trail Result.bad (r :: c.rev) :=
  set_only_by_failure _ (good_runOps ops _ (good_init cfg words0)) op a hb ha

/-- **lifecycle_threshold_exact**: when cluster `k` is the only cluster that ever lists address `a` (in the whole list
`all`, of which `ops` is a prefix), then after ANY operations — including removing and re-adding the host, stopping the
checker, replacing the cluster — a result handed to `k`'s session checker `c` for `a` flips the condition EXACTLY when it
completes `unhealthy_threshold` consecutive failures while not failing / `healthy_threshold` consecutive successes while
failing, counted over the session checker's own history `c.rev` since its creation; `changed` is reported exactly then. -/
theorem lifecycle_threshold_exact (cfg : Cid → Nat × Nat) (words0 : Addr → Word) (all ops : List HealthLifecycle.Op)
    (hsub : ∀ op ∈ ops, op ∈ all) (k : Cid) (a : Addr) (r : Result) (c : Checker)
    (hso : soleOwner all k a = true) (hc : (runOps (World.init cfg words0) ops).chk k a = some c) :
    let w := runOps (World.init cfg words0) ops
    let before := (w.words a).active
    let changed := (!before && r.bad && trail Result.bad (r :: c.rev) == (w.thr k).1) ||
                   (before && r.ok && trail Result.ok (r :: c.rev) == (w.thr k).2)
    (HealthLifecycle.step w (.result k a r)).2 = some ⟨changed, r.ok, if changed then !before else before⟩ ∧
    ((HealthLifecycle.step w (.result k a r)).1.words a).active = (if changed then !before else before) :=
  sole_result_exact all _ _ (sim_runOps all ops _ _ (sim_init all cfg words0) hsub) k a r c hso hc

/-- the checkers of the model are those of the hand-written reference (which session checkers exist is a matter of the
host sets alone), each with its own history -/
theorem lifecycle_refines (cfg : Cid → Nat × Nat) (words0 : Addr → Word) (ops : List HealthLifecycle.Op) (k : Cid) (a : Addr) :
    ((Ref.init cfg).run ops).live k a = ((runOps (World.init cfg words0) ops).chk k a).map (·.rev) :=
  (sim_runOps ops ops _ _ (sim_init ops cfg words0) (fun _ h => h)).live k a

/-- the model's observations always satisfy the property predicate the driver applies to the implementation -/
theorem spec_holds_on_model_lc (n : Nat) (cfg : Cid → Nat × Nat) (words0 : Addr → Word) (ops : List HealthLifecycle.Op) :
    holds n cfg words0 ops (trace (World.init cfg words0) ops) = true :=
  holdsFrom_trace n ops ops _ _ (sim_init ops cfg words0) (fun _ h => h)

/-- a `stopCheck` that also clears the condition ("do not leave a stale failure behind") -/
def clearingStop : CheckProg := ⟨.present, [], [.stopSession, .delChecker, .flag (.clear .activeHC), .localHealthy (-1)], []⟩

/-- **such a stopCheck violates the property**: two clusters (thresholds 1/2) share address 0; one failed check marks it
unhealthy; cluster 1 drops the host.  With `clearingStop` the host is healthy again with ZERO successful checks, and the
surviving checker — whose failure counter already sits at the threshold — never marks it unhealthy again however many
checks fail; the predicate rejects what is seen at the stop. -/
theorem clearing_stopCheck_heals_without_success :
    let cfg : Cid → Nat × Nat := fun _ => (1, 2)
    let w1 := runOps (World.init cfg (fun _ => ⟨false, false⟩)) [.setHosts 0 [0], .setHosts 1 [0], .result 0 0 .failure]
    let w2 := runCheckProg clearingStop 1 0 w1
    let w3 := runOps w2 [.result 0 0 .failure, .result 0 0 .timeout, .result 0 0 .failure]
    (w1.words 0).active = true ∧ (w2.words 0).active = false ∧ (w3.words 0).active = false ∧
    noFlag clearingStop = false ∧
    holdsStep 1 [] ((Ref.init cfg).run [.setHosts 0 [0], .setHosts 1 [0], .result 0 0 .failure]) w1.words w2.words none
      (.setHosts 1 []) = false ∧
    -- the regenerated stopCheck leaves the host failing
    ((stopCheck 1 0 w1).words 0).active = true := by
  decide

/-- why exactness is stated for an address that ONE cluster lists (`lifecycle_threshold_exact`): in the code as it is, two
clusters' session checkers on one address write the same condition with their own counters and an `==` threshold test.
Thresholds 1/1: cluster 0's check fails (host marked), cluster 1's check succeeds (host healed — by ITS threshold), then
cluster 0's checks keep failing: its counter has passed the threshold (2, 3, … ≠ 1) and it never marks the host again
until one of its checks succeeds.  `healthy_only_by_successes` / `unhealthy_only_by_failures` still hold (every
transition is a threshold-completing result of the checker that made it).  Reproduced on the real clusters by the
correspondence run (case `lc 1:1,1:1 0 h0=0,h1=0,r00f,r10s,r00f`); outside the property's statement, which speaks of
one checker's result sequence. -/
theorem shared_address_not_exact :
    let w := runOps (World.init (fun _ => (1, 1)) (fun _ => ⟨false, false⟩))
      [.setHosts 0 [0], .setHosts 1 [0], .result 0 0 .failure, .result 1 0 .success, .result 0 0 .failure, .result 0 0 .failure]
    (w.words 0).active = false ∧ (w.chk 0 0).map (·.un) = some 3 ∧ (w.thr 0).1 = 1 := by
  decide

-- non-vacuity: a host shared by two clusters (thresholds u = 2, h = 2), driven unhealthy by cluster 0's checker, cluster 1
-- drops it (nothing changes), removed and re-added in cluster 0 (new checker, counters restart, flag kept), healed by two
-- consecutive successes of the new checker
example :
    (trace (World.init (fun _ => (2, 2)) (fun _ => ⟨false, false⟩))
      [.setHosts 0 [0], .setHosts 1 [0], .result 0 0 .failure, .result 1 0 .failure, .result 0 0 .failure,
       .setHosts 1 [], .setHosts 0 [], .setHosts 0 [0], .result 0 0 .success, .result 0 0 .failure,
       .result 0 0 .success, .result 0 0 .success]).map (fun o => ((o.words 0).toNat, o.cb)) =
    [(0, none), (0, none), (0, some ⟨false, false, false⟩), (0, some ⟨false, false, false⟩), (1, some ⟨true, false, true⟩),
     (1, none), (1, none), (1, none), (1, some ⟨false, true, true⟩), (1, some ⟨false, false, true⟩),
     (1, some ⟨false, true, true⟩), (0, some ⟨true, true, false⟩)] := by decide
example : soleOwner [HealthLifecycle.Op.setHosts 0 [0, 1], .setHosts 1 [0], .result 0 1 .failure] 0 1 = true ∧
    ((runOps (World.init (fun _ => (1, 1)) (fun _ => ⟨false, false⟩)) [.setHosts 0 [0, 1], .setHosts 1 [0]]).chk 0 1).isSome = true := by
  decide
example : (HealthLifecycle.Op.setHosts 0 [1]).isLifecycle = true := rfl

end Lifecycle

section Share
open MosnVerif.Model.HealthLifecycle (Addr Cid Word World Checker runOps soleOwner fresh effThr)
open MosnVerif.Model.HealthCheck MosnVerif.Model.HealthShare

/-! ## Part D — one health word per ADDRESS for the whole process, health checkers per CLUSTER

`GetHealthFlagPointer(addr)` hands every host object of an address — in whichever cluster — the same word
(`gen_word_by_address`), a cluster may have no health checker at all, and a cluster update creates a new health checker
for the inherited host set.  The process model (Model/HealthShare) runs the cluster manager's operations over the
life-cycle world; which flag operations `simpleCluster.UpdateHosts` and `NewSimpleHost` perform and which counters a new
session checker starts with are REGENERATED (Gen/HealthShare), so an edit there changes what these theorems talk about. -/

/-- **share_refines_lifecycle**: for every configuration (which clusters have a health checker, thresholds), all initial
words and EVERY list of cluster-manager operations, the process run is the life-cycle run of the compiled cluster-level
operations: host updates of clusters WITHOUT a health checker compile to nothing at all.  (Holds because the regenerated
`updateHostsWrites` / `newHostWrites` are empty and new session checkers start with both counters zero.) -/
theorem share_refines_lifecycle (checked : Cid → Bool) (cfg : Cid → Nat × Nat) (words0 : Addr → Word) (ops : List SOp) :
    (HealthShare.run (HealthShare.St.init checked cfg words0) ops).w =
      runOps (World.init cfg words0) (compileAll (Cfg.init checked) ops) :=
  (run_eq _ ops).1

/-- **host_and_cluster_updates_preserve_health**: in EVERY state, `UpdateClusterHosts / AppendClusterHosts /
RemoveClusterHosts / AddOrUpdatePrimaryCluster` of ANY cluster — with a health checker, without one, gaining or losing
one — change no health word of any address and deliver no callback: removing and re-adding a host does not reset the
word of its address, a cluster that does not check the address cannot heal a host another cluster's checker marked. -/
theorem host_and_cluster_updates_preserve_health (s : HealthShare.St) (op : SOp) (h : isHostOp op = true) :
    (HealthShare.step s op).1.w.words = s.w.words ∧ (HealthShare.step s op).2 = none :=
  hostOp_preserves s op h

/-- **active_hc_bit_owned_by_checkers**: over EVERY history of the process, whenever an operation changes
`FAILED_ACTIVE_HC` of an address `a`, that operation is a check result handed to a live session checker `c` that SOME
cluster `k` keeps for `a` (so `k` has a health checker and lists `a`), and the result completes a threshold-long run of
THAT session checker: a success completing ≥ healthy_threshold(k) consecutive successes clears it, a failure / timeout
completing ≥ unhealthy_threshold(k) consecutive failures sets it.  No operation of a cluster without a checker, no host
update, no cluster update, no other condition's writer ever does. -/
theorem active_hc_bit_owned_by_checkers (checked : Cid → Bool) (cfg : Cid → Nat × Nat) (words0 : Addr → Word)
    (ops : List SOp) (op : SOp) (a : Addr)
    (hne : ((HealthShare.run (HealthShare.St.init checked cfg words0) ops).w.words a).active ≠
           ((HealthShare.step (HealthShare.run (HealthShare.St.init checked cfg words0) ops) op).1.w.words a).active) :
    ∃ k r c, op = .result k a r ∧ (HealthShare.run (HealthShare.St.init checked cfg words0) ops).c.checked k = true ∧
      (HealthShare.run (HealthShare.St.init checked cfg words0) ops).w.chk k a = some c ∧ c.running = true ∧
      ((r = .success ∧ ((HealthShare.run (HealthShare.St.init checked cfg words0) ops).w.words a).active = true ∧
          ((HealthShare.run (HealthShare.St.init checked cfg words0) ops).w.thr k).2 ≤ trail Result.ok (.success :: c.rev)) ∨
       (r.bad = true ∧ ((HealthShare.run (HealthShare.St.init checked cfg words0) ops).w.words a).active = false ∧
          ((HealthShare.run (HealthShare.St.init checked cfg words0) ops).w.thr k).1 ≤ trail Result.bad (r :: c.rev))) := by
  have hg := good_run checked cfg words0 ops
  have hn := noChk_run _ ops (noChk_init checked cfg words0)
  generalize HealthShare.run (HealthShare.St.init checked cfg words0) ops = s at hne hg hn ⊢
  have hck : ∀ k c, s.w.chk k a = some c → s.c.checked k = true := by
    intro k c hc
    cases h : s.c.checked k with
    | true => rfl
    | false => rw [hn k h a] at hc; cases hc
  have key : ∀ o : HealthLifecycle.Op, (HealthShare.step s op).1.w = (HealthLifecycle.step s.w o).1 →
      ∃ k r c, o = .result k a r ∧ s.w.chk k a = some c ∧ c.running = true ∧
        ((r = .success ∧ (s.w.words a).active = true ∧ (s.w.thr k).2 ≤ trail Result.ok (.success :: c.rev)) ∨
         (r.bad = true ∧ (s.w.words a).active = false ∧ (s.w.thr k).1 ≤ trail Result.bad (r :: c.rev))) := by
    intro o ho
    rw [ho] at hne
    cases hb : (s.w.words a).active with
    | true =>
      have ha : ((HealthLifecycle.step s.w o).1.words a).active = false := by
        cases h : ((HealthLifecycle.step s.w o).1.words a).active <;> simp_all
      obtain ⟨k, c, e, hc, hr, ht⟩ := HealthLifecycle.cleared_only_by_success s.w hg o a hb ha
      exact ⟨k, .success, c, e, hc, hr, Or.inl ⟨rfl, rfl, ht⟩⟩
    | false =>
      have ha : ((HealthLifecycle.step s.w o).1.words a).active = true := by
        cases h : ((HealthLifecycle.step s.w o).1.words a).active <;> simp_all
      obtain ⟨k, c, r, e, hbad, hc, hr, ht⟩ := HealthLifecycle.set_only_by_failure s.w hg o a hb ha
      exact ⟨k, r, c, e, hc, hr, Or.inr ⟨hbad, rfl, ht⟩⟩
  cases op with
  | result k' a' r' =>
    obtain ⟨k, r, c, e, rest⟩ := key (.result k' a' r') (step_result s k' a' r').1
    cases e
    exact ⟨_, _, c, rfl, hck _ c rest.1, rest⟩
  | outlier a' on =>
    obtain ⟨k, r, c, e, _⟩ := key (.outlier a' on) (step_outlier s a' on)
    cases e
  | update k hs => exact absurd (by rw [(hostOp_preserves s (.update k hs) rfl).1]) hne
  | append k x => exact absurd (by rw [(hostOp_preserves s (.append k x) rfl).1]) hne
  | remove k x => exact absurd (by rw [(hostOp_preserves s (.remove k x) rfl).1]) hne
  | reconf k cf => exact absurd (by rw [(hostOp_preserves s (.reconf k cf) rfl).1]) hne

/-- **single_checker_exact_across_clusters**: when cluster `k` is the only cluster that lists address `a` WHILE HAVING A
HEALTH CHECKER in the whole history `ops ++ rest` (`soleOwner` of the compiled list: other clusters may list, update,
drop and re-add `a` as often as they like as long as they have no health checker then), the threshold clause of the
property holds for `k`'s session checker `c` whatever the other clusters do: the condition flips EXACTLY at the
`unhealthy_threshold`-th consecutive failure while not failing / the `healthy_threshold`-th consecutive success while
failing, over the checker's own history since its creation, and `changed` is reported exactly then. -/
theorem single_checker_exact_across_clusters (checked : Cid → Bool) (cfg : Cid → Nat × Nat) (words0 : Addr → Word)
    (ops rest : List SOp) (k : Cid) (a : Addr) (r : Result) (c : Checker)
    (hso : soleOwner (compileAll (Cfg.init checked) (ops ++ rest)) k a = true)
    (hc : (HealthShare.run (HealthShare.St.init checked cfg words0) ops).w.chk k a = some c) :
    let s := HealthShare.run (HealthShare.St.init checked cfg words0) ops
    let before := (s.w.words a).active
    let changed := (!before && r.bad && trail Result.bad (r :: c.rev) == (s.w.thr k).1) ||
                   (before && r.ok && trail Result.ok (r :: c.rev) == (s.w.thr k).2)
    (HealthShare.step s (.result k a r)).2 = some ⟨changed, r.ok, if changed then !before else before⟩ ∧
    ((HealthShare.step s (.result k a r)).1.w.words a).active = (if changed then !before else before) := by
  have hw := share_refines_lifecycle checked cfg words0 ops
  have hsub : ∀ op ∈ compileAll (Cfg.init checked) ops, op ∈ compileAll (Cfg.init checked) (ops ++ rest) := by
    intro op h
    rw [compileAll_append]
    exact List.mem_append_left _ h
  rw [hw] at hc
  have := lifecycle_threshold_exact cfg words0 _ _ hsub k a r c hso hc
  intro s
  rw [(step_result s k a r).1, (step_result s k a r).2]
  show _ ∧ _
  simp only [s, hw]
  exact this

/-- **recreated_checker_starts_fresh**: a cluster update (`AddOrUpdatePrimaryCluster` with a health_check section), in
EVERY state — whatever the old session checker had counted, whether or not the address is marked: the word of no
address changes, no callback is delivered, and the new health checker keeps for every inherited address a NEW running
session checker with empty history and both counters zero, under the new thresholds. -/
theorem recreated_checker_starts_fresh (s : HealthShare.St) (k : Cid) (u h : Nat) (a : Addr) (ha : a ∈ s.c.mem k) :
    let s' := (HealthShare.step s (.reconf k (some (u, h)))).1
    s'.w.chk k a = some fresh ∧ s'.w.words = s.w.words ∧ (HealthShare.step s (.reconf k (some (u, h)))).2 = none ∧
    s'.w.thr k = effThr u h := by
  have hp := hostOp_preserves s (.reconf k (some (u, h))) rfl
  refine ⟨?_, hp.1, hp.2, ?_⟩
  · rw [step_eq]
    simp only [compile, runLc, List.foldl_cons, List.foldl_nil, HealthLifecycle.step]
    rw [HealthLifecycle.setHosts_chk]
    simp [HealthLifecycle.upd_apply, ha, HealthLifecycle.freshOr]
  · rw [step_eq]
    simp only [compile, runLc, List.foldl_cons, List.foldl_nil, HealthLifecycle.step]
    rw [HealthLifecycle.setHosts_thr]
    simp [HealthLifecycle.upd_apply]

/-- **recreated_checker_no_spurious_change**: the first result the re-created checker handles is handled exactly as by a
session checker without any history (`HealthCheck.step` from zero counters and the CURRENT flag of the address): it
reports `changed` only when it really flips the condition, which needs the new threshold to be 1 and the result to
oppose the flag — a cluster update never announces a transition that did not happen, and never swallows one. -/
theorem recreated_checker_no_spurious_change (s : HealthShare.St) (k : Cid) (u h : Nat) (a : Addr) (ha : a ∈ s.c.mem k) (r : Result) :
    let s' := (HealthShare.step s (.reconf k (some (u, h)))).1
    let before := (s.w.words a).active
    let changed := (!before && r.bad && decide ((effThr u h).1 = 1)) || (before && r.ok && decide ((effThr u h).2 = 1))
    (HealthShare.step s' (.result k a r)).2 = some ⟨changed, r.ok, if changed then !before else before⟩ ∧
    ((HealthShare.step s' (.result k a r)).1.w.words a).active = (if changed then !before else before) := by
  intro s'
  obtain ⟨hc, hw, _, ht⟩ := recreated_checker_starts_fresh s k u h a ha
  have hl := HealthLifecycle.result_live k a r s'.w fresh hc rfl
  rw [(step_result s' k a r).1, (step_result s' k a r).2]
  simp only [HealthLifecycle.step]
  rw [hl.1, hl.2.1]
  have hw' : s'.w.words a = s.w.words a := by rw [hw]
  simp only [HealthLifecycle.handled, hw', ht, fresh, HealthLifecycle.upd_apply, if_true]
  cases hr : r.ok with
  | true =>
    have : r = .success := (HealthLifecycle.ok_true_iff r).1 hr
    subst this
    rw [HealthLifecycle.step_success]
    cases (s.w.words a).active <;> simp [Result.bad, Result.ok] <;> (have ht' : s'.w.thr k = effThr u h := ht; rw [ht']; omega)
  | false =>
    rw [HealthLifecycle.step_bad _ _ _ _ _ r hr]
    cases (s.w.words a).active <;> simp [Result.bad, hr] <;> (have ht' : s'.w.thr k = effThr u h := ht; rw [ht']; omega)

/-- the model's observations always satisfy the property predicate the driver applies to the implementation (kind sh),
for every configuration, all initial words and EVERY list of cluster-manager operations -/
theorem spec_holds_on_model_sh (m n : Nat) (checked : Cid → Bool) (cfg : Cid → Nat × Nat) (words0 : Addr → Word) (ops : List SOp) :
    HealthShare.holds m n checked cfg words0 ops (HealthShare.trace m (HealthShare.St.init checked cfg words0) ops) = true :=
  HealthShare.holdsFrom_trace m n _ ops (HealthShare.St.init checked cfg words0) _
    (HealthLifecycle.sim_init _ cfg words0) (fun _ h => h)

/-- **unchecked_update_clearing_heals_without_success** (negation witness for class (i)) -/
theorem unchecked_update_clearing_heals_without_success :
    -- NEGATION WITNESS for class (i): cluster 0 (thresholds 1/2) marks address 0 with one failed check; cluster 1 has NO
    -- health checker and lists the same address.  If its host update cleared FAILED_ACTIVE_HC "as a stale mark"
    -- (what is SEEN is word 0 after `update 1 [0]`), the host would be healthy again with zero successful checks:
    -- the predicate rejects it, while it accepts what the current code shows (word stays 1)
    let ck : Cid → Bool := fun k => k == 0
    let cfg : Cid → Nat × Nat := fun _ => (1, 2)
    let ops : List SOp := [.update 0 [0], .update 1 [0], .result 0 0 .failure, .update 1 [0]]
    let good := HealthShare.trace 2 (HealthShare.St.init ck cfg (fun _ => ⟨false, false⟩)) ops
    let healed : List HealthShare.Seen := good.take 3 ++ [⟨fun _ => ⟨false, false⟩, none, [[(0, true)], [(0, true)]]⟩]
    HealthShare.holds 2 1 ck cfg (fun _ => ⟨false, false⟩) ops good = true ∧
    HealthShare.holds 2 1 ck cfg (fun _ => ⟨false, false⟩) ops healed = false ∧
    (good.map (fun o => (o.words 0).toNat)) = [0, 0, 1, 1] := by
  decide

-- non-vacuity of single_checker_exact_across_clusters: cluster 1 WITHOUT a checker lists, re-lists, drops and re-adds the
-- address cluster 0 checks, and is itself re-configured (still without a checker): cluster 0 is the sole checking owner
example :
    soleOwner (compileAll (Cfg.init (fun k => k == 0))
      [.update 0 [0], .update 1 [0], .result 0 0 .failure, .update 1 [0], .remove 1 0, .append 1 0, .reconf 1 none,
       .result 0 0 .success]) 0 0 = true ∧
    ((HealthShare.run (HealthShare.St.init (fun k => k == 0) (fun _ => (1, 1)) (fun _ => ⟨false, false⟩))
      [.update 0 [0], .update 1 [0], .result 0 0 .failure, .update 1 [0]]).w.chk 0 0).isSome = true := by decide
-- … and it fails, as it must, once cluster 1 gains a health checker while listing the address (class (iii), the stated
-- exception `shared_address_not_exact` of Part C)
example :
    soleOwner (compileAll (Cfg.init (fun k => k == 0)) [.update 0 [0], .update 1 [0], .reconf 1 (some (1, 1))]) 0 0 = false := by
  decide
-- a cluster update while the address is marked (thresholds 1/2 → 2/2): flag kept, counters restart, first success silent,
-- the second one heals and reports `changed`
example :
    (HealthShare.trace 1 (HealthShare.St.init (fun _ => true) (fun _ => (1, 2)) (fun _ => ⟨false, false⟩))
      [.update 0 [0], .result 0 0 .failure, .reconf 0 (some (2, 2)), .result 0 0 .success, .result 0 0 .success]).map
      (fun o => ((o.words 0).toNat, o.cb)) =
    [(0, none), (1, some ⟨true, false, true⟩), (1, none), (1, some ⟨false, true, true⟩), (0, some ⟨true, true, false⟩)] := by
  decide
example : isHostOp (.reconf 1 none) = true ∧ isHostOp (.update 1 [0]) = true := by decide

end Share

end MosnVerif.Props.C16
