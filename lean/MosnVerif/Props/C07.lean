import MosnVerif.Lemmas.Framing
import MosnVerif.Lemmas.FrameSteps
import MosnVerif.Lemmas.Match
import MosnVerif.Lemmas.FrameH2
import MosnVerif.Lemmas.ReadLoop
import MosnVerif.Model.ReadLoopSpec
import MosnVerif.Lemmas.DispatchCtx
import MosnVerif.Model.DispatchCtxSpec
import MosnVerif.Lemmas.FrameOwn
import MosnVerif.Lemmas.H1Seg
import MosnVerif.Lemmas.H1SegStable
import MosnVerif.Lemmas.H1Continue
import MosnVerif.Lemmas.BoltHandover
import MosnVerif.Lemmas.CheckedMatchEq
/-!
# C07 — message extraction is independent of how TCP segments the byte stream (property theorems only)

`run d chunks` is the buffered dispatch loop of `streamConn.Dispatch` fed with the reads `chunks`
(Model/Framing.lean); `frameStep_P` is `XProtocol.Decode` of protocol `P` built from the regenerated length
computations (Model/FrameSteps.lean); the matchers are Model/Match.lean.
-/
namespace MosnVerif.Props.C07
open MosnVerif.Model.FramingS MosnVerif.Model.FrameH2
open MosnVerif.Model.Framing MosnVerif.Model.FrameSteps MosnVerif.Model.Match MosnVerif.Model.FrameSpec
open MosnVerif.Model
open MosnVerif.Model.ReadLoop (Params Ev Consumer Consumer.Drains SafeShrinks appended readsOf toConn dispatchConsumer)

/-- **segmentation_independent** (generic): for every prefix-stable decoder, every byte stream and every way of
cutting it into consecutive reads (1-byte reads, frames straddling reads, several frames in one read, empty reads),
the connection ends in the same state — same frames in the same order, same residue, same failed flag — as when the
whole stream arrives in one read. -/
theorem segmentation_independent {F : Type} (d : Bytes → Step F) (hs : Stable d) (chunks : List Bytes) :
    run d chunks = run d [chunks.flatten] := by
  rw [run_eq_feed d hs chunks, run_eq_feed d hs [chunks.flatten]]; simp

/-- two segmentations of the same bytes are indistinguishable -/
theorem segmentation_irrelevant {F : Type} (d : Bytes → Step F) (hs : Stable d) (c1 c2 : List Bytes)
    (h : c1.flatten = c2.flatten) : run d c1 = run d c2 := by
  rw [segmentation_independent d hs c1, segmentation_independent d hs c2, h]

/-- `Stable` for each xprotocol decoder, against the current (regenerated) length fields, tests and `Drain` arguments. -/
theorem stable_bolt : Stable frameStep_bolt := MosnVerif.Model.FrameSteps.stable_bolt
theorem stable_boltv2 : Stable frameStep_boltv2 := MosnVerif.Model.FrameSteps.stable_boltv2
/-- for every behaviour of the hessian2 black box that is a function of the frame bytes -/
theorem stable_dubbo (oracle : Bytes → Bool) : Stable (frameStep_dubbo oracle) :=
  MosnVerif.Model.FrameSteps.stable_dubbo oracle
theorem stable_dubbothrift (oracle : Bytes → Bool) : Stable (frameStep_thrift oracle) :=
  MosnVerif.Model.FrameSteps.stable_thrift oracle
theorem stable_tars (oracle : Bytes → Bool) : Stable (frameStep_tars oracle) :=
  MosnVerif.Model.FrameSteps.stable_tars oracle

theorem stable_xprotocol (proto : String) (oracle : Bytes → Bool) (d : Bytes → Step Bytes)
    (h : frameStepOf proto oracle = some d) : Stable d := by
  unfold frameStepOf at h
  split at h <;> simp at h <;> subst h
  · exact stable_bolt
  · exact stable_boltv2
  · exact stable_dubbo oracle
  · exact stable_dubbothrift oracle
  · exact stable_tars oracle

/-- **segmentation independence of every supported xprotocol**: bolt, boltv2, dubbo, dubbothrift, tars -/
theorem segmentation_independent_xprotocol (proto : String) (oracle : Bytes → Bool) (d : Bytes → Step Bytes)
    (h : frameStepOf proto oracle = some d) (chunks : List Bytes) : run d chunks = run d [chunks.flatten] :=
  segmentation_independent d (stable_xprotocol proto oracle d h) chunks

/-- **valid_stream_delivered**: a stream made of frames the decoder accepts in isolation, followed by an incomplete
frame `t`, delivered in *any* segmentation, yields exactly those frames, in order, each exactly once, and leaves
exactly `t` in the buffer: no byte lost, duplicated or attributed to a neighbouring frame. -/
theorem valid_stream_delivered (d : Bytes → Step Bytes) (hs : Stable d) (fs : List Bytes) (t : Bytes)
    (hv : ∀ f ∈ fs, d f = .frame f f.length) (ht : TailOk d t)
    (chunks : List Bytes) (hc : chunks.flatten = fs.flatten ++ t) :
    run d chunks = { buf := t, out := fs, failed := false } := by
  rw [run_eq_feed d hs chunks, hc, feed_eq]
  simp only [Conn.init, Bool.false_eq_true, ↓reduceIte, List.nil_append]
  rw [drainAll_valid d hs fs t hv (tailOk_needMore d hs t ht)]

/-- **incomplete_consumes_nothing / prompt delivery**: when only the first `k` bytes of such a stream have arrived,
exactly the frames lying wholly inside those `k` bytes have been handed on, the connection has not failed, and the
buffer holds exactly the bytes of the frame that is still incomplete. -/
theorem prefix_delivery (d : Bytes → Step Bytes) (hs : Stable d) (fs : List Bytes) (t : Bytes)
    (hv : ∀ f ∈ fs, d f = .frame f f.length) (ht : TailOk d t) (k : Nat) :
    let c := run d [(fs.flatten ++ t).take k]
    c.out = fs.take (completeBy (fs.map List.length) k) ∧ c.failed = false ∧
    c.out.flatten ++ c.buf = (fs.flatten ++ t).take k := by
  have ⟨h1, h2, h3⟩ := drainAll_prefix d hs t ht fs k hv
  simp only [run, List.foldl_cons, List.foldl_nil, feed_eq, Conn.init, Bool.false_eq_true, ↓reduceIte,
    List.nil_append]
  exact ⟨h1, h2, by rw [h1]; exact h3⟩

/-- on a proper prefix of an acceptable frame the decoder asks for more data (and therefore drains nothing) -/
theorem incomplete_frame_needs_more (d : Bytes → Step Bytes) (hs : Stable d) (g : Bytes)
    (hg : d g = .frame g g.length) (k : Nat) (hk : k < g.length) : d (g.take k) = .needMore :=
  prefix_needMore d hs g hg k hk

/-- **segmentation_independent_stateful**: the same for decoders that carry connection state which changes only when
an item is produced (HTTP/2: "client preface consumed"). -/
theorem segmentation_independent_stateful {F σ : Type} (d : σ → Bytes → Step (F × σ)) (hs : SStable d) (s0 : σ)
    (h0 : d s0 [] = .needMore) (chunks : List Bytes) : srun d s0 chunks = srun d s0 [chunks.flatten] := by
  rw [srun_eq_sfeed d hs s0 h0 chunks, srun_eq_sfeed d hs s0 h0 [chunks.flatten]]; simp

/-- prefix-stability of the HTTP/2 server-side frame extraction (`ReadPreface`, then `MFramer.ReadFrame`: 9-byte
header, 24-bit length, read-size limit, HEADERS + CONTINUATION pulled and drained as one item), for every read
limit, every payload-parser behaviour that is a function of the frame and every HPACK outcome that is a function of
the group bytes; over the regenerated length tests, sizes and `Drain` argument. -/
theorem stable_http2 (maxRead : Nat) (parseOk groupOk : Bytes → Bool) : SStable (h2Step maxRead parseOk groupOk) :=
  h2Step_stable maxRead parseOk groupOk

/-- **segmentation independence of HTTP/2 frame extraction** (preface + frames, any chunking) -/
theorem segmentation_independent_http2 (maxRead : Nat) (parseOk groupOk : Bytes → Bool) (chunks : List Bytes) :
    srun (h2Step maxRead parseOk groupOk) false chunks = srun (h2Step maxRead parseOk groupOk) false [chunks.flatten] :=
  segmentation_independent_stateful _ (stable_http2 maxRead parseOk groupOk) false
    (h2Step_empty maxRead parseOk groupOk false) chunks

/-- **match_monotone**: for every protocol matcher (bolt, boltv2, dubbo, dubbothrift, tars, HTTP/1 method table,
HTTP/2 preface) an answer `success` or `failed` on a prefix is final on every extension. -/
theorem match_monotone (name : String) (m : Bytes → MR) (h : matcherOf name = some m) : Monotone m := by
  unfold matcherOf at h
  split at h <;> simp at h <;> subst h
  · exact codeMatch_mono _
  · exact codeMatch_mono _
  · exact dubboMatch_mono
  · exact thriftMatch_mono
  · exact tarsMatch_mono
  · exact http1Match_mono
  · exact http2Match_mono

theorem scope_monotone (names : List String) : ∀ m ∈ scopeOf names, Monotone m.2 := by
  intro m hm
  unfold scopeOf at hm
  obtain ⟨n, _, hn⟩ := List.mem_filterMap.mp hm
  cases hmo : matcherOf n with
  | none => simp [hmo] at hn
  | some f => simp [hmo] at hn; subst hn; exact match_monotone n f hmo

/-- **select_deterministic_partial**: automatic protocol selection (`SelectStreamFactoryProtocol` over an ordered scope
of matchers) is segmentation independent on streams on which at most one matcher of the scope can ever succeed: once a
protocol is chosen on a prefix, every longer prefix chooses the same one.
The unrestricted statement ("for every stream") is FALSE of the code — first success in scope order wins, and a later
matcher may succeed on a shorter prefix than an earlier one: see the witness below. -/
theorem select_deterministic_partial (names : List String) (p e : Bytes) (hx : Exclusive (scopeOf names) p)
    (n : String) (h : select (scopeOf names) p = .proto n) : select (scopeOf names) (p ++ e) = .proto n :=
  select_proto_final _ (scope_monotone names) p e hx n h

/-- a failed selection is final on every extension, for every stream -/
theorem select_failed_is_final (names : List String) (p e : Bytes) (h : select (scopeOf names) p = .failed) :
    select (scopeOf names) (p ++ e) = .failed :=
  select_failed_final _ (scope_monotone names) p e h

-- machine-checked negation witness of the unrestricted statement: a bolt request whose `ver2` byte is 0xda and whose
-- request id starts with 0xbc also satisfies the dubbothrift matcher (magic at [4:6]); with scope [dubbothrift, bolt]
-- a first read of 1–5 bytes selects bolt, a first read of ≥ 6 bytes selects dubbothrift.
example : select (scopeOf ["thrift", "bolt"]) [1] = .proto "bolt" ∧
    select (scopeOf ["thrift", "bolt"]) [1, 1, 0, 1, 0xda, 0xbc] = .proto "thrift" := by decide
-- non-vacuity of `Exclusive`: on a standard bolt frame (ver2 = 1) only the bolt matcher can succeed ...
example : select (scopeOf ["thrift", "bolt"]) [1, 1, 0, 1, 1, 0] = .proto "bolt" := by decide

/-- the executable predicate `specSeg` (evaluated by the driver on implementation outputs) holds of the model -/
theorem spec_seg_holds_on_model (d : Bytes → Step Bytes) (hs : Stable d) (fs : List Bytes) (t : Bytes)
    (hv : ∀ f ∈ fs, d f = .frame f f.length) (ht : TailOk d t)
    (chunks : List Bytes) (hc : chunks.flatten = fs.flatten ++ t) :
    specSeg (fs.flatten ++ t) (fs.map List.length) (run d chunks).out (run d chunks).buf (run d chunks).failed = true := by
  rw [valid_stream_delivered d hs fs t hv ht chunks hc]
  simp [specSeg, splitBy_flatten]

/-- the executable predicate `specCut` holds of the model for every cut offset -/
theorem spec_cut_holds_on_model (d : Bytes → Step Bytes) (hs : Stable d) (fs : List Bytes) (t : Bytes)
    (hv : ∀ f ∈ fs, d f = .frame f f.length) (ht : TailOk d t) (k : Nat) :
    let s := fs.flatten ++ t
    let c1 := run d [s.take k]
    let c2 := run d [s.take k, s.drop k]
    specCut s (fs.map List.length) k c1.out.length c2.out.length (digest c2.out c2.buf) c2.failed = true := by
  intro s c1 c2
  have h2 : c2 = { buf := t, out := fs, failed := false } :=
    valid_stream_delivered d hs fs t hv ht _ (by simp [s])
  have ⟨h1, _, _⟩ := prefix_delivery d hs fs t hv ht k
  have hc1 : c1.out.length = completeBy (fs.map List.length) k := by
    show (run d [(fs.flatten ++ t).take k]).out.length = _
    rw [h1, List.length_take]
    have : ∀ (ls : List Nat) k, completeBy ls k ≤ ls.length := by
      intro ls; induction ls with
      | nil => intro k; simp [completeBy]
      | cons n ns ih => intro k; simp only [completeBy]; split <;> simp <;> have := ih (k - n) <;> omega
    have := this (fs.map List.length) k
    simp at this; omega
  simp only [specCut, hc1, h2, s, splitBy_flatten, List.length_map]
  simp

-- non-vacuity: the hypotheses are satisfiable by real protocol frames (a bolt request with a class, a KV header
-- `a=b` and 2 content bytes; a dubbo heartbeat event; a tars-style length-prefixed package)
def boltReq : Bytes := [1,1,0,1,1,0,0,0,7,1,0,0,3,232, 0,1, 0,10, 0,0,0,2, 99, 0,0,0,1,97,0,0,0,1,98, 120,121]
example : frameStep_bolt boltReq = .frame boltReq boltReq.length := by decide
example : frameStep_bolt (boltReq.take 34) = .needMore := by decide
example : TailOk frameStep_bolt (boltReq.take 20) := Or.inr ⟨boltReq, 20, by decide, by decide, rfl⟩
example : (run frameStep_bolt [boltReq.take 10, boltReq.drop 10 ++ boltReq.take 3, boltReq.drop 3]).out = [boltReq, boltReq] := by
  decide
example : frameStep_dubbo (fun _ => true) [0xda,0xbb,0xe2,0,0,0,0,0,0,0,0,9,0,0,0,1,78] =
    .frame [0xda,0xbb,0xe2,0,0,0,0,0,0,0,0,9,0,0,0,1,78] 17 := by decide
example : frameStep_tars (fun _ => true) [0,0,0,6,16,1,9] = .frame [0,0,0,6,16,1] 6 := by decide
example : boltMatch [1] = .success ∧ dubboMatch [0xda] = .again ∧ http1Match [71,69,84] = .success := by decide

-- HTTP/2: preface, then a SETTINGS frame (length 0) and a HEADERS frame without END_HEADERS followed by its
-- CONTINUATION: three items, the group drained as one
def h2Sample : Bytes := (MosnVerif.Gen.FrameConsts.http2_preface.map UInt8.ofNat) ++ [0,0,0,4,0,0,0,0,0] ++
  [0,0,1,1,0,0,0,0,1, 0x82] ++ [0,0,1,9,4,0,0,0,1, 0x84]
example : ((srun (h2Step 1048576 (fun _ => true) (fun _ => true)) false
    [h2Sample.take 30, h2Sample.drop 30 |>.take 20, h2Sample.drop 50]).out.map (fun o => (o.map List.length))) =
    [none, some 9, some 20] := by decide

/-! ## the connection read loop below `Dispatch` (`pkg/network/connection.go` startReadLoop / doRead / onRead)

`ReadLoop.run P c k evs` is the loop fed with the results `evs` of successive `ReadOnce` calls — reads, read timeouts
(`types.DefaultConnReadTimeout`), EOF, errors, in any order — over the regenerated `doRead` / `onRead` decisions and
the regenerated re-allocations of the timeout branch (`Params.actual`), handing the read buffer to the consumer `c`
(the read filters; `dispatchConsumer d` = `streamConn.Dispatch` = `Framing.feed d`). -/

/-- the timeout branch of the current `startReadLoop` frees / re-allocates the read buffer only when it holds nothing,
for every default read buffer size -/
theorem timeout_branch_frees_only_empty (dflt : Int) : SafeShrinks (Params.actual dflt) := by
  intro sh hsh alloc len cap h
  simp only [Params.actual, MosnVerif.Gen.ReadLoopConn.timeoutShrinks, List.mem_cons, List.not_mem_nil, or_false] at hsh
  subst hsh
  simp only [MosnVerif.Gen.ReadLoopConn.timeoutShrinkCond0, Bool.and_eq_true, decide_eq_true_eq] at h
  omega

/-- **readloop_preserves_stream**: for every consumer that only drains from the front, every default buffer size and
every sequence of `ReadOnce` results (chunks of any sizes with read timeouts, EOF and errors anywhere), the bytes the
consumer has drained, in order, followed by what the read buffer still holds are exactly the bytes `ReadOnce` put into
the buffer, in order: no byte lost, none duplicated — at every point of the run (the statement holds for every prefix
of `evs`), so every hand-off shows the consumer exactly the unconsumed rest of the stream. -/
theorem readloop_preserves_stream {κ : Type} (dflt : Int) (c : Consumer κ) (hd : c.Drains) (k : κ) (evs : List Ev) :
    (ReadLoop.run (Params.actual dflt) c k evs).consumed ++ (ReadLoop.run (Params.actual dflt) c k evs).buf =
      (appended evs).flatten := by
  have := ReadLoop.foldl_stream (Params.actual dflt) (timeout_branch_frees_only_empty dflt) c hd evs (ReadLoop.St.init k)
  simpa [ReadLoop.run, ReadLoop.St.init, ReadLoop.appendedFrom] using this

/-- … in particular for every chunk list (chunks of at least one byte) with read timeouts inserted anywhere: the stream is
the concatenation of the chunks. -/
theorem readloop_preserves_stream_timeouts {κ : Type} (dflt : Int) (c : Consumer κ) (hd : c.Drains) (k : κ)
    (evs : List Ev) (hp : ∀ e ∈ evs, e.plain = true) :
    (ReadLoop.run (Params.actual dflt) c k evs).consumed ++ (ReadLoop.run (Params.actual dflt) c k evs).buf =
      (readsOf evs).flatten := by
  rw [readloop_preserves_stream dflt c hd k evs, ReadLoop.appended_plain evs hp]

/-- **readloop_refines_dispatch**: with the stream connection behind the filter manager, the read loop is the generic
dispatch model: frames handed on, residue and failed flag are those of `Framing.run` on the chunks read. -/
theorem readloop_refines_dispatch {F : Type} (dflt : Int) (d : Bytes → Step F) (hs : Stable d) (evs : List Ev) :
    toConn (ReadLoop.run (Params.actual dflt) (dispatchConsumer d) ([], false) evs) = run d (appended evs) := by
  have := ReadLoop.foldl_feed_loop (Params.actual dflt) (timeout_branch_frees_only_empty dflt) d hs evs
    (ReadLoop.St.init ([], false)) rfl (ReadLoop.fix_init d)
  have h0 : toConn (ReadLoop.St.init (([], false) : List F × Bool)) = (Conn.init : Conn F) := rfl
  rw [h0] at this
  simpa [ReadLoop.run, run] using this

/-- **readloop_segmentation_independent**: hence, by `segmentation_independent`, for every chunk list with read
timeouts inserted anywhere the frames (and residue, failed flag) are those of the concatenation arriving in one read. -/
theorem readloop_segmentation_independent {F : Type} (dflt : Int) (d : Bytes → Step F) (hs : Stable d) (evs : List Ev)
    (hp : ∀ e ∈ evs, e.plain = true) :
    toConn (ReadLoop.run (Params.actual dflt) (dispatchConsumer d) ([], false) evs) = run d [(readsOf evs).flatten] := by
  rw [readloop_refines_dispatch dflt d hs evs, segmentation_independent d hs, ReadLoop.appended_plain evs hp]

/-- a stream of valid frames followed by an incomplete one, read in any chunks with any stalls: exactly those frames,
in order, once; exactly the incomplete frame stays buffered -/
theorem readloop_valid_stream_delivered (dflt : Int) (d : Bytes → Step Bytes) (hs : Stable d) (fs : List Bytes) (t : Bytes)
    (hv : ∀ f ∈ fs, d f = .frame f f.length) (ht : TailOk d t) (evs : List Ev) (hp : ∀ e ∈ evs, e.plain = true)
    (hc : (readsOf evs).flatten = fs.flatten ++ t) :
    toConn (ReadLoop.run (Params.actual dflt) (dispatchConsumer d) ([], false) evs) = { buf := t, out := fs, failed := false } := by
  rw [readloop_segmentation_independent dflt d hs evs hp]
  exact valid_stream_delivered d hs fs t hv ht _ (by simpa using hc)

/-- outside the re-allocations covered above, `startReadLoop` / `doRead` / `onRead` change `c.readBuffer` only by the
first allocation and by `ReadOnce` (regenerated list of uses) -/
theorem read_path_vocabulary :
    ReadLoop.mutatingUses MosnVerif.Gen.ReadLoopConn.readBufferUses = ReadLoop.expectedMutatingUses := by decide

/-- the two further copies of the statement in netpoll mode (read-timeout timer callback, event-loop `onRead`) also fire
only on an empty buffer, for every network and default size; and nothing else in pkg/network discards or consumes a
connection's read buffer (regenerated list of such calls is empty).  Proof over the regenerated conditions only: the
netpoll event loop is not driven by the harness. -/
theorem netpoll_shrinks_free_only_empty (net : String) (dflt : Int) :
    SafeShrinks { network := net, dflt := dflt, shrinks := MosnVerif.Gen.ReadLoopConn.netpollShrinks } := by
  intro sh hsh alloc len cap h
  simp only [MosnVerif.Gen.ReadLoopConn.netpollShrinks, List.mem_cons, List.not_mem_nil, or_false] at hsh
  rcases hsh with rfl | rfl <;>
    (simp only [MosnVerif.Gen.ReadLoopConn.netpollShrinkCond0, MosnVerif.Gen.ReadLoopConn.netpollShrinkCond1,
      Bool.and_eq_true, decide_eq_true_eq] at h; omega)

theorem no_stray_buffer_discard : MosnVerif.Gen.ReadLoopConn.strayBufferCalls = [] := by decide

/-- the executable predicate `specReadLoop` (evaluated by the driver on the implementation's output of every `rl`
case) holds of the model: a stream of valid frames plus an incomplete tail, read in any chunks with any stalls -/
theorem spec_readloop_holds_on_model (dflt : Int) (d : Bytes → Step Bytes) (hs : Stable d) (fs : List Bytes) (t : Bytes)
    (hv : ∀ f ∈ fs, d f = .frame f f.length) (ht : TailOk d t) (evs : List Ev) (hp : ∀ e ∈ evs, e.plain = true)
    (hc : (readsOf evs).flatten = fs.flatten ++ t) :
    let c := toConn (ReadLoop.run (Params.actual dflt) (dispatchConsumer d) ([], false) evs)
    ReadLoopSpec.specReadLoop (fs.flatten ++ t) (fs.map List.length) ((readsOf evs).map List.length) c.out c.buf c.failed
      = true := by
  intro c
  have hcv : c = { buf := t, out := fs, failed := false } := readloop_valid_stream_delivered dflt d hs fs t hv ht evs hp hc
  have hsum : ((readsOf evs).map List.length).sum = (fs.flatten ++ t).length := by
    rw [← hc, List.length_flatten]
  simp [ReadLoopSpec.specReadLoop, hcv, hsum, specSeg, splitBy_flatten]

-- non-vacuity and the negation witness.  `holdSmall`: a consumer that takes everything once 128 bytes are buffered and
-- otherwise waits (a frame that is not complete yet).
def holdSmall : Consumer Unit := ⟨fun k b => (k, if b.length ≥ 128 then [] else b)⟩
def bigRead : Bytes := List.replicate 128 7
def stalled : List Ev := [.read bigRead, .read [1, 2, 3], .timeout, .timeout, .read [4]]
set_option maxRecDepth 8192
example : ∀ e ∈ stalled, e.plain = true := by decide
-- the current loop: the 128-byte read grew the buffer (128 -> 1024), the stall changes nothing
example : (ReadLoop.run (Params.actual 128) holdSmall () stalled).buf = [1, 2, 3, 4] ∧
    (ReadLoop.run (Params.actual 128) holdSmall () stalled).cap = 1024 := by decide
example : (ReadLoop.run (Params.actual 128) holdSmall () [.read bigRead, .timeout]).cap = 128 := by decide
/-- "free when small": re-allocate whenever the buffer holds at most the default size and has grown -/
def freeWhenSmall : MosnVerif.Gen.ReadLoopConn.Shrink :=
  ⟨fun net alloc len cap dflt => decide (net = "tcp") && alloc && decide (len ≤ dflt) && decide (cap > dflt), fun d => d⟩
def mutant (dflt : Int) : Params := { network := "tcp", dflt := dflt, shrinks := [freeWhenSmall] }
example : ¬ SafeShrinks (mutant 128) := by
  intro h
  have := h freeWhenSmall (by simp [mutant]) true 3 1024 (by decide)
  omega
-- the buffered head [1,2,3] of the waiting frame is discarded by the first timeout: bytes lost
example : (ReadLoop.run (mutant 128) holdSmall () stalled).consumed ++ (ReadLoop.run (mutant 128) holdSmall () stalled).buf
    = bigRead ++ [4] := by decide
example : (ReadLoop.run (mutant 128) holdSmall () stalled).consumed ++ (ReadLoop.run (mutant 128) holdSmall () stalled).buf
    ≠ (readsOf stalled).flatten := by decide
-- ... and it needs the earlier growth: without the large read the capacity is still the default and nothing is lost
example : (ReadLoop.run (mutant 128) holdSmall () [.read [1, 2, 3], .timeout, .read [4]]).buf = [1, 2, 3, 4] := by decide
-- with frames: bolt request cut after 20 bytes behind a first read that filled the buffer
example : (toConn (ReadLoop.run (Params.actual 64) (dispatchConsumer frameStep_bolt) ([], false)
    [.read (boltReq ++ boltReq.take 29), .read (boltReq.drop 29 ++ boltReq.take 20), .timeout, .read (boltReq.drop 20)])).out
    = [boltReq, boltReq, boltReq] := by decide
example : (toConn (ReadLoop.run (mutant 64) (dispatchConsumer frameStep_bolt) ([], false)
    [.read (boltReq ++ boltReq.take 29), .read (boltReq.drop 29 ++ boltReq.take 20), .timeout, .read (boltReq.drop 20)])).out
    = [boltReq, boltReq] := by decide

/-! ## nothing is attributed to a neighbouring frame: the context of a frame (`streamConn.Dispatch`, Model/DispatchCtx.lean)

Above, a frame is its bytes.  A delivered request is more: the receiver keeps the decoded frame, the server stream and
the stream-level context and reads them after `Dispatch` has gone on to the next frame of the same read.  A chunking is
now the list of `Dispatch` calls with the frames each read completes; `genShape` is the call structure of the loop
regenerated from conn.go on this run. -/
section DispatchContext
open MosnVerif.Model.DispatchCtx

theorem dispatch_one_context_per_frame : DispatchCtx.genShape.perFrame := by decide

/-- **each frame exactly once** (whatever the loop does with contexts): the receivers are created for exactly the
request / one-way frames, the acknowledgements written for exactly the heartbeats, each once, in stream order. -/
theorem frames_handled_exactly_once (sh : Shape) (pf : Bool) (calls : List (List Frame)) :
    (DispatchCtx.run sh pf calls).delivered.map (·.frame) = calls.flatten.filter (·.kind.delivers) ∧
    (DispatchCtx.run sh pf calls).acks = (calls.flatten.filter (·.kind = .heartbeat)).map (·.id) :=
  run_delivered sh pf calls

/-- **delivered_chunking_independent**: what the receivers find in the frames, streams and contexts they kept does not
depend on how the frames were spread over reads (one frame per read, all in one read, anything between) — it is the
list of their own frames; nothing of a neighbouring frame. -/
theorem delivered_chunking_independent (pf : Bool) (c1 c2 : List (List Frame)) (h : c1.flatten = c2.flatten) :
    views DispatchCtx.genShape pf (DispatchCtx.run DispatchCtx.genShape pf c1) =
      views DispatchCtx.genShape pf (DispatchCtx.run DispatchCtx.genShape pf c2) ∧
    views DispatchCtx.genShape pf (DispatchCtx.run DispatchCtx.genShape pf c1) = (c1.flatten.filter (·.kind.delivers)).map own := by
  rw [views_eq dispatch_one_context_per_frame pf c1, views_eq dispatch_one_context_per_frame pf c2, h]
  exact ⟨rfl, rfl⟩

/-- one context per decoded frame, none held by two receivers -/
theorem context_per_frame (pf : Bool) (calls : List (List Frame)) :
    Isolated DispatchCtx.genShape pf (DispatchCtx.run DispatchCtx.genShape pf calls) :=
  isolated_of_inv (inv_run dispatch_one_context_per_frame pf calls)

/-- the executable predicate of the `ctx` cases holds of the model's output -/
theorem spec_ctx_holds_on_model (pf : Bool) (calls : List (List Frame)) :
    specCtx calls.flatten (runA DispatchCtx.genShape pf DispatchCtx.init [] calls).2
      (views DispatchCtx.genShape pf (runA DispatchCtx.genShape pf DispatchCtx.init [] calls).1)
      (deliveredClasses (runA DispatchCtx.genShape pf DispatchCtx.init [] calls).1)
      (runA DispatchCtx.genShape pf DispatchCtx.init [] calls).1.acks = true := by
  have hA := runA_eq dispatch_one_context_per_frame pf calls DispatchCtx.init [] (inv_init _ _) (by simp [DispatchCtx.init])
  have hr : List.foldl (dispatch DispatchCtx.genShape pf) DispatchCtx.init calls = DispatchCtx.run DispatchCtx.genShape pf calls := rfl
  rw [hA.1, hA.2, hr]
  have hi := inv_run dispatch_one_context_per_frame pf calls
  have hd := run_delivered DispatchCtx.genShape pf calls
  have hown : expect = own := rfl
  have hlen : (deliveredClasses (DispatchCtx.run DispatchCtx.genShape pf calls)).length = (calls.flatten.filter (·.kind.delivers)).length := by
    rw [← hd.1]; simp [deliveredClasses]
  simp only [specCtx, views_of_inv hi, hd.1, hd.2, hown, hlen, List.length_map, beq_self_eq_true, Bool.true_and,
    Bool.and_true, decide_eq_true_eq]
  exact classes_nodup hi

/-! ### non-vacuity; the hoisted `Get` depends on the chunking -/
def cq1 : Frame := ⟨.request, 1, 101, 201⟩
def cq2 : Frame := ⟨.request, 2, 102, 202⟩
def cq3 : Frame := ⟨.request, 3, 103, 203⟩
example : views DispatchCtx.genShape true (DispatchCtx.run DispatchCtx.genShape true [[cq1, cq2, cq3]]) = [own cq1, own cq2, own cq3] := by decide
example : views hoistedShape true (DispatchCtx.run hoistedShape true [[cq1], [cq2], [cq3]]) = [own cq1, own cq2, own cq3] := by decide
example : views hoistedShape true (DispatchCtx.run hoistedShape true [[cq1, cq2], [cq3]]) = [own cq2, own cq2, own cq3] := by decide
example : views hoistedShape true (DispatchCtx.run hoistedShape true [[cq1, cq2, cq3]]) = [own cq3, own cq3, own cq3] := by decide

end DispatchContext

/-! ## Content locality and ownership (Model/FrameOwn): the CONTENTS of message `i` do not depend on the chunking -/
section ContentOwnership
open MosnVerif.Model.FrameOwn
open MosnVerif.Gen.FrameOwn

/-- **parsers_read_frame_only**: in the current decoders (regenerated lists of every use of the read buffer in
decodeRequest / decodeResponse / decodeFrame of bolt, boltv2, dubbo, dubbothrift, tars and of the slice each TarsGo
reader is constructed on) no field parser is handed an open slice of the read buffer or the buffer itself: every
payload parser is constructed on the private copy of exactly the drained frame, every direct read is a closed slice
inside the frame. -/
theorem parsers_read_frame_only :
    viewOf "bolt" = .frameCopy ∧ viewOf "boltv2" = .frameCopy ∧ viewOf "dubbo" = .frameCopy ∧
    viewOf "thrift" = .frameCopy ∧ viewOf "tars" = .frameCopy := by decide

theorem hdrOf_stable (proto : String) (h : Bytes → Hdr) (hp : hdrOf proto = some h) : HdrStable h := by
  unfold hdrOf at hp
  split at hp <;> simp at hp <;> subst hp
  · exact boltHdr_stable false
  · exact boltHdr_stable true
  · exact dubboHdr_stable
  · exact thriftHdr_stable
  · exact tarsHdr_stable

theorem viewOf_frameCopy (proto : String) (h : Bytes → Hdr) (hp : hdrOf proto = some h) : viewOf proto = .frameCopy := by
  unfold hdrOf at hp
  split at hp <;> simp at hp
  · exact parsers_read_frame_only.1
  · exact parsers_read_frame_only.2.1
  · exact parsers_read_frame_only.2.2.1
  · exact parsers_read_frame_only.2.2.2.1
  · exact parsers_read_frame_only.2.2.2.2

/-- **content_local** (one Decode call, every buffer suffix): for every xprotocol, EVERY payload parser `parse`
(hessian2, thrift, TarsGo, KV block: any function of the bytes it is constructed on), every buffer `p` holding a
complete frame and EVERY suffix `e` buffered behind it — a complete neighbour, a neighbour cut inside a head, garbage —
Decode answers on `p ++ e` exactly what it answers on `p`: same verdict (a valid frame is never rejected because of what
follows it), same frame bytes, same decoded content. -/
theorem content_local {C : Type} (proto : String) (parse : Bytes → Option C) (d : Bytes → Step (Bytes × C))
    (hd : contentStep proto parse = some d) (p e : Bytes) (hp : d p ≠ .needMore) : d (p ++ e) = d p := by
  unfold contentStep at hd
  cases hh : hdrOf proto with
  | none => simp [hh] at hd
  | some h =>
    simp only [hh, Option.map_some, Option.some.injEq] at hd
    subst hd
    rw [viewOf_frameCopy proto h hh] at hp ⊢
    have hs := hdrOf_stable proto h hh
    cases hl : h p with
    | needMore => exact absurd (by simp [envelopeC, hl]) hp
    | error => simp only [envelopeC, hl, hs.errExt p e hl]
    | len n => exact envelopeC_suffix h hs parse p e n hl

/-- the content decoder of every xprotocol is prefix-stable, for every payload parser: all of
`segmentation_independent` applies to (frame bytes, decoded content) pairs -/
theorem stable_content {C : Type} (proto : String) (parse : Bytes → Option C) (d : Bytes → Step (Bytes × C))
    (hd : contentStep proto parse = some d) : Stable d := by
  unfold contentStep at hd
  cases hh : hdrOf proto with
  | none => simp [hh] at hd
  | some h =>
    simp only [hh, Option.map_some, Option.some.injEq] at hd
    subst hd
    rw [viewOf_frameCopy proto h hh]
    exact envelopeC_stable h (hdrOf_stable proto h hh) parse

/-- **content_local_stream**: a stream of frames `fs` (each complete by its own header: `h f = len |f|`, each parsed
alone to `val f`) followed by an incomplete tail, delivered in ANY chunking: the connection hands on, in order, each
once, the pairs (frame i, `val (frame i)`): the decoded content of frame `i` is a function of frame `i`'s bytes only —
nothing of a neighbour is attributed to it and no neighbour makes it fail. -/
theorem content_local_stream {C : Type} (proto : String) (parse : Bytes → Option C) (h : Bytes → Hdr)
    (d : Bytes → Step (Bytes × C)) (hh : hdrOf proto = some h) (hd : contentStep proto parse = some d)
    (val : Bytes → C) (fs : List Bytes) (t : Bytes)
    (hv : ∀ f ∈ fs, h f = .len f.length ∧ parse f = some (val f)) (ht : t = [] ∨ h t = .needMore)
    (chunks : List Bytes) (hc : chunks.flatten = fs.flatten ++ t) :
    run d chunks = { buf := t, out := fs.map (fun f => (f, val f)), failed := false } := by
  have hs := stable_content proto parse d hd
  have hst := hdrOf_stable proto h hh
  have hdv : d = envelopeC h .frameCopy parse := by
    unfold contentStep at hd
    simp only [hh, Option.map_some, Option.some.injEq] at hd
    rw [← hd, viewOf_frameCopy proto h hh]
  rw [run_eq_feed d hs chunks, hc, feed_eq]
  simp only [Conn.init, Bool.false_eq_true, ↓reduceIte, List.nil_append]
  have key := drainAll_validF d hs (fun f => (f, val f)) fs t
    (fun f hf e => by rw [hdv]; exact envelopeC_frame h hst parse f e (val f) (hv f hf).1 (hv f hf).2)
    (fun f hf => by
      have := (hst.pos f f.length (hv f hf).1).1
      intro h0; subst h0; simp at this)
    (by rcases ht with rfl | ht
        · left; rfl
        · right; rw [hdv]; simp [envelopeC, ht])
  rw [key]

/-- non-vacuity + **negation witness**: a parser that sees the SUFFIX (constructed on everything buffered, what
`codec.NewReader(data.Bytes()[4:])` does) makes the content of a frame depend on what follows it — here a two-frame tars
stream whose parser reports the last byte it can see: frame-local under `frameCopy`, the neighbour's byte under `buffered`;
and a parser that fails when it can see a truncated neighbour rejects the complete valid first frame. -/
def wf1 : Bytes := [0, 0, 0, 6, 0x10, 0x01]
def wf2 : Bytes := [0, 0, 0, 5, 0x77]
def lastByte (w : Bytes) : Option UInt8 := w.getLast?
def failsOnCutHead (w : Bytes) : Option Nat := if w.length == 6 then some 1 else none
example : envelopeC tarsHdr .frameCopy lastByte wf1 = .frame (wf1, 0x01) 6 := by decide
example : envelopeC tarsHdr .frameCopy lastByte (wf1 ++ wf2) = .frame (wf1, 0x01) 6 := by decide
example : envelopeC tarsHdr .buffered lastByte (wf1 ++ wf2) = .frame (wf1, 0x77) 6 := by decide
example : envelopeC tarsHdr .frameCopy failsOnCutHead (wf1 ++ wf2.take 2) = .frame (wf1, 1) 6 := by decide
example : envelopeC tarsHdr .buffered failsOnCutHead (wf1 ++ wf2.take 2) = .error := by decide
example : run (envelopeC tarsHdr .frameCopy lastByte) [wf1 ++ wf2] = run (envelopeC tarsHdr .frameCopy lastByte) [wf1, wf2] := by decide
example : (run (envelopeC tarsHdr .buffered lastByte) [wf1 ++ wf2]).out ≠ (run (envelopeC tarsHdr .buffered lastByte) [wf1, wf2]).out := by decide
example : contentStep "tars" lastByte = some (envelopeC tarsHdr .frameCopy lastByte) := by
  simp [contentStep, hdrOf, parsers_read_frame_only.2.2.2.2]

/-- the executable predicate of the `pkt` cases holds of the model's output -/
theorem spec_pkt_holds_on_model {C : Type} (proto : String) (parse : Bytes → Option C) (h : Bytes → Hdr)
    (d : Bytes → Step (Bytes × C)) (hh : hdrOf proto = some h) (hd : contentStep proto parse = some d)
    (val : Bytes → C) (show_ : C → String) (fs : List Bytes) (t : Bytes)
    (hv : ∀ f ∈ fs, h f = .len f.length ∧ parse f = some (val f)) (ht : t = [] ∨ h t = .needMore)
    (chunks : List Bytes) (hc : chunks.flatten = fs.flatten ++ t) :
    specPkt (fs.flatten ++ t).length (fs.map (fun f => (f.length, show_ (val f))))
      ((run d chunks).out.map (fun x => show_ x.2)) (run d chunks).buf.length (run d chunks).failed = true := by
  rw [content_local_stream proto parse h d hh hd val fs t hv ht chunks hc]
  have he : (fun x : Bytes => x.length) = List.length := rfl
  simp [specPkt, List.map_map, Function.comp_def, List.length_flatten, he, Nat.add_comm]

/-! ### ownership of delivered HTTP/2 bodies -/

/-- **h2_payload_copied**: in the current serverStreamConnection.handleFrame and clientStreamConnection.handleFrame
(regenerated: every use of the DATA payload variable, every right-hand side assigned to stream.recData, the body
argument of every OnReceive call) the payload — a window of the connection read buffer — is only measured, tested
against nil and WRITTEN INTO a freshly allocated buffer; what is handed to the receiver is that buffer. -/
theorem h2_payload_copied : passServer = .copy ∧ passClient = .copy := by decide

/-- **delivered_stable**: under the copy discipline, for EVERY initial memory, every sequence of DATA frames (windows
anywhere in the read buffer, single-frame and multi-frame bodies) interleaved with reads that rewrite the buffer, and
EVERY list of later reads: what the receiver finds in the body object it was handed is the same whatever the read
buffer holds by then. -/
theorem delivered_stable (m0 : Mem) (evs : List FrameOwn.Ev) (later : List Mem) (m1 m2 : Mem) :
    let s := later.foldl (fun s m => step .copy s (.refill m)) (run .copy m0 evs)
    s.delivered.map (Body.read m1) = (run .copy m0 evs).delivered.map (Body.read m2) := by
  intro s
  have hk : s.delivered = (run .copy m0 evs).delivered := refills_keep .copy _ later
  rw [hk]
  rcases run_copy_owned m0 evs with h | ⟨b, h⟩ <;> simp [h, Body.read]

/-- for the discipline the real handleFrame follows (both directions) -/
theorem delivered_stable_http2 (m0 : Mem) (evs : List FrameOwn.Ev) (later : List Mem) (m1 m2 : Mem) :
    (∀ p ∈ [passServer, passClient],
      let s := later.foldl (fun s m => step p s (.refill m)) (run p m0 evs)
      s.delivered.map (Body.read m1) = (run p m0 evs).delivered.map (Body.read m2)) := by
  intro p hp
  have : p = .copy := by
    rcases List.mem_cons.1 hp with h | h
    · rw [h]; exact h2_payload_copied.1
    · rw [List.mem_singleton.1 h]; exact h2_payload_copied.2
  subst this
  exact delivered_stable m0 evs later m1 m2

/-- non-vacuity + **negation witness for aliasing**: a single DATA frame with END_STREAM handed on as
`NewIoBufferBytes(data)`: the receiver first reads the body, after the next read it reads bytes of later frames. -/
def mem0 : Mem := [9, 9, 9, 1, 2, 3, 9]
def mem1 : Mem := [7, 7, 7, 7, 7, 7, 7]
example : (run .copy mem0 [.data 3 3 true]).delivered.map (Body.read mem0) = some [1, 2, 3] := by decide
example : (run .copy mem0 [.data 3 3 true, .refill mem1]).delivered.map (Body.read mem1) = some [1, 2, 3] := by decide
example : (run .alias mem0 [.data 3 3 true]).delivered.map (Body.read mem0) = some [1, 2, 3] := by decide
example : (run .alias mem0 [.data 3 3 true, .refill mem1]).delivered.map (Body.read mem1) = some [7, 7, 7] := by decide
example : (run .copy mem0 [.data 3 2 false, .refill mem1, .data 0 1 true]).delivered.map (Body.read mem1) = some [1, 2, 7] := by decide

end ContentOwnership

/-! ### HTTP/1: the connection reader as a byte queue (kind `h1seg`; Model/H1Seg over Gen/H1SegOps) -/
section Http1Queue
open MosnVerif.Model.H1Seg MosnVerif.Lemmas.H1Seg MosnVerif.Lemmas.H1SegStable

/-- regenerated from pkg/stream/http/stream.go: inside the loops of both `serve()` functions the connection's reader is
only handed to the fasthttp parser (no Reset / Discard / re-creation when the loop comes round), `.br` is assigned in
the two constructors only and used nowhere else, and the producer hands over every byte (`Read` drains what it copied,
`Dispatch` repeats until its buffer is empty, they are the only users of the hand-over channel). -/
theorem http1_queue_only_parsed :
    rstOf serverUses = false ∧ rstOf clientUses = false ∧ producerAppendsAll = true := by decide

/-- with the regenerated loop operations the serve loop over the queue IS the generic buffered dispatch loop -/
theorem http1_serve_refines_dispatch {F : Type} (resp : Bool) (d : Bytes → Step F) (chunks : List Bytes) :
    runQ (rstOf (if resp then clientUses else serverUses)) d chunks = run d chunks := by
  have h := http1_queue_only_parsed
  cases resp <;> simp [h.1, h.2.1, runQ_false]

/-- **http1_segmentation_independent**: for EVERY parser oracle that is prefix-stable (given the queue prefix it answers
need-more / a message consuming `n > 0` bytes / error, and a message or error is final on every extension), every byte
stream and EVERY chunking of it — requests on the server stream connection (`resp = false`) and responses on the client
stream connection — the serve loop ends with the same messages (count, boundaries, contents), the same unparsed rest
and the same failed flag as when the whole stream arrives in one read. -/
theorem http1_segmentation_independent {F : Type} (resp : Bool) (d : Bytes → Step F) (hs : Stable d) (chunks : List Bytes) :
    runQ (rstOf (if resp then clientUses else serverUses)) d chunks
      = runQ (rstOf (if resp then clientUses else serverUses)) d [chunks.flatten] := by
  rw [http1_serve_refines_dispatch, http1_serve_refines_dispatch]; exact segmentation_independent d hs chunks

/-- the reference framer of the generated message shapes (head up to CRLFCRLF, Content-Length, chunked) is such an oracle -/
theorem http1_reference_parser_stable (resp : Bool) : Stable (h1Step resp) := h1Step_stable resp

theorem http1_segmentation_independent_reference (resp : Bool) (c1 c2 : List Bytes) (h : c1.flatten = c2.flatten) :
    runQ (rstOf (if resp then clientUses else serverUses)) (h1Step resp) c1
      = runQ (rstOf (if resp then clientUses else serverUses)) (h1Step resp) c2 := by
  rw [http1_serve_refines_dispatch, http1_serve_refines_dispatch]
  exact segmentation_irrelevant _ (h1Step_stable resp) c1 c2 h

/-- a concatenation of complete messages plus an incomplete tail, in every chunking: exactly the messages, in order,
each once; the tail stays in the queue -/
theorem http1_valid_stream_delivered (resp : Bool) (d : Bytes → Step Bytes) (hs : Stable d) (fs : List Bytes) (t : Bytes)
    (hv : ∀ f ∈ fs, d f = .frame f f.length) (ht : TailOk d t)
    (chunks : List Bytes) (hc : chunks.flatten = fs.flatten ++ t) :
    runQ (rstOf (if resp then clientUses else serverUses)) d chunks = { buf := t, out := fs, failed := false } := by
  rw [http1_serve_refines_dispatch]; exact valid_stream_delivered d hs fs t hv ht chunks hc

/-- the executable predicate `specH1` holds of the model: in every chunking the model hands on what it hands on for the
whole stream, which is what the reference framer finds in the stream -/
theorem spec_h1seg_holds_on_model (resp : Bool) (chunks : List Bytes) (full : Bytes → String) :
    let rst := rstOf (if resp then clientUses else serverUses)
    let m := runQ rst (h1Step resp) chunks
    let w := runQ rst (h1Step resp) [chunks.flatten]
    specH1 resp chunks.flatten (w.out.map full) (m.out.map full) (m.out.map (descr resp))
      (if w.failed then "err" else "ok") (if m.failed then "err" else "ok") = true := by
  intro rst m w
  have hm : m = w := http1_segmentation_independent resp (h1Step resp) (h1Step_stable resp) chunks
  have hw : w = run (h1Step resp) [chunks.flatten] := http1_serve_refines_dispatch resp (h1Step resp) [chunks.flatten]
  simp [specH1, hm, hw]

-- non-vacuity and the negation witness: two pipelined requests `GET /a` `GET /b`
def h1A : Bytes := [71,69,84,32,47,97,32,72,84,84,80,47,49,46,49,13,10,13,10]
def h1B : Bytes := [71,69,84,32,47,98,32,72,84,84,80,47,49,46,49,13,10,13,10]
example : h1Step false h1A = .frame h1A h1A.length := by decide
example : h1Step false (h1A.take 17) = .needMore := by decide
example : (runQ false (h1Step false) [h1A ++ h1B.take 5, h1B.drop 5]).out = [h1A, h1B] := by decide
/-- reset-per-iteration (`conn.br.Reset(conn)` at the top of the loop) is NOT segmentation independent: when one read
carries request 1 and request 2, request 2 is destroyed with the queue; when it carries request 1 and the first 5 bytes
of request 2, parsing resumes in the middle of the request line (mis-framed: the second message is `b HTTP/1.1`). -/
example : (runQ true (h1Step false) [h1A ++ h1B]).out = [h1A] ∧ (runQ true (h1Step false) [h1A, h1B]).out = [h1A, h1B] := by
  decide
example : (runQ true (h1Step false) [h1A ++ h1B.take 5, h1B.drop 5]).out = [h1A, h1B.drop 5] := by decide
example : rstOf ["call:Reset", "arg:ReadLimitBody", "arg:ContinueReadBody"] = true ∧ rstOf ["assign", "arg:Read"] = true := by decide
-- a POST with Content-Length 3 and a chunked PUT (chunks `2`, `0`) are framed by the reference parser
def h1Post : Bytes := [80,79,83,84,32,47,120,32,72,84,84,80,47,49,46,49,13,10,67,111,110,116,101,110,116,45,76,101,110,103,116,104,58,32,51,13,10,13,10,97,98,99,71,69,84]
example : h1Hdr false h1Post = .len 42 := by decide
def h1Put : Bytes := [80,85,84,32,47,120,32,72,84,84,80,47,49,46,49,13,10,84,114,97,110,115,102,101,114,45,69,110,99,111,100,105,110,103,58,32,99,104,117,110,107,101,100,13,10,13,10,50,13,10,97,98,13,10,48,13,10,13,10,71,69]
example : h1Hdr false h1Put = .len 59 := by decide

end Http1Queue

/-! ### HTTP/1 `Expect: 100-continue`: the two-phase read of the server serve loop (kind `h1seg`, side `exp`;
Model/H1Continue over Gen/H1Continue) -/
section Http1Continue
open MosnVerif.Model.H1Seg MosnVerif.Model.H1Continue MosnVerif.Lemmas.H1Continue

/-- regenerated from `serverStreamConnection.serve`: the continue branch is conditional on `err == nil` and
`request.MayContinue()` ALONE (no other conjunct, no look at the reader such as `Buffered()`), nothing between
`ReadLimitBody` and `ContinueReadBody` destroys or replaces the connection's reader, `ContinueReadBody` is called once,
on `conn.br` — the reader `ReadLimitBody` was given — and its error reaches the `if err != nil { …; return }` that follows
the branch. -/
theorem http1_continue_two_phase_regenerated :
    contPlan.guarded = false ∧ contPlan.resetBetween = false ∧ contErrHandled = true := by decide

theorem http1_continue_plan_faithful : Faithful contPlan :=
  ⟨http1_continue_two_phase_regenerated.1, http1_continue_two_phase_regenerated.2.1⟩

/-- with the regenerated continue branch the two-phase loop over the reader queue (phase 1 may return behind the head,
phase 2 may find the body buffered, partly buffered or not yet there; serve() may be blocked inside `ContinueReadBody`
across reads) IS the generic dispatch loop of the composed parser, seen through `view` -/
theorem http1_continue_refines_dispatch {H B : Type} (p : Parser H B) (hp : PStable p) (chunks : List Bytes) :
    runC contPlan p chunks = view p (run (compose contPlan p) chunks) :=
  runC_view contPlan http1_continue_plan_faithful p hp chunks

/-- **http1_continue_segmentation_independent**: for EVERY pair of fasthttp oracles (`ReadLimitBody`: need more / error /
whole request / head only = `MayContinue`; `ContinueReadBody`: need more / error / body of `m ≥ 0` bytes) that is
prefix-stable, every byte stream of pipelined requests — any of them with `Expect: 100-continue` — and EVERY chunking of
it, the serve loop hands on the same requests (heads, bodies, which of them were continued, interim responses and
`Expect` deletions per request), ends with the same bytes in the reader, the same pending head (serve() inside
`ContinueReadBody`) and the same failed flag as when the whole stream arrives in one read.
Outside the contract (KNOWN_FINDINGS): the multiplicity of TRAILER header entries (fasthttp `ReadTrailer`), see
`trailer_multiplicity_depends_on_reads`. -/
theorem http1_continue_segmentation_independent {H B : Type} (p : Parser H B) (hp : PStable p) (chunks : List Bytes) :
    runC contPlan p chunks = runC contPlan p [chunks.flatten] := by
  rw [http1_continue_refines_dispatch p hp, http1_continue_refines_dispatch p hp,
    segmentation_independent _ (compose_stable contPlan p hp) chunks]

theorem http1_continue_segmentation_irrelevant {H B : Type} (p : Parser H B) (hp : PStable p) (c1 c2 : List Bytes)
    (h : c1.flatten = c2.flatten) : runC contPlan p c1 = runC contPlan p c2 := by
  rw [http1_continue_segmentation_independent p hp c1, http1_continue_segmentation_independent p hp c2, h]

/-- an Expect request whose head `hb` phase 1 accepts and whose body bytes `bb` phase 2 accepts is accepted as ONE message
consuming exactly `hb ++ bb`, whatever follows -/
theorem expect_request_accepted {H B : Type} (pl : Plan) (p : Parser H B) (hp : PStable p) (hb bb : Bytes) (h : H) (b : B)
    (h1 : p.rl hb = .head h hb.length) (h2 : p.cb h bb = .frame b bb.length) :
    compose pl p (hb ++ bb) = .frame (Msg.cont pl h b) (hb ++ bb).length := by
  unfold compose
  rw [hp.headExt hb h hb.length bb h1]
  simp [h2]

/-- **continue_body_attributed_to_its_request**: a stream made of requests each of which is accepted in isolation
consuming exactly its own bytes (an Expect request: head by phase 1 + body by phase 2, `expect_request_accepted`),
followed by an incomplete tail, delivered in ANY chunking — body in the read that carried the end of the head,
straddling reads, or later — yields exactly those requests with exactly their bodies, in order, each once: no body byte
is lost, handed on twice, or parsed as (part of) the next request's head; the loop ends standing on the tail (inside
`ContinueReadBody` when the tail is a complete Expect head). -/
theorem continue_body_attributed_to_its_request {H B : Type} (p : Parser H B) (hp : PStable p)
    (fs : List (Bytes × Msg H B)) (t : Bytes)
    (hv : ∀ f ∈ fs, compose contPlan p f.1 = .frame f.2 f.1.length)
    (ht : t = [] ∨ compose contPlan p t = .needMore)
    (chunks : List Bytes) (hc : chunks.flatten = (fs.map (·.1)).flatten ++ t) :
    runC contPlan p chunks =
      { buf := (split p t).2, pend := (split p t).1, out := fs.map (·.2), failed := false } := by
  have hs := compose_stable contPlan p hp
  rw [http1_continue_refines_dispatch p hp, run_eq_feed _ hs chunks, hc, feed_eq]
  simp only [Conn.init, Bool.false_eq_true, ↓reduceIte, List.nil_append]
  rw [drainAll_validF _ hs fs t hv ht]
  simp [view]

/-- **expect_removed_once**: for EVERY continue branch (plan), every oracle pair, every stream and chunking: a request
that is handed on had its `Expect` header deleted and an interim response written exactly when its continue phase ran —
once each when the branch contains the statement, never otherwise; a request read in one phase is untouched. -/
theorem expect_removed_once {H B : Type} (pl : Plan) (p : Parser H B) (chunks : List Bytes) :
    ∀ m ∈ (runC pl p chunks).out,
      (m.continued = false ∧ m.interims = 0 ∧ m.dels = 0) ∨
      (m.continued = true ∧ m.interims = (if pl.writes then 1 else 0) ∧ m.dels = (if pl.dels then 1 else 0)) :=
  runC_msgOk pl p chunks

/-- the reference parser of the generated shapes (head up to CRLFCRLF; `Expect` with the exact value `100-continue`;
Content-Length, chunked with trailers, no body header) is such an oracle pair -/
theorem http1_continue_reference_stable : PStable refParser := refParser_stable

/-- the executable predicate `specH1X` holds of the model: in every chunking the model hands on what it hands on for the
whole stream, which is what the reference finds in the stream -/
theorem spec_h1cont_holds_on_model (chunks : List Bytes) (full : Msg Bytes Bytes → String) :
    let m := runC contPlan refParser chunks
    let w := runC contPlan refParser [chunks.flatten]
    specH1X chunks.flatten (w.out.map full) (m.out.map full) (m.out.map descr4)
      (if w.failed then "err" else "ok") (if m.failed then "err" else "ok")
      (toString (w.tailInterims contPlan)) (toString (m.tailInterims contPlan)) = true := by
  intro m w
  have hm : m = w := http1_continue_segmentation_independent refParser refParser_stable chunks
  have hw : w = view refParser (run (compose contPlan refParser) [chunks.flatten]) :=
    http1_continue_refines_dispatch refParser refParser_stable [chunks.flatten]
  have hsame := run_sameUpTo core (compose contPlan refParser) (compose goodPlan refParser)
    (compose_sameUpTo contPlan goodPlan refParser) [chunks.flatten]
  have hd : ∀ l1 l2 : List (Msg Bytes Bytes), l1.map core = l2.map core → l1.map descr4 = l2.map descr4 := by
    intro l1 l2 h
    have : ∀ l : List (Msg Bytes Bytes), l.map descr4 = (l.map core).map (fun c => descr4 ⟨c.1, c.2.1, c.2.2, 0, 0⟩) := by
      intro l; simp [core, descr4]
    rw [this l1, this l2, h]
  have hout : w.out = (run (compose contPlan refParser) [chunks.flatten]).out := by
    rw [hw]; unfold view; split <;> rfl
  have hfail : w.failed = (run (compose contPlan refParser) [chunks.flatten]).failed := by
    rw [hw]; unfold view; split <;> simp_all
  simp only [specH1X, hm, beq_self_eq_true, Bool.true_and, Bool.and_eq_true, beq_iff_eq]
  refine ⟨?_, ?_⟩
  · rw [hout]; exact hd _ _ hsame.1
  · rw [hfail, hsame.2.2]

-- non-vacuity and the negation witnesses.  `POST /a` with `Expect: 100-continue`, `Content-Length: 2`, body `hi`,
-- followed by the pipelined `GET /b`
def xHead : Bytes := [80,79,83,84,32,47,97,32,72,84,84,80,47,49,46,49,13,10,69,120,112,101,99,116,58,32,49,48,48,45,99,111,110,116,105,110,117,101,13,10,67,111,110,116,101,110,116,45,76,101,110,103,116,104,58,32,50,13,10,13,10]
def xBody : Bytes := [104, 105]
def xMsg (pl : Plan) : Msg Bytes Bytes := Msg.cont pl xHead xBody
example : refParser.rl xHead = .head xHead xHead.length ∧ refParser.cb xHead xBody = .frame xBody 2 := by decide
example : refParser.rl (xHead ++ xBody ++ h1B) = .head xHead xHead.length := by decide
example : Faithful goodPlan := ⟨rfl, rfl⟩
-- the regenerated loop: body in the read of the head, straddling, later, one byte per read — always the same two requests
example : (runC goodPlan refParser [xHead ++ xBody ++ h1B]).out = [xMsg goodPlan, Msg.plain h1B []] := by decide
example : (runC goodPlan refParser [xHead ++ [104], [105] ++ h1B]).out = [xMsg goodPlan, Msg.plain h1B []] := by decide
example : (runC goodPlan refParser [xHead, xBody, h1B]).out = [xMsg goodPlan, Msg.plain h1B []] := by decide
example : (runC goodPlan refParser [xHead]).pend = some xHead ∧ (runC goodPlan refParser [xHead]).buf = [] ∧
    (runC goodPlan refParser [xHead]).tailInterims goodPlan = 1 := by decide
/-- a continue branch guarded by `conn.br.Buffered() == 0` is NOT segmentation independent: when one read holds head and
body, the request is handed on WITHOUT its body and the body bytes are parsed as the head of the next request (`hiGET /b`);
when the body comes in a later read everything is right. -/
def guardedPlan : Plan := { goodPlan with guarded := true }
example : (runC guardedPlan refParser [xHead ++ xBody ++ h1B]).out = [Msg.plain xHead [], Msg.plain (xBody ++ h1B) []] ∧
    (runC guardedPlan refParser [xHead, xBody ++ h1B]).out = [xMsg guardedPlan, Msg.plain h1B []] := by decide
/-- `conn.br.Reset(conn)` between the phases: a body that came in the read of the head is destroyed — serve() waits inside
`ContinueReadBody` for bytes that were already delivered, and takes the next request for the body -/
def resetPlan : Plan := { goodPlan with resetBetween := true }
example : (runC resetPlan refParser [xHead ++ xBody]).out = [] ∧ (runC resetPlan refParser [xHead ++ xBody]).pend = some xHead ∧
    (runC resetPlan refParser [xHead, xBody]).out = [xMsg resetPlan] := by decide
-- the classification of the regenerated statements sees both
example : opOf "call:Buffered" = .look ∧ opOf "call:Reset" = .destroy := by decide
-- `Expect: 100-Continue` (value in mixed case) is not continued by fasthttp; `expect:` in lower case is
example : expects (xHead.set 26 67) = false ∧ hasExpect (xHead.set 26 67) = true ∧ expects (xHead.set 18 101) = true := by decide

/-- fasthttp v1.40.0 `ReadTrailer` (KNOWN_FINDINGS): the trailer section `X: 1 CRLF CRLF` adds ONE header entry when it
arrives in one read and TWO when a read ends behind the first line — the header handed on depends on the segmentation. -/
def trailerSec : Bytes := [88, 58, 32, 49, 13, 10, 13, 10]
theorem trailer_multiplicity_depends_on_reads :
    trailerAppends trailerSec (attemptsOf 0 8 [8]) = 1 ∧ trailerAppends trailerSec (attemptsOf 0 8 [6, 8]) = 2 ∧
    trailerAppends trailerSec (attemptsOf 0 8 [3, 6, 7, 8]) = 3 := by decide

end Http1Continue

/-! ### bolt v1 frames on a boltv2 connection: a complete frame is handed on no matter what follows (kinds `seg` / `cuts`,
harness/c07/boltmix.go) -/
section BoltHandover
open MosnVerif.Model.FrameBytes MosnVerif.Model.FrameSteps MosnVerif.Lemmas.BoltHandover

/-- **boltv2_decodes_v1_frames_like_bolt**: over the regenerated guard, first-byte test and minimum lengths of both
`Decode` functions: on a boltv2 connection a non-empty buffer whose first byte is the bolt v1 protocol code gets exactly
the answer of the v1 codec — with v1's own minimum length (20), NOT boltv2's (22) — whatever its length. -/
theorem boltv2_decodes_v1_frames_like_bolt (b : Bytes) (hb : 0 < b.length) (h1 : u8 b 0 = 1) :
    frameStep_boltv2 b = frameStep_bolt b := frameStep_v1_on_v2 b hb h1

theorem bolt_decodes_v2_frames_like_boltv2 (b : Bytes) (hb : 0 < b.length) (h2 : u8 b 0 = 2) :
    frameStep_bolt b = frameStep_boltv2 b := frameStep_v2_on_v1 b hb h2

/-- **complete_v1_frame_delivered_whatever_follows**: a frame the v1 codec accepts is handed on by boltv2's `Decode` as
soon as it is complete: with nothing behind it (last data of the connection, or the read ended right behind it) and with
anything behind it. -/
theorem complete_v1_frame_delivered_whatever_follows (f : Bytes) (h1 : u8 f 0 = 1)
    (hf : frameStep_bolt f = .frame f f.length) (e : Bytes) : frameStep_boltv2 (f ++ e) = .frame f f.length := by
  have hpos := (stable_bolt.pos f f f.length hf).1
  have : frameStep_boltv2 f = .frame f f.length := by rw [boltv2_decodes_v1_frames_like_bolt f hpos h1]; exact hf
  exact stable_boltv2.ext f f f.length e this

/-- **mixed_bolt_stream_delivered**: a stream on a boltv2 connection made of v2 frames boltv2 accepts and v1 frames the
v1 codec accepts (of ANY length from 20 bytes on), followed by an incomplete frame, in any segmentation: exactly those
frames, in order, each once; the tail stays in the buffer.  In particular a short v1 frame at the END of the stream is
delivered. -/
theorem mixed_bolt_stream_delivered (fs : List Bytes) (t : Bytes)
    (hv : ∀ f ∈ fs, (u8 f 0 = 1 ∧ frameStep_bolt f = .frame f f.length) ∨ frameStep_boltv2 f = .frame f f.length)
    (ht : TailOk frameStep_boltv2 t) (chunks : List Bytes) (hc : chunks.flatten = fs.flatten ++ t) :
    run frameStep_boltv2 chunks = { buf := t, out := fs, failed := false } := by
  refine valid_stream_delivered frameStep_boltv2 stable_boltv2 fs t (fun f hf => ?_) ht chunks hc
  rcases hv f hf with ⟨h1, h2⟩ | h
  · simpa using complete_v1_frame_delivered_whatever_follows f h1 h2 []
  · exact h

-- a bolt v1 heartbeat acknowledgement: response, no class, no header, no content = 20 bytes
def v1resp20 : Bytes := [1, 0, 0, 0, 1, 0, 0, 0, 7, 1, 0, 0, 0, 0, 0, 0, 0, 0, 0, 0]
-- a boltv2 heartbeat request: 24 bytes
def v2req24 : Bytes := [2, 1, 1, 0, 0, 1, 0, 0, 0, 9, 1, 0, 0, 0, 0, 0, 0, 0, 0, 0, 0, 0, 0, 0]
example : frameStep_bolt v1resp20 = .frame v1resp20 20 ∧ u8 v1resp20 0 = 1 := by decide
example : frameStep_boltv2 v1resp20 = .frame v1resp20 20 ∧ frameStep_boltv2 (v1resp20.take 19) = .needMore := by decide
example : (run frameStep_boltv2 [v2req24 ++ v1resp20]).out = [v2req24, v1resp20] ∧
    (run frameStep_boltv2 [v2req24 ++ v1resp20]).buf = [] := by decide
/-- a hand-over placed BEHIND boltv2's own minimum length (`if data.Len() >= LessLen { if code == bolt.ProtocolCode … }`)
is not prompt: the complete 20-byte v1 frame is answered with "need more data" until two bytes of a LATER frame are
buffered behind it, and is never handed on when it is the last data of the connection. -/
def lateHdr (b : Bytes) : Hdr := if !MosnVerif.Gen.FrameLen.boltv2_enough b.length then .needMore else boltHdr true b
example : envelope lateHdr (boltOk true) v1resp20 = .needMore ∧
    envelope lateHdr (boltOk true) (v1resp20 ++ [2, 1]) = .frame v1resp20 20 := by decide
example : (run (envelope lateHdr (boltOk true)) [v2req24 ++ v1resp20]).out = [v2req24] ∧
    (run (envelope lateHdr (boltOk true)) [v2req24 ++ v1resp20]).buf = v1resp20 := by decide

end BoltHandover
/-! ## [c08p10] the selection theorems over the REGENERATED matchers (Gen/C08Matchers: the Go matcher bodies translated
statement by statement; `Lemmas/CheckedMatchEq.genMatcherOf_eq`: they are the hand model's functions) -/
section c08p10gen
open MosnVerif.Lemmas.CheckedMatchEq

/-- **match_monotone_gen**: every REGENERATED protocol matcher is monotone: an answer `success` or `failed` on a prefix
is final on every extension -/
theorem match_monotone_gen (name : String) (m : Bytes → MR) (h : genMatcherOf name = some m) : Monotone m :=
  match_monotone name m (by rw [← genMatcherOf_eq]; exact h)

/-- **select_failed_is_final_gen**: over the REGENERATED matchers of any scope, a failed selection is final on every
extension, for every stream -/
theorem select_failed_is_final_gen (names : List String) (p e : Bytes) (h : select (genScopeOf names) p = .failed) :
    select (genScopeOf names) (p ++ e) = .failed := by
  rw [genScopeOf_eq] at h ⊢
  exact select_failed_is_final names p e h

/-- … and so is a selected protocol on streams on which at most one matcher of the scope can ever succeed -/
theorem select_deterministic_gen_partial (names : List String) (p e : Bytes) (hx : Exclusive (genScopeOf names) p)
    (n : String) (h : select (genScopeOf names) p = .proto n) : select (genScopeOf names) (p ++ e) = .proto n := by
  rw [genScopeOf_eq] at hx h ⊢
  exact select_deterministic_partial names p e hx n h

-- non-vacuity: the regenerated tars matcher waits on 5 bytes, accepts a complete 6-byte package, refuses version 2
example : (genMatcherOf "tars").map (fun m => (m [0, 0, 0, 6, 0x10], m [0, 0, 0, 6, 0x10, 1], m [0, 0, 0, 6, 0x10, 2])) =
    some (.again, .success, .failed) := by decide
end c08p10gen

end MosnVerif.Props.C07
