import MosnVerif.Lemmas.Redact
import MosnVerif.Lemmas.RawJson
import MosnVerif.Lemmas.RedactGuards
/-!
# C20 — the admin config dump never leaks TLS private keys (property theorems only)

`G` is the type graph **regenerated** from pkg/config/v2 + configmanager.effectiveConfig, `entryChecks` the closed
Boolean that every dump entry point (regenerated tables of `DumpJSON`/`redactedCopy`, `getMOSNConfigRedacted`,
admin `ConfigDump`) goes through a redaction whose visit *covers* every `PrivateKey` string and every hole that is
not on the explicit plain-hole list, never redacts through a shared container, and relies on the emptiness
invariant only where `SetMosnConfig` establishes it.  A new field of a TLS-bearing type, a new untyped hole, a new
section or parameter form that is not covered makes `graph_covered` (hence every theorem below) fail to check.
-/
namespace MosnVerif.Props.C20
open MosnVerif.Model MosnVerif.Model.Redact MosnVerif.Model.GoTypes
open MosnVerif.Gen.ConfigGraph (endpoints sections redactedCopyFields)

/-- the coverage check on the regenerated graph and entry-point tables -/
theorem graph_covered : entryChecks = true := by decide +kernel

private theorem lookupV_table (k : String) : (tbl : List (String × String)) →
    lookupV (tbl.map (fun (x : String × String) => (x.1, (visitOfFn x.2).getD .skip))) k = .skip ∨
    ∃ fn, (k, fn) ∈ tbl ∧ lookupV (tbl.map (fun (x : String × String) => (x.1, (visitOfFn x.2).getD .skip))) k = (visitOfFn fn).getD .skip
  | [] => by simp [lookupV]
  | (f, fn) :: r => by
    simp only [List.map, lookupV]
    by_cases e : (f == k) = true
    · have : f = k := by simpa using e
      subst this
      simp only [BEq.rfl, if_true]
      exact Or.inr ⟨fn, by simp, rfl⟩
    · simp only [e]
      rcases lookupV_table k r with h | ⟨fn', hm, h⟩
      · exact Or.inl h
      · exact Or.inr ⟨fn', List.mem_cons_of_mem _ hm, h⟩

private theorem respects_full (s : State) (hinv : respects redactedMosnConfigV s.mosn = true) :
    respects redactedCopyV s.toVal = true := by
  have hc := graph_covered
  simp only [entryChecks, Bool.and_eq_true] at hc
  have htbl := hc.1.1.2
  have key : ∀ k c, (k = "MosnConfig" → c = s.mosn) →
      respects (lookupV (redactedCopyFields.map (fun (x : String × String) => (x.1, (visitOfFn x.2).getD .skip))) k) c = true := by
    intro k c hk
    rcases lookupV_table k redactedCopyFields with h | ⟨fn, hm, h⟩
    · rw [h]; cases c <;> simp [respects]
    · rw [h]
      have := (List.all_eq_true.mp htbl) (k, fn) hm
      simp only at this
      cases hv : visitOfFn fn with
      | none => simp [hv] at this
      | some vis =>
        simp only [hv, Option.getD_some, Bool.or_eq_true, Bool.and_eq_true] at this ⊢
        rcases this with h1 | ⟨h1, h2⟩
        · exact respects_noEmpty c vis h1
        · have e1 : fn = "redactedMosnConfig" := by simpa using h1
          have e2 : k = "MosnConfig" := by simpa using h2
          subst e1
          have : vis = redactedMosnConfigV := by simpa [visitOfFn] using hv.symm
          subst this
          rw [hk e2]; exact hinv
  have e : redactedCopyV = .fields (redactedCopyFields.map (fun (x : String × String) => (x.1, (visitOfFn x.2).getD .skip))) := rfl
  rw [e]
  have hs : ∀ vf n fs, respects (.fields vf) (.struct n fs) = respectsF vf fs := by intros; simp only [respects]
  simp only [State.toVal, hs, respectsF, Bool.and_eq_true, Bool.and_true]
  refine ⟨key "MosnConfig" _ (fun _ => rfl), key "Listener" _ (fun h => absurd h (by decide)),
    key "Cluster" _ (fun h => absurd h (by decide)), key "Routers" _ (fun h => absurd h (by decide)),
    key "ExtendConfigs" _ (fun h => absurd h (by decide))⟩

/-- **the dump-safety statement, for key strings (`ck`) and holes (`ch`) at once.** -/
theorem dump_clean (ck ch : Bool) (s : State) (hwt : wt G (.named "effectiveConfig") s.toVal = true)
    (hinv : respects redactedMosnConfigV s.mosn = true) (q : Query) (out : Val) (h : dumpOut s q = some out) :
    clean G ck ch fiTop out = true := by
  have hc := graph_covered
  simp only [entryChecks, Bool.and_eq_true] at hc
  obtain ⟨⟨⟨⟨⟨⟨⟨_, hfn⟩, hroot⟩, hcov⟩, _⟩, _⟩, hsec⟩, hep⟩ := hc
  cases q with
  | full =>
    simp only [dumpOut, Option.some.injEq] at h
    subst h
    have : fullDumpV = redactedCopyV := by simp [fullDumpV, hfn]
    rw [this]
    exact cs G ck ch fuel s.toVal redactedCopyV fiTop _ hcov hwt (respects_full s hinv)
  | param p arg =>
    simp only [dumpOut] at h
    cases he : endpoints.find? (fun e => e.1 == p) with
    | none => simp [he] at h
    | some e =>
      obtain ⟨p', typ, single⟩ := e
      simp only [he] at h
      have heok := (List.all_eq_true.mp hep) _ (List.mem_of_find?_eq_some he)
      simp only [endpointOK] at heok
      cases hsi : sectionInput s typ with
      | none => simp [hsi] at h
      | some vv =>
        obtain ⟨v, vis⟩ := vv
        simp only [hsi] at h
        -- unfold the section lookup
        simp only [sectionInput, sectionOf] at hsi
        cases hrow : sections.find? (fun x => x.1 == typ) with
        | none => simp [hrow] at hsi
        | some row =>
          obtain ⟨typ', fn, fld⟩ := row
          simp only [hrow, Bool.and_eq_true] at hsi heok
          cases hv : visitOfFn fn with
          | none => simp [hv] at hsi
          | some vis' =>
            simp only [hv, Option.map_some] at hsi
            cases hg : getF s.toVal.fieldsOf fld with
            | none => simp [hg] at hsi
            | some v' =>
              simp only [hg, Option.map_some, Option.some.injEq, Prod.mk.injEq] at hsi
              obtain ⟨rfl, rfl⟩ := hsi
              obtain ⟨hrowok, hsingle⟩ := heok
              simp only [sectionOK, hv] at hrowok
              -- type of the section
              have hwt' : wtF G "effectiveConfig" s.toVal.fieldsOf = true := by
                simpa [State.toVal, wt, Val.fieldsOf] using hwt
              obtain ⟨T, hT, hwv⟩ := wtF_getF G "effectiveConfig" fld v' _ hwt' hg
              have hroot' : MosnVerif.Gen.ConfigGraph.root = "effectiveConfig" := by simpa using hroot
              rw [hroot', hT] at hrowok
              simp only [Bool.and_eq_true] at hrowok
              obtain ⟨⟨hcv, _⟩, hne⟩ := hrowok
              have hres := respects_section s hinv fn fld vis' v' hv hg hne
              have hcl := cs G ck ch fuel v' vis' fiTop T hcv hwv hres
              cases single with
              | false => simp only [Bool.false_eq_true, if_false, Option.some.injEq] at h; subst h; exact hcl
              | true =>
                simp only [if_true] at h
                cases ha : apply vis' v' with
                | map kvs =>
                  simp only [ha, Option.some.injEq] at h
                  rw [ha] at hcl
                  simp only [clean] at hcl
                  cases hgk : getF kvs arg with
                  | none => simp [hgk] at h; subst h; simp [clean]
                  | some c => simp [hgk] at h; subst h; exact cleanM_getF G ck ch fiTop arg c kvs hcl hgk
                | str _ => simp [ha] at h
                | leaf => simp [ha] at h
                | hole _ => simp [ha] at h
                | struct _ _ => simp [ha] at h
                | list _ => simp [ha] at h

/-- **no_key**: for every value of the regenerated graph that satisfies the invariant of the effective config, and
every dump entry point (full dump, each section, each single-object query, any argument), every string at a
`PrivateKey` position of the dumped value is empty or the placeholder. -/
theorem no_key (s : State) (hwt : wt G (.named "effectiveConfig") s.toVal = true)
    (hinv : respects redactedMosnConfigV s.mosn = true) (q : Query) (out : Val) (h : dumpOut s q = some out) :
    clean G true false fiTop out = true := dump_clean true false s hwt hinv q out h

/-- **holes**: the same for untyped holes — every hole of the dumped value that is not on the explicit plain-hole
list (`Filter.Config`, `ExtendConfig.Config`, and any hole added later) holds no non-empty, non-placeholder string
under a key that folds to `private_key`, at any depth. -/
theorem holes (s : State) (hwt : wt G (.named "effectiveConfig") s.toVal = true)
    (hinv : respects redactedMosnConfigV s.mosn = true) (q : Query) (out : Val) (h : dumpOut s q = some out) :
    clean G false true fiTop out = true := dump_clean false true s hwt hinv q out h

/-- the JSON walk itself (`redactJSONValue`), for every JSON document: the result is clean, clean input is returned
unchanged (so the Go code keeps the original map / bytes), and the walk is idempotent. -/
theorem hole_walk (j : Json) :
    cleanJ false (redJ false j) = true ∧ (cleanJ false j = true → redJ false j = j) ∧ redJ false (redJ false j) = redJ false j :=
  ⟨redJ_clean false j, redJ_of_clean false j, redJ_idem false j⟩

/-- **history**: after any sequence of runtime updates (`SetMosnConfig`, listener / cluster / host / router / extend /
cluster-manager-TLS updates, cluster removal, persisting dumps, reset) whose arguments are values of the Go types the
configmanager API takes, every dump entry point is free of private keys, in typed positions and in holes alike: the
effective config stays a value of the regenerated graph (`run_wt`) and keeps the invariant the redactor relies on
(`respects_run`). -/
theorem no_key_history (ops : List Op) (hops : ∀ op ∈ ops, op.wtArg = true)
    (q : Query) (out : Val) (h : dumpOut (run ops) q = some out) :
    clean G true false fiTop out = true ∧ clean G false true fiTop out = true :=
  ⟨dump_clean true false _ (run_wt ops hops) (respects_run ops) q out h,
   dump_clean false true _ (run_wt ops hops) (respects_run ops) q out h⟩

/-- **frame**: no dump entry point writes a cell shared with the live configuration — for every state, whether or
not it satisfies the invariant, and every query. -/
theorem frame (s : State) (q : Query) : dumpWrites s q = 0 := by
  have hc := graph_covered
  simp only [entryChecks, Bool.and_eq_true] at hc
  obtain ⟨⟨⟨⟨⟨⟨⟨_, hfn⟩, _⟩, _⟩, hnip⟩, _⟩, hsec⟩, hep⟩ := hc
  cases q with
  | full =>
    have : fullDumpV = redactedCopyV := by simp [fullDumpV, hfn]
    simp only [dumpWrites, this]
    exact fr s.toVal redactedCopyV hnip
  | param p arg =>
    simp only [dumpWrites]
    cases he : endpoints.find? (fun e => e.1 == p) with
    | none => rfl
    | some e =>
      obtain ⟨p', typ, single⟩ := e
      have heok := (List.all_eq_true.mp hep) _ (List.mem_of_find?_eq_some he)
      simp only [endpointOK] at heok
      cases hsi : sectionInput s typ with
      | none => simp only [hsi]
      | some vv =>
        obtain ⟨v, vis⟩ := vv
        have hsi0 := hsi
        simp only [sectionInput, sectionOf] at hsi
        cases hrow : sections.find? (fun x => x.1 == typ) with
        | none => simp [hrow] at hsi
        | some row =>
          obtain ⟨typ', fn, fld⟩ := row
          simp only [hrow, Bool.and_eq_true] at hsi heok
          cases hv : visitOfFn fn with
          | none => simp [hv] at hsi
          | some vis' =>
            simp only [hv, Option.map_some] at hsi
            cases hg : getF s.toVal.fieldsOf fld with
            | none => simp [hg] at hsi
            | some v' =>
              simp only [hg, Option.map_some, Option.some.injEq, Prod.mk.injEq] at hsi
              obtain ⟨rfl, rfl⟩ := hsi
              have hrowok := heok.1
              simp only [sectionOK, hv] at hrowok
              cases hT : G.fieldTy MosnVerif.Gen.ConfigGraph.root fld with
              | none => simp [hT] at hrowok
              | some T =>
                simp only [hT, Bool.and_eq_true] at hrowok
                simp only [hsi0]
                exact fr v' vis' hrowok.1.2

/-! ## non-vacuity and sensitivity -/

/-- a TLS context holding `k` -/
private def tlsOf (k : String) : Val := .struct "TLSConfig" [("PrivateKey", .str k), ("CertChain", .str "cert")]
private def filterOf (k : String) : Val :=
  .struct "Filter" [("Type", .str "x"), ("Config", .hole (.obj [("tls_context", .obj [("Private_Key", .str k)])]))]
private def listenerOf (n : String) : Val :=
  .struct "Listener" [("ListenerConfig", .struct "ListenerConfig" [("Name", .str n),
    ("FilterChains", .list [.struct "FilterChain" [("TLSContexts", .list [tlsOf "K1"]),
      ("FilterChainConfig", .struct "FilterChainConfig" [("TLSConfig", .list [tlsOf "K2"]), ("TLSConfigs", .list [tlsOf "K3", tlsOf ""]),
        ("Filters", .list [filterOf "H1"])])]]),
    ("StreamFilters", .list [filterOf "H2"])])]
private def mosnOf : Val :=
  .struct "MOSNConfig" [("ClusterManager", .struct "ClusterManagerConfig" [("ClusterManagerConfigJson",
      .struct "ClusterManagerConfigJson" [("TLSContext", tlsOf "K4"),
        ("ClustersJson", .list [.struct "Cluster" [("Name", .str "c0"), ("TLS", tlsOf "K5")]])])]),
    ("Extends", .list [.struct "ExtendConfig" [("Type", .str "e0"), ("Config", .hole (.obj [("private_key", .str "H0")]))]]),
    ("Servers", .list [.struct "ServerConfig" [("ServerName", .str "s"), ("Listeners", .list [listenerOf "l0"])]])]
private def exOps : List Op :=
  [.setMosn mosnOf, .setListener (listenerOf "l1"),
   .setCluster (.struct "Cluster" [("Name", .str "c1"), ("TLS", tlsOf "K6")]),
   .setExtend "tunnel_agent" (.obj [("tls_context", .obj [("private_key", .str "H3")])]),
   .setCMTLS (tlsOf "K7"), .persist]

/-- the hypotheses of `no_key_history` are satisfiable by a state with keys at every kind of position, the dump is
produced, and it really differs from the live value (keys were replaced) -/
example : exOps.all Op.wtArg = true := by decide +kernel
example : (dumpOut (run exOps) .full).isSome = true ∧ (dumpOut (run exOps) (.param "listener" "l1")).isSome = true ∧
    (dumpOut (run exOps) (.param "nosuch" "")).isNone = true := by decide +kernel
example : clean G true true fiTop (run exOps).toVal = false := by decide +kernel

/-- **before the fix**: `redactedMosnConfig` redacted the servers' listeners through the arrays shared with the live
config — the old visit writes shared cells (here the `FilterChains` and `StreamFilters` headers of the live listener) on a config whose `Servers[0].Listeners` was filled by
`transferConfig`; the fixed one writes none. -/
example : sharedWrites true redactedMosnConfigV_old mosnOf = 2 ∧ sharedWrites true redactedMosnConfigV mosnOf = 0 := by decide +kernel

/-- **sensitivity**: give `ListenerConfig` one more field of the TLS-bearing type (or an unlisted untyped hole) and
the coverage check over the graph fails; so does a `redactedCopy` that forgets the clusters. -/
private def withField (sn : String) (f : Field) : Graph :=
  G.map (fun d => if d.name == sn then { d with fields := d.fields ++ [f] } else d)
example : covers (withField "ListenerConfig" ⟨"AdminTLS", "admin_tls", true, false, .named "TLSConfig"⟩) fuel fiTop
    (.map (.named "Listener")) redactedListenersV = false := by decide +kernel
example : covers (withField "ListenerConfig" ⟨"Extra", "extra", true, false, .hole "map[string]interface{}"⟩) fuel fiTop
    (.map (.named "Listener")) redactedListenersV = false := by decide +kernel
example : covers G fuel fiTop (.named "effectiveConfig")
    (.fields [("MosnConfig", redactedMosnConfigV), ("Listener", redactedListenersV), ("ExtendConfigs", extendsV)]) = false := by
  decide +kernel

/-! ## the raw-bytes level: `redactedRawJSON`

An extend config is a `json.RawMessage`: the bytes of the file, decoded only by its consumer.  The statements
above are about the DECODED document of a hole; the ones below close the gap to the bytes: `rawProg` is the
statement structure of `redactedRawJSON` **regenerated** from redact.go (`Gen.RawRedact.steps`: every early
`return raw` with its condition, then the decode / walk / encode pipeline), `raw_checks` the closed Boolean that it is
the bare pipeline behind `len(raw) == 0`, that it is what `redactedExtends` applies to every `ExtendConfig.Config`,
that the key constant is only ever compared with a decoded key, and that every raw hole of the regenerated graph
is that one or on the plain list.  A guard that looks at the raw bytes (the "fast path" `!bytes.Contains(
bytes.ToLower(raw), "private_key")`) makes `raw_checks`, hence every theorem below, fail to check. -/
section Raw
open MosnVerif.Model.RawJson

/-- the regenerated structure of `redactedRawJSON`, its call sites and the raw holes of the graph -/
theorem raw_checks : rawChecks = true := by decide +kernel

private theorem rawProg_bare : rawProg.bare = true := by
  have h := raw_checks
  simp only [rawChecks, Bool.and_eq_true] at h
  simp only [Prog.bare, Bool.and_eq_true]
  exact ⟨h.1.1.1.1.1.1.1, h.1.1.1.1.1.1.2⟩

/-- **redaction is a function of the decoded document, never of its spelling**: the output is the raw text itself
when the decoded first value holds nothing to redact (or nothing decodes), and otherwise the encoding of
`redactJSONValue` of the decoded value — for every text, every verdict of unrecognised conditions, every encoder. -/
theorem raw_refines_walk (unk : String → Text → Bool) (enc : Json → Option Text) (raw : Text) :
    redactedRaw rawProg unk enc raw = walkOut enc raw (parseFirst raw) :=
  redactedRaw_bare rawProg rawProg_bare unk enc raw

/-- **raw_hole_clean**: for every raw text (every spelling of every key, valid JSON or not): whenever the output of
`redactedRawJSON` is a JSON document at all (otherwise json.Marshal of the dump fails: no body), the document a
consumer decodes from it holds, under every key that decodes and folds to `private_key`, at any depth, nothing but
the empty string or the placeholder. `enc` = json.Marshal on decoded trees, any function with the contract `EncOK`. -/
theorem raw_hole_clean (unk : String → Text → Bool) (enc : Json → Option Text) (henc : EncOK enc) (raw : Text)
    (j' : Json) (h : parseDoc (redactedRaw rawProg unk enc raw) = some j') : cleanJ false j' = true := by
  rw [raw_refines_walk] at h
  exact walkOut_clean enc henc raw j' h

/-- two texts that decode alike are treated alike: both are returned as they are, or both become the same bytes -/
theorem raw_spelling_irrelevant (unk : String → Text → Bool) (enc : Json → Option Text) (r1 r2 : Text)
    (h : parseFirst r1 = parseFirst r2) :
    (redactedRaw rawProg unk enc r1 = r1 ∧ redactedRaw rawProg unk enc r2 = r2) ∨
    redactedRaw rawProg unk enc r1 = redactedRaw rawProg unk enc r2 := by
  rw [raw_refines_walk, raw_refines_walk, ← h]
  cases hf : parseFirst r1 with
  | none => exact Or.inl ⟨rfl, rfl⟩
  | some j =>
    simp only [walkOut]
    by_cases hc : cleanJ false j = true
    · simp [hc]
    · simp only [hc, Bool.false_eq_true, if_false]
      cases he : enc (redJ false j) with
      | none => exact Or.inl ⟨rfl, rfl⟩
      | some t => exact Or.inr rfl

/-- every legal spelling of a key — each character written as itself, as `\uXXXX` with hex digits of either case,
or as a short escape — decodes to the key -/
theorem key_spellings_decode (sps : List Sp) (h : sps.all Sp.ok = true) (rest : Text) :
    decStr (spell sps ++ '"' :: rest) [] = some (sps.map Sp.char, rest) := decStr_spell sps h rest

/-- the document `{"<key>":"<value>"}` in **every** spelling of a key that folds to `private_key` and of a value that
is a real key: the output is the encoding of the document holding the placeholder — never the raw text. -/
theorem spelled_key_redacted (unk : String → Text → Bool) (enc : Json → Option Text) (henc : EncOK enc)
    (ks vs : List Sp) (hk : ks.all Sp.ok = true) (hv : vs.all Sp.ok = true)
    (hpk : isPK (String.ofList (ks.map Sp.char)) = true) (hval : keyOk (String.ofList (vs.map Sp.char)) = false) :
    enc (.obj [(String.ofList (ks.map Sp.char), .str placeholder)]) =
      some (redactedRaw rawProg unk enc (keyDoc ks vs)) := by
  rw [raw_refines_walk, parseFirst_keyDoc ks vs hk hv]
  have hne : String.ofList (vs.map Sp.char) ≠ "" := by
    intro e; simp [keyOk, e] at hval
  have hcl : cleanJ false (.obj [(String.ofList (ks.map Sp.char), .str (String.ofList (vs.map Sp.char)))]) = false := by
    simp [cleanJ, cleanJO, hpk, hval]
  have hred : redJ false (.obj [(String.ofList (ks.map Sp.char), .str (String.ofList (vs.map Sp.char)))]) =
      .obj [(String.ofList (ks.map Sp.char), .str placeholder)] := by
    simp [redJ, redJO, hpk, hne]
  simp only [walkOut, hcl, Bool.false_eq_true, if_false, hred]
  cases he : enc (.obj [(String.ofList (ks.map Sp.char), .str placeholder)]) with
  | none => have := henc.1 (.obj [(String.ofList (ks.map Sp.char), .str placeholder)]); simp [he] at this
  | some t => simp

/-! ### non-vacuity and the witness for a raw-bytes guard -/

private def encR : Json → Option Text := fun j => some (render j)
private def noUnk : String → Text → Bool := fun _ _ => false

/-- an encoder with the contract exists (the constant one); the concrete compact renderer `render` is exercised on the
documents below -/
example : EncOK (fun _ => some "null".toList) := by
  refine ⟨fun _ => rfl, ?_⟩
  intro j t j' he hp
  simp only [Option.some.injEq] at he
  subst he
  have : j' = .null := by
    have : parseDoc "null".toList = some .null := by rfl
    rw [this] at hp; simpa using hp.symm
  subst this
  simp [pkStrings]

/-- the key spelled with an escape for `_`, for `p`, for every character, in mixed case with escapes, with the
KELVIN SIGN for `k`: all decode to a key that folds to `private_key` -/
private def spUnderscore : List Sp :=
  [.plain 'p', .plain 'r', .plain 'i', .plain 'v', .plain 'a', .plain 't', .plain 'e', .uni '_' false false false true,
   .plain 'k', .plain 'e', .plain 'y']
private def spAll : List Sp := "Private_KEY".toList.map (fun c => Sp.uni c true false true false)
private def spKelvin : List Sp := "private_".toList.map Sp.plain ++ [.uni (Char.ofNat 0x212A) false false false true, .plain 'e', .plain 'y']
example : spell spUnderscore = "private\\u005Fkey".toList ∧ spUnderscore.all Sp.ok = true ∧
    isPK (String.ofList (spUnderscore.map Sp.char)) = true := by decide +kernel
example : spAll.all Sp.ok = true ∧ isPK (String.ofList (spAll.map Sp.char)) = true ∧
    spKelvin.all Sp.ok = true ∧ isPK (String.ofList (spKelvin.map Sp.char)) = true := by decide +kernel

private def docEsc : Text := "{\"servers\":[{\"tls_context\":{\"status\":true,\"\\u0070rivate\\u005fkey\":\"KEY\"}}]}".toList
private def docPlain : Text := "{\"servers\":[{\"tls_context\":{\"status\":true,\"Private_Key\":\"KEY\"}}]}".toList

/-- on the regenerated program both spellings are redacted, and the output decodes clean (stated through
`raw_refines_walk`, so that the evaluation does not depend on the regenerated list) -/
example : (parseDoc (redactedRaw rawProg noUnk encR docEsc)).map (cleanJ false) = some true ∧
    (parseDoc (redactedRaw rawProg noUnk encR docPlain)).map (cleanJ false) = some true ∧
    redactedRaw rawProg noUnk encR docEsc ≠ docEsc := by
  simp only [raw_refines_walk]
  decide +kernel

/-- **witness for the byte-test fast path**: with the extra guard `!bytes.Contains(bytes.ToLower(raw), "private_key")`
in front of the decode, the check over the regenerated structure fails, the plain and case-variant spelling is still
redacted, and the escaped spelling comes back as the raw text, whose decoding shows the key. -/
private def fastPathSteps : Steps :=
  ("return-if", ["len0", "raw"]) :: ("return-if", ["not-contains-lower:private_key", "raw"]) :: pipeline
example : (progOf fastPathSteps).bare = false ∧ (progOf fastPathSteps).piped = true := by decide +kernel
example : (parseDoc (redactedRaw (progOf fastPathSteps) noUnk encR docPlain)).map (cleanJ false) = some true ∧
    redactedRaw (progOf fastPathSteps) noUnk encR docEsc = docEsc ∧
    (parseDoc (redactedRaw (progOf fastPathSteps) noUnk encR docEsc)).map (cleanJ false) = some false := by decide +kernel

/-! ### copy on write inside a decoded hole

`frame` treats the replacement of a hole as one step; the walker below it works on a tree of maps and slices that a
filter's `Config` SHARES with the live configuration.  `walkCfg` is read off the regenerated list of the walker's
stores: a store whose container is not allocated by the same call (`x[i] = ne` instead of `cp[i] = ne`) sets a flag. -/

/-- every store of `redactJSONValue` goes to a container the call allocated with `make` -/
theorem walk_checks : walkChecks = true := by decide +kernel

/-- **the walk writes no cell of the tree it is given** — for every document: redacted elements of arrays and members
of objects are stored into copies, so the live filter config (and what is persisted from it) keeps its keys. -/
theorem hole_walk_frame (j : Json) : wWrites walkCfg j = 0 := by
  have h := walk_checks
  simp only [walkChecks, beq_iff_eq] at h
  rw [h]; exact wWrites_cow j

/-- witness: a walker whose array clause stores the redacted element back into the slice it was given writes the
live tree exactly where a key sits below an array (and only there) -/
private def docArr : Json := .obj [("servers", .arr [.obj [("tls_context", .obj [("private_key", .str "KEY")])], .str "x"])]
private def docNoArr : Json := .obj [("tls_context", .obj [("private_key", .str "KEY")])]
example : walkCfgOf [("[]interface{}", "x", "x[i] = ne"), ("map[string]interface{}", "cp", "cp[k] = ne")]
    ["cp = make(map[string]interface{}, len(x))"] = ⟨false, true, false⟩ := by decide +kernel
example : wWrites ⟨false, true, false⟩ docArr = 1 ∧ wWrites ⟨false, true, false⟩ docNoArr = 0 ∧
    cleanJ false docArr = false := by decide +kernel

end Raw

/-! ## totality of the walker: no attribute of an element exempts it from redaction

The visit terms of `Model.Redact` redact every element **unconditionally**.  `Gen.RedactGuards.redactGuards` is the
regenerated list of every control construct (if / continue / early return / loop subject / switch) of every
redaction function of pkg/configmanager; `guardChecks` decides that each one is of a kind under which *skipping is
the same as redacting* (empty container or nil pointer, unchanged JSON walk, empty key, loop over the whole
container), that the subject of every emptiness test is a container of the regenerated type graph and the redact
calls inside the guarded block are applied to that container, that the JSON walker has exactly the constructs the
model `redJ` is written after, and that the list of redact calls is the one the visit terms are written after.
A test of an ATTRIBUTE of the element in front of a redact call (`l.Network == "udp"`, `!tls.Status`,
`c.ClusterType == …`, `c.ClusterManagerTLS`, a name …) is of no such kind: `guard_checks` stops checking. -/
section Guards
open MosnVerif.Model.RedactGuards

/-- every control construct of the regenerated redaction functions is benign; calls and walker structure as modelled -/
theorem guard_checks : guardChecks = true := by decide +kernel

/-- **redaction_total**: (1) every guard of every typed redaction function of redact.go (regenerated) is of a
benign kind; (2) a guard of a benign kind is transparent for the redaction it stands in front of — for every value
the guarded code returns what the unconditional redaction of the model returns, and a skipped value is already
what its redaction would be; hence whatever is dump-safe after the unconditional redaction is dump-safe after the
guarded one; (3) composed with `no_key` / `holes`: after every history of updates every dump entry point is free
of private keys, whatever the attributes (network, type, status flags, names …) of the elements: the model
redacts each element kind of the regenerated type graph unconditionally (`graph_covered`). -/
theorem redaction_total :
    (∀ r ∈ typedGuards, (classify r).benign = true) ∧
    (∀ r ∈ typedGuards, ∀ vis, benignFor (classify r) vis = true → ∀ v,
        applyG (classify r) vis v = apply vis v ∧
        ((classify r).skips v = true → apply vis v = v) ∧
        (∀ g ck ch fi, clean g ck ch fi (apply vis v) = true → clean g ck ch fi (applyG (classify r) vis v) = true)) ∧
    (∀ (ops : List Op), (∀ op ∈ ops, op.wtArg = true) → ∀ q out, dumpOut (run ops) q = some out →
        clean G true false fiTop out = true ∧ clean G false true fiTop out = true) := by
  refine ⟨?_, ?_, fun ops hops q out h => no_key_history ops hops q out h⟩
  · have h := guard_checks
    simp only [guardChecks, Bool.and_eq_true] at h
    exact fun r hr => (List.all_eq_true.mp h.1.1.2) r hr
  · intro r _ vis hb v
    refine ⟨guard_transparent _ vis hb v, skip_is_identity _ vis hb v, ?_⟩
    intro g ck ch fi hc
    rw [guard_transparent _ vis hb v]; exact hc

/-! ### non-vacuity and the negation witness for a network-guarded skip -/

private def listenerNet (net : String) : Val :=
  .struct "Listener" [("ListenerConfig", .struct "ListenerConfig" [("Name", .str "l0"), ("Network", .str net),
    ("FilterChains", .list [.struct "FilterChain" [("TLSContexts", .list [tlsOf "K1"]),
      ("FilterChainConfig", .struct "FilterChainConfig" [("TLSConfig", .list [tlsOf "K2"]), ("Filters", .list [filterOf "H1"])])]]),
    ("StreamFilters", .list [filterOf "H2"])])]

/-- `if l.Network == "udp" { dst[k] = l; continue }` in front of `redactListener(&l)` -/
private def netGuard : GKind := .attr ["ListenerConfig", "Network"] "udp"

/-- the benign kinds really skip something, and what they skip is returned unchanged by the redaction -/
example : GKind.emptySkip.skips (.list []) = true ∧ GKind.unchangedSkip.skips (.hole (.obj [("private_key", .str "")])) = true ∧
    GKind.keyEmptySkip.skips (tlsOf "") = true ∧ GKind.keyEmptySkip.skips (tlsOf "K") = false ∧
    GKind.unchangedSkip.skips (.hole (.obj [("Private_Key", .str "K")])) = false := by decide +kernel

/-- **witness**: the network guard is of no benign kind; on a tcp listener the guarded code redacts like the model;
on a udp listener — a well-typed value of the graph with keys at every position of a tcp one — the model's output is
clean and the guarded output is not (every key is still there). -/
example : netGuard.benign = false ∧ wt G (.named "Listener") (listenerNet "udp") = true ∧
    clean G true true fiTop (listenerNet "tcp") = false ∧
    clean G true true fiTop (applyG netGuard redactListenerV (listenerNet "tcp")) = true ∧
    clean G true true fiTop (apply redactListenerV (listenerNet "udp")) = true ∧
    clean G true false fiTop (applyG netGuard redactListenerV (listenerNet "udp")) = false ∧
    clean G false true fiTop (applyG netGuard redactListenerV (listenerNet "udp")) = false := by decide +kernel

/-- the rows the extractor prints for attribute guards (network, TLS status, cluster type, cluster-manager TLS flag,
a type switch with a default, a loop over a sub-slice) are all classified `unknown`: `guard_checks` fails on them -/
example : [("redactedListeners", "if-continue", "cond:l.Network == \"udp\"", ""),
           ("redactedListeners", "if-then", "cond:l.Network != \"udp\"", "l"),
           ("redactTLSConfig", "if-return", "cond:!tls.Status", ""),
           ("redactedClusters", "if-continue", "cond:c.ClusterType == v2.ORIGINAL_DST_CLUSTER", ""),
           ("redactedClusters", "if-then", "cond:!c.ClusterManagerTLS", "c.TLS"),
           ("redactListener", "if-then", "nonempty:fc.TLSContexts", "fc.TLSConfig"),
           ("redactListener", "range", "l.FilterChains[1:]", "i"),
           ("redactListener", "switch", "l.Type", "v2.INGRESS|default"),
           ("redactedFilters", "branch", "continue", "")].all (fun r => classify r == .unknown) = true := by decide +kernel

end Guards

end MosnVerif.Props.C20
