import MosnVerif.Props.C11
open MosnVerif.Props.C11
#print axioms transfer_roundtrip
#print axioms transfer_write_roundtrip
#print axioms transfer_id_roundtrip
#print axioms transfer_prefix_fails
#print axioms handover_buffer_intact
#print axioms adopted_connection_survives
#print axioms transfer_type_distinguishes
#print axioms listener_no_accept_after_shutdown
#print axioms shutdown_closes_unless_upgrading
#print axioms shutdown_always_drains
#print axioms drain_loop_exit
#print axioms no_accept_after_stop
#print axioms drain_waits
#print axioms inflight_completes
#print axioms goaway_broadcast
#print axioms goaway_facts
#print axioms incomplete_request_unprotected
#print axioms stage_order_monotone
#print axioms run_then_stop_ascending
#print axioms stage_selects_listener_mode
