import MosnVerif.Props.C04
open MosnVerif.Props.C04
#print axioms vhost_refines
#print axioms vhost_refines_gen
#print axioms vhost_sort_irrelevant
#print axioms vhost_case_insensitive
#print axioms vhost_in_range
#print axioms rule_refines
#print axioms route_first_match
#print axioms route_none_iff
#print axioms all_routes
#print axioms answer_refines
#print axioms gen_lookup_is_cascade
#print axioms gen_entry_loops
#print axioms variables_and_is_conjunction
#print axioms isort_is_sorter
