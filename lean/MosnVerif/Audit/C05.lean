import MosnVerif.Props.C05
open MosnVerif.Props.C05
#print axioms member
#print axioms healthy_result
#print axioms complete
#print axioms none_only_if
#print axioms spec_holds_on_model
#print axioms history
