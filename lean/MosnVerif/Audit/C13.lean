import MosnVerif.Props.C13
open MosnVerif.Props.C13
#print axioms select_precedence
#print axioms first_means_first
#print axioms select_error_iff
#print axioms matched_server_name
#print axioms matched_alpn
#print axioms select_statement_partial
#print axioms client_auth_table
#print axioms require_and_verify_iff
#print axioms server_trust_table
#print axioms mutual_tls
#print axioms client_verify
#print axioms upstream_verified
#print axioms inspector
#print axioms no_plaintext_without_inspector
#print axioms spec_holds_on_model
#print axioms passthrough_partial
