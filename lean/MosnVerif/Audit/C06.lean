import MosnVerif.Props.C06
open MosnVerif.Props.C06
#print axioms count_exact
#print axioms zero_never
#print axioms order_independent
#print axioms select_total
#print axioms spec_holds_on_model
