import MosnVerif.Props.C06
open MosnVerif.Props.C06
#print axioms count_exact
#print axioms zero_never
#print axioms order_independent
#print axioms select_total
#print axioms spec_holds_on_model
#print axioms edf_invariant_step
#print axioms edf_invariant_reachable
#print axioms edf_pick_minimal
#print axioms wrr_weight_range
#print axioms edf_window_bound
#print axioms edf_spec_holds_on_model
#print axioms heap_peek_min
#print axioms heap_fix_root
#print axioms heap_push
#print axioms heap_scheduler_refines
#print axioms wrr_lookup_window_bound
