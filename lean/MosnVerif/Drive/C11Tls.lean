import MosnVerif.Drive.Util
import MosnVerif.Model.TlsHandover
/-! driver of the C11 kinds `tg` (serialise / restore of a TLS connection's record-layer state in place) and `tx` (the
real hand-over of a TLS connection through both halves).  Core Lean only. -/
namespace MosnVerif.Drive.C11T
open MosnVerif.Drive MosnVerif.Model.TlsHandover

def verdict (agree spec : Bool) (out : String) : String :=
  s!"{if agree then "A" else "D"} {if spec then "S" else "V"} {out}"

def kv (toks : List String) (k : String) : Option String :=
  toks.findSome? (fun t => match t.splitOn "=" with
    | [a, b] => if a == k then some b else none
    | _ => none)
def kvNat (toks : List String) (k : String) : Option Nat := (kv toks k).bind String.toNat?
def kvHex (toks : List String) (k : String) : Option (List UInt8) := (kv toks k).bind unhex

/-- the state found at the stop point (case tokens `in= raw= inseq= outseq=`); the keys are opaque (unit) -/
def parseState (c : List String) : Option (RecState Unit) :=
  match kvHex c "in", kvHex c "raw", kvNat c "inseq", kvNat c "outseq" with
  | some i, some r, some a, some b => some { keys := (), inSeq := a, outSeq := b, rawInput := r, input := i, haveVers := true }
  | _, _, _, _ => none

/-- `tg ver= suite= m= ksel= data= in= raw= inseq= outseq= => gob= in= raw= inseq= outseq= dec= wr=`.
Reference (literal, no regenerated code): the state was serialised, the restored connection holds exactly the same
buffered bytes and sequence numbers, decrypts the rest of the client's stream and answers with a record the client
accepts. -/
def tg (c impl : List String) : String :=
  match parseState c with
  | none => "E E bad-case"
  | some st =>
    let out := match tlsHandover st with
      | none => "gob=bad"
      | some st' =>
        let same := decide (st' = st)
        s!"gob=ok in={hex st'.input} raw={hex st'.rawInput} inseq={st'.inSeq} outseq={st'.outSeq} dec={if same then "ok" else "fail"} wr={if st'.outSeq == st.outSeq then "ok" else "fail"}"
    let spec := kv impl "gob" == some "ok" && kv impl "in" == kv c "in" && kv impl "raw" == kv c "raw" &&
      kv impl "inseq" == kv c "inseq" && kv impl "outseq" == kv c "outseq" &&
      kv impl "dec" == some "ok" && kv impl "wr" == some "ok"
    verdict (joinWith " " impl == out) spec out

/-- `tx <same case tokens> => id= req=`.  Reference (literal): the new process adopted the connection and the request
begun before the hand-over was answered. -/
def tx (c impl : List String) : String :=
  match parseState c with
  | none => "E E bad-case"
  | some st =>
    let out := match tlsHandover st with
      | none => "id=0 req=fail"
      | some st' => s!"id=1 req={if decide (st' = st) then "ok" else "fail"}"
    verdict (joinWith " " impl == out) (kv impl "id" == some "1" && kv impl "req" == some "ok") out

end MosnVerif.Drive.C11T
