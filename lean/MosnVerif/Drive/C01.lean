import MosnVerif.Drive.Util
import MosnVerif.Model.BoltV2
import MosnVerif.Model.BoltRef
import MosnVerif.Model.Dubbo
import MosnVerif.Model.DubboThrift
import MosnVerif.Model.Tars
import MosnVerif.Model.EnvelopeRef
import MosnVerif.Model.HttpUri
import MosnVerif.Model.Relay
import MosnVerif.Model.Http1Msg
import MosnVerif.Model.RelayStart
import MosnVerif.Model.Http1Method
import MosnVerif.Model.Http1Framing
import MosnVerif.Model.Reencode
import MosnVerif.Model.ReencodeSpec
import MosnVerif.Drive.C01H2x
/-!
Driver of C01 (forwarding fidelity).  Case lines:

  `bolt|boltv2 <newId> <ops> <inputHex> => <dec> <enc> <outHex>`

`ops`: `-` or `;`-separated `S:<keyHex>:<valHex>` (header Set), `D:<keyHex>` (header Del), `B:<hex>` (SetData with a
new buffer), `C:<hex>` (Class field assigned directly).  `dec`: `frame:<consumed>` | `more` | `err` | `panic`;
`enc`: `ok` | `err` | `panic` | `-` (no frame to encode).
-/
namespace MosnVerif.Drive.C01
open MosnVerif.Drive MosnVerif.Model MosnVerif.Model.Bytes MosnVerif.Model.Bolt

def parseOp (s : String) : Option Op :=
  match s.splitOn ":" with
  | ["S", k, v] => do some (.set (← unhex k) (← unhex v))
  | ["D", k] => do some (.del (← unhex k))
  | ["B", d] => do some (.body (← unhex d))
  | ["C", c] => do some (.cls (← unhex c))
  | _ => none

def parseOps (s : String) : Option (List Op) :=
  if s == "-" then some [] else (s.splitOn ";").mapM parseOp

/-- what the model does with one case: (dec, enc, out) -/
def modelBolt (codec : Codec) (id : Nat) (ops : List Op) (inp : Bytes) : String × String × Bytes :=
  match decode codec inp with
  | .needMore => ("more", "-", [])
  | .error => ("err", "-", [])
  | .panic => ("panic", "-", [])
  | .frame f n =>
    match encode (setId (modify ops f) id) with
    | some out => (s!"frame:{n}", "ok", out)
    | none => (s!"frame:{n}", "err", [])

def parseDec (s : String) : Option (Bool × Nat) :=
  if s.startsWith "frame:" then (s.drop 6).toNat?.map (fun n => (true, n))
  else if s == "more" || s == "err" || s == "panic" then some (false, 0) else none

def boltCase (v2 : Bool) (idS opsS inS : String) (impl : List String) : String :=
  match idS.toNat?, parseOps opsS, unhex inS, impl with
  | some id, some ops, some inp, [dec, enc, outS] =>
    match parseDec dec, unhex outS with
    | some (accepted, n), some out =>
      let (mdec, menc, mout) := modelBolt (if v2 then .boltv2 else .bolt) id ops inp
      -- an out-of-range read of the header-block decoder is refused either as a recovered panic or, once the block is
      -- validated first, as a decode error: both are "refused" for C01
      let decAgree := mdec == dec || (mdec == "panic" && dec == "err")
      let agree := decAgree && menc == enc && mout == out
      let implOut : Option Bytes := if enc == "ok" then some out else none
      -- an encoder that panics is a violation whenever the reference expects anything
      let spec := enc != "panic" && Ref.holds v2 inp (modify ops) id accepted n implOut
      s!"{if agree then "A" else "D"} {if spec then "S" else "V"} {mdec} {menc} {if agree then s!"len={mout.length}" else hex mout}"
    | _, _ => "E E bad-impl"
  | _, _, _, _ => "E E bad-case"

/-! ### the envelope codecs

  `dubbo  <newId> <ops> <svcOK 0|1> <inputHex>`
  `thrift <newId> <ops> <msgOK 0|1> <inputHex>`
  `tars   <req|resp> <newId> <ops> <valid 0|1> <fields> <inputHex>`

`fields` of a tars packet: `iVersion;cPacketType;iMessageType;iRequestId;iTimeout|iRet;servant|resultDesc;func;sBuffer;context;status`
(byte strings in hex, maps as `k:v,k:v` in the order the sender wrote them). -/

/-- header-map operations do not reach the wire format of these codecs; `mods` records what the reference has to judge.
A `Del` only counts when the key exists; the metadata keys are not known to the model, so the harness only deletes keys it
has seen (`D` = present). -/
def modsOf (ops : List Op) : EnvelopeRef.Mods :=
  ops.foldl (fun m o => match o with
    | .set _ _ => { m with hdrOps := true }
    | .del _ => { m with hdrOps := true }
    | .body d => { m with body := some d }
    | .cls _ => m) {}

def bodyOf (ops : List Op) : Option Bytes := (modsOf ops).body

def implOutcome (impl : List String) : Option (String × String × Bytes × Bool × Nat) :=
  match impl with
  | [dec, enc, outS] =>
    match parseDec dec, unhex outS with
    | some (accepted, n), some out => some (dec, enc, out, accepted, n)
    | _, _ => none
  | _ => none

def verdict (agree spec : Bool) (mdec menc : String) (mout : Bytes) : String :=
  s!"{if agree then "A" else "D"} {if spec then "S" else "V"} {mdec} {menc} {if agree then s!"len={mout.length}" else hex mout}"

def dubboCase (idS opsS okS inS : String) (impl : List String) : String :=
  match idS.toNat?, parseOps opsS, unhex inS, implOutcome impl with
  | some id, some ops, some inp, some (dec, enc, out, accepted, n) =>
    let svcOK := okS == "1"
    let (mdec, menc, mout) : String × String × Bytes :=
      match Dubbo.decode (fun _ => svcOK) inp with
      | .needMore => ("more", "-", [])
      | .error => ("err", "-", [])
      | .panic => ("panic", "-", [])
      | .frame f k =>
        let f := match bodyOf ops with | some d => Dubbo.setData f d | none => f
        (s!"frame:{k}", "ok", Dubbo.encode (Dubbo.setId f id))
    let agree := mdec == dec && menc == enc && mout == out
    let implOut : Option Bytes := if enc == "ok" then some out else none
    let spec := enc != "panic" && EnvelopeRef.Dubbo.holds inp svcOK (modsOf ops) id accepted n implOut
    verdict agree spec mdec menc mout
  | _, _, _, _ => "E E bad-case"

def thriftCase (idS opsS okS inS : String) (impl : List String) : String :=
  match idS.toNat?, parseOps opsS, unhex inS, implOutcome impl with
  | some id, some ops, some inp, some (dec, enc, out, accepted, n) =>
    let msgOK := okS == "1"
    let (mdec, menc, mout) : String × String × Bytes :=
      match DubboThrift.decode (fun _ => msgOK) inp with
      | .needMore => ("more", "-", [])
      | .error => ("err", "-", [])
      | .panic => ("panic", "-", [])
      | .frame f k =>
        let f := ops.foldl (fun f o => match o with
          | .body d => DubboThrift.setData f d
          | .set k v => if k == "service".toUTF8.toList then DubboThrift.setSvc f v else f
          | .del k => if k == "service".toUTF8.toList then DubboThrift.setSvc f [] else f
          | .cls _ => f) f
        match DubboThrift.encode (DubboThrift.setId f id) with
        | .ok o => (s!"frame:{k}", "ok", o)
        | .panic => (s!"frame:{k}", "panic", [])
    -- a frame cut inside its last 4 bytes: `Decode` compares with messageLen instead of messageLen+4 and the decoder's
    -- out-of-range slice becomes an error; with the length test repaired it is `more`. C01 makes no demand on incomplete frames.
    let incomplete := inp.length ≥ 4 && inp.length < 4 + getBE inp 0 4
    let decAgree := mdec == dec || (incomplete && mdec == "err" && dec == "more")
    let agree := decAgree && menc == enc && mout == out
    let implOut : Option Bytes := if enc == "ok" then some out else none
    let spec := (enc != "panic" || (EnvelopeRef.Thrift.parse inp).isNone) &&
      EnvelopeRef.Thrift.holds inp msgOK (modsOf ops) id accepted n implOut
    verdict agree spec mdec menc mout
  | _, _, _, _ => "E E bad-case"

def parseMap (s : String) : Option (List (Bytes × Bytes)) :=
  if s == "-" then some [] else
  (s.splitOn ",").mapM (fun kv => match kv.splitOn ":" with
    | [k, v] => do some ((← unhex k), (← unhex v))
    | _ => none)

def tarsCase (kind idS opsS validS fieldsS inS : String) (impl : List String) : String :=
  match idS.toNat?, parseOps opsS, unhex inS, implOutcome impl, fieldsS.splitOn ";" with
  | some id, some ops, some inp, some (dec, enc, out, accepted, n), [iv, pt, mt, rid, x, s1, s2, sb, cx, st] =>
    match parseInt? iv, parseInt? pt, parseInt? mt, parseInt? rid, parseInt? x, unhex s1, unhex s2, unhex sb, parseMap cx, parseMap st with
    | some iv, some pt, some mt, some rid, some x, some s1, some s2, some sb, some cx, some st =>
      let isReq := kind.startsWith "req"
      let valid := validS == "1"
      -- every order Go may iterate the two maps in
      let outs : List Bytes :=
        (perms cx).flatMap (fun c => (perms st).map (fun t =>
          if isReq then
            Tars.encodeReq { iVersion := iv, cPacketType := pt, iMessageType := mt, iRequestId := rid, sServantName := s1,
                             sFuncName := s2, sBuffer := sb, iTimeout := x, context := c, status := t } id
          else
            Tars.encodeResp { iVersion := iv, cPacketType := pt, iRequestId := rid, iMessageType := mt, iRet := x,
                              sBuffer := sb, status := t, sResultDesc := s1, context := c } id))
      let (mdec, menc) : String × String :=
        match Tars.frameLen? inp with
        | none => if Tars.packageError inp then ("err", "-") else ("more", "-")   -- [c08l9]
        | some k => if valid then (s!"frame:{k}", "ok") else ("err", "-")
      let agree := mdec == dec && menc == enc && (menc != "ok" || outs.contains out)
      let implOut : Option Bytes := if enc == "ok" then some out else none
      let spec := enc != "panic" && EnvelopeRef.Tars.holds inp isReq valid (modsOf ops) id accepted n implOut
      verdict agree spec mdec menc (outs.headD [])
    | _, _, _, _, _, _, _, _, _, _ => "E E bad-fields"
  | _, _, _, _, _ => "E E bad-case"

/-! ### HTTP/1 request-URI pass-through

  `uri <target> <rewrite|-> <pathVar> <pathOriginal> <query> <unescaped|E> <fasthttpPath(pathOriginal)> <RequestURI(final path)> => <out>`
(all byte strings in hex; `rewrite` = the value a route rewrite stored in the path variable, `00` = the empty string). -/

/-- bytes → String, one char per byte (injective, keeps ASCII) -/
def latin1 (b : Bytes) : String := String.ofList (b.map (fun x => Char.ofNat x.toNat))

def uriCase (tS rwS pvS poS qsS unS fhS ruS : String) (impl : List String) : String :=
  match unhex tS, unhex pvS, unhex poS, unhex qsS, unhex fhS, unhex ruS, impl with
  | some t, some pv, some po, some qs, some fh, some ru, [outS] =>
    match unhex outS, (if unS == "E" then some none else (unhex unS).map some),
          (if rwS == "-" then some none else if rwS == "00" then some (some []) else (unhex rwS).map some) with
    | some out, some un, some rw =>
      let O : HttpUri.Oracles :=
        { unescape := fun _ => un.map latin1, fhPath := fun _ => latin1 fh, requestURI := fun _ => latin1 ru }
      let v0 := HttpUri.inject O (latin1 po) (latin1 qs)
      let v := match rw with | some p => HttpUri.rewrite v0 (latin1 p) | none => v0
      let mout := HttpUri.buildUrl O v
      -- the injected path variable must be the normalisation of the original path (one normaliser on both sides)
      let agree := v0.path == latin1 pv && mout == latin1 out
      -- reference: split the received target at its first '?'
      let tl := t.map (fun x => Char.ofNat x.toNat)
      let p := tl.takeWhile (· != '?')
      let rest := tl.dropWhile (· != '?')
      let spec := rw.isSome || latin1 out == HttpUri.expected (String.ofList p) (!rest.isEmpty) (String.ofList (rest.drop 1))
      s!"{if agree then "A" else "D"} {if spec then "S" else "V"} {hex (mout.toList.map (fun ch => UInt8.ofNat ch.toNat))}"
    | _, _, _ => "E E bad-uri-case"
  | _, _, _, _, _, _, _ => "E E bad-uri-case"

/-! ### TCP relay

  `relay <scenario A|B|C|D> <client chunk sizes> <server chunk sizes> <client extra chunk sizes> => <c2s> <s2c>`
A/F: client writes and closes at once (F: bulk, the upstream reads late). E: the upstream pushes bulk and closes at
once, the client reads late. B: request, then response and the server closes at once. C: the server pushes and
closes at once. D: request, response, more client data, client closes at once.  Verdicts: `ok` | `short:n` | `corrupt@i` | `extra:n`. -/

def parseSizes (s : String) : Option (List Nat) :=
  if s == "-" then some [] else (s.splitOn ",").mapM (·.toNat?)

/-- the schedule of a scenario: every chunk is read by MOSN, then the write loop of the other side drains -/
def relaySchedule (scen : String) (cs ss ex : List Nat) : List Relay.Ev :=
  let rd (d : Relay.Side) (l : List Nat) : List Relay.Ev := l.map (fun n => .read d (List.replicate n 0))
  let wr (d : Relay.Side) (k : Nat) : List Relay.Ev := List.replicate (k + 1) (.write d)
  match scen with
  | "A" | "F" => rd .down cs ++ [.peerClosed .down] ++ wr .up cs.length
  | "E" => rd .up ss ++ [.peerClosed .up] ++ wr .down ss.length
  | "B" => rd .down cs ++ wr .up cs.length ++ rd .up ss ++ [.peerClosed .up] ++ wr .down ss.length
  | "C" => rd .up ss ++ [.peerClosed .up] ++ wr .down ss.length
  | _ => rd .down cs ++ wr .up cs.length ++ rd .up ss ++ wr .down ss.length ++ rd .down ex ++ [.peerClosed .down] ++
         wr .up ex.length

def relayCase (scen csS ssS exS : String) (impl : List String) : String :=
  match parseSizes csS, parseSizes ssS, parseSizes exS, impl with
  | some cs, some ss, some ex, [c2s, s2c] =>
    -- only lengths matter to the comparison: large chunks are scaled down (monotone, applied to every chunk alike)
    let sc (l : List Nat) := l.map (fun n => if n > 256 then 256 + n / 65536 else n)
    let (cs, ss, ex) := (sc cs, sc ss, sc ex)
    let s := Relay.run {} (relaySchedule scen cs ss ex)
    let tot (l : List Nat) := l.foldl (· + ·) 0
    let v (got want : Nat) : String := if got == want then "ok" else s!"short:{got}"
    let m1 := v s.up.sent.length (tot cs + tot ex)
    let m2 := v s.down.sent.length (tot ss)
    let agree := m1 == c2s && m2 == s2c
    let spec := c2s == "ok" && s2c == "ok"
    s!"{if agree then "A" else "D"} {if spec then "S" else "V"} {m1} {m2}"
  | _, _, _, _ => "E E bad-relay-case"

/-! ### frames built locally: `boltlocal <bolt|boltv2> <trigger|reply|hijack> <id> <status> => ok <hex> | err -` -/
def boltLocalCase (codec what idS stS : String) (impl : List String) : String :=
  match idS.toNat?, stS.toNat?, impl with
  | some id, some st, [enc, outS] =>
    let v2 := codec == "boltv2"
    let f := if what == "trigger" then trigger v2 id else if what == "reply" then reply v2 id else setId (hijack v2 st) id
    match encode f, unhex outS with
    | some mout, some out =>
      let agree := enc == "ok" && mout == out
      -- reference: the output parses back (with either codec) to the frame's fixed fields, no class / header / body
      let spec := enc == "ok" &&
        (match Ref.parse v2 out with
         | some (g, n) => n == out.length && Ref.sameContent g f && Ref.lengthsConsistent g
         | none => false)
      s!"{if agree then "A" else "D"} {if spec then "S" else "V"} ok {hex mout}"
    | _, _ => "D V model-refuses"
  | _, _, _ => "E E bad-local-case"

/-! ### HTTP/1 through the real proxy core

  `http1 req <METHOD> <targetHex> <hdrs> <bodyHex> => <METHOD> <targetHex> <hdrs> <bodyHex> | lost`
  `http1 resp <requestMethod> <status> <hdrs> <bodyHex> => <status> <hdrs> <bodyHex> | lost` -/

def hdrList (s : String) : List String := if s == "-" then [] else s.splitOn ","

/-- the trailing `?` of an empty query is dropped (see `HttpUri`): hex `3f` at the end, no other `?` -/
def dropBareQuestionMark (tHex : String) : String :=
  match unhex tHex with
  | some b =>
    let cs := b.map (fun x => Char.ofNat x.toNat)
    if cs.getLast? == some '?' && (cs.dropLast.all (· != '?')) then hex (b.dropLast) else tHex
  | none => tHex

def http1Case (toks impl : List String) : String :=
  let fmt (agree spec : Bool) (m : String) := s!"{if agree then "A" else "D"} {if spec then "S" else "V"} {m}"
  match toks, impl with
  | ["req", method, target, hdrs, body], [gm, gt, gh, gb] =>
    let sent : Http1Msg.Msg := { start := method ++ " " ++ target, headers := hdrList hdrs, body := body }
    let got : Http1Msg.Msg := { start := gm ++ " " ++ gt, headers := hdrList gh, body := gb }
    let kept : Http1Msg.Msg := { sent with headers := Http1Msg.dropEmptySpecial true sent.headers }
    let model : Http1Msg.Msg :=
      { sent with start := method ++ " " ++ dropBareQuestionMark target,
                  headers := sortStrings (kept.headers ++ Http1Msg.reqAdds method kept) }
    fmt (model == got) (Http1Msg.same sent got) (joinWith "," model.headers)
  | ["resp", _, status, hdrs, body], [gs, gh, gb] =>
    let sent : Http1Msg.Msg := { start := status, headers := hdrList hdrs, body := body }
    let got : Http1Msg.Msg := { start := gs, headers := hdrList gh, body := gb }
    let kept : Http1Msg.Msg := { sent with headers := Http1Msg.dropEmptySpecial false sent.headers }
    let model : Http1Msg.Msg := { sent with headers := sortStrings (kept.headers ++ Http1Msg.respAdds kept) }
    fmt (model == got) (Http1Msg.same sent got) (joinWith "," model.headers)
  | _, ["lost"] => "D V lost"
  | _, _ => "E E bad-http1-case"

/-! ### HTTP/2 through the real proxy core: same case shape as HTTP/1; no rewriting rule is needed -/
def http2Case (toks impl : List String) : String :=
  let fmt (ok : Bool) := s!"{if ok then "A" else "D"} {if ok then "S" else "V"} same"
  match toks, impl with
  | ["req", method, target, hdrs, body], [gm, gt, gh, gb] =>
    fmt (Http1Msg.same { start := method ++ " " ++ target, headers := hdrList hdrs, body := body }
                       { start := gm ++ " " ++ gt, headers := hdrList gh, body := gb })
  | ["resp", _, status, hdrs, body], [gs, gh, gb] =>
    fmt (Http1Msg.same { start := status, headers := hdrList hdrs, body := body } { start := gs, headers := hdrList gh, body := gb })
  | _, ["lost"] => "D V lost"
  | _, _ => "E E bad-http2-case"

/-! ### the same frame encoded again

  `reenc <proto> <q|r> <id:k,id:k,…> <inputHex> => <ok|err|panic> <enc1,enc2,…>`

one `id:k` per try: the request id set before Encode, and the number of buffers other traffic takes from the pool after
the write.  The model is the reference-count / pool model with the return policy regenerated for this codec; its
`patch` (what the codec's Encode makes of the unmodified frame under an id — the subject of the other kinds) is
instantiated with the first encoding the implementation produced for that id. -/
def reencCase (proto kind roundsS inS : String) (impl : List String) : String :=
  let parseRound (t : String) : Option (Nat × Nat) :=
    match t.splitOn ":" with
    | [a, b] => do some ((← a.toNat?), (← b.toNat?))
    | _ => none
  match (roundsS.splitOn ",").mapM parseRound, unhex inS, impl with
  | some rs, some raw, [st, encsS] =>
    match (if encsS == "-" then some [] else (encsS.splitOn ",").mapM unhex) with
    | some encs =>
      let ids := rs.map (·.1)
      let table := ids.zip encs
      let patch : Nat → Bytes → Bytes := fun id _ => ((table.find? (·.1 == id)).map (·.2)).getD []
      let rounds : List Reencode.Round := rs.map (fun r =>
        { id := r.1, choice := some 0, traffic := List.replicate r.2 (.get (some 0) (List.replicate raw.length 0xEE)) })
      let model := Reencode.run (Reencode.fastByName proto (kind == "q")) MosnVerif.Gen.C01Retain.writeRecycles patch raw [] rounds
      let agree := st == "ok" && model == encs
      let spec := st == "ok" && Reencode.specReenc (proto != "tars") raw ids encs
      let show_ := if agree then s!"n={model.length}" else joinWith "," (model.map hex)
      s!"{if agree then "A" else "D"} {if spec then "S" else "V"} {show_}"
    | none => "E E bad-impl"
  | _, _, _ => "E E bad-case"

/-! ### TCP relay, the upstream speaks first

  `relayup <close|hold|wait> <greeting chunk sizes> <client chunk sizes> <response chunk sizes> => <c2s> <s2c>`

The model runs the regenerated set-up calls of `initializeUpstreamConnection` with the widened interleaving of the
harness: the greeting is in the socket when the read loop starts and one loop iteration runs before the calls that follow
`Connect`.  hold / wait: the client only speaks once it has the whole greeting — `short:n` if it had `n` bytes then. -/
def relayUpCase (mode gsS csS ssS : String) (impl : List String) : String :=
  match parseSizes gsS, parseSizes csS, parseSizes ssS, impl with
  | some gs, some cs, some ss, [c2s, s2c] =>
    let sc (l : List Nat) := l.map (fun n => if n > 256 then 256 + n / 65536 else n)
    let (gs, cs, ss) := (sc gs, sc cs, sc ss)
    let tot (l : List Nat) := l.foldl (· + ·) 0
    let calls := MosnVerif.Gen.C01RelayOrder.upstreamCalls
    let k := (calls.takeWhile (· != RelayStart.upStart)).length + 1
    let sends (l : List Nat) : List RelayStart.Ev := (l.filter (· > 0)).map (fun n => .peerSend (List.replicate n 0))
    let stG := RelayStart.run RelayStart.upReg RelayStart.upStart RelayStart.upstreamInit
      (List.replicate k .setup ++ sends gs ++ [.loop] ++ List.replicate (calls.length - k) .setup ++ [.loop])
    let atTurn := (RelayStart.flat stG.delivered).length
    let rest : List RelayStart.Ev :=
      if mode == "close" then [.peerClose, .loop] else if mode == "wait" then sends ss ++ [.loop, .peerClose, .loop] else []
    let st := RelayStart.run RelayStart.upReg RelayStart.upStart stG rest
    let rd (d : Relay.Side) (l : List Nat) : List Relay.Ev := l.map (fun n => .read d (List.replicate n 0))
    let wr (d : Relay.Side) (n : Nat) : List Relay.Ev := List.replicate (n + 1) (.write d)
    let r := Relay.run {} (rd .down cs ++ wr .up cs.length ++ RelayStart.toRelay .up st ++
      (if st.eof then [.peerClosed .up] else []) ++ wr .down st.delivered.length)
    let v (got want : Nat) : String := if got == want then "ok" else s!"short:{got}"
    let m1 := v r.up.sent.length (tot cs)
    let m2 := if mode != "close" && atTurn != tot gs then s!"short:{atTurn}" else v r.down.sent.length (tot gs + tot ss)
    let agree := m1 == c2s && m2 == s2c
    let spec := c2s == "ok" && s2c == "ok"
    s!"{if agree then "A" else "D"} {if spec then "S" else "V"} {m1} {m2}"
  | _, _, _, _ => "E E bad-relayup-case"

/-! ### HTTP/1 framing (`Model/Http1Framing.lean`)

  `http1m q <METHOD> <none|cl0|cl|chunked|chunked0> <hopset> <bodyHex>
       => <METHOD> <te0|te1> <cl-|clN> <hop headers seen> <ok|bad> <bodyHex> <i0|i1> <rSTATUS|rnone> | incomplete <METHOD> <te> <cl> | lost`
  `http1m r <METHOD> <STATUS> <cl0|cl|chunked|chunked0|close|none|hcl|hchunked> <bodyHex>
       => <STATUS> <te-|techunked|teidentity> <cl-|clN> <conn-|connclose> <ok|bad> <bodyHex> <complete|incomplete> | lost`
  Framing depends on the body's length only: the model is run on a body of zeros of that length. -/
def hexLen (h : String) : Nat := if h == "-" then 0 else h.length / 2
def clTok : Option Nat → String
  | none => "cl-"
  | some n => s!"cl{n}"

def http1FramingReq (method shape hop body : String) (impl : List String) : String :=
  let n := hexLen body
  let b : List UInt8 := List.replicate n 0
  let ignoreBody := method == "GET" || method == "HEAD"
  let (g, w) := Http1Framing.forwardReq ignoreBody (n == 0) (Http1Framing.parsedReq shape n) b
  let teTok := if g.te then "te1" else "te0"
  let model : List String :=
    if Http1Framing.recv g w == some b then
      [method, teTok, clTok g.cl, Http1Framing.forwardedHops hop, "ok", body, (if hop == "expect" then "i1" else "i0"), "r200"]
    else ["incomplete", method, teTok, clTok g.cl]
  let spec := match impl with
    | [gm, te, cl, _, e2e, gb, _, r] =>
      gm == method && te == "te0" && ((cl == "cl-" && n == 0) || cl == s!"cl{n}") && e2e == "ok" && gb == body && r == "r200"
    | _ => false
  s!"{if impl == model then "A" else "D"} {if spec then "S" else "V"} {" ".intercalate model}"

def http1FramingResp (method status framing body : String) (impl : List String) : String :=
  let n := hexLen body
  let b : List UInt8 := List.replicate n 0
  let head := method == "HEAD"
  let st := status.toNat?.getD 0
  let model : List String :=
    match Http1Framing.forwardResp head st (Http1Framing.parsedResp st framing n) b with
    | none => ["lost"]
    | some (g, w) =>
      [status, (match g.te with | .none => "te-" | .chunked => "techunked" | .identity => "teidentity"), clTok g.cl,
       (if g.close then "connclose" else "conn-"), "ok", (if w.isEmpty then "-" else body),
       (if (Http1Framing.recvResp head st g w).isSome then "complete" else "incomplete")]
  let spec := match impl with
    | [gs, _, cl, _, e2e, gb, comp] =>
      gs == status && comp == "complete" && e2e == "ok" && gb == (if head || status == "204" || status == "304" then "-" else body) &&
        (framing != "hcl" || cl == "cl1234")
    | _ => false
  s!"{if impl == model then "A" else "D"} {if spec then "S" else "V"} {" ".intercalate model}"

/-! ### HTTP/1 method

  `http1m p <METHOD> <none|cl0|cl|chunked|chunked0> <bodyHex> => <METHOD> <bodyHex> | lost`   through the proxy
  `http1m d - <end|data> <bodyHex> => <METHOD> <bodyHex> | lost`                              converted request, no method variable -/
def http1MethodCase (toks impl : List String) : String :=
  let fmt (agree spec : Bool) (m : String) := s!"{if agree then "A" else "D"} {if spec then "S" else "V"} {m}"
  match toks, impl with
  | ["p", method, _, body], [gm, gb] =>
    let model := Http1Method.forwarded method (body != "-")
    fmt (gm == model && gb == body) (gm == method && gb == body) model
  | ["d", _, what, body], [gm, gb] =>
    let model := Http1Method.converted (what == "data")
    fmt (gm == model && gb == body) (gm == Http1Method.defaultRule (what == "data") && gb == body && (what == "data") == (body != "-")) model
  | ["q", method, shape, hop, body], _ => http1FramingReq method shape hop body impl
  | ["r", method, status, framing, body], _ => http1FramingResp method status framing body impl
  | _, ["lost"] => "D V lost"
  | _, _ => "E E bad-http1m-case"

def run1 (caseToks impl : List String) : String :=
  match caseToks with
  | ["reenc", proto, kind, rounds, inp] => reencCase proto kind rounds inp impl
  | ["bolt", id, ops, inp] => boltCase false id ops inp impl
  | ["boltv2", id, ops, inp] => boltCase true id ops inp impl
  | ["boltlocal", codec, what, id, st] => boltLocalCase codec what id st impl
  | ["dubbo", id, ops, ok, inp] => dubboCase id ops ok inp impl
  | ["thrift", id, ops, ok, inp] => thriftCase id ops ok inp impl
  | ["tars", kind, id, ops, valid, fields, inp] => tarsCase kind id ops valid fields inp impl
  | ["uri", t, rw, pv, po, qs, un, fh, ru] => uriCase t rw pv po qs un fh ru impl
  | ["relay", scen, cs, ss, ex] => relayCase scen cs ss ex impl
  | "http1" :: r => http1Case r impl
  | "http1m" :: r => http1MethodCase r impl
  | ["relayup", mode, gs, cs, ss] => relayUpCase mode gs cs ss impl
  | "http2" :: r => http2Case r impl
  | "h2t" :: r => C01H2x.run "h2t" r impl
  | "x12" :: r => C01H2x.run "x12" r impl
  | "x21" :: r => C01H2x.run "x21" r impl
  | _ => "E E unknown-kind"

/-! ### the same modified frame object encoded several times

  `reencm <id1,id2,...> <head> <ops> [<extra> ...] <inputHex> => <dec> <enc1>:<hex1>,<enc2>:<hex2>,...`

`<head> <ops> <extra> <inputHex>` are the tokens of a single-encode case (`bolt`, `boltv2`, `dubbo`, `thrift`,
`tars req|resp`).  By `encode_idempotent_on_frame` the model's k-th output is what a first encode with the k-th id gives,
so every try is evaluated as that single-encode case (model bytes and reference predicate) with the try's id. -/
def reencmCase (idsS : String) (mk : String → List String) (impl : List String) : String :=
  match impl with
  | [dec, encsS] =>
    let ids := idsS.splitOn ","
    let encs := if encsS == "-" then [] else encsS.splitOn ","
    if !dec.startsWith "frame:" then "E E reencm-without-frame"
    else if encs.length != ids.length then s!"D V tries={ids.length} outputs={encs.length}"
    else
      let rs := (ids.zip encs).map (fun p =>
        match p.2.splitOn ":" with
        | [st, hx] => run1 (mk p.1) [dec, st, hx]
        | _ => "E E bad-try")
      let bad := rs.zipIdx.filter (fun p => (p.1.splitOn " ").take 2 != ["A", "S"])
      match bad with
      | [] => s!"A S tries={ids.length}"
      | (r, k) :: _ =>
        let as := rs.map (fun r => (r.splitOn " ").headD "E")
        let vs := rs.map (fun r => ((r.splitOn " ").drop 1).headD "E")
        let a := if as.contains "E" then "E" else if as.all (· == "A") then "A" else "D"
        let v := if vs.contains "E" then "E" else if vs.all (· == "S") then "S" else "V"
        s!"{a} {v} try={k + 1}:{" ".intercalate ((r.splitOn " ").drop 2)}"
  | _ => "E E bad-impl"

def run (caseToks impl : List String) : String :=
  match caseToks with
  | "reencm" :: ids :: "tars" :: k :: rest => reencmCase ids (fun id => "tars" :: k :: id :: rest) impl
  | "reencm" :: ids :: h :: rest => reencmCase ids (fun id => h :: id :: rest) impl
  | _ => run1 caseToks impl

end MosnVerif.Drive.C01
