import MosnVerif.Drive.Util
import MosnVerif.Model.BoltV2
import MosnVerif.Model.BoltRef
/-!
Driver of C01 (forwarding fidelity).  Case lines:

  `bolt|boltv2 <newId> <ops> <inputHex> => <dec> <enc> <outHex>`

`ops`: `-` or `;`-separated `S:<keyHex>:<valHex>` (header Set), `D:<keyHex>` (header Del), `B:<hex>` (SetData with a
new buffer), `C:<hex>` (Class field assigned directly).  `dec`: `frame:<consumed>` | `more` | `err` | `panic`;
`enc`: `ok` | `err` | `panic` | `-` (no frame to encode).
-/
namespace MosnVerif.Drive.C01
open MosnVerif.Drive MosnVerif.Model MosnVerif.Model.Bytes MosnVerif.Model.Bolt

def parseOp (s : String) : Option Op :=
  match s.splitOn ":" with
  | ["S", k, v] => do some (.set (← unhex k) (← unhex v))
  | ["D", k] => do some (.del (← unhex k))
  | ["B", d] => do some (.body (← unhex d))
  | ["C", c] => do some (.cls (← unhex c))
  | _ => none

def parseOps (s : String) : Option (List Op) :=
  if s == "-" then some [] else (s.splitOn ";").mapM parseOp

/-- what the model does with one case: (dec, enc, out) -/
def modelBolt (codec : Codec) (id : Nat) (ops : List Op) (inp : Bytes) : String × String × Bytes :=
  match decode codec inp with
  | .needMore => ("more", "-", [])
  | .error => ("err", "-", [])
  | .panic => ("panic", "-", [])
  | .frame f n =>
    match encode (setId (modify ops f) id) with
    | some out => (s!"frame:{n}", "ok", out)
    | none => (s!"frame:{n}", "err", [])

def parseDec (s : String) : Option (Bool × Nat) :=
  if s.startsWith "frame:" then (s.drop 6).toNat?.map (fun n => (true, n))
  else if s == "more" || s == "err" || s == "panic" then some (false, 0) else none

def boltCase (v2 : Bool) (idS opsS inS : String) (impl : List String) : String :=
  match idS.toNat?, parseOps opsS, unhex inS, impl with
  | some id, some ops, some inp, [dec, enc, outS] =>
    match parseDec dec, unhex outS with
    | some (accepted, n), some out =>
      let (mdec, menc, mout) := modelBolt (if v2 then .boltv2 else .bolt) id ops inp
      -- an out-of-range read of the header-block decoder is refused either as a recovered panic or, once the block is
      -- validated first, as a decode error: both are "refused" for C01
      let decAgree := mdec == dec || (mdec == "panic" && dec == "err")
      let agree := decAgree && menc == enc && mout == out
      let implOut : Option Bytes := if enc == "ok" then some out else none
      -- an encoder that panics is a violation whenever the reference expects anything
      let spec := enc != "panic" && Ref.holds v2 inp (modify ops) id accepted n implOut
      s!"{if agree then "A" else "D"} {if spec then "S" else "V"} {mdec} {menc} {if agree then s!"len={mout.length}" else hex mout}"
    | _, _ => "E E bad-impl"
  | _, _, _, _ => "E E bad-case"

def run (caseToks impl : List String) : String :=
  match caseToks with
  | ["bolt", id, ops, inp] => boltCase false id ops inp impl
  | ["boltv2", id, ops, inp] => boltCase true id ops inp impl
  | _ => "E E unknown-kind"

end MosnVerif.Drive.C01
