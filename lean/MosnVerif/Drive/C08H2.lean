import MosnVerif.Drive.Util
import MosnVerif.Model.H2ReadLoop
/-! helper driver of C08, kind `h2disp` (the HTTP/2 Dispatch loops). Core Lean only; no `main`. -/
namespace MosnVerif.Drive.C08H2
open MosnVerif.Drive MosnVerif.Model.H2ReadLoop

/-- `<hex | z<N>>.<…>`: hex segments and runs of N zero bytes -/
def parseBytes (s : String) : Option Bytes :=
  if s == "-" then some []
  else (s.splitOn ".").foldlM (fun (acc : Bytes) seg =>
    if seg.startsWith "z" then (seg.drop 1).toNat?.map (fun n => acc ++ List.replicate n (0 : UInt8))
    else (unhex seg).map (acc ++ ·)) []

def parseStep (s : String) : Option DStep :=
  let n := (s.drop 1).toNat?
  if s.startsWith "a" then n.map DStep.again
  else if s.startsWith "c" then n.map DStep.conn
  else if s.startsWith "s" then n.map DStep.stream
  else if s.startsWith "f" then n.map DStep.frame
  else none

def stepTok : RF → String
  | .again => "a0"
  | .conn => "c0"
  | .oob => "p"
  | .stream k => s!"s{k}"
  | .frame k => s!"f{k}"

def verdicts : List PRes := [.ok, .conn, .stream]

/-- what a top-level ReadFrame may answer on `b`: the checked-access model under every behaviour of the black boxes
(payload parsers, header-block validation) -/
def allowed (b : Bytes) : List String :=
  dedup (verdicts.flatMap (fun p => verdicts.map (fun g =>
    stepTok (readFrame MosnVerif.Gen.FrameConsts.http2_defaultMaxReadFrameSize ⟨fun _ => p, fun _ => g⟩ b))))

/-- walk the buffer along the recorded Decode calls: every step must be an answer of the model on the bytes still
buffered; yields the script -/
def walk : Bytes → List String → Option (List DStep)
  | _, [] => some []
  | b, t :: r =>
    if (allowed b).contains t then
      match parseStep t with
      | some st => (walk (b.drop st.drained) r).map (st :: ·)
      | none => none
    else none

/-- `h2disp <srv|cli> <bytes> => <ret|runaway|hang|panic> <steps> <left>`.  Model: the regenerated loop of that side run
over the recorded answers (each checked against the checked-access ReadFrame model) makes as many Decode calls and leaves
as many bytes.  Predicate (independent of regenerated code): Dispatch returned; at most |bytes|/9 + 1 Decode calls; the
last call answered ErrAGAIN or a connection error, every earlier one a frame or a stream error that drained ≥ 9 bytes;
what is left is what was not drained. -/
def h2disp (side bytes : String) (impl : List String) : String :=
  match parseBytes bytes, impl with
  | some b, [outcome, trace, left] =>
    let steps := if trace == "-" then [] else trace.splitOn ","
    let goesOn (t : String) : Bool := (t.startsWith "f" || t.startsWith "s") && ((t.drop 1).toNat?.getD 0) ≥ 9
    let ends (t : String) : Bool := (t.startsWith "a" || t.startsWith "c") && (t.drop 1).toNat?.isSome
    let drained := (steps.map (fun t => (t.drop 1).toNat?.getD 0)).foldl (· + ·) 0
    let spec := outcome == "ret" && !steps.isEmpty && decide (steps.length ≤ b.length / 9 + 1) &&
      steps.dropLast.all goesOn && (steps.getLast?.map ends).getD false &&
      (match left.toNat? with | some l => decide (l + drained = b.length) | none => false)
    let p := if side == "srv" then srvPolicy else cliPolicy
    match walk b steps with
    | none =>
      let first := (allowed b)
      s!"D {if spec then "S" else "V"} step-not-of-the-framer-model first={joinWith "|" first}"
    | some script =>
      match run p (scripted script) (b.length / 9 + 2) ⟨b, 0⟩ with
      | none => s!"D {if spec then "S" else "V"} model-loop-out-of-fuel"
      | some c' =>
        let agree := outcome == "ret" && c'.calls == steps.length && some c'.buf.length == left.toNat?
        s!"{if agree then "A" else "D"} {if spec then "S" else "V"} ret calls={c'.calls} left={c'.buf.length}"
  | _, _ => "E E bad-case"

end MosnVerif.Drive.C08H2
