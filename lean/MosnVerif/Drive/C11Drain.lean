import MosnVerif.Drive.Util
import MosnVerif.Model.H1Drain
import MosnVerif.Model.H2GoAwaySend
/-! driver of the C11 round-7 kinds: `h1d` (drain mark of an HTTP/1 server connection), `h2gw`
(HTTP/2 responses in flight at the graceful GOAWAY).  Core Lean only. -/
namespace MosnVerif.Drive.C11D
open MosnVerif.Drive MosnVerif

def verdict (agree spec : Bool) (out : String) : String :=
  s!"{if agree then "A" else "D"} {if spec then "S" else "V"} {out}"

/-! ### kind h1d -/

/-- a harness event: the model events it stands for (`A` = half a request: nothing is parsed yet; `B` = its rest) -/
inductive H1Tok
  | mark | full (rc : Bool) | half (rc : Bool) | rest | resp | respMarked

def parseH1Tok (t : String) : Option H1Tok :=
  if t == "M" then some .mark else if t == "B" then some .rest else if t == "R" then some .resp
  else if t == "W" then some .respMarked else
  match t.front, ((t.drop 1).toString.splitOn ".") with
  | 'P', [cc, _] => some (.full (cc == "1"))
  | 'A', [cc, _, _] => some (.half (cc == "1"))
  | _, _ => none

def h1OutTok : Model.H1Drain.Out → String
  | .resp cl => if cl then "r1" else "r0"
  | .closed => "x"

def h1OutsTok (l : List Model.H1Drain.Out) : String := if l.isEmpty then "-" else joinWith "+" (l.map h1OutTok)

/-- model run: per harness event the outputs of the model events it stands for; `pend` = the `Connection: close` of the
half-received request -/
def h1Model : Model.H1Drain.Conn → Option Bool → List H1Tok → List String
  | _, _, [] => []
  | c, pend, t :: r =>
    let evs : List Model.H1Drain.Ev := match t with
      | .mark => [.mark]
      | .full rc => [.parse rc]
      | .half _ => []
      | .rest => match pend with | some rc => [.parse rc] | none => []
      | .resp => [.respond]
      | .respMarked => [.respond, .mark]
    let pend' := match t with | .half rc => if c.closed then none else some rc | .rest => none | _ => pend
    let (c', o) := Model.H1Drain.run c evs
    h1OutsTok o :: h1Model c' pend' r

/-- reference (literal, no regenerated code): the client's view.  Every outstanding request is answered when the
upstream's answer is ready; a response written after the connection was marked — or to a request that asked for it —
carries `Connection: close` and the connection is closed after it; any other response keeps the connection alive;
nothing else is ever written. -/
structure H1Ref where
  marked : Bool := false
  outstanding : Option Bool := none
  half : Option Bool := none
  closed : Bool := false
  ok : Bool := true

def h1RefStep (r : H1Ref) (to : H1Tok × String) : H1Ref :=
  let (t, o) := to
  if r.closed then { r with ok := r.ok && o == "-" } else
  match t with
  | .mark => { r with marked := true, ok := r.ok && o == "-" }
  | .full rc => { r with outstanding := some rc, ok := r.ok && o == "-" }
  | .half rc => { r with half := some rc, ok := r.ok && o == "-" }
  | .rest => { r with outstanding := r.half, half := none, ok := r.ok && o == "-" }
  | .resp | .respMarked =>
    let after := match t with | .respMarked => true | _ => r.marked
    match r.outstanding with
    | none => { r with ok := r.ok && o == "-" }
    | some rc =>
      if r.marked || rc then { r with outstanding := none, closed := true, ok := r.ok && o == "r1+x" }
      else { r with outstanding := none, marked := after, ok := r.ok && o == "r0" }

def h1d (evTok : String) (impl : List String) : String :=
  match (evTok.splitOn ",").mapM parseH1Tok, impl with
  | some toks, [obsTok] =>
    let obs := obsTok.splitOn ","
    if obs.length != toks.length then "E E events-observations-mismatch" else
    let model := joinWith "," (h1Model Model.H1Drain.Conn.initial none toks)
    let ref := (toks.zip obs).foldl h1RefStep {}
    verdict (model == obsTok) ref.ok model
  | _, _ => "E E bad-case"

/-! ### kind h2gw -/
section h2gw
open MosnVerif.Model

def parseGwEv (t : String) : Option H2GoAwaySend.Ev :=
  if t == "G" then some .shutdown else if t == "Q" then some .peerGoAway else if t == "P" then some .ping else
  let body := (t.drop 1).toString
  match t.front with
  | 'O' => body.toNat?.map H2GoAwaySend.Ev.open
  | 'C' => body.toNat?.map (fun n => .flow (.wuConn n))
  | 'I' => body.toNat?.map (fun n => .flow (.setInit n))
  | 'Y' => body.toNat?.map (fun _ => .priority)
  | 'S' => match body.splitOn "." with
    | [k, n] => match k.toNat?, n.toNat? with
      | some k, some n => some (.flow (.wuStream k n))
      | _, _ => none
    | _ => none
  | _ => none

/-- what the wire shows for one event: the model state before the event, after the event, after the senders ran -/
def gwObs (a b : H2GoAwaySend.St) (f : Flow.St) : String :=
  let perStream := (List.range f.count).flatMap (fun i =>
    let d := Flow.sentOn i f.trace - Flow.sentOn i a.flow.trace
    let wasOpen := decide (a.flow.count ≤ i) || decide (0 < (a.flow.strm i).rem)
    (if d > 0 then [s!"d{i}:{d}"] else []) ++ (if wasOpen && (f.strm i).rem == 0 then [s!"e{i}"] else []))
  let misc :=
    (if b.goAways > a.goAways then [s!"g{2 * a.flow.count - 1}"] else []) ++
    (if b.pingAcks > a.pingAcks then ["pa"] else []) ++
    (if b.settingsAcks > a.settingsAcks then ["sa"] else []) ++
    (if f.closed && !a.flow.closed then ["x"] else [])
  let all := perStream ++ misc
  if all.isEmpty then "-" else joinWith "+" all

def gwModel : H2GoAwaySend.St → List H2GoAwaySend.Ev → List String
  | _, [] => []
  | s, e :: r =>
    let b := H2GoAwaySend.step s e
    let f := H2GoAwaySend.pumpAll b.flow 40
    gwObs s b f :: gwModel { b with flow := f } r

/-- reference (literal; RFC 7540 §6.9 bookkeeping of the client, no code of MOSN): after every event the client has
received every byte its stream window and connection window allow, END_STREAM once a body is complete; PING and SETTINGS
are acknowledged; the first go-away names the highest stream begun so far; a request begun after it is not answered. -/
structure GwRef where
  cn : Int := 65535
  init : Int := 65535
  strms : List (Int × Nat) := []      -- (window, bytes still to come) per stream index
  gone : Bool := false
  ok : Bool := true

def gwDeliver (cn : Int) : Nat → List (Int × Nat) → (List (Int × Nat) × List String × Int)
  | _, [] => ([], [], cn)
  | i, (w, rem) :: r =>
    let d : Int := min (min w cn) (rem : Int)
    if rem > 0 && d > 0 then
      let (r', o, cn') := gwDeliver (cn - d) (i + 1) r
      ((w - d, rem - d.toNat) :: r', (s!"d{i}:{d}" :: (if rem - d.toNat == 0 then [s!"e{i}"] else [])) ++ o, cn')
    else
      let (r', o, cn') := gwDeliver cn (i + 1) r
      ((w, rem) :: r', o, cn')

def gwRefStep (r : GwRef) (eo : H2GoAwaySend.Ev × String) : GwRef :=
  let (e, o) := eo
  let (r1, misc) : GwRef × List String := match e with
    | .shutdown | .peerGoAway =>
      if r.gone then (r, []) else ({ r with gone := true }, [s!"g{2 * r.strms.length - 1}"])
    | .open len => if r.gone then (r, []) else ({ r with strms := r.strms ++ [(r.init, len)] }, [])
    | .flow (.wuStream k n) =>
      ({ r with strms := (r.strms.zipIdx).map (fun p => if p.2 == k && p.1.2 > 0 then (p.1.1 + n, p.1.2) else p.1) }, [])
    | .flow (.wuConn n) => ({ r with cn := r.cn + n }, [])
    | .flow (.setInit v) =>
      ({ r with strms := r.strms.map (fun p => if p.2 > 0 then (p.1 + ((v : Int) - r.init), p.2) else p), init := v }, ["sa"])
    | .ping => (r, ["pa"])
    | _ => (r, [])
  let (strms', ds, cn') := gwDeliver r1.cn 0 r1.strms
  let all := ds ++ misc
  let want := if all.isEmpty then "-" else joinWith "+" all
  { r1 with strms := strms', cn := cn', ok := r1.ok && o == want }

def h2gw (evTok : String) (impl : List String) : String :=
  match (evTok.splitOn ",").mapM parseGwEv, impl with
  | some evs, [obsTok] =>
    let obs := obsTok.splitOn ","
    if obs.length != evs.length then "E E events-observations-mismatch" else
    let model := joinWith "," (gwModel H2GoAwaySend.St.initial evs)
    let ref := (evs.zip obs).foldl gwRefStep {}
    verdict (model == obsTok) ref.ok model
  | _, _ => "E E bad-case"
end h2gw

end MosnVerif.Drive.C11D
