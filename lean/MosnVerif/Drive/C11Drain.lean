import MosnVerif.Drive.Util
import MosnVerif.Model.H1Drain
/-! driver of the C11 round-7 kinds: `h1d` (drain mark of an HTTP/1 server connection).  Core Lean only. -/
namespace MosnVerif.Drive.C11D
open MosnVerif.Drive MosnVerif

def verdict (agree spec : Bool) (out : String) : String :=
  s!"{if agree then "A" else "D"} {if spec then "S" else "V"} {out}"

/-! ### kind h1d -/

/-- a harness event: the model events it stands for (`A` = half a request: nothing is parsed yet; `B` = its rest) -/
inductive H1Tok
  | mark | full (rc : Bool) | half (rc : Bool) | rest | resp | respMarked

def parseH1Tok (t : String) : Option H1Tok :=
  if t == "M" then some .mark else if t == "B" then some .rest else if t == "R" then some .resp
  else if t == "W" then some .respMarked else
  match t.front, ((t.drop 1).toString.splitOn ".") with
  | 'P', [cc, _] => some (.full (cc == "1"))
  | 'A', [cc, _, _] => some (.half (cc == "1"))
  | _, _ => none

def h1OutTok : Model.H1Drain.Out → String
  | .resp cl => if cl then "r1" else "r0"
  | .closed => "x"

def h1OutsTok (l : List Model.H1Drain.Out) : String := if l.isEmpty then "-" else joinWith "+" (l.map h1OutTok)

/-- model run: per harness event the outputs of the model events it stands for; `pend` = the `Connection: close` of the
half-received request -/
def h1Model : Model.H1Drain.Conn → Option Bool → List H1Tok → List String
  | _, _, [] => []
  | c, pend, t :: r =>
    let evs : List Model.H1Drain.Ev := match t with
      | .mark => [.mark]
      | .full rc => [.parse rc]
      | .half _ => []
      | .rest => match pend with | some rc => [.parse rc] | none => []
      | .resp => [.respond]
      | .respMarked => [.respond, .mark]
    let pend' := match t with | .half rc => if c.closed then none else some rc | .rest => none | _ => pend
    let (c', o) := Model.H1Drain.run c evs
    h1OutsTok o :: h1Model c' pend' r

/-- reference (literal, no regenerated code): the client's view.  Every outstanding request is answered when the
upstream's answer is ready; a response written after the connection was marked — or to a request that asked for it —
carries `Connection: close` and the connection is closed after it; any other response keeps the connection alive;
nothing else is ever written. -/
structure H1Ref where
  marked : Bool := false
  outstanding : Option Bool := none
  half : Option Bool := none
  closed : Bool := false
  ok : Bool := true

def h1RefStep (r : H1Ref) (to : H1Tok × String) : H1Ref :=
  let (t, o) := to
  if r.closed then { r with ok := r.ok && o == "-" } else
  match t with
  | .mark => { r with marked := true, ok := r.ok && o == "-" }
  | .full rc => { r with outstanding := some rc, ok := r.ok && o == "-" }
  | .half rc => { r with half := some rc, ok := r.ok && o == "-" }
  | .rest => { r with outstanding := r.half, half := none, ok := r.ok && o == "-" }
  | .resp | .respMarked =>
    let after := match t with | .respMarked => true | _ => r.marked
    match r.outstanding with
    | none => { r with ok := r.ok && o == "-" }
    | some rc =>
      if r.marked || rc then { r with outstanding := none, closed := true, ok := r.ok && o == "r1+x" }
      else { r with outstanding := none, marked := after, ok := r.ok && o == "r0" }

def h1d (evTok : String) (impl : List String) : String :=
  match (evTok.splitOn ",").mapM parseH1Tok, impl with
  | some toks, [obsTok] =>
    let obs := obsTok.splitOn ","
    if obs.length != toks.length then "E E events-observations-mismatch" else
    let model := joinWith "," (h1Model Model.H1Drain.Conn.initial none toks)
    let ref := (toks.zip obs).foldl h1RefStep {}
    verdict (model == obsTok) ref.ok model
  | _, _ => "E E bad-case"

end MosnVerif.Drive.C11D
