import MosnVerif.Drive.Util
import MosnVerif.Model.H2Limits
/-! C18 (c18r6): driver part for the kinds `lim rf` and `lim conn` (helper module of Drive/C18.lean; core Lean only). -/
namespace MosnVerif.Drive.C18Limits
open MosnVerif.Drive MosnVerif.Model.H2Limits

def verdict (agree spec : Bool) (out : String) : String :=
  s!"{if agree then "A" else "D"} {if spec then "S" else "V"} {out}"

def outTok : Out → String
  | .again => "again"
  | .tooLarge => "toolarge"
  | .ok n => s!"ok:{n}"
  | .conn c => s!"conn:{c}"
  | .stream c => s!"stream:{c}"
  | .short => "short"

/-- cfg token: `own` → none, `set<N>` → some N -/
def parseCfg (cfg : String) : Option (Option Nat) :=
  if cfg == "own" then some none
  else if cfg.startsWith "set" then ((cfg.drop 3).toString.toNat?).map some
  else none

def stripPrefix (p s : String) : Option String :=
  if s.startsWith p then some (s.drop p.length).toString else none

/-- `lim rf`: the model uses the limit the regenerated constructors configure (or the regenerated clamp of SetMaxReadFrameSize);
the Spec uses the limit MOSN put on the wire (`a=`) and RFC 7540, and demands the reference Framer's answer as well. -/
def rfCase (side cfg : String) (nums : List String) (cutTok : String) (impl : List String) : String :=
  match parseCfg cfg, nums.mapM String.toNat?, impl with
  | some c, some [ty, flags, sid, len, pad, fill], [a, m, x] =>
    match stripPrefix "a=" a, stripPrefix "m=" m, stripPrefix "x=" x with
    | some adv, some mo, some xo =>
      let f : Frame := ⟨ty, flags, sid, len, pad, fill⟩
      let avail := match cutTok.toNat? with | some k => min k (9 + len) | none => 9 + len
      let server := side == "server"
      let ownArg := if server then MosnVerif.Gen.H2Limits.serverReadSizeArg else MosnVerif.Gen.H2Limits.clientReadSizeArg
      let limitM := setMaxRead (c.getD ownArg)
      let model := outTok (readOutcome limitM avail f)
      -- reference limit: what was requested (RFC: at most 2^24-1), or what MOSN advertised; the client advertises no
      -- MAX_FRAME_SIZE (default 16384) and is allowed to accept more: the reference is then run with 2^20 as well
      let advN := adv.toNat?
      let refLimit : Option Nat := match c with
        | some n => some (min n 16777215)
        | none => if server then advN else some (advN.getD 1048576)
      let spec := match refLimit with
        | none => false                        -- the server must advertise its limit
        | some l =>
          let want := outTok (refOutcome l avail f)
          mo == want && xo == want &&
          -- never refuse a frame within the advertised (or default) maximum
          (!(decide (9 ≤ avail) && decide (len ≤ advN.getD 16384) && c.isNone) || mo != "toolarge")
      verdict (mo == model) spec model
    | _, _, _ => "E E bad-lim-rf-output"
  | _, _, _ => "E E bad-lim-rf"

inductive Ev | set (id val : Nat) | wu (inc : Nat)

def parseEv (t : String) : Option Ev :=
  if t.startsWith "S" then
    match (t.drop 1).toString.splitOn ":" with
    | [i, v] => match i.toNat?, v.toNat? with
      | some i, some v => some (.set i v)
      | _, _ => none
    | _ => none
  else if t.startsWith "W" then (t.drop 1).toString.toNat?.map Ev.wu
  else none

def codeTok (c : Nat) : String := if c == 0 then "ok" else s!"conn:{c}"

/-- run the events on send window `w`; `fS`/`fW` decide one SETTINGS parameter / one WINDOW_UPDATE; stops after an error -/
def connRun (fS : Nat → Nat → Nat) (fW : Int → Nat → Int × Nat) : List Ev → Int → List String
  | [], _ => []
  | .set i v :: r, w => let c := fS i v; codeTok c :: (if c == 0 then connRun fS fW r w else [])
  | .wu inc :: r, w => let (w', c) := fW w inc; codeTok c :: (if c == 0 then connRun fS fW r w' else [])

/-- the reference's own answers that exist as exported API: Framer parse + Setting.Valid (servers apply Valid to their peer;
a WINDOW_UPDATE is only parsed — zero increment) -/
def xConsistent (server : Bool) : List Ev → List String → List String → Bool
  | .set _ _ :: r, m :: ms, x :: xs => (!server || m == x) && xConsistent server r ms xs
  | .wu inc :: r, m :: ms, x :: xs => (inc != 0 || m == x) && (inc == 0 || x == "ok") && xConsistent server r ms xs
  | _, [], _ => true
  | _, _, _ => false

def connCase (side evs : String) (impl : List String) : String :=
  match (evs.splitOn ",").mapM parseEv, impl with
  | some es, [m, x] =>
    match stripPrefix "m=" m, stripPrefix "x=" x with
    | some mo, some xo =>
      let server := side == "server"
      let w0 : Int := MosnVerif.Gen.H2Limits.initialWindowSize
      let model := joinWith "," (connRun (settingCode server) windowUpdate es w0)
      let want := joinWith "," (connRun (refSettingCode server) refWindowUpdate es 65535)
      verdict (mo == model) (mo == want && xConsistent server es (mo.splitOn ",") (xo.splitOn ",")) model
    | _, _ => "E E bad-lim-conn-output"
  | _, _ => "E E bad-lim-conn"

def run (caseToks impl : List String) : String :=
  match caseToks with
  | ["rf", side, cfg, ty, flags, sid, len, pad, fill, cut] => rfCase side cfg [ty, flags, sid, len, pad, fill] cut impl
  | ["conn", side, evs] => connCase side evs impl
  | _ => "E E unknown-lim-kind"

end MosnVerif.Drive.C18Limits
