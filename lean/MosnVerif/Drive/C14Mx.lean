import MosnVerif.Drive.Util
import MosnVerif.Model.FilterInst
/-!
Driver of C14, kind `mx` (harness/c14/c14_multi.go): many streams, built-in deny filters, configuration updates.

  C14 mx pool=<id>:<type>,… reqs=<flags>;… ev=<event>,…  =>  s<i>=<ids run|->/<fwd|r<code>|none|norun> …

  type   ipaccess | payloadlimit | faultinject (real filters: fresh-per-call fact and phase from Gen.FilterFactories)
         s<phase> scripted Continue | d<phase> scripted SendHijackReply(409)+Stop | x unregistered type
  flags  i p f (the request is denied by ipaccess / payloadlimit / faultinject) or `-`
  event  u<l>:<id.id…|->  k<l>  c<s>:<conn>  r<s>      (connections 0,1 = listeners 0,1; every k takes the next number)
-/
namespace MosnVerif.Drive.C14Mx
open MosnVerif.Drive MosnVerif.Model.FilterInst

def kvx (key : String) (toks : List String) : Option String :=
  (toks.find? (fun t => t.startsWith (key ++ "="))).map (fun t => (t.drop (key.length + 1)).toString)

def parsePool (s : String) : Option (List (Nat × String)) :=
  (s.splitOn ",").mapM (fun e => match e.splitOn ":" with
    | [i, t] => i.toNat?.map (fun k => (k, t))
    | _ => none)

def typeOf (pool : List (Nat × String)) (k : Nat) : String := ((pool.find? (·.1 == k)).map (·.2)).getD "x"

def isBuiltin (t : String) : Bool := t == "ipaccess" || t == "payloadlimit" || t == "faultinject"

def genEntry (t : String) : Option (String × Bool × List Nat) := Gen.FilterFactories.factories.find? (·.1 == t)

/-- what the filter of type `t` decides about a request with these flags -/
def denyOf (t flags : String) : Option Nat :=
  if t == "ipaccess" then (if flags.contains 'i' then some 403 else none)
  else if t == "payloadlimit" then (if flags.contains 'p' then some 413 else none)
  else if t == "faultinject" then (if flags.contains 'f' then some 418 else none)
  else if t.startsWith "d" then some 409
  else none

def scriptedPhase (t : String) : Nat := ((t.drop 1).toNat?).getD 0

/-- parameters of the MODEL: fresh / phase of the real filters and UpdateFactory are the regenerated ones -/
def modelP (pool : List (Nat × String)) (reqs : List String) : P :=
  { known := fun k => typeOf pool k != "x",
    fresh := fun k => let t := typeOf pool k
      if isBuiltin t then ((genEntry t).map (·.2.1)).getD false else true,
    phase := fun k => let t := typeOf pool k
      if isBuiltin t then (((genEntry t).map (·.2.2)).getD []).headD 9 else scriptedPhase t,
    deny := fun s k => denyOf (typeOf pool k) (reqs.getD s "-"),
    upd := Gen.FilterFactories.updateFactory }

/-- parameters of the REFERENCE (nothing regenerated): the phases MOSN documents for the three filters; `fresh` and `upd`
are not used by `expect` / `lastCfg` -/
def specP (pool : List (Nat × String)) (reqs : List String) : P :=
  { known := fun k => typeOf pool k != "x",
    fresh := fun _ => true,
    phase := fun k => let t := typeOf pool k
      if t == "ipaccess" then 0 else if t == "payloadlimit" || t == "faultinject" then 1 else scriptedPhase t,
    deny := fun s k => denyOf (typeOf pool k) (reqs.getD s "-"),
    upd := fun _ n => n }

/-- events; the connection → listener table is threaded through -/
def parseEvs : List String → List Nat → Option (List Ev)
  | [], _ => some []
  | e :: r, conns =>
    if e.startsWith "u" then
      match (e.drop 1).toString.splitOn ":" with
      | [l, ids] => do
        let l ← l.toNat?
        let cfg ← if ids == "-" then some [] else (ids.splitOn ".").mapM String.toNat?
        let rest ← parseEvs r conns
        pure (.upd l cfg :: rest)
      | _ => none
    else if e.startsWith "k" then do
      let l ← (e.drop 1).toNat?
      parseEvs r (conns ++ [l])
    else if e.startsWith "c" then
      match (e.drop 1).toString.splitOn ":" with
      | [s, cn] => do
        let s ← s.toNat?
        let cn ← cn.toNat?
        let l ← conns[cn]?
        let rest ← parseEvs r conns
        pure (.create s l :: rest)
      | _ => none
    else if e.startsWith "r" then do
      let s ← (e.drop 1).toNat?
      let rest ← parseEvs r conns
      pure (.run s :: rest)
    else none

def showIds (l : List Nat) : String := if l.isEmpty then "-" else joinWith "." (l.map toString)

def showOut (s : Nat) : Option Outcome → String
  | none => s!"s{s}=-/norun"
  | some (log, none) => s!"s{s}={showIds log}/fwd"
  | some (log, some c) => s!"s{s}={showIds log}/r{c}"

/-- the events in front of the first `create s`, and its listener -/
def createOf (s : Nat) : List Ev → List Ev → Option (List Ev × Nat)
  | [], _ => none
  | .create s' l :: r, pre => if s' = s then some (pre.reverse, l) else createOf s r (.create s' l :: pre)
  | e :: r, pre => createOf s r (e :: pre)

/-- declarative reference for stream `s`: it was created on listener `l` after the history `pre`, so it runs the filters of
the LATEST configuration of `l` in `pre` (unknown types dropped), in phase order then configuration order, up to the first
one that denies ITS request; it is answered by that filter's status and not forwarded; forwarded when none denies -/
def refOut (p : P) (evs : List Ev) (s : Nat) : Option Outcome :=
  if evs.contains (.run s) then
    match createOf s evs [] with
    | some (pre, l) => some (expect p s (((lastCfg l pre).getD []).filter p.known))
    | none => none
  else none

def runMx (toks impl : List String) : String :=
  match (kvx "pool" toks).bind parsePool, kvx "reqs" toks, kvx "ev" toks with
  | some pool, some reqs, some ev =>
    let reqs := reqs.splitOn ";"
    match parseEvs (ev.splitOn ",") [0, 1] with
    | some evs =>
      let n := reqs.length
      let w := exec (modelP pool reqs) evs
      let model := (List.range n).map (fun s => showOut s (w.st.out s))
      let ref := (List.range n).map (fun s => showOut s (refOut (specP pool reqs) evs s))
      let agree := model == impl
      let sp := ref == impl
      s!"{if agree then "A" else "D"} {if sp then "S" else "V"} {joinWith "," model}"
    | none => "E E bad-events"
  | _, _, _ => "E E bad-case"

end MosnVerif.Drive.C14Mx
