import MosnVerif.Drive.Util
import MosnVerif.Model.H1Serve
/-! helper driver of C08, kind `h1disp` (the HTTP/1 read path). Core Lean only; no `main`. -/
namespace MosnVerif.Drive.C08H1
open MosnVerif.Drive MosnVerif.Model.H1Serve MosnVerif.Gen.C08H1Loop

def pieceLen (p : String) : Option Nat :=
  if p == "-" then some 0
  else if p.startsWith "r" then
    match p.splitOn "x" with
    | [_, n] => n.toNat?
    | _ => none
  else if p.length % 2 == 0 then some (p.length / 2) else none

def dataLen (tok : String) : Option Nat :=
  (tok.splitOn ".").foldlM (fun acc seg =>
    (seg.splitOn "_").foldlM (fun a p => (pieceLen p).map (a + ·)) acc) 0

def evTok : Ev → String
  | .q => "q" | .r => "r" | .c => "c" | .b => "b" | .x => "x" | .t => "t"

def evsTok (l : List Ev) : String := if l.isEmpty then "-" else joinWith "," (l.map evTok)

/-- implementation events: the reset reason is not compared (`tStreamRemoteReset` -> `t`), OnGoAway (`g`, client,
hand-written: a response with `Connection: close`) is dropped -/
def normEvs (s : String) : List String :=
  if s == "-" then [] else ((s.splitOn ",").filter (· != "g")).map (fun t => if t.startsWith "t" then "t" else t)

structure Tok where
  kind : Char
  n : Nat
  cont : Bool
  close : Bool

def parseTok (t : String) : Option Tok :=
  match t.toList with
  | [] => none
  | k :: rest =>
    let digits := rest.takeWhile Char.isDigit
    let flags := rest.dropWhile Char.isDigit
    if flags.all (fun c => c == 'x' || c == 'c') then
      some ⟨k, (String.mk digits).toNat?.getD 0, flags.contains 'x', flags.contains 'c'⟩
    else none

def toStep (t : Tok) : Option PStep :=
  match t.kind with
  | 'm' => some (.msg t.n t.cont t.close)
  | 'n' => some (.needMore t.cont)
  | 'e' => some (.err t.cont)
  | 'l' => some (.err false)
  | 'p' => some (.panic t.cont)
  | _ => none

/-- the script keyed by the number of unconsumed bytes -/
def mkScript : Nat → List PStep → List (Nat × PStep)
  | _, [] => []
  | len, s :: r =>
    let d := match s with | .msg n _ _ => n | _ => 0
    (len, s) :: mkScript (len - d) r

/-- events of what the peer's close makes of the blocked call and the calls behind it; `true` = a message was answered on
the closed connection: whether serve goes on behind it is decided by a `select` with both cases ready (racy) -/
def postEvs (p : Policy) : List String → Option (List Ev × Bool)
  | [] => some ([], false)
  | t :: rest =>
    if t == "q" && p.responds then some ([], false)
    else match parseTok (if t == "q" then "l" else t) with
      | none => none
      | some tk =>
        match toStep tk with
        | none => none
        | some st =>
          let (c', _) := turn p (fun _ => st) ⟨[], 0, []⟩
          some (c'.evs, tk.kind == 'm' && !rest.isEmpty)

def startsWith (a pre : List String) : Bool := a.take pre.length == pre

/-- `h1disp <srv|cli> <L> <B> <bytes> <pre|post> <head> => <ev1> <state1> <ev2> <leak> <disp>`.
Model: the regenerated serve loop of that side run over the black box's answers (computed by the harness on the whole
input), the regenerated reader size against the head length the generator knows, the regenerated reaction to the peer's
close.  Predicate (independent of regenerated code; the documented limits 8192 / 16 are literals): no goroutine left, no
Dispatch hung or panicked, no runaway, serve not spinning; at most |bytes|+1 requests+errors; a server `400` is followed
by Close and nothing else; serve never gone with the connection neither closed (server) nor the stream reset (client);
a first head larger than the limit delivers nothing and, once limit bytes are there, is answered with an error. -/
def h1disp (side ls bs bytes script head : String) (impl : List String) : String :=
  match ls.toNat?, bs.toNat?, dataLen bytes, script.splitOn "|", impl with
  | some L, some _, some len, [preS, postS], [ev1, state1, ev2, leak, disp] =>
    let pol := if side == "srv" then srvPolicy else cliPolicy
    let i1 := normEvs ev1
    let i2 := normEvs ev2
    let all := i1 ++ i2
    -- predicate
    let limit := let l := if L == 0 then 8192 else L; if l < 16 then 16 else l
    let headLen : Option Nat := if head.startsWith "h" then (head.drop 1).toNat? else none
    let count (l : List String) (t : String) := (l.filter (· == t)).length
    let afterB := (i1.dropWhile (· != "b")).drop 1
    let specHead := match headLen with
      | some k => if k > limit then !(all.contains "q") &&
          (if len ≥ limit then (if side == "srv" then i1.contains "b" && i1.contains "x" else i1.contains "t") else true) else true
      | none => true
    let spec := leak == "l0" && (disp == "dret" || (disp == "dblk" && side == "cli")) && !(all.contains "runaway") &&
      state1 != "busy" && decide (count all "q" + count all "b" + count all "t" ≤ len + 2) &&
      (side != "srv" || !(i1.contains "b") || afterB.all (· == "x") && afterB.contains "x") &&
      (state1 != "gone" || (if side == "srv" then i1.contains "x" else i1.contains "t")) && specHead
    let sv := if spec then "S" else "V"
    -- model
    let preToks := if preS == "-" then [] else preS.splitOn ","
    let rest := (preToks.find? (·.startsWith "rest")).bind (fun t => (t.drop 4).toNat?)
    let preToks := preToks.filter (fun t => !t.startsWith "rest")
    let postToks := if postS == "-" then [] else postS.splitOn ","
    match preToks.mapM (fun t => (parseTok t).bind toStep) with
    | none => s!"E {sv} bad-script"
    | some steps =>
      -- the regenerated reader size against the head the generator built
      let size := if side == "srv" then h1_srvReaderSize (if L == 0 then h1_defaultMaxHeaderSize else L) else h1_cliReaderSize L
      let headOk := match headLen, preToks.head? with
        | some k, some t0 =>
          (match (headRead size k len).1 with
           | .parsed => t0.startsWith "m" || t0.startsWith "n" || t0.startsWith "p" || t0.startsWith "e"
           | .tooLarge => t0.startsWith "e"
           | .needMore => t0.startsWith "n")
        | _, _ => true
      if !headOk then s!"D {sv} head-limit-of-the-model-differs reader={effReader size}" else
      match run pol (scripted (mkScript len steps)) (steps.length + 2) ⟨List.replicate len 0, 0, []⟩ with
      | none => s!"D {sv} model-loop-out-of-fuel"
      | some (c', fin) =>
        let cliMsg := side == "cli" && (preToks.head?.map (·.startsWith "m")).getD false
        let m1 := if cliMsg then ["q"] else c'.evs.map evTok
        let mstate := if cliMsg then "idle" else match fin with | .waiting => "wait" | _ => "gone"
        match (if mstate == "wait" then postEvs pol postToks else some ([], false)) with
        | none => s!"E {sv} bad-post-script"
        | some (e2, racy2) =>
          let m2 := e2.map evTok
          let racy1 := (rest.getD 0) > 0
          let isPanic := preToks.any (·.startsWith "p")
          let dispOk := disp == "dret" || (side == "cli" && disp == "dblk")
          let agree :=
            if isPanic then all == m1 ++ m2 && leak == "l0" && dispOk
            else if racy1 then startsWith all m1 && leak == "l0" && dispOk
            else i1 == m1 && state1 == mstate && (if racy2 then startsWith i2 m2 else i2 == m2) && leak == "l0" && dispOk
          s!"{if agree then "A" else "D"} {sv} {evsTok c'.evs} {mstate} {if m2.isEmpty then "-" else joinWith "," m2} calls={c'.calls}"
  | _, _, _, _, _ => "E E bad-case"

end MosnVerif.Drive.C08H1
