import MosnVerif.Drive.Util
import MosnVerif.Model.H2Msg
import MosnVerif.Model.HttpUri
/-!
Driver part of C01 for the kinds `h2t` (HTTP/2 → HTTP/2), `x12` (HTTP/1.1 → HTTP/2), `x21` (HTTP/2 → HTTP/1.1):

  `<kind> req  -      -        <orc> <P> <F> <fr> <B> <T> => <st> <interim> <P> <F> <end> <B> <T>`
  `<kind> resp <METH> <interim> -    <P> <F> <fr> <B> <T> => <st> <interim> <P> <F> <end> <B> <T>`

`P` pseudo fields `name:hex,…` (HTTP/1: method + path of the request line / status), `F` fields `name:hex,…` stable-sorted by
the lower-cased name, `fr` framing as written (HTTP/2: `e` END_STREAM on HEADERS | `z` no payload | DATA sizes; HTTP/1: none | cl |
ch), `B` body hex, `T` trailers (`none` = no trailer block), `end` how the received message ended (HTTP/2: H | D | T; HTTP/1:
none | cl | ch | close), `st` = ok | lost | reset:<code> | timeout | …; `orc` = `a;b;c;d;e` library results for the request
target (net/url, fasthttp).
-/
namespace MosnVerif.Drive.C01H2x
open MosnVerif.Drive MosnVerif.Model MosnVerif.Model.H2Msg

def str (b : Bytes) : String := String.ofList (b.map (fun x => Char.ofNat x.toNat))
def bytesOf (s : String) : Bytes := s.toUTF8.toList

def isHexStr (s : String) : Bool := s.length % 2 == 0 && s.length > 0 && s.toList.all (fun c => (hexVal c).isSome)

def parseName (s : String) : Option Bytes :=
  if s.startsWith "x" && (isHexStr (s.drop 1).toString || s == "x-") then unhex (s.drop 1).toString else some (bytesOf s)

def parseFields (s : String) : Option (List Field) :=
  if s == "-" then some [] else
  (s.splitOn ",").mapM (fun kv => match kv.splitOn ":" with
    | [k, v] => do some ((← parseName k), (← unhex v))
    | _ => none)

def parseTrailers (s : String) : Option (Option (List Field)) :=
  if s == "none" then some none else (parseFields s).map some

def parseSizes (s : String) : Option (List Nat) := (s.splitOn ",").mapM (·.toNat?)

def cut (b : Bytes) : List Nat → List Bytes
  | [] => []
  | n :: r => b.take n :: cut (b.drop n) r

def nTE : Bytes := bytesOf "transfer-encoding"
def chunked : Bytes := bytesOf "chunked"

/-- the message that was written, from its tokens; for HTTP/1 the framing header the writer added is put back -/
def parseSent (h2 : Bool) (p f fr b t : String) : Option Wire := do
  let ps ← parseFields p
  let fs ← parseFields f
  let body ← unhex b
  let tr ← parseTrailers t
  if h2 then
    if fr == "e" then some { pseudo := ps, fields := fs, chunks := [], trailers := none, endOnHeaders := true }
    else if fr == "z" then some { pseudo := ps, fields := fs, chunks := [], trailers := tr, endOnHeaders := false }
    else
      let sz ← parseSizes fr
      some { pseudo := ps, fields := fs, chunks := cut body sz, trailers := tr, endOnHeaders := false }
  else
    let fs := if fr == "cl" then fs ++ [(nCL, natBytes body.length)] else if fr == "ch" then fs ++ [(nTE, chunked)] else fs
    some { pseudo := ps, fields := fs, chunks := if body = [] then [] else [body], trailers := tr, endOnHeaders := false }

def parseGot (p f e b t : String) : Option Wire := do
  let ps ← parseFields p
  let fs ← parseFields f
  let body ← unhex b
  let tr ← parseTrailers t
  some { pseudo := ps, fields := fs, chunks := if body = [] then [] else [body], trailers := tr, endOnHeaders := e == "H" }

/-! canonical form for the comparison -/
def insertField (x : Field) : List Field → List Field
  | [] => [x]
  | y :: r => if str (lower y.1) ≤ str (lower x.1) then y :: insertField x r else x :: y :: r

/-- stable sort by the lower-cased name -/
def sortFields (l : List Field) : List Field := l.foldl (fun acc x => insertField x acc) []

def framingNames : List Bytes := [nCL, nTE, bytesOf "connection", bytesOf "keep-alive"]

def canonFields (h1 : Bool) (fs : List Field) : List Field :=
  if h1 then sortFields ((fs.filter (fun f => !framingNames.contains (lower f.1))).map (fun f => (lower f.1, f.2)))
  else sortFields fs

def canonTrailers (h1 : Bool) (t : Option (List Field)) : List Field := canonFields h1 (t.getD [])

def endTok (w : Wire) : String := if w.endOnHeaders then "H" else if w.trailers.isSome then "T" else "D"

def fieldsTok (fs : List Field) : String :=
  if fs.isEmpty then "-" else ",".intercalate (fs.map (fun f => str f.1 ++ ":" ++ hex f.2))

def sameMsg (h1 : Bool) (m g : Wire) (gEnd : String) : Bool :=
  sortFields m.pseudo == sortFields g.pseudo && canonFields h1 m.fields == canonFields h1 g.fields &&
  m.body == g.body && canonTrailers h1 m.trailers == canonTrailers h1 g.trailers && (h1 || endTok m == gEnd)

def showMsg (h1 : Bool) (m : Wire) : String :=
  s!"{fieldsTok (sortFields m.pseudo)} {fieldsTok (canonFields h1 m.fields)} {endTok m} len={m.body.length} {if m.trailers.isSome then fieldsTok (canonTrailers h1 m.trailers) else "none"}"

def orcVal (s : String) : Option Bytes := if s == "E" then none else unhex s

def oracles (orc : String) : H2Msg.Oracles :=
  let p := orc.splitOn ";"
  let a := p.getD 0 "-"; let b := p.getD 1 "-"; let c := p.getD 2 "-"; let d := p.getD 3 "-"; let e := p.getD 4 "-"
  { escaped := fun _ => orcVal a,
    urlPath := fun _ => (orcVal b).getD [],
    -- x12: a = fasthttp's normalised path, b = EscapedPath of {Path: a, RawPath: original}, c = PathUnescape(original) | E,
    --      d = EscapedPath of {Path: c, RawPath: original}
    escapedOf := fun p _ => if some p == orcVal c && p != (orcVal a).getD [] then (orcVal d).getD [] else (orcVal b).getD [],
    fhNorm := fun _ => (orcVal a).getD [],
    unescape := fun _ => orcVal c,
    h1Target := fun path po q =>
      let O : HttpUri.Oracles :=
        { unescape := fun _ => (orcVal c).map str, fhPath := fun _ => str ((orcVal d).getD []), requestURI := fun _ => str ((orcVal e).getD []) }
      bytesOf (HttpUri.buildUrl O { path := str path, pathOriginal := str po, query := str q }) }

def remoteAddr : Bytes := bytesOf "127.0.0.1:0"

def verdict (agree spec : Bool) (m : String) : String := s!"{if agree then "A" else "D"} {if spec then "S" else "V"} {m}"

def run (kind : String) (toks impl : List String) : String :=
  match toks with
  | [dir, meth, interim, orc, p, f, fr, b, t] =>
    let isReq := dir == "req"
    let sentH2 := if isReq then kind != "x12" else kind != "x21"
    let gotH1 := if isReq then kind == "x21" else kind == "x12"
    match parseSent sentH2 p f fr b t with
    | none => "E E bad-case"
    | some sent =>
      let O := oracles orc
      let isHead := meth == "HEAD"
      let model : Wire :=
        if isReq then
          (if kind == "h2t" then fwdReqH2 O remoteAddr [] sent else if kind == "x12" then x12Req O remoteAddr [] sent else x21Req O sent)
        else
          (if kind == "h2t" then fwdRespH2 isHead [] sent else if kind == "x12" then x12Resp sent else x21Resp isHead [] sent)
      -- a request whose target net/url refuses is refused by the HTTP/2 server stream (stream error), never forwarded
      -- … and so is a request with an upper-case field name on the HTTP/2 wire (malformed, RFC 7540 8.1.2)
      let refused := isReq && kind != "x12" && ((O.escaped []).isNone || sent.fields.any (fun f => lower f.1 != f.1))
      match impl with
      | [st, gi, gp, gf, ge, gb, gt] =>
        match parseGot gp gf ge gb gt with
        | none => "E E bad-impl"
        | some got =>
          let agree := st == "ok" && !refused && gi == "-" && sameMsg gotH1 model got ge
          let spec := st == "ok" && gi == interim &&
            (if isReq then
               (if kind == "h2t" then specReqH2 sent got else if kind == "x12" then specX12Req sent got else specX21Req sent got)
             else
               (if kind == "h2t" then specRespH2 isHead sent got else if kind == "x12" then specX12Resp sent got else specX21Resp isHead sent got))
          verdict agree spec (showMsg gotH1 model)
      | [st] =>
        -- not forwarded: right only for a request that is not well-formed
        let agree := refused && st != "ok"
        verdict agree refused (if refused then "refused" else showMsg gotH1 model)
      | _ => "E E bad-impl"
  | _ => "E E bad-case"

end MosnVerif.Drive.C01H2x
