import MosnVerif.Model.H2ClientTable
import MosnVerif.Model.H2ClientTableSpec
import MosnVerif.Drive.Util
/-! kind `h2tbl`: `h2tbl <first id> <op,op,…> => <snapshot per op …> <wire>` (harness/c02/h2tbl.go) -/
namespace MosnVerif.Drive.H2ClientTable
open MosnVerif.Drive MosnVerif.Model.H2ClientTable MosnVerif.Model.H2ClientTableSpec

/-- a harness op; stream objects are named by the HARNESS index (creation order of the harness) -/
inductive HOp
  | n | o | b (order : List Nat)
  | fr (kind : Char) (obj : Bool) (arg : Nat) (ended : Bool)   -- H D E T R, upper case = stream object, lower = raw id
  | g (last : Nat) (code : Int) | x (w : Nat) | c | z | w (id : Nat) | p

def parseHOp (t : String) : Option HOp :=
  if t == "N" then some .n else if t == "O" then some .o else if t == "C" then some .c
  else if t == "Z" then some .z else if t == "P" then some .p else
  match t.toList with
  | [] => none
  | k :: rest =>
    let body := String.ofList rest
    if k == 'B' then ((body.splitOn ".").mapM String.toNat?).map .b
    else if k == 'G' then body.toNat?.map (fun l => .g l 0)
    else if k == 'g' then body.toNat?.map (fun l => .g l 2)
    else if k == 'X' then body.toNat?.map .x
    else if k == 'W' then body.toNat?.map .w
    else if "HDETRhdetr".toList.contains k then
      let ended := body.endsWith "e"
      let num := if ended then (body.dropEnd 1).toString else body
      num.toNat?.map (fun a => .fr k.toUpper k.isUpper a ended)
    else none

/-- model index of harness stream object `hw` -/
def midx (hmap : List Nat) (hw : Nat) : Option Nat := hmap[hw]?

/-- apply one harness op: (state, harness-index → model-index map) -/
def apply (s : Conn) (hmap : List Nat) (stepNo : Nat) : HOp → Conn × List Nat
  | .n => (step genShape s (.open_ false), hmap ++ [s.nW])
  | .o => (step genShape s (.open_ true), hmap ++ [s.nW])
  | .b order =>
    -- the i-th id went to local request order[i]: harness object base+g is the model's (nW + position of g)
    let s' := order.foldl (fun s _ => step genShape s (.open_ false)) s
    (s', hmap ++ (List.range order.length).map (fun g => s.nW + order.findIdx (· == g)))
  | .fr k obj a ended =>
    let tgt : Option (Int × Nat) :=
      if obj then (midx hmap a).map (fun m => ((s.str m).id, a))
      else
        -- a raw id that is the id of a stream object answers that request (the last object with the id)
        let owner := (List.range hmap.length).reverse.find? (fun hw => a != 0 && (midx hmap hw).any (fun m => (s.str m).id == (a : Int)))
        some ((a : Int), owner.getD (9000 + stepNo))
    match tgt with
    | none => (s, hmap)
    | some (id, tok) =>
      let op : Op := match k with
        | 'H' => .headers id tok ended
        | 'D' => .data id tok ended false
        | 'E' => .data id tok true true
        | 'T' => .trailers id tok
        | _ => .rst id
      (step genShape s op, hmap)
  | .g last code => (step genShape s (.goaway last code), hmap)
  | .x w => match midx hmap w with
    | some m => (step genShape s (.reset m), hmap)
    | none => (s, hmap)
  | .c => (step genShape s .connReset, hmap)
  | .z => (step genShape s .noise, hmap)
  | .w id => (step genShape s (.window id), hmap)
  | .p => (step genShape s .connError, hmap)

def renderPart : Option Part → String
  | some p => toString p.tok
  | none => "-"

def renderDelivery (d : Delivery) : String :=
  let b := if d.body.isEmpty then "-" else "+".intercalate (d.body.map (fun p => toString p.tok))
  s!"h{renderPart d.hdr}/b{b}/t{renderPart d.trailer}"

def renderReason : Reason → String
  | .localReset => "L" | .remoteReset => "R" | .connFailed => "F" | .connTerm => "K"

def ids (t : MosnVerif.Model.StreamTable.Table) : String :=
  ",".intercalate ((MosnVerif.Model.StreamTable.natSort (t.map (·.1))).map toString)

def render (s : Conn) (hmap : List Nat) : String :=
  let ws := hmap.map (fun m =>
    let x := s.str m
    s!"{x.id}:{",".intercalate (x.got.map renderDelivery)}:{String.join (x.resets.map renderReason)}")
  s!"n{s.next};m{ids s.mod};t{ids s.tbl};l{s.last};g{s.goaways};c{if s.closed then 1 else 0};w{"|".intercalate ws}"


/-! ### the implementation's snapshot as an observation -/
def optTok (t : String) : Option (Option Int) := if t == "-" then some none else t.toNat?.map (fun n => some (n : Int))

def parseDel (t : String) : Option ODel :=
  match t.splitOn "/" with
  | [h, b, tr] =>
    if !(h.startsWith "h" && b.startsWith "b" && tr.startsWith "t") then none else
    let bs := (b.drop 1).toString
    match optTok (h.drop 1).toString, (if bs == "-" then some [] else (bs.splitOn "+").mapM (fun x => x.toNat?.map (fun n => (n : Int)))), optTok (tr.drop 1).toString with
    | some h, some b, some tr => some { hdr := h, body := b, trailer := tr }
    | _, _, _ => none
  | _ => none

def parseStr (key : Nat) (t : String) : Option OStr :=
  match t.splitOn ":" with
  | [i, g, r] =>
    -- a delivery that is not of the expected form (an OnDecodeError, garbage) is kept as a delivery without header
    let dels := ((g.splitOn ",").filter (· ≠ "")).map (fun d => (parseDel d).getD { hdr := none, body := [], trailer := none })
    (parseInt? i).map (fun i => { id := i, key := key, got := dels, resets := r.length })
  | _ => none

def parseStrs (key : Nat) : List String → Option (List OStr)
  | [] => some []
  | t :: r => match parseStr key t, parseStrs (key + 1) r with
    | some a, some b => some (a :: b)
    | _, _ => none

def parseSnap (t : String) : Option Obs :=
  match t.splitOn ";" with
  | [_, _, tt, _, _, _, ww] =>
    if !(tt.startsWith "t" && ww.startsWith "w") then none else
    let ws := ((ww.drop 1).toString.splitOn "|").filter (· ≠ "")
    match (((tt.drop 1).toString.splitOn ",").filter (· ≠ "")).mapM parseInt?, parseStrs 0 ws with
    | some t, some w => some { tbl := t, strs := w }
    | _, _ => none
  | _ => none

def snapClosed (t : String) : Bool := (t.splitOn ";").any (· == "c1")

/-- the step predicate of one op between the snapshot before it and the snapshot after it (Spec: who may be affected) -/
def stepSpecOf (h : HOp) (before after : Obs) (closedAfter : Bool) : Bool :=
  match h with
  | .fr _ obj a _ =>
    if closedAfter then true else   -- a frame that closed the connection: every stream is reset by the close event
    match (if obj then before.strs[a]?.map (·.id) else some (a : Int)) with
    | some id => frameStepSpec id before after
    | none => quietStepSpec before after
  | .x w => resetStepSpec (some w) before after
  | .c | .p => resetStepSpec none before after
  | _ => quietStepSpec before after

def stepsOk (before : Obs) : List HOp → List String → Bool
  | [], _ => true
  | _ :: _, [] => true    -- the script was cut (connection closed): the remaining ops were not run
  | h :: hs, t :: ts =>
    match parseSnap t with
    | none => false
    | some after => stepSpecOf h before after (snapClosed t) && stepsOk after hs ts

/-- the property predicate on the implementation's output line: every snapshot satisfies `obsSpec`, the ids are well
formed, the peer saw every request under the id its stream object is registered with, nothing panicked -/
def specLine (firstOdd : Bool) (impl : List String) : Bool :=
  match impl.getLast? with
  | none => false
  | some wire =>
    (wire.startsWith "wire" && wire.endsWith ";mis") &&
    impl.dropLast.all (fun t => match parseSnap t with
      | some o => obsSpec o && obsSpecIds firstOdd (o.strs.map (·.id))
      | none => false)

def modelTrace (s : Conn) (hmap : List Nat) (stepNo : Nat) : List HOp → List String × Conn
  | [] => ([], s)
  | h :: r =>
    let (s', hmap') := apply s hmap stepNo h
    let (rest, fin) := modelTrace s' hmap' (stepNo + 1) r
    (render s' hmap' :: rest, fin)

def run (first ops : String) (impl : List String) : String :=
  match first.toNat?, (ops.splitOn ",").mapM parseHOp with
  | some f, some hops =>
    let (snaps, fin) := modelTrace (init f) [] 0 hops
    let wire := s!"wire{",".intercalate (fin.wire.map toString)};rst{",".intercalate ((MosnVerif.Model.StreamTable.natSort fin.rst).map toString)};mis"
    let modelToks := snaps ++ [wire]
    let agree := impl == modelToks
    let spec := impl.length == hops.length + 1 && specLine (f % 2 == 1) impl && stepsOk { tbl := [], strs := [] } hops impl.dropLast
    s!"{if agree then "A" else "D"} {if spec then "S" else "V"} {joinWith " " modelToks}"
  | _, _ => "E E bad-case"

end MosnVerif.Drive.H2ClientTable
