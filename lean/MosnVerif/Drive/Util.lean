/-! line-protocol helpers for the `mosnmodel` driver (core Lean only) -/
namespace MosnVerif.Drive

def tokens (s : String) : List String :=
  (s.splitOn " ").filter (· ≠ "")

/-- split a case line at the `=>` token into (case tokens, implementation-output tokens) -/
def splitCase (ts : List String) : List String × List String :=
  let rec go (acc : List String) : List String → List String × List String
    | [] => (acc.reverse, [])
    | "=>" :: r => (acc.reverse, r)
    | t :: r => go (t :: acc) r
  go [] ts

def hexVal (c : Char) : Option Nat :=
  if '0' ≤ c ∧ c ≤ '9' then some (c.toNat - '0'.toNat)
  else if 'a' ≤ c ∧ c ≤ 'f' then some (c.toNat - 'a'.toNat + 10)
  else if 'A' ≤ c ∧ c ≤ 'F' then some (c.toNat - 'A'.toNat + 10)
  else none

/-- decode a hex string (`-` = empty) into bytes -/
def unhex (s : String) : Option (List UInt8) :=
  if s == "-" then some [] else
  let rec go : List Char → List UInt8 → Option (List UInt8)
    | [], acc => some acc.reverse
    | [_], _ => none
    | a :: b :: r, acc =>
      match hexVal a, hexVal b with
      | some x, some y => go r (UInt8.ofNat (x * 16 + y) :: acc)
      | _, _ => none
  go s.toList []

def hexDigit (n : Nat) : Char :=
  if n < 10 then Char.ofNat (n + '0'.toNat) else Char.ofNat (n - 10 + 'a'.toNat)

def hex (b : List UInt8) : String :=
  if b.isEmpty then "-" else
  String.ofList (b.flatMap (fun x => [hexDigit (x.toNat / 16), hexDigit (x.toNat % 16)]))

def joinWith (sep : String) (l : List String) : String := sep.intercalate l

def insertSorted (x : String) : List String → List String
  | [] => [x]
  | y :: r => if x ≤ y then x :: y :: r else y :: insertSorted x r

def sortStrings (l : List String) : List String := l.foldr insertSorted []

def dedup (l : List String) : List String :=
  l.foldr (fun x acc => if acc.contains x then acc else x :: acc) []

/-- all permutations of a (short) list -/
def perms {α} : List α → List (List α)
  | [] => [[]]
  | x :: r => (perms r).flatMap (fun p => (List.range (p.length + 1)).map (fun i => p.take i ++ [x] ++ p.drop i))

def parseInt? (s : String) : Option Int :=
  if s.startsWith "-" then (s.drop 1).toNat?.map (fun n => -(n : Int)) else s.toNat?.map (fun n => (n : Int))

end MosnVerif.Drive
