import MosnVerif.Drive.Util
import MosnVerif.Model.TlsAccept
/-!
Helper driver of C13 (no `main`): kind
  odst <cls> <redirect|tproxy|off> <outcome> <A> <B> <C> <first> => <plain.<mark>|refused> <tls.<cert>.<mark>|fail>
the accept path of a real listener A (use_original_dst as given) next to a listener B (another ip:port) and a listener
C (0.0.0.0:port) on the real connection handler; outcome of the (scripted) original-destination lookup: m = B's ip:port,
l = another ip with C's port, s = matches nobody, f = the lookup fails, r = not scripted (redirect: the real getsockopt,
which fails on loopback; tproxy: the connection's local address = A itself). A listener = <tls 0|1><inspector 0|1>.
Model = the regenerated decision tree (`Model.TlsAccept.accept`) + `connDecision`; Spec = `specOwner` + `specObs`.
-/
namespace MosnVerif.Drive.TlsAcceptDrive
open MosnVerif.Drive MosnVerif.Model.TlsAccept MosnVerif.Gen.TlsAccept

def lcfg? (mark : String) (s : String) : Option LCfg :=
  match s.toList with
  | [t, i] =>
    match (if t == '1' then some true else if t == '0' then some false else none),
          (if i == '1' then some true else if i == '0' then some false else none) with
    | some t, some i => some ⟨mark, t, i⟩
    | _, _ => none
  | _ => none

def run (caseToks impl : List String) : String :=
  match caseToks, impl with
  | ["odst", _, od, oc, a, b, c, first], [plain, tls] =>
    match lcfg? "a" a, lcfg? "b" b, lcfg? "c" c, first.toNat? with
    | some a, some b, some c, some first =>
      -- (useOrig, lookupOk, matched, localMatched, the matched listener is A itself)
      let k : Option (Bool × Bool × Bool × Bool × Bool) :=
        if od == "off" then some (false, false, false, false, false)
        else if od == "tproxy" then some (true, true, true, false, true)
        else if od == "redirect" then
          (if oc == "m" then some (true, true, true, false, false)
           else if oc == "l" then some (true, true, false, true, false)
           else if oc == "s" then some (true, true, false, false, false)
           else if oc == "f" || oc == "r" then some (true, false, false, false, false)
           else none)
        else none
      match k with
      | some (useOrig, lk, m, lm, selfMatch) =>
        let ls : Target → LCfg := fun t => match t with
          | .self => a
          | .matched => if selfMatch then a else b
          | .localFallback => c
        -- MOSN always builds a manager (NewTLSServerContextManager), with or without contexts; the probes send bytes
        let e : Env := ⟨fun _ => true, fun _ => false, false, lk, true, m, lm⟩
        let mo := obs ls (accept e 3 .self useOrig) first
        let so := specObs (ls (specOwner useOrig lk m lm)) first
        let ms := s!"{mo.1} {mo.2}"
        let im := s!"{plain} {tls}"
        s!"{if ms == im then "A" else "D"} {if s!"{so.1} {so.2}" == im then "S" else "V"} {ms}"
      | none => "E E bad-case"
    | _, _, _, _ => "E E bad-case"
  | _, _ => "E E unknown-kind"

end MosnVerif.Drive.TlsAcceptDrive
