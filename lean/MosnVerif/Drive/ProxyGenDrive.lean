import MosnVerif.Model.ProxyGen
import MosnVerif.Drive.Util
/-! kind `pgen`: `pgen <pt|gt> <r200|r503|own> <t|p|a|n> => <reused|fresh> A=<status>:<rtok> B=<status>:<rtok> Bup=<live|reset> [skew:…]`
(harness/c02/pgen.go). The case is turned into the schedule of Model/ProxyGen it stands for (A = generation 1, B = 2),
run with the REGENERATED callbacks; the model's hits / replies give what A's and B's clients receive. -/
namespace MosnVerif.Drive.ProxyGenDrive
open MosnVerif.Model.ProxyGen

def steps (n : Nat) : List Ev := List.replicate n (.step 0)

def schedule (k : Nat) (aEnd rel : String) : Option (List Ev) :=
  let fin : List Ev := [.respond, .clean, .give]
  if aEnd == "own" then some ([.take, .arm k, .fire 0] ++ steps 8 ++ [.clean, .give, .take, .arm k] ++ fin)
  else match rel with
    | "n" => some ([.take, .arm k] ++ fin ++ [.take, .arm k] ++ fin)
    | "p" => some ([.take, .arm k, .fire 0] ++ fin ++ steps 8 ++ [.take, .arm k] ++ fin)
    | "t" => some ([.take, .arm k, .fire 0] ++ fin ++ [.take, .arm k] ++ steps 8 ++ fin)
    | "a" => some ([.take, .arm k, .fire 0] ++ fin ++ [.take, .arm k] ++ fin ++ steps 8)
    | _ => none

/-- what exchange `g`'s client receives in the model: a timeout reply when a callback hit it, else its upstream's answer -/
def outcome (s : St) (g : Nat) (code : String) : String :=
  if s.hits.any (fun h => h.hit == g) then "504:-" else s!"{code}:r{g - 1}"

/-- the property predicate, written on the observed tokens only: A is answered by its own upstream answer (or, not
answered, by its own timeout), B by its own upstream answer, and B's upstream stream is not reset -/
def spec (aEnd : String) (a b bup : String) : Bool :=
  (a == (if aEnd == "own" then "A=504:-" else if aEnd == "r503" then "A=503:r0" else "A=200:r0")) && b == "B=200:r1" && bup == "Bup=live"

def run (timer aEnd rel : String) (impl0 : List String) : String :=
  let skew := impl0.length == 5 && (impl0.getLast?.getD "").startsWith "skew:"
  let impl := if skew then impl0.dropLast else impl0
  let k := if timer == "pt" then 0 else 1
  match schedule k aEnd rel, impl with
  | some evs, [reuse, a, b, bup] =>
    let s := MosnVerif.Model.ProxyGen.run realProgs {} evs
    let code := if aEnd == "r503" then "503" else "200"
    let mA := if aEnd == "own" then outcome s 1 "200" else outcome s 1 code
    -- on a fresh object B is generation 2 of ANOTHER object: nothing of this object's history reaches it
    let mB := outcome s 2 "200"
    let mUp := if s.hits.any (fun h => h.hit == 2) then "reset" else "live"
    -- the model allows the recycling exactly when A ended by its upstream's answer
    let reuseOk := reuse == "fresh" || (reuse == "reused" && aEnd != "own")
    let model := s!"A={mA} B={mB} Bup={mUp}"
    let sp := spec aEnd a b bup
    if skew then s!"A {if sp then "S" else "V"} skew" else
    let agree := reuseOk && a == s!"A={mA}" && b == s!"B={mB}" && bup == s!"Bup={mUp}"
    s!"{if agree then "A" else "D"} {if sp then "S" else "V"} {model}"
  | _, _ => "E E bad-case"

end MosnVerif.Drive.ProxyGenDrive
