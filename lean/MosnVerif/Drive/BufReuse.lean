import MosnVerif.Model.BufReuse
import MosnVerif.Drive.Util
/-! kind `h1b`: `h1b <nconn> <conn:kind:reqLen:respLen,…> => <status/hdrToks/body/up,…>` (harness/c02/h1b.go) -/
namespace MosnVerif.Drive.BufReuse
open MosnVerif.Drive MosnVerif.Model.BufReuse

def mkEx (k : Nat) (kind : String) (rb : Bool) (ab : Bool) : Option Ex :=
  if kind == "u" then some ⟨k, true, false, rb, some ab, none, 200⟩
  else if kind == "h" then some ⟨k, true, true, rb, some ab, none, 200⟩
  else if kind == "n" then some ⟨k, false, false, rb, none, none, 404⟩
  else if kind == "e" then some ⟨k, false, false, rb, none, none, 200⟩
  else if kind == "d0" || kind == "d1" || kind == "d2" then some ⟨k, false, false, rb, none, some kind, 200⟩
  else if kind == "c" then some ⟨k, true, false, rb, none, none, 502⟩
  else if kind == "x" then some ⟨k, false, false, rb, none, none, 502⟩
  else if kind == "t" then some ⟨k, true, false, rb, none, none, 504⟩
  else none

def parseEx (k : Nat) (t : String) : Option Ex :=
  match t.splitOn ":" with
  | [_, kind, rq, rs] =>
    match rq.toNat?, rs.toNat? with
    | some rq, some rs => mkEx k kind (decide (rq > 0)) (decide (rs > 0))
    | _, _ => none
  | _ => none

def parsePlan : Nat → List String → Option (List Ex)
  | _, [] => some []
  | k, t :: r => match parseEx k t, parsePlan (k + 1) r with
    | some e, some es => some (e :: es)
    | _, _ => none

def slotOf (t : String) : Slot := if t == "-" then [] else t.splitOn "+"

def parseObs (t : String) : Option Out :=
  match t.splitOn "/" with
  | [st, h, b, u] => if u == "none" then st.toNat?.map (fun s => ⟨s, slotOf h, slotOf b, none⟩) else none
  | [st, h, b, uh, ub] => st.toNat?.map (fun s => ⟨s, slotOf h, slotOf b, some (slotOf uh, slotOf ub)⟩)
  | _ => none

def renderSlot (s : Slot) : String := if s.isEmpty then "-" else "+".intercalate s

def renderOut (o : Out) : String :=
  let up := match o.up with
    | none => "none"
    | some (h, b) => s!"{renderSlot h}/{renderSlot b}"
  s!"{o.status}/{renderSlot o.respH}/{renderSlot o.respB}/{up}"

def specAll : List Ex → List String → Bool
  | [], [] => true
  | e :: es, t :: ts => (match parseObs t with | some o => ownOut e o | none => false) && specAll es ts
  | _, _ => false

def run (plan : String) (impl : List String) : String :=
  match parsePlan 0 (plan.splitOn ","), impl with
  | some exs, [obsT] =>
    -- the pool hands the most recently returned object to the next exchange (any other order gives the same outputs
    -- while Reset is complete: theorem clean_reuse)
    let model := (Model.BufReuse.run Gen.BufReset.http [] (exs.map (fun e => (e, 0)))).map renderOut
    let obs := obsT.splitOn ","
    let agree := obs == model
    let spec := specAll exs obs
    s!"{if agree then "A" else "D"} {if spec then "S" else "V"} {",".intercalate model}"
  | _, _ => "E E bad-case"

end MosnVerif.Drive.BufReuse
