import MosnVerif.Model.XHijack
/-!
c03t10 — driver of kind `xh` (plain module, no `main`): `xh <codec> <cause> <code> <kind> <reqid> => fin=<b> n=<k> <typ>:<id>:<status>:<dec>,…`
`A` = the frames the client received equal `Model.XHijack.replies` (regenerated Hijack / Mapping / endStream facts).
`Spec` is written from the protocols' documentation and the property only (no regenerated definition): a two-way request is
answered by exactly one response-type frame that MOSN's codec decodes, with the REQUEST's id, whose status is the documented
one for the fixed causes (404 / 502 / 503 / 504 / 500) and a valid ERROR status of the protocol for every other code but
200; the proxy finished the request; a one-way request is finished and never answered; a heartbeat is answered by exactly
one heartbeat ack with its id.
-/
namespace MosnVerif.Drive.C03XH
open MosnVerif.Model.XHijack

def kindOf : String → Option Kind
  | "tw" => some .tw | "ow" => some .ow | "hb" => some .hb | _ => none

def renderFrame (f : Bool × Reply) : String := s!"{if f.1 then "h" else "r"}:{f.2.id}:{f.2.status}:1"

def render (k : Kind) (fs : List (Bool × Reply)) : String :=
  let fin := if k == .hb then "fin=0" else "fin=1"
  let head := s!"{fin} n={fs.length}"
  if fs.isEmpty then head else head ++ " " ++ ",".intercalate (fs.map renderFrame)

def two32 : Nat := 4294967296

/-- documented status of the fixed causes, per codec (bolt: NoProcessor 6 / ThreadpoolBusy 4 / Timeout 7 / Unknown 3; dubbo:
SERVICE_NOT_FOUND 60 / BAD_REQUEST 40 / CLIENT_TIMEOUT 30 / SERVICE_ERROR 70; thrift exception types; tars return codes) -/
def documented (codec cause : String) : Option Nat :=
  match codec, cause with
  | "bolt", "nr" | "boltv2", "nr" | "bolt", "nh" | "boltv2", "nh" => some 6
  | "bolt", "po" | "boltv2", "po" => some 4
  | "bolt", "to" | "boltv2", "to" => some 7
  | "bolt", "xr" | "boltv2", "xr" => some 3
  | "dubbo", "nr" | "dubbo", "nh" => some 60
  | "dubbo", "po" => some 40
  | "dubbo", "to" => some 30
  | "dubbo", "xr" => some 70
  | "thrift", "nr" => some 1
  | "thrift", "nh" | "thrift", "po" => some 0
  | "thrift", "to" | "thrift", "xr" => some 6
  | "tars", "nr" => some (two32 - 4)
  | "tars", "nh" => some (two32 - 8)
  | "tars", "po" => some (two32 - 9)
  | "tars", "to" => some (two32 - 7)
  | "tars", "xr" => some (two32 - 99)
  | _, _ => none

/-- a valid ERROR status of the protocol -/
def errorStatus (codec : String) (st : Nat) : Bool :=
  match codec with
  | "bolt" | "boltv2" => (1 ≤ st && st ≤ 9) || st == 16 || st == 17 || st == 18
  | "dubbo" => [30, 31, 40, 50, 60, 70, 80, 90, 100].contains st
  | "thrift" => st ≤ 10
  | "tars" => 2147483648 ≤ st && st < two32
  | _ => false

def okSt (codec : String) : Nat :=
  match codec with
  | "dubbo" => 20 | "thrift" => 65535 | _ => 0

def spec (codec cause : String) (code : Nat) (kind : String) (reqId : Nat) (impl : List String) : Bool :=
  match kind, impl with
  | "ow", ["fin=1", "n=0"] => true
  | "hb", ["fin=0", "n=1", f] => f == s!"h:{reqId}:{okSt codec}:1"
  | "tw", ["fin=1", "n=1", f] =>
    match f.splitOn ":" with
    | ["r", id, st, "1"] =>
      id == toString reqId &&
      (match st.toNat? with
       | none => false
       | some s =>
         if cause == "up" then s == okSt codec
         else match documented codec cause with
           | some d => s == d
           | none => code == 200 || errorStatus codec s)
    | _ => false
  | _, _ => false

def run (caseToks impl : List String) : String :=
  match caseToks with
  | ["xh", codec, cause, codeT, kindT, idT] =>
    match Codec.ofString codec, codeT.toNat?, kindOf kindT, idT.toNat? with
    | some c, some code, some k, some id =>
      let out := render k (replies c k (cause == "up") id code)
      let agree := out == " ".intercalate impl
      s!"{if agree then "A" else "D"} {if spec codec cause code kindT id impl then "S" else "V"} {out}"
    | _, _, _, _ => "E E bad-xh"
  | _ => "E E bad-xh"

end MosnVerif.Drive.C03XH
