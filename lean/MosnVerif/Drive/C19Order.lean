import MosnVerif.Drive.Util
import MosnVerif.Model.ConfigOrder
/-!
Driver of the `order` cases of C19 (harness/c19/order.go).

`order <i> X=<elems in config order> L=<names> C=<names> R=<names>
   => run L=… C=… R=… X=… dump L=… C=… R=… X=… reload L=… C=… R=… X=…  |  unloadable:<why>  |  … reload-fails:<why>`
element = `<key>/<path>=<label>.<label>…/<path>=…` (every JSON array inside the element, items in order), lists joined by `,`.

Model (A/D): `load` of the case gives the running `extends` (exact, order and in-place replacement of a repeated type) and
the key sets of the three tables; `dumpBy` with the REGENERATED plan applied to the running state the implementation reports
gives the dump, `load` of that the reload; name-keyed lists are compared sorted by key, everything else exactly.
Predicate (S/V, implementation tokens only, independent of the plan): the dumped and the reloaded `extends` are the running
list in the running order, and the dumped / reloaded listeners, clusters, routers are the running elements — every list
inside them in the same order — up to the order of the three name-keyed lists themselves.
-/
namespace MosnVerif.Drive.C19Order
open MosnVerif.Drive MosnVerif.Model.ConfigOrder MosnVerif.Model.OrderTypes

abbrev E := Elem String

def parseElem (tok : String) : Option E :=
  match tok.splitOn "/" with
  | [] => none
  | k :: subs =>
    (subs.mapM (fun (s : String) =>
      match s.splitOn "=" with
      | [p, labs] => some (p, if labs == "" then [] else labs.splitOn ".")
      | _ => none)).map (fun b => ⟨k, b⟩)

def parseList (tok : String) : Option (List E) :=
  if tok == "-" then some [] else (tok.splitOn ",").mapM parseElem

def field (pre tok : String) : Option (List E) :=
  if tok.startsWith pre then parseList (tok.drop pre.length).toString else none

def showElem (e : E) : String := "/".intercalate (e.key :: e.body.map (fun p => s!"{p.1}={".".intercalate p.2}"))

def leS (a b : String) : Bool := !(decide (b < a))

/-- canonical form of a name-keyed list: sorted by the printed element -/
def canonKeyed (l : List E) : List String := sortStrings (l.map showElem)

def section4 (toks : List String) : Option (Cfg String) :=
  match toks with
  | [l, c, r, x] =>
    match field "L=" l, field "C=" c, field "R=" r, field "X=" x with
    | some l, some c, some r, some x => some ⟨l, c, r, x⟩
    | _, _, _, _ => none
  | _ => none

def sameCfg (a b : Cfg String) : Bool :=
  a.extends_ == b.extends_ && canonKeyed a.listeners == canonKeyed b.listeners &&
  canonKeyed a.clusters == canonKeyed b.clusters && canonKeyed a.routers == canonKeyed b.routers

def sameKeys (a b : Cfg String) : Bool :=
  a.extends_ == b.extends_ && sortStrings (keys a.listeners) == sortStrings (keys b.listeners) &&
  sortStrings (keys a.clusters) == sortStrings (keys b.clusters) && sortStrings (keys a.routers) == sortStrings (keys b.routers)

def order (caseToks impl : List String) : String :=
  match caseToks with
  | [_, x, l, c, r] =>
    match section4 [l, c, r, x], genPlan with
    | none, _ => "E E bad-case"
    | _, none => "E E no-regenerated-plan"
    | some cfg, some plan =>
      match impl with
      | [t] => if t.startsWith "unloadable:" then "A S unloadable" else "E E bad-impl"
      | "run" :: l1 :: c1 :: r1 :: x1 :: "dump" :: l2 :: c2 :: r2 :: x2 :: rest =>
        match section4 [l1, c1, r1, x1], section4 [l2, c2, r2, x2] with
        | some run, some dump =>
          let mrun := load cfg
          let mdump := dumpBy leS plan id id id run
          let mre := load mdump
          match rest with
          | ["reload", l3, c3, r3, x3] =>
            match section4 [l3, c3, r3, x3] with
            | some re =>
              let agree := sameKeys mrun run && sameCfg mdump dump && sameCfg mre re
              let spec := sameCfg dump run && sameCfg re run
              s!"{if agree then "A" else "D"} {if spec then "S" else "V"} X={",".intercalate (mre.extends_.map showElem)}"
            | none => "E E bad-impl"
          | [t] =>
            -- the dump does not load again: never what the model says
            if t.startsWith "reload-fails:" then s!"D V {t}" else "E E bad-impl"
          | _ => "E E bad-impl"
        | _, _ => "E E bad-impl"
      | _ => "E E bad-impl"
  | _ => "E E bad-case"

end MosnVerif.Drive.C19Order
