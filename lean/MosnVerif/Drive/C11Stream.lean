import MosnVerif.Drive.Util
import MosnVerif.Model.HandoverStream
/-! driver of the C11 kind `hwl` (c11w9: a large write in progress when the connection is handed over).  Core Lean only. -/
namespace MosnVerif.Drive.C11S
open MosnVerif.Drive MosnVerif MosnVerif.Model.HandoverStream MosnVerif.Gen.HandoverLock

def verdict (agree spec : Bool) (out : String) : String :=
  s!"{if agree then "A" else "D"} {if spec then "S" else "V"} {out}"

def kv (toks : List String) (k : String) : Option String :=
  toks.findSome? (fun t => match t.splitOn "=" with
    | [a, b] => if a == k then some b else none
    | _ => none)

def kvNat (toks : List String) (k : String) : Option Nat := (kv toks k).bind String.toNat?

/-- `hwl sz= f2= n3= => early= w1fin= adopted= werr= stream=`.  The model runs the harness's schedule on the
regenerated step lists: write 1 (4 partial writes; blocked after 2 because nobody reads) - the hand-over takes all the
steps it can - [early: did the descriptor leave?] - the client reads: the new process's frame and the rest of write 1
compete (new writer first, as in the harness, where its frame is issued before the client reads), the hand-over
finishes, the new process writes, then the old process issues n3 more writes.  Reference (literal): the descriptor left only
after write 1 was complete, write 1 completed, the connection was adopted, no write failed and the client received
exactly write1 ++ write2 ++ write3… -/
def hwl (c impl : List String) : String :=
  match kvNat c "sz", kvNat c "f2", kvNat c "n3" with
  | some _, some _, some n3 =>
    let W := writeSteps
    let H := handoverSteps
    let later : List Wr := (List.range n3).map (fun i => ⟨3 + i, 1⟩)
    let blockedAt := 1 + W.idxOf WStep.io + 2
    let sA := run W H (init [⟨1, 4⟩] [⟨2, 1⟩]) (List.replicate blockedAt Ev.o)
    let sB := run W H sA (List.replicate H.length Ev.h)
    let early := sB.fdSent
    let sC1 := run W H sB ([Ev.n, Ev.n] ++ List.replicate (W.length + 4) Ev.o ++ List.replicate H.length Ev.h ++ [Ev.n, Ev.n])
    let sC := run W H { sC1 with opend := later } (List.replicate ((W.length + 3) * (n3 + 1)) Ev.o)
    let w1fin := sC.rsock.any (fun e => e.side == Side.old && e.id == 1 && e.idx + 1 == e.k)
    let ok := intactR sC.rsock
    let out := s!"early={if early then 1 else 0} w1fin={if w1fin then 1 else 0} adopted={if sC.fdSent then 1 else 0} werr=0 stream={if ok then "intact" else "corrupt"}"
    let g (k : String) := (kv impl k).getD "?"
    let spec := g "early" == "0" && g "w1fin" == "1" && g "adopted" == "1" && g "werr" == "0" && g "stream" == "intact"
    verdict (joinWith " " impl == out) spec out
  | _, _, _ => "E E bad-case"

end MosnVerif.Drive.C11S
