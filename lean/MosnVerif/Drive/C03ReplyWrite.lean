import MosnVerif.Drive.Util
import MosnVerif.Model.ReplyWrite
/-!
C03 helper driver (c03w10), kind `rw`: the reply write path with a FAILING downstream sender.

  rw <src> <f_h><f_d><f_t> <reset>  =>  calls=<h|d|t><eos><+|->,…|- dr=<n> ur=<n> logs=<n> down=<n> streams=<n> up=<n> done=<b> st=<status|->

src    up:<code>:<d><t> (complete upstream answer) | st:<code>:<d><t> (head of a streamed answer: the upstream stream is still
       open) | loc:<why>:<code>:<b> (a reply MOSN generates itself, with / without body)
f_x    1 = the sender call of that part returns an error
reset  `-` | `h` | `d` | `t`: the client's reset of the downstream stream is delivered from inside that sender call;
       `H` | `D` | `T`: the connection-close event (proxy.onDownstreamEvent) is delivered from inside that call

`A` = the model (`Model/ReplyWrite.lean`: the REGENERATED bodies of appendHeaders / appendData / appendTrailers inside the
regenerated callers' sequence; the reset op inserted right after the `call` step of the named part; the reply shape of MOSN's
own replies from the regenerated effects of sendHijackReply[WithBody]) produces the implementation's line token for token.

`S` (about the IMPLEMENTATION's output, from the case alone — no regenerated definition is used):
  1. the exchange is finished and its clean-up ran exactly once: done, one access-log event, DownstreamRequestActive back at 0,
     the stream off the proxy's active list, no upstream request left active           — `reply_write_ends_once`, `write_error_never_strands`
  2. the sender calls are a prefix of the reply's parts in order (headers, [data], [trailers]; end of stream exactly on the
     last part of the reply) — the whole reply when the client stays, whatever the sender returned — `reply_write_ends_once`, `header_only_reply_ends`
  3. the proxy resets the downstream stream at most once, and not at all when every write succeeded
-/
namespace MosnVerif.Drive.C03RW
open MosnVerif.Drive MosnVerif.Model.ReplyWrite

def b01 (s : String) : Option Bool := if s == "1" then some true else if s == "0" then some false else none

def bs (b : Bool) : String := if b then "1" else "0"

structure Case where
  streamed : Bool     -- the upstream stream is still open when the reply is written
  loc : Bool          -- a reply MOSN generated itself
  body : Bool         -- as the source says: the answer / local reply has a body …
  trailers : Bool     -- … trailers
  code : Nat
  outs : Outs
  reset : Option Part
  viaConn : Bool := false

def parseDT (dt : String) : Option (Bool × Bool) :=
  match dt.toList with
  | [d, t] => do pure (← b01 d.toString, ← b01 t.toString)
  | _ => none

def parsePart (s : String) : Option (Option Part × Bool) :=
  if s == "-" then some (none, false) else if s == "h" then some (some .headers, false) else if s == "d" then some (some .data, false)
  else if s == "t" then some (some .trailers, false) else if s == "H" then some (some .headers, true)
  else if s == "D" then some (some .data, true) else if s == "T" then some (some .trailers, true) else none

def parseCase : List String → Option Case
  | ["rw", src, fail, reset] => do
    let rs ← parsePart reset
    let o ← match fail.toList with
      | [h, d, t] => do pure (⟨!(← b01 h.toString), !(← b01 d.toString), !(← b01 t.toString)⟩ : Outs)
      | _ => none
    match src.splitOn ":" with
    | ["up", code, dt] => do
      let (d, t) ← parseDT dt
      pure ⟨false, false, d, t, ← code.toNat?, o, rs.1, rs.2⟩
    | ["st", code, dt] => do
      let (d, t) ← parseDT dt
      pure ⟨true, false, d, t, ← code.toNat?, o, rs.1, rs.2⟩
    | ["loc", _, code, b] => do pure ⟨false, true, ← b01 b, false, ← code.toNat?, o, rs.1, rs.2⟩
    | _ => none
  | _ => none

/-- the reply the model writes: an upstream answer as received; a local reply as the REGENERATED effects of
sendHijackReply / sendHijackReplyWithBody leave the stored parts (nothing was held before) -/
def modelReply (cs : Case) : Reply := if cs.loc then hijackShape cs.body false false else ⟨cs.body, cs.trailers⟩

/-- the position right after the `call` step of part `p` in the op list (beyond the end when the part is not written) -/
def posAfterCall (l : List Op) (p : Part) : Nat :=
  let rec go (l : List Op) (i : Nat) (inPart : Bool) : Nat :=
    match l with
    | [] => i + 1
    | .enter q _ _ :: r => go r (i + 1) (q == p)
    | .stmt _ .call :: r => if inPart then i + 1 else go r (i + 1) inPart
    | _ :: r => go r (i + 1) inPart
  go l 0 false

def letter : Part → String
  | .headers => "h"
  | .data => "d"
  | .trailers => "t"

def renderCalls (ev : List Ev) : String :=
  let cs := ev.filterMap (fun e => match e with
    | .call p eos ok => some s!"{letter p}{bs eos}{if ok then "+" else "-"}"
    | _ => none)
  if cs.isEmpty then "-" else joinWith "," cs

def countEv (ev : List Ev) (e : Ev) : Nat := (ev.filter (· == e)).length

def model (cs : Case) : RW :=
  let r := modelReply cs
  let rp := match cs.reset with
    | some p => posAfterCall (ops genProgs r) p
    | none => 17
  writeReply genProgs r cs.outs rp cs.viaConn (start false cs.streamed)

def render (cs : Case) (f : RW) : String :=
  let st := if (f.ev.any isCall) then toString cs.code else "-"
  s!"calls={renderCalls f.ev} dr={countEv f.ev .dr} ur={countEv f.ev .ur} logs={cleans f} down={f.active} streams={if f.listed then 1 else 0} up={if f.upLive then 1 else 0} done={bs f.cleaned} st={st}"

structure Impl where
  calls : List (String × Bool × Bool)   -- part letter, eos, ok
  dr : Nat
  ur : Nat
  logs : Nat
  down : Int
  streams : Nat
  up : Int
  done : Bool

def field (t k : String) : Option String := if t.startsWith (k ++ "=") then some ((t.drop (k.length + 1)).toString) else none

def parseCall (s : String) : Option (String × Bool × Bool) :=
  match s.toList with
  | [p, e, k] => do
    let e ← b01 e.toString
    let ok ← if k == '+' then some true else if k == '-' then some false else none
    if p == 'h' || p == 'd' || p == 't' then pure (p.toString, e, ok) else none
  | _ => none

def parseImpl : List String → Option Impl
  | [c, dr, ur, lg, dn, st, up, dn1, _] => do
    let c ← field c "calls"
    let calls ← if c == "-" then some [] else (c.splitOn ",").mapM parseCall
    pure ⟨calls, ← (← field dr "dr").toNat?, ← (← field ur "ur").toNat?, ← (← field lg "logs").toNat?,
      ← parseInt? (← field dn "down"), ← (← field st "streams").toNat?, ← parseInt? (← field up "up"), ← b01 (← field dn1 "done")⟩
  | _ => none

/-- declarative: the parts of a reply in order, with the end-of-stream flag each must carry -/
def expectedParts (body trailers : Bool) : List (String × Bool) :=
  [("h", !body && !trailers)] ++ (if body then [("d", !trailers)] else []) ++ (if trailers then [("t", true)] else [])

def isPrefix : List (String × Bool) → List (String × Bool) → Bool
  | [], _ => true
  | _ :: _, [] => false
  | a :: r, b :: s => a == b && isPrefix r s

def spec (cs : Case) (i : Impl) : Bool :=
  let want := expectedParts cs.body (cs.trailers && !cs.loc)
  let got := i.calls.map (fun c => (c.1, c.2.1))
  i.done && i.logs == 1 && i.down == 0 && i.streams == 0 && i.up == 0
  && isPrefix got want && (cs.reset.isSome || got == want)
  && i.dr ≤ 1 && (i.calls.any (fun c => !c.2.2) || i.dr == 0)

def run (caseToks impl : List String) : String :=
  match parseCase caseToks, parseImpl impl with
  | some cs, some i =>
    let out := render cs (model cs)
    s!"{if out == joinWith " " impl then "A" else "D"} {if spec cs i then "S" else "V"} {out}"
  | _, _ => "E E bad-rw"

end MosnVerif.Drive.C03RW
