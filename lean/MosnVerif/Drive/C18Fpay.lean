import MosnVerif.Drive.Util
import MosnVerif.Model.H2Payload
/-! `mosnmodel` side of the C18 kind `fpay` (core Lean only): frame payload parsers and writers of every frame type. -/
namespace MosnVerif.Drive.C18Fpay
open MosnVerif.Drive MosnVerif.Model.H2Payload
open MosnVerif.Model.H2Frame (FrameHeader Priority Bytes encodeHeader)

def verdict (agree spec : Bool) (out : String) : String :=
  s!"{if agree then "A" else "D"} {if spec then "S" else "V"} {out}"

def b01 (b : Bool) : String := if b then "1" else "0"
def orDash (s : String) : String := if s.isEmpty then "-" else s

def prioTok (p : Priority) : String := s!"{p.streamDep}.{b01 p.exclusive}.{p.weight}"

def bodyTok (h : FrameHeader) : Body → String
  | .data d => s!"D:{h.streamID}:{h.flags}:{hex d}"
  | .headers prio frag => s!"H:{h.streamID}:{h.flags}:{match prio with | some p => prioTok p | none => "-"}:{hex frag}"
  | .priority p => s!"Y:{h.streamID}:{prioTok p}"
  | .rst code => s!"R:{h.streamID}:{code}"
  | .settings ss => s!"S:{h.flags}:{orDash (joinWith ";" (ss.map (fun x => s!"{x.1}={x.2}")))}"
  | .pushPromise promised frag => s!"PP:{h.streamID}:{h.flags}:{promised}:{hex frag}"
  | .ping d => s!"P:{h.flags}:{hex d}"
  | .goAway last code dbg => s!"G:{last}:{code}:{hex dbg}"
  | .windowUpdate inc => s!"W:{h.streamID}:{inc}"
  | .continuation frag => s!"C:{h.streamID}:{h.flags}:{hex frag}"
  | .unknown p => s!"U:{h.type}:{h.flags}:{h.streamID}:{hex p}"

def errTok : PErr → String
  | .conn c => s!"E:conn:{c}"
  | .stream sid c => s!"E:stream:{sid}:{c}"
  | .short => "E:other"

/-- `MFramer.ReadFrame` on one frame whose header was read; a CONTINUATION frame follows a HEADERS frame on stream 1 without
END_HEADERS (`checkFrameOrder` after the parser) -/
def readOne (h : FrameHeader) (p : Bytes) : String :=
  match parsePayload h p with
  | .error e => errTok e
  | .ok b =>
    if h.type == 9 && h.streamID != 1 then "E:conn:1" else bodyTok h b

def classTok (t : String) : Class :=
  match t.splitOn ":" with
  | ["E", "conn", c] => .conn (c.toNat?.getD 999)
  | ["E", "stream", _, c] => .stream (c.toNat?.getD 999)
  | ["E", "other"] => .malformed
  | _ => .ok

/-- does the implementation's answer agree with the table of RFC 7540 §6 (and §6.10 for the order of CONTINUATION)? -/
def rfcOk (ty flags sid : Nat) (p : Bytes) (tok : String) : Bool :=
  let v := rfcViolations ty flags sid p
  let c := classTok tok
  if v.isEmpty then
    (if ty == 9 && sid != 1 then c == .conn PROTOCOL_ERROR else c == .ok)
  else v.contains c

def parseCase (ty fl sid hexTok : String) (impl : List String) : String :=
  match ty.toNat?, fl.toNat?, sid.toNat?, unhex hexTok, impl with
  | some ty, some fl, some sid, some p, [m, x] =>
    let h : FrameHeader := { length := p.length, type := ty, flags := fl, streamID := sid % 2 ^ 31 }
    let model := readOne h p
    let mt := (m.drop 2).toString
    verdict (m == "m=" ++ model) (x == "x=" ++ mt && rfcOk ty fl (sid % 2 ^ 31) p mt) model
  | _, _, _, _, _ => "E E bad-fpay-p"

/-! ### writers -/

def nat? (s : String) : Option Nat := s.toNat?

def parsePrio (s : String) : Option Priority :=
  match s.splitOn "." with
  | [d, e, w] => match d.toNat?, w.toNat? with
    | some d, some w => some { streamDep := d, exclusive := e == "1", weight := w }
    | _, _ => none
  | _ => none

def parseSettingsSpec (s : String) : Option (List (Nat × Nat)) :=
  if s == "-" then some [] else
  (s.splitOn ";").mapM (fun kv => match kv.splitOn "=" with
    | [k, v] => match k.toNat?, v.toNat? with
      | some k, some v => some (k, v)
      | _, _ => none
    | _ => none)

/-- the frame of a case specification; `nz` = non-zero padding given literally -/
def parseSpec (spec : String) : Option Frame :=
  match spec.splitOn ":" with
  | ["S", ss] => (parseSettingsSpec ss).map Frame.settings
  | ["SA", _] => some .settingsAck
  | ["P", ack, d] => (unhex d).map (Frame.ping (ack == "1"))
  | ["G", last, code, dbg] => match last.toNat?, code.toNat?, unhex dbg with
    | some l, some c, some d => some (.goAway l c d)
    | _, _, _ => none
  | ["W", sid, incr] => match sid.toNat?, incr.toNat? with
    | some s, some i => some (.windowUpdate s i)
    | _, _ => none
  | ["R", sid, code] => match sid.toNat?, code.toNat? with
    | some s, some c => some (.rst s c)
    | _, _ => none
  | ["Y", sid, pr] => match sid.toNat?, parsePrio pr with
    | some s, some p => some (.priority s p)
    | _, _ => none
  | ["PP", sid, pid, eh, pl, frag] => match sid.toNat?, pid.toNat?, pl.toNat?, unhex frag with
    | some s, some p, some l, some f => some (.pushPromise s p (eh == "1") l f)
    | _, _, _, _ => none
  | ["C", sid, eh, frag] => match sid.toNat?, unhex frag with
    | some s, some f => some (.continuation s (eh == "1") f)
    | _, _ => none
  | ["U", t, fl, sid, pl] => match t.toNat?, fl.toNat?, sid.toNat?, unhex pl with
    | some t, some fl, some s, some p => some (.raw t fl s p)
    | _, _, _, _ => none
  | ["D", sid, es, d, padKind, padHex] => match sid.toNat?, unhex d with
    | some s, some d =>
      if padKind == "nz" then (unhex padHex).map (fun p => Frame.data s (es == "1") d (some p))
      else (unhex padKind).bind (fun l => match l with
        | [n] => some (Frame.data s (es == "1") d (some (List.replicate n.toNat 0)))
        | _ => none)
    | _, _ => none
  | ["D", sid, es, d, "-"] => match sid.toNat?, unhex d with
    | some s, some d => some (.data s (es == "1") d none)
    | _, _ => none
  | ["H", sid, es, eh, pl, pr, frag] => match sid.toNat?, pl.toNat?, parsePrio pr, unhex frag with
    | some s, some l, some p, some f => some (.headers s (es == "1") (eh == "1") l p f)
    | _, _, _, _ => none
  | _ => none

def wireOf : Option (FrameHeader × Bytes) → String
  | none => "refused"
  | some (h, p) => match encodeHeader h with
    | some hb => hex (hb ++ p)
    | none => "refused"

def validSid (s : Nat) : Bool := s != 0 && s < 2 ^ 31

/-- declarative: must the writer refuse these arguments? (RFC 7540: stream identifiers are 31 bits and non-zero where a
stream is required, §6.9 increments 1..2^31-1, §6.1 padding octets are zero and at most 255) -/
def mustRefuse : Frame → Bool
  | .data sid _ _ pad => !validSid sid || (match pad with | some p => p.length > 255 || p.any (· != 0) | none => false)
  | .headers sid _ _ _ pr _ => !validSid sid || (!prioZero pr && pr.streamDep ≥ 2 ^ 31)
  | .priority sid p => !validSid sid || p.streamDep ≥ 2 ^ 31
  | .rst sid _ => !validSid sid
  | .pushPromise sid pid _ _ _ => !validSid sid || !validSid pid
  | .windowUpdate _ incr => incr == 0 || incr ≥ 2 ^ 31
  | .continuation sid _ _ => !validSid sid
  | _ => false

/-- declarative: what a conformant reader reports for the written frame (31-bit fields masked, flags from the arguments) -/
def expectTok : Frame → String
  | .data sid es d pad => s!"D:{sid % 2 ^ 31}:{(if es then 1 else 0) + (if pad.isSome then 8 else 0)}:{hex d}"
  | .headers sid es eh pl pr frag =>
    let fl := (if es then 1 else 0) + (if eh then 4 else 0) + (if pl != 0 then 8 else 0) + (if prioZero pr then 0 else 32)
    s!"H:{sid % 2 ^ 31}:{fl}:{if prioZero pr then "-" else prioTok pr}:{hex frag}"
  | .priority sid p => s!"Y:{sid % 2 ^ 31}:{prioTok p}"
  | .rst sid code => s!"R:{sid % 2 ^ 31}:{code}"
  | .settings ss => s!"S:0:{orDash (joinWith ";" (ss.map (fun x => s!"{x.1}={x.2}")))}"
  | .settingsAck => "S:1:-"
  | .pushPromise sid pid eh pl frag => s!"PP:{sid % 2 ^ 31}:{(if eh then 4 else 0) + (if pl != 0 then 8 else 0)}:{pid % 2 ^ 31}:{hex frag}"
  | .ping ack d => s!"P:{b01 ack}:{hex d}"
  | .goAway last code dbg => s!"G:{last % 2 ^ 31}:{code}:{hex dbg}"
  | .windowUpdate sid incr => s!"W:{sid % 2 ^ 31}:{incr}"
  | .continuation sid eh frag => if sid % 2 ^ 31 != 1 then "E:conn:1" else s!"C:{sid % 2 ^ 31}:{if eh then 4 else 0}:{hex frag}"
  | .raw t fl sid pl => s!"U:{t}:{fl}:{sid % 2 ^ 31}:{hex pl}"

/-- a SETTINGS frame whose first INITIAL_WINDOW_SIZE is beyond 2^31-1 is written, and refused by the reader -/
def expectRead (f : Frame) : String :=
  match f with
  | .settings ss => match ss.find? (fun s => s.1 == 4) with
    | some s => if s.2 > 2 ^ 31 - 1 then "E:conn:3" else expectTok f
    | none => expectTok f
  | _ => expectTok f

def writeCase (spec : String) (impl : List String) : String :=
  match parseSpec spec, impl with
  | some f, [m, x, xr, mr, mm] =>
    let model := wireOf (f.write false)
    let mmodel := match f.mwrite false with
      | some w => wireOf (some w)
      | none => "refused"
    let mt := (m.drop 2).toString
    let agree := m == "m=" ++ model && (mm == "mm=-" || mm == "mm=" ++ mmodel)
    let refused := mt == "refused"
    let spec := x == "x=" ++ mt && refused == mustRefuse f &&
      (refused || (xr == "xr=" ++ expectRead f && mr == "mr=" ++ expectRead f)) &&
      (mm == "mm=-" || mm == "mm=" ++ mt || (mm == "mm=refused" && refused))
    verdict agree spec (if model.length > 120 then (model.take 120).toString else model)
  | _, _ => "E E bad-fpay-w"

/-! ### the frames the connections write in line -/

def be32Bytes (v : Nat) : Bytes := [UInt8.ofNat (v / 2 ^ 24), UInt8.ofNat (v / 2 ^ 16), UInt8.ofNat (v / 2 ^ 8), UInt8.ofNat v]

/-- declarative wire image of a frame: 24-bit length, type, flags, 31-bit stream id, payload -/
def refWire (ty fl sid : Nat) (p : Bytes) : String :=
  hex ([UInt8.ofNat (p.length / 2 ^ 16), UInt8.ofNat (p.length / 2 ^ 8), UInt8.ofNat p.length, UInt8.ofNat ty, UInt8.ofNat fl] ++
    be32Bytes (sid % 2 ^ 31) ++ p)

/-- one event: (model's octets, reference octets, new highest stream id) -/
def inlineEv (server : Bool) (maxSid : Nat) (ev : String) : Option (String × String × Nat) :=
  match ev.splitOn ":" with
  | ["ping", d] => (unhex d).map (fun d => (wireOf ((Frame.ping true d).mwrite server), refWire 6 1 0 d, maxSid))
  | ["set", _] => some (wireOf (Frame.settingsAck.mwrite server), refWire 4 1 0 [], maxSid)
  | ["open", sid] => sid.toNat?.map (fun s => ("-", "-", max maxSid s))
  | ["shutdown"] => some (wireOf ((Frame.goAway maxSid 0 []).mwrite server), refWire 7 0 0 (be32Bytes maxSid ++ be32Bytes 0), maxSid)
  | ["push"] => some (wireOf ((Frame.goAway maxSid 1 []).mwrite server), refWire 7 0 0 (be32Bytes maxSid ++ be32Bytes 1), maxSid)
  | ["data", sid] => sid.toNat?.map (fun s =>
      -- the 3 octets are handed back to the connection window, the stream (half-closed by the request) is reset: STREAM_CLOSED
      (wireOf ((Frame.windowUpdate 0 3).mwrite server) ++ "+" ++ wireOf ((Frame.rst s 5).mwrite server),
       refWire 8 0 0 (be32Bytes 3) ++ "+" ++ refWire 3 0 s (be32Bytes 5), maxSid))
  | ["wping", ack, d] => (unhex d).map (fun d => (wireOf ((Frame.ping (ack == "1") d).mwrite server), refWire 6 (if ack == "1" then 1 else 0) 0 d, maxSid))
  | _ => none

def inlineCase (side evs : String) (impl : List String) : String :=
  match impl with
  | [outs] =>
    let server := side == "server"
    let r := (evs.splitOn ",").foldl (fun (acc : Option (List String × List String × Nat)) ev =>
      match acc with
      | none => none
      | some (ms, rs, mx) => match inlineEv server mx ev with
        | none => none
        | some (m, r, mx') => some (m :: ms, r :: rs, mx')) (some ([], [], 0))
    match r with
    | none => "E E bad-fpay-i"
    | some (ms, rs, _) =>
      let model := joinWith "," ms.reverse
      verdict (model == outs) (joinWith "," rs.reverse == outs) (if model.length > 120 then (model.take 120).toString else model)
  | _ => "E E bad-fpay-i"

def run (toks impl : List String) : String :=
  match toks with
  | ["i", side, evs] => inlineCase side evs impl
  | ["p", ty, fl, sid, h] => parseCase ty fl sid h impl
  | ["w", spec] => writeCase spec impl
  | _ => "E E bad-fpay"

end MosnVerif.Drive.C18Fpay
