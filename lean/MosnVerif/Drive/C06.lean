import MosnVerif.Drive.Util
import MosnVerif.Model.WeightedCluster
import MosnVerif.Model.LB
import MosnVerif.Model.EdfConc
import MosnVerif.Model.WrrHealth
import MosnVerif.Model.WcLock
namespace MosnVerif.Drive.C06
open MosnVerif.Drive MosnVerif.Model.WeightedCluster

def parseVec (s : String) : Option (List Entry) :=
  (s.splitOn ",").mapM (fun kv => match kv.splitOn ":" with
    | [k, w] => w.toNat?.map (fun n => (k, n))
    | _ => none)

/-- `wc <name:weight,...> <draw> => <result|->`: the real map order is unknown to the harness, so the
implementation result must lie in `{select π draw | π a permutation}`; the property predicate additionally
rejects a zero-weight result and a fall-through. -/
def wc (vec draw : String) (impl : List String) : String :=
  match parseVec vec, draw.toNat?, impl with
  | some l, some v, [r] =>
    let allowed := sortStrings (dedup ((perms l).map (fun p => (select p v).getD "-")))
    let agree := allowed.contains r
    -- the property predicate is independent of the regenerated scan: declarative interval partition
    let allowedRef := (perms l).map (fun p => (selectRef p v).getD "-")
    let zero := l.any (fun e => e.1 == r && e.2 == 0)
    let spec := r != "-" && !zero && allowedRef.contains r
    s!"{if agree then "A" else "D"} {if spec then "S" else "V"} {joinWith "," allowed}"
  | _, _, _ => "E E bad-case"

section WRR
open MosnVerif.Model.LB MosnVerif.Model.EDF

structure WAcc where
  st : LBState
  pos : Nat := 0
  ties : Nat := 0                          -- picks where the float code resolved an exact tie differently from queue order
  mismatch : Option (Nat × String × Nat) := none  -- first position where the served host is not a model pick

def mkHosts (ws : List Nat) : Hosts :=
  (List.range ws.length).map (fun i => { id := i, weight := ws.getD i 0, healthy := true, req := 0, conn := 0, score := 1 })

/-- follow the served sequence on the model: every served host must be the model's pick in the state reached so far. -/
def trace (hosts : Hosts) (a : WAcc) : List Nat → WAcc
  | [] => a
  | x :: r =>
    let out := wrrChoose hosts a.st { hints := [some x] }
    let det := (wrrChoose hosts a.st {}).result
    let a1 := { a with st := out.st, pos := a.pos + 1, ties := if det == some x then a.ties else a.ties + 1 }
    if out.result == some x || a.mismatch.isSome then trace hosts a1 r
    else trace hosts { a1 with mismatch := some (a.pos, showOpt out.result, x) } r
where
  showOpt : Option Nat → String
    | none => "-"
    | some i => toString i

def digits (tok : String) : List Nat := if tok == "-" then [] else tok.toList.map (fun c => c.toNat - '0'.toNat)

def insertNat (x : Nat) : List Nat → List Nat
  | [] => [x]
  | y :: r => if x ≤ y then x :: y :: r else y :: insertNat x r

def sortNat (l : List Nat) : List Nat := l.foldr insertNat []

/-- `wrr <w0,w1,…> <rr0> <warm-up picks|-> => <served hosts, one digit each>`: the real weighted round-robin balancer
over all-healthy hosts. Agreement: every served host is the model's pick in the model state reached so far (exact ties of
deadlines may be resolved either way — the float gap); predicate: every window of the served sequence respects
`|nᵢ/wᵢ − nⱼ/wⱼ| ≤ 1/wᵢ + 1/wⱼ` for the effective weights (executable `windowsOk`). -/
def wrr (wsTok rr0Tok preTok : String) (impl : List String) : String :=
  let ws? := (wsTok.splitOn ",").mapM String.toNat?
  let pre? := if preTok == "-" then some [] else (preTok.splitOn ",").mapM String.toNat?
  match ws?, rr0Tok.toNat?, pre?, impl with
  | some ws, some rr0, some pre, [seqTok] =>
    let n := ws.length
    let hosts := mkHosts ws
    let st0 := newState .wrr hosts rr0 (pre.map some)
    let seq : List Nat := seqTok.toList.map (fun c => c.toNat - '0'.toNat)
    let a := trace hosts { st := st0 } seq
    let inRange := seq.all (fun x => decide (x < n))
    let spec := inRange && windowsOk (wrrW ws) n seq
    match a.mismatch with
    | none => s!"A {if spec then "S" else "V"} ok picks={a.pos} ties-resolved-differently={a.ties}"
    | some (p, m, x) => s!"D {if spec then "S" else "V"} first-mismatch@{p} model={m} impl={x}"
  | _, _, _, _ => "E E bad-case"

/-- `cwrr <w0,…> <rr0> <warm-up|-> <before> <k> <after> => <before picks> <picks of the k concurrent callers, callback order>
<values returned to them, sorted> <max callers at the callback at once> <after picks>`: overlapping `ChooseHost` calls on
the real balancer (gate hook). Model (theorem `nextAndPush_serializable`): concurrent callers are served as if one after
the other, so the whole sequence `before ++ concurrent ++ after` must be a trace of the sequential scheduler, and — the
regenerated step program holding the lock across the callback — at most one caller is at the callback at any time.
Predicate (independent of regenerated code): every caller is returned a host, the returned hosts are exactly the served
ones, and every window of the whole sequence respects the lag bound. -/
def cwrr (wsTok rr0Tok preTok bTok kTok aTok : String) (impl : List String) : String :=
  let ws? := (wsTok.splitOn ",").mapM String.toNat?
  let pre? := if preTok == "-" then some [] else (preTok.splitOn ",").mapM String.toNat?
  match ws?, rr0Tok.toNat?, pre?, bTok.toNat?, kTok.toNat?, aTok.toNat?, impl with
  | some ws, some rr0, some pre, some b, some k, some af, [pbTok, concTok, retTok, mhTok, paTok] =>
    let n := ws.length
    let hosts := mkHosts ws
    let st0 := newState .wrr hosts rr0 (pre.map some)
    let pb := digits pbTok
    let conc := digits concTok
    let ret := digits retTok
    let pa := digits paTok
    let seq := pb ++ conc ++ pa
    let a := trace hosts { st := st0 } seq
    let lens := pb.length == b && conc.length == k && ret.length == k && pa.length == af
    let inRange := (seq ++ ret).all (fun x => decide (x < n))
    let spec := lens && inRange && sortNat conc == sortNat ret && windowsOk (wrrW ws) n seq
    let exclusive := mhTok == "1"
    let expectExclusive := MosnVerif.Model.EdfConc.lockHeld MosnVerif.Gen.EdfLock.nextAndPush
    let v := if spec then "S" else "V"
    match a.mismatch with
    | none =>
      if expectExclusive && !exclusive then s!"D {v} callers-at-callback={mhTok} model=1"
      else s!"A {v} ok picks={a.pos} ties-resolved-differently={a.ties} at-callback={mhTok}"
    | some (p, m, x) => s!"D {v} first-mismatch@{p} model={m} impl={x} at-callback={mhTok}"
  | _, _, _, _, _, _, _ => "E E bad-case"

end WRR

section WRRHealth
open MosnVerif.Model.LB MosnVerif.Model.EDF MosnVerif.Model.WrrHealth MosnVerif.Gen

def digitOf (c : Char) : Option Nat := if c.isDigit then some (c.toNat - '0'.toNat) else none

/-- `<picks digits>/<result digit|->` -/
def parseLookup (tok : String) : Option (List Nat × Option Nat) :=
  match tok.splitOn "/" with
  | [p, r] =>
    match p.toList.mapM digitOf with
    | none => none
    | some picks =>
      if r == "-" then some (picks, none)
      else match r.toList with
        | [c] => (digitOf c).map (fun d => (picks, some d))
        | _ => none
  | _ => none

inductive HEv | flip (i : Nat) (b : Bool) | looks (k : Nat)

def parseHEv (tok : String) : Option HEv :=
  let rest := (tok.drop 1).toString
  if tok.startsWith "F" then
    match rest.splitOn "." with
    | [a, b] => match a.toNat?, b.toNat? with
      | some i, some v => some (.flip i (v != 0))
      | _, _ => none
    | _ => none
  else if tok.startsWith "L" then rest.toNat?.map .looks
  else none

structure HAcc where
  health : List Bool
  st : LBState
  impl : List Rec := []        -- the implementation's lookups as records (reversed)
  pos : Nat := 0
  mismatch : Option (Nat × String × String) := none
  bad : Bool := false

def showRec (picks : List Nat) (r : Option Nat) : String :=
  String.join (picks.map toString) ++ "/" ++ (match r with | some i => toString i | none => "-")

/-- one lookup: the implementation's record under the current health pattern; the model (the C05 function `wrrChoose`
through `stepEv`) is given the observed picks as tie hints and must make the same picks and return the same host. -/
def hLook (ws : List Nat) (a : HAcc) (picks : List Nat) (res : Option Nat) : HAcc :=
  let rc : Rec := { health := a.health, picks := picks, result := res }
  match stepEv ws a.health a.st (.look (picks.map some)) with
  | ((_, st'), some m) =>
    let ok := m.picks == picks && m.result == res
    { a with st := st', impl := rc :: a.impl, pos := a.pos + 1,
             mismatch := if ok || a.mismatch.isSome then a.mismatch
                         else some (a.pos, showRec m.picks m.result, showRec picks res) }
  | _ => { a with bad := true }

def hWalk (ws : List Nat) : HAcc → List HEv → List (List Nat × Option Nat) → HAcc
  | a, [], [] => a
  | a, [], _ :: _ => { a with bad := true }
  | a, .flip i b :: r, ls => hWalk ws { a with health := a.health.set i b } r ls
  | a, .looks 0 :: r, ls => hWalk ws a r ls
  | a, .looks (_ + 1) :: _, [] => { a with bad := true }
  | a, .looks (k + 1) :: r, (p, res) :: ls => hWalk ws (hLook ws a p res) (.looks k :: r) ls
termination_by _ evs ls => (evs.length + (evs.map (fun e => match e with | .looks k => k | _ => 0)).sum, ls.length)
decreasing_by all_goals simp_wf; all_goals (first | (apply Prod.Lex.left; simp; omega) | (apply Prod.Lex.left; omega) | (apply Prod.Lex.right; simp))

/-- `wrrh <w0,…> <build-time health, one 0/1 per host> <rr0> <warm-up picks|-> <F<i>.<0|1> | L<k> ; …> =>
<hosts added by refresh, in order|-> <picks/result of every lookup|->`: the real weighted round-robin balancer built while
some hosts fail their health check, then health flips through the real flags and lookups. Agreement: the hosts the real
`refresh` added are the ones the regenerated `refresh` adds, and every lookup makes the model's picks and returns the
model's host (observed picks as tie hints). Predicate (`specH`, independent of regenerated code): per-lookup contract and,
over every window of consecutive lookups, the lag bound for all pairs of hosts healthy throughout the window + service
of every such host within `serveWindow` lookups. -/
def wrrh (wsTok hpTok rr0Tok preTok evTok : String) (impl : List String) : String :=
  let ws? := (wsTok.splitOn ",").mapM String.toNat?
  let pre? := if preTok == "-" then some [] else (preTok.splitOn ",").mapM String.toNat?
  let hp? := hpTok.toList.mapM (fun c => if c == '1' then some true else if c == '0' then some false else none)
  let evs? := if evTok == "-" then some [] else (evTok.splitOn ";").mapM parseHEv
  match ws?, hp?, rr0Tok.toNat?, pre?, evs?, impl with
  | some ws, some hp0, some rr0, some pre, some evs, [addTok, lookTok] =>
    let adds? := if addTok == "-" then some [] else addTok.toList.mapM digitOf
    let looks? := if lookTok == "-" then some [] else (lookTok.splitOn ",").mapM parseLookup
    match adds?, looks? with
    | some adds, some looks =>
      if hp0.length != ws.length then "E E bad-case" else
      let st0 := newStateH ws hp0 rr0 (pre.map some)
      let a := hWalk ws { health := hp0, st := st0 } evs looks
      if a.bad then "E E bad-case" else
      let recs := a.impl.reverse
      let spec := specH ws recs
      let modelAdds := if EdfRefresh.skipSmall (ws.length : Int) || EdfRefresh.skipEqual "" (wsEqual ws) then []
                       else addedHosts ws hp0
      let v := if spec then "S" else "V"
      let nW := (recs.filter (·.weighted)).length
      if modelAdds != adds then s!"D {v} refresh-adds model={String.join (modelAdds.map toString)} impl={addTok}"
      else match a.mismatch with
        | none => s!"A {v} ok lookups={a.pos} weighted={nW} fallback={a.pos - nW}"
        | some (p, m, x) => s!"D {v} first-mismatch@{p} model={m} impl={x}"
    | _, _ => "E E bad-case"
  | _, _, _, _, _, _ => "E E bad-case"

end WRRHealth

section SharedGenerator
open MosnVerif.Model.WcLock

def natList (tok : String) : Option (List Nat) := if tok == "-" then some [] else (tok.splitOn ",").mapM String.toNat?

/-- `cwc <name:weight,…> <stream of draws> <before> <k> <after> => <draws handed out, in hand-out order> <max callers inside
the generator at once> <clusters returned to the k concurrent callers, sorted>`: `before` sequential `ClusterName` calls, `k`
overlapping ones (each held between the read half and the write half of the injected generator while the others are started),
`after` sequential ones on ONE weighted route. Model: the thread machine of `Model/WcLock` runs the REGENERATED step program
of `ClusterName` — the sequential requests one after the other, the concurrent ones step by step in turn (the schedule with the
most overlap) — and hands out `handed`; with the regenerated program disciplined, at most one caller is inside the generator.
Predicate (independent of regenerated code): the draws handed out are, as a multiset, exactly the first `before+k+after`
outputs of the stream (each output used once, none lost), every concurrent caller is returned a configured cluster of
positive weight. -/
def cwc (vecTok streamTok bTok kTok aTok : String) (impl : List String) : String :=
  match parseVec vecTok, natList streamTok, bTok.toNat?, kTok.toNat?, aTok.toNat?, impl with
  | some l, some stream, some b, some k, some af, [handedTok, miTok, namesTok] =>
    let n := b + k + af
    let prog := MosnVerif.Gen.WcLock.clusterName
    let steps := 2 * prog.length + 2
    let seqSched (ts : List Nat) : List Nat := ts.flatMap (fun t => List.replicate steps t)
    let conc := (List.range k).map (· + b)
    let sched := seqSched (List.range b) ++ (List.range (steps * (k + 1))).flatMap (fun _ => conc) ++
                 seqSched ((List.range af).map (· + b + k))
    let sf : Nat → Nat := fun i => stream.getD i 0
    let c := runSched sf (initConf (fun t => if t < n then prog else []) true) sched
    let model := handed c
    let exclusive := disciplined prog
    let showL (xs : List Nat) : String := if xs.isEmpty then "-" else joinWith "," (xs.map toString)
    match natList handedTok with
    | some h =>
      let names := if namesTok == "-" then [] else namesTok.splitOn ","
      let namesOk := names.length == k && names.all (fun nm => l.any (fun e => e.1 == nm && e.2 > 0))
      let spec := stream.length == n && sortNat h == sortNat (stream.take n) && namesOk
      let agree := h == model && (!exclusive || miTok == "1")
      s!"{if agree then "A" else "D"} {if spec then "S" else "V"} handed={showL model} exclusive={exclusive}"
    | none => s!"D V handed={showL model} impl={handedTok}"
  | _, _, _, _, _, _ => "E E bad-case"

end SharedGenerator

def run (caseToks impl : List String) : String :=
  match caseToks with
  | ["wc", vec, draw] => wc vec draw impl
  | ["cwc", vec, stream, b, k, a] => cwc vec stream b k a impl
  | ["wrr", ws, rr0, pre] => wrr ws rr0 pre impl
  | ["cwrr", ws, rr0, pre, b, k, a] => cwrr ws rr0 pre b k a impl
  | ["wrrh", ws, hp, rr0, pre, evs] => wrrh ws hp rr0 pre evs impl
  | _ => "E E unknown-kind"

end MosnVerif.Drive.C06
