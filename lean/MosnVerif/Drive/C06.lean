import MosnVerif.Drive.Util
import MosnVerif.Model.WeightedCluster
namespace MosnVerif.Drive.C06
open MosnVerif.Drive MosnVerif.Model.WeightedCluster

def parseVec (s : String) : Option (List Entry) :=
  (s.splitOn ",").mapM (fun kv => match kv.splitOn ":" with
    | [k, w] => w.toNat?.map (fun n => (k, n))
    | _ => none)

/-- `wc <name:weight,...> <draw> => <result|->`: the real map order is unknown to the harness, so the
implementation result must lie in `{select π draw | π a permutation}`; the property predicate additionally
rejects a zero-weight result and a fall-through. -/
def wc (vec draw : String) (impl : List String) : String :=
  match parseVec vec, draw.toNat?, impl with
  | some l, some v, [r] =>
    let allowed := sortStrings (dedup ((perms l).map (fun p => (select p v).getD "-")))
    let agree := allowed.contains r
    -- the property predicate is independent of the regenerated scan: declarative interval partition
    let allowedRef := (perms l).map (fun p => (selectRef p v).getD "-")
    let zero := l.any (fun e => e.1 == r && e.2 == 0)
    let spec := r != "-" && !zero && allowedRef.contains r
    s!"{if agree then "A" else "D"} {if spec then "S" else "V"} {joinWith "," allowed}"
  | _, _, _ => "E E bad-case"

def run (caseToks impl : List String) : String :=
  match caseToks with
  | ["wc", vec, draw] => wc vec draw impl
  | _ => "E E unknown-kind"

end MosnVerif.Drive.C06
