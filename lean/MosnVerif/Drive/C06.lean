import MosnVerif.Drive.Util
import MosnVerif.Model.WeightedCluster
import MosnVerif.Model.LB
namespace MosnVerif.Drive.C06
open MosnVerif.Drive MosnVerif.Model.WeightedCluster

def parseVec (s : String) : Option (List Entry) :=
  (s.splitOn ",").mapM (fun kv => match kv.splitOn ":" with
    | [k, w] => w.toNat?.map (fun n => (k, n))
    | _ => none)

/-- `wc <name:weight,...> <draw> => <result|->`: the real map order is unknown to the harness, so the
implementation result must lie in `{select π draw | π a permutation}`; the property predicate additionally
rejects a zero-weight result and a fall-through. -/
def wc (vec draw : String) (impl : List String) : String :=
  match parseVec vec, draw.toNat?, impl with
  | some l, some v, [r] =>
    let allowed := sortStrings (dedup ((perms l).map (fun p => (select p v).getD "-")))
    let agree := allowed.contains r
    -- the property predicate is independent of the regenerated scan: declarative interval partition
    let allowedRef := (perms l).map (fun p => (selectRef p v).getD "-")
    let zero := l.any (fun e => e.1 == r && e.2 == 0)
    let spec := r != "-" && !zero && allowedRef.contains r
    s!"{if agree then "A" else "D"} {if spec then "S" else "V"} {joinWith "," allowed}"
  | _, _, _ => "E E bad-case"

section WRR
open MosnVerif.Model.LB MosnVerif.Model.EDF

structure WAcc where
  st : LBState
  pos : Nat := 0
  ties : Nat := 0                          -- picks where the float code resolved an exact tie differently from queue order
  mismatch : Option (Nat × String × Nat) := none  -- first position where the served host is not a model pick

/-- `wrr <w0,w1,…> <rr0> <warm-up picks|-> => <served hosts, one digit each>`: the real weighted round-robin balancer
over all-healthy hosts. Agreement: every served host is the model's pick in the model state reached so far (exact ties of
deadlines may be resolved either way — the float gap); predicate: every window of the served sequence respects
`|nᵢ/wᵢ − nⱼ/wⱼ| ≤ 1/wᵢ + 1/wⱼ` for the effective weights (executable `windowsOk`). -/
def wrr (wsTok rr0Tok preTok : String) (impl : List String) : String :=
  let ws? := (wsTok.splitOn ",").mapM String.toNat?
  let pre? := if preTok == "-" then some [] else (preTok.splitOn ",").mapM String.toNat?
  match ws?, rr0Tok.toNat?, pre?, impl with
  | some ws, some rr0, some pre, [seqTok] =>
    let n := ws.length
    let hosts : Hosts := (List.range n).map (fun i => { id := i, weight := ws.getD i 0, healthy := true, req := 0, conn := 0, score := 1 })
    let st0 := newState .wrr hosts rr0 (pre.map some)
    let seq : List Nat := seqTok.toList.map (fun c => c.toNat - '0'.toNat)
    let rec go (a : WAcc) : List Nat → WAcc
      | [] => a
      | x :: r =>
        let out := wrrChoose hosts a.st { hints := [some x] }
        let det := (wrrChoose hosts a.st {}).result
        let a1 := { a with st := out.st, pos := a.pos + 1, ties := if det == some x then a.ties else a.ties + 1 }
        if out.result == some x || a.mismatch.isSome then go a1 r
        else go { a1 with mismatch := some (a.pos, showOpt out.result, x) } r
    let a := go { st := st0 } seq
    let inRange := seq.all (fun x => decide (x < n))
    let spec := inRange && windowsOk (wrrW ws) n seq
    match a.mismatch with
    | none => s!"A {if spec then "S" else "V"} ok picks={a.pos} ties-resolved-differently={a.ties}"
    | some (p, m, x) => s!"D {if spec then "S" else "V"} first-mismatch@{p} model={m} impl={x}"
  | _, _, _, _ => "E E bad-case"
where
  showOpt : Option Nat → String
    | none => "-"
    | some i => toString i

end WRR

def run (caseToks impl : List String) : String :=
  match caseToks with
  | ["wc", vec, draw] => wc vec draw impl
  | ["wrr", ws, rr0, pre] => wrr ws rr0 pre impl
  | _ => "E E unknown-kind"

end MosnVerif.Drive.C06
