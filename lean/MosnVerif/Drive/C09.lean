import MosnVerif.Drive.Util
import MosnVerif.Model.PoolSpec
import MosnVerif.Model.StreamOnce
import MosnVerif.Model.PoolMux
import MosnVerif.Model.PoolH2
import MosnVerif.Drive.C09Win
import MosnVerif.Drive.C09MxWin
import MosnVerif.Drive.C09Bnd
import MosnVerif.Drive.C09DialWin
namespace MosnVerif.Drive.C09
open MosnVerif.Drive MosnVerif.Model.Pool

def parseKind : String → Option Kind
  | "h1" => some .h1 | "pp" => some .pp | _ => none

def numAfter (s : String) (n : Nat) : Option Nat := (s.drop n).toString.toNat?

def parseOp (t : String) : Option Op :=
  if t == "N" || t == "NQ" then some (.newStream .ok) else if t == "NF" then some (.newStream .refused)
  else if t == "NT" then some (.newStream .timeout)
  else if t == "S" then some .shutdown else if t == "Z" then some .closeAll
  else if t == "E+" then some .extInc else if t == "E-" then some .extDec
  else if t.startsWith "RC" then (numAfter t 2).map (fun n => .response n true)
  else if t.startsWith "R" then (numAfter t 1).map (fun n => .response n false)
  else if t.startsWith "X" then (numAfter t 1).map .garbage
  else if t.startsWith "LL" then (numAfter t 2).map .lateReset
  else if t.startsWith "L" then (numAfter t 1).map .localReset
  else if t.startsWith "G" then (numAfter t 1).map .goAway
  else if t.startsWith "U" then (numAfter t 1).map .unknownReply
  else if t.startsWith "CR" then (numAfter t 2).map (fun n => .connClose n true)
  else if t.startsWith "CL" then (numAfter t 2).map (fun n => .connClose n false)
  else none

/-- idle entry `<idx><flags>`: the index is the leading digits -/
def leadingNat (s : String) : Option Nat :=
  let ds := s.toList.takeWhile Char.isDigit
  if ds.isEmpty then none else (String.ofList ds).toNat?

def parseStream (t : String) : Option OStream :=
  match t.splitOn ":" with
  | [c, r, rs, d] =>
    match c.toNat?, r.toNat?, d.toNat? with
    | some c, some r, some d => some { conn := c, recv := r, resets := rs.length, destroys := d }
    | _, _, _ => none
  | _ => none

/-- `res;t<total>;i<idle>;q<cur>;n<conns>;s<streams>` ↦ (result token, observation); `?` connection states
(the two ends disagree after the settle time) make the observation unparsable ⇒ reported as a violation. -/
def parseObs (t : String) : Option (String × Obs) :=
  match t.splitOn ";" with
  | [res, tt, ii, qq, nn, ss] =>
    if !(tt.startsWith "t" && ii.startsWith "i" && qq.startsWith "q" && nn.startsWith "n" && ss.startsWith "s") then none else
    let idleToks := ((ii.drop 1).toString.splitOn ",").filter (· ≠ "")
    let strToks := ((ss.drop 1).toString.splitOn ",").filter (· ≠ "")
    let conns := (nn.drop 1).toString.toList
    if conns.any (fun ch => ch != 'o' && ch != 'c') then none else
    match parseInt? (tt.drop 1).toString, parseInt? (qq.drop 1).toString, idleToks.mapM leadingNat, strToks.mapM parseStream with
    | some total, some q, some idle, some streams =>
      some (res, { total := total, idle := idle, reqCur := q, conns := conns.map (· == 'o'), streams := streams })
    | _, _, _, _ => none
  | _ => none

/-- evaluate the property predicate along the implementation's observations -/
def specAlong (maxConn maxReq : Nat) : Nat → Obs → List Op → List String → Bool
  | _, _, [], _ => true
  | _, _, _ :: _, [] => true       -- history cut short by the harness: nothing more observed
  | ext, before, op :: ops, t :: ts =>
    match parseObs t with
    | none => false
    | some (res, o) =>
      let ext' := match op with | .extInc => ext + 1 | .extDec => ext - 1 | _ => ext
      let stepOk := match op with
        | .newStream f => (res.startsWith "ok" || res == "ovf" || res == "cf" || res == "ct") &&
            newStreamSpec maxConn maxReq ext f.fails before (res.startsWith "ok") o
        | _ => res == "-"
      stepOk && obsSpec maxReq ext' o && specAlong maxConn maxReq ext' o ops ts

def emptyObs : Obs := { total := 0, idle := [], reqCur := 0, conns := [], streams := [] }

def pool (kind mc mr ops : String) (impl : List String) : String :=
  match parseKind kind, mc.toNat?, mr.toNat?, (ops.splitOn ",").mapM parseOp with
  | some k, some maxConn, some maxReq, some opl =>
    let tr := trace (init k maxConn maxReq) opl
    let modelToks := tr.map (fun (r, s) => render r s)
    let agree := impl.length == modelToks.length && impl == modelToks
    let spec := impl.length == opl.length && specAlong maxConn maxReq 0 emptyObs opl impl
    s!"{if agree then "A" else "D"} {if spec then "S" else "V"} {joinWith " " modelToks}"
  | _, _, _, _ => "E E bad-case"

/-- concurrent phase (support): only the final, quiescent observation is judged — no stream in flight, books equal
the truth (`obsSpec` with nothing held elsewhere); the sequential model makes no prediction here. -/
def conc (mr : String) (impl : List String) : String :=
  match mr.toNat?, impl with
  | some maxReq, [t] =>
    match parseObs t with
    | some (_, o) =>
      let ok := obsSpec maxReq 0 o && o.liveConns.isEmpty
      s!"A {if ok then "S" else "V"} -"
    | none => "A V unreadable-observation"
  | _, _ => "E E bad-case"

/-! ### kind `once`: overlapping ResetStream / DestroyStream calls on one BaseStream, one schedule per case -/
section Once
open MosnVerif.Model.StreamOnce

def parseCalls (t : String) : Option (List Call) :=
  t.toList.mapM (fun ch => if ch == 'R' then some Call.reset else if ch == 'D' then some Call.destroy else none)

def parseSched (t : String) : Option (List Nat) :=
  if t == "-" then some [] else (t.splitOn ",").mapM (·.toNat?)

def renderOnce (c : Conf) : String := s!"{c.state}:{c.resets}:{c.destroys}"

/-- the model under the harness' schedule: one `resume` per entry -/
def onceTrace (c : Conf) : List Nat → List String
  | [] => [s!"end:{if c.done then "1" else "0"}"]
  | t :: s =>
    let r := resume genProgs c t
    if r.2 then renderOnce r.1 :: onceTrace r.1 s else ["blocked"]

/-- `state:resets:destroys` as observed; a trailing `!` (the two listeners disagree) is unparsable on purpose -/
def parseOnceObs (t : String) : Option (Nat × Nat × Nat) :=
  match t.splitOn ":" with
  | [a, b, d] => match a.toNat?, b.toNat?, d.toNat? with
    | some a, some b, some d => some (a, b, d)
    | _, _, _ => none
  | _ => none

/-- the property predicate along the implementation's observations: `onceSpec` after every step, with `finished`
at the last one when every call returned; a run that ended in `deadlock` / `stuck` violates it. -/
def onceSpecAlong (nR nC : Nat) : List String → Bool
  | [] => false
  | [e] => e == "end:1" && nC == 0
  | [o, e] =>
    match parseOnceObs o with
    | some (st, r, d) => e == "end:1" && onceSpec nR nC true st r d
    | none => false
  | o :: rest =>
    match parseOnceObs o with
    | some (st, r, d) => onceSpec nR nC false st r d && onceSpecAlong nR nC rest
    | none => false

def once (threads sched : String) (impl : List String) : String :=
  match (threads.splitOn ",").mapM parseCalls, parseSched sched with
  | some ts, some sc =>
    let modelToks := onceTrace (Conf.init genProgs ts) sc
    let agree := impl == modelToks
    let spec := onceSpecAlong (resetCalls ts) (ts.map List.length).sum impl
    s!"{if agree then "A" else "D"} {if spec then "S" else "V"} {joinWith " " modelToks}"
  | _, _ => "E E bad-case"

end Once

/-! ### kind `mux`: the multiplex pool -/
namespace Mux
open MosnVerif.Model

def parseOp (t : String) : Option PoolMux.Op :=
  if t == "IA" then some (.checkAndInit none .ok)
  else if t == "S" then some .shutdown else if t == "Z" then some .closeAll
  else if t == "E+" then some .extInc else if t == "E-" then some .extDec
  else if t.startsWith "IF" then (numAfter t 2).map (fun n => .checkAndInit (some n) .refused)
  else if t.startsWith "IT" then (numAfter t 2).map (fun n => .checkAndInit (some n) .timeout)
  else if t.startsWith "I" then (numAfter t 1).map (fun n => .checkAndInit (some n) .ok)
  else if t.startsWith "N" then (numAfter t 1).map .newStream
  else if t.startsWith "O" then (numAfter t 1).map .newStreamOneway
  else if t.startsWith "R" then (numAfter t 1).map .response
  else if t.startsWith "X" then (numAfter t 1).map .garbage
  else if t.startsWith "L" then (numAfter t 1).map .localReset
  else if t.startsWith "G" then (numAfter t 1).map .goAway
  else if t.startsWith "CR" then (numAfter t 2).map (fun n => .connClose n true)
  else if t.startsWith "CL" then (numAfter t 2).map (fun n => .connClose n false)
  else none

def parseSlot (t : String) : Option PoolMux.OSlot :=
  if t == "-" then some ⟨false, false, none⟩ else
  match t.toList with
  | l :: rest =>
    let r := String.ofList rest
    if r == "f" then some ⟨true, l == 'C', none⟩ else r.toNat?.map (fun c => ⟨true, l == 'C', some c⟩)
  | [] => none

/-- `res;b<slots>;d<shutdown>;q<cur>;a<host request_active>:<cluster request_active>;n<conns>;s<streams>` -/
def parseObs (t : String) : Option (String × PoolMux.Obs) :=
  match t.splitOn ";" with
  | [res, bb, dd, qq, aa, nn, ss] =>
    if !(bb.startsWith "b" && dd.startsWith "d" && qq.startsWith "q" && aa.startsWith "a" && nn.startsWith "n" && ss.startsWith "s") then none else
    let slotToks := ((bb.drop 1).toString.splitOn ",").filter (· ≠ "")
    let strToks := ((ss.drop 1).toString.splitOn ",").filter (· ≠ "")
    let conns := (nn.drop 1).toString.toList
    if conns.any (fun ch => ch != 'o' && ch != 'c') then none else
    match parseInt? (qq.drop 1).toString, ((aa.drop 1).toString.splitOn ":").mapM parseInt?, slotToks.mapM parseSlot, strToks.mapM parseStream with
    | some q, some [ah, ac], some slots, some streams =>
      some (res, { slots := slots, reqCur := q, actHost := ah, actCluster := ac, conns := conns.map (· == 'o'), streams := streams })
    | _, _, _, _ => none
  | _ => none

def okConn (res : String) : Option Nat := if res.startsWith "ok" then (res.drop 2).toString.toNat? else none

def specAlong (maxReq : Nat) : Nat → PoolMux.Obs → List PoolMux.Op → List String → Bool
  | _, _, [], _ => true
  | _, _, _ :: _, [] => true
  | ext, before, op :: ops, t :: ts =>
    match parseObs t with
    | none => false
    | some (res, o) =>
      let ext' := match op with | .extInc => ext + 1 | .extDec => ext - 1 | _ => ext
      let n := o.slots.length
      let stepOk := match op with
        | .newStream k => (res.startsWith "ok" || res == "ovf" || res == "cf") &&
            PoolMux.newStreamSpec maxReq ext (if n > 1 then k else 0) before (okConn res) o
        | .newStreamOneway k => (res.startsWith "ok" || res == "ovf" || res == "cf") &&
            PoolMux.onewaySpec maxReq ext (if n > 1 then k else 0) before (okConn res) o
        | .checkAndInit slot _ => (res == "t" || res == "f") && (res != "t" || o == before) &&
            (match slot with
              | some k => match before.slots[if n > 1 then k else 0]? with
                | some sl => (res == "t") == (sl.present && sl.connected)
                | none => res == "f"
              | none => true)
        | _ => res == "-"
      stepOk && PoolMux.obsSpec maxReq ext' o && specAlong maxReq ext' o ops ts

def emptyObs (n : Nat) : PoolMux.Obs :=
  { slots := List.replicate n ⟨false, false, none⟩, reqCur := 0, actHost := 0, actCluster := 0, conns := [], streams := [] }

def mux (mc mr ops : String) (impl : List String) : String :=
  match mc.toNat?, mr.toNat?, (ops.splitOn ",").mapM parseOp with
  | some maxConn, some maxReq, some opl =>
    let s0 := PoolMux.init maxConn maxReq
    let tr := PoolMux.trace s0 opl
    let modelToks := tr.map (fun (r, s) => PoolMux.render r s)
    let agree := impl == modelToks
    let spec := impl.length == opl.length && specAlong maxReq 0 (emptyObs s0.nSlots) opl impl
    s!"{if agree then "A" else "D"} {if spec then "S" else "V"} {joinWith " " modelToks}"
  | _, _, _ => "E E bad-case"

end Mux

/-! ### kind `h2p`: the HTTP/2 pool -/
namespace H2
open MosnVerif.Model

def parseOp (t : String) : Option PoolH2.Op :=
  if t == "N" then some (.newStream .ok) else if t == "NF" then some (.newStream .refused)
  else if t == "NT" then some (.newStream .timeout)
  else if t == "S" then some .shutdown else if t == "Z" then some .closeAll
  else if t == "E+" then some .extInc else if t == "E-" then some .extDec
  else if t.startsWith "R" then (numAfter t 1).map .response
  else if t.startsWith "L" then (numAfter t 1).map .localReset
  else if t.startsWith "X" then (numAfter t 1).map .remoteReset
  else if t.startsWith "G" then (numAfter t 1).map .goAway
  else if t.startsWith "CR" then (numAfter t 2).map (fun n => .connClose n true)
  else if t.startsWith "CL" then (numAfter t 2).map (fun n => .connClose n false)
  else none

/-- the pool's client: `-` none, `<c>` connection c, `<c>g` connection c with the go-away mark -/
def parseActive (t : String) : Option (Option Nat × Bool) :=
  if t == "-" then some (none, false)
  else if t.endsWith "g" then (t.dropEnd 1).toString.toNat?.map (fun c => (some c, true))
  else t.toNat?.map (fun c => (some c, false))

/-- `res;p<client>;c<host connection_active>:<cluster>;q<cur>;a<host request_active>:<cluster>;n<conns>;s<streams>` -/
def parseObs (t : String) : Option (String × PoolH2.Obs) :=
  match t.splitOn ";" with
  | [res, pp, cc, qq, aa, nn, ss] =>
    if !(pp.startsWith "p" && cc.startsWith "c" && qq.startsWith "q" && aa.startsWith "a" && nn.startsWith "n" && ss.startsWith "s") then none else
    let strToks := ((ss.drop 1).toString.splitOn ",").filter (· ≠ "")
    let conns := (nn.drop 1).toString.toList
    if conns.any (fun ch => ch != 'o' && ch != 'c') then none else
    match parseActive (pp.drop 1).toString, ((cc.drop 1).toString.splitOn ":").mapM parseInt?, parseInt? (qq.drop 1).toString,
        ((aa.drop 1).toString.splitOn ":").mapM parseInt?, strToks.mapM parseStream with
    | some (act, gone), some [ch, ccl], some q, some [ah, ac], some streams =>
      some (res, { active := act, activeGone := gone, connHost := ch, connCluster := ccl, reqCur := q, actHost := ah,
                   actCluster := ac, conns := conns.map (· == 'o'), streams := streams })
    | _, _, _, _, _ => none
  | _ => none

def okConn (res : String) : Option Nat := if res.startsWith "ok" then (res.drop 2).toString.toNat? else none

/-- the property predicate along the implementation's observations; `told`: connections the upstream sent GOAWAY on
(read off the case, not off the pool) -/
def specAlong (maxReq : Nat) : Nat → List Nat → PoolH2.Obs → List PoolH2.Op → List String → Bool
  | _, _, _, [], _ => true
  | _, _, _, _ :: _, [] => true
  | ext, told, before, op :: ops, t :: ts =>
    match parseObs t with
    | none => false
    | some (res, o) =>
      let ext' := match op with | .extInc => ext + 1 | .extDec => ext - 1 | _ => ext
      let told' := match op with | .goAway c => c :: told | _ => told
      let stepOk := match op with
        | .newStream dial => (res.startsWith "ok" || res == "ovf" || res == "cf") &&
            PoolH2.newStreamSpec maxReq ext (fun c => told.contains c) dial.fails before (okConn res) res o
        | _ => res == "-"
      stepOk && PoolH2.obsSpec maxReq ext' (fun c => told'.contains c) o && specAlong maxReq ext' told' o ops ts

def emptyObs : PoolH2.Obs :=
  { active := none, activeGone := false, connHost := 0, connCluster := 0, reqCur := 0, actHost := 0, actCluster := 0,
    conns := [], streams := [] }

def h2p (mr ops : String) (impl : List String) : String :=
  match mr.toNat?, (ops.splitOn ",").mapM parseOp with
  | some maxReq, some opl =>
    let tr := PoolH2.trace (PoolH2.init maxReq) opl
    let modelToks := tr.map (fun (r, s) => PoolH2.render r s)
    let agree := impl == modelToks
    let spec := impl.length == opl.length && specAlong maxReq 0 [] emptyObs opl impl
    s!"{if agree then "A" else "D"} {if spec then "S" else "V"} {joinWith " " modelToks}"
  | _, _ => "E E bad-case"

end H2

def run (caseToks impl : List String) : String :=
  match caseToks with
  | ["h2p", mr, ops] => H2.h2p mr ops impl
  | ["mux", mc, mr, ops] => Mux.mux mc mr ops impl
  | ["once", threads, sched] => once threads sched impl
  | ["pool", kind, mc, mr, ops] => pool kind mc mr ops impl
  | ["win", kind, mc, mr, ops] => C09Win.win kind mc mr ops impl
  | ["mxw", slots, mr, ops] => C09MxWin.runKind false slots mr ops impl
  | ["h2w", mr, ops] => C09MxWin.runKind true "1" mr ops impl
  | ["bnd", mr, ops] => C09Bnd.run mr ops impl
  | ["conc", _, _, mr, _, _, _] => conc mr impl
  | ["dw", kind, mc, mr, ops] => C09DialWin.run kind mc mr ops impl
  | _ => "E E unknown-kind"

end MosnVerif.Drive.C09
