import MosnVerif.Drive.Util
import MosnVerif.Model.TcpLedger
/-!
C10 driver, kind `tcp` (stream proxy sessions on real sockets; harness/c10/tcp.go).

case : `tcp max=<m> hosts=<kinds|-> lb=<rr|rnd> idle=<0|1> <step,step,…>`
impl : one token `<tok>:<cur>:<cA>:<hA>:<nc>:<cT>:<rt>:<cf>:<cl>;…` — per step what the sockets showed (`tok`) and the
       counters after the step settled: Connections().Cur(), cluster / summed host UpstreamConnectionActive,
       NumConnections(), cluster UpstreamConnectionTotal / Retry / ConFail / Close.

steps:  A / N   new downstream connection (N: listener whose cluster does not exist)          tok e established, x closed
        C<k> R<k>  client k closes / resets        U<k> V<k>  upstream peer of k closes / resets     tok c, - (session not open)
        S<k> T<k>  bytes client→upstream / upstream→client                                            tok d, -
        H<j>- H<j>+ live host j down / up      F<j> G<j> host j unhealthy / healthy
        + / -   another user of the resource takes (tok a granted, r refused) / returns a slot
        I       the listener's idle timeout closes every open downstream connection               tok i

Model (`A`): the steps are expanded into labels of `Model.TcpLedger` (C<k> = down remote; up local — the queued close —,
U<k> = up remote; down local, R<k> = down readErr, V<k> = up readErr, I = down local for every open session) and the
model's tokens and counters after each step must equal the implementation's.  What the load balancer met is not
controlled: the number of failed host tries of an `A` is read off the implementation (Retry delta) and handed to the
model as the oracle of `accept` (failed tries, then `ok` iff a connection was made, then `none`); a failed try is a dial
timeout when the cluster has a black hole (`T`), else a refusal.

`Spec` — about the IMPLEMENTATION's output and the case only; the reference is the harness-side view of the sockets:
`est` = sessions the sockets showed established and no step has closed since, `amb` = slots taken by `+` (tok a) minus `-`:
  1. never negative: cur, cA, hA, nc ≥ 0 after every step
  2. exact / zero when idle: cur = (max = 0 ? 0 : amb + est), cA = hA = nc = est after every step — so all are 0 on an idle proxy
  3. the limit trips at the threshold: with max > 0 and cur = max before the step an `A` is closed without a dial
     (Retry and Total unchanged) and a `+` is refused; below the limit a `+` is granted, and an `A` is established when
     every host of the cluster is a live, up, healthy server
  4. nothing hangs (no tok h)
-/
namespace MosnVerif.Drive.C10Tcp
open MosnVerif.Drive MosnVerif.Model.TcpLedger MosnVerif.Gen.TcpProxy

structure Obs where
  tok : String
  cur : Int
  cA : Int
  hA : Int
  nc : Int
  cT : Int
  rt : Int
  cf : Int
  cl : Int

def parseObs (s : String) : Option Obs :=
  match s.splitOn ":" with
  | [t, a, b, c, d, e, f, g, h] => do
    let a ← parseInt? a; let b ← parseInt? b; let c ← parseInt? c; let d ← parseInt? d
    let e ← parseInt? e; let f ← parseInt? f; let g ← parseInt? g; let h ← parseInt? h
    pure { tok := t, cur := a, cA := b, hA := c, nc := d, cT := e, rt := f, cf := g, cl := h }
  | _ => none

def Obs.render (o : Obs) : String :=
  s!"{o.tok}:{o.cur}:{o.cA}:{o.hA}:{o.nc}:{o.cT}:{o.rt}:{o.cf}:{o.cl}"

structure Case where
  max : Nat
  hosts : List Char
  steps : List String

def kv (key : String) (t : String) : Option String :=
  if t.startsWith (key ++ "=") then some (t.drop (key.length + 1)).toString else none

def parseCase : List String → Option Case
  | [_, m, h, _lb, _idle, st] => do
    let m ← (← kv "max" m).toNat?
    let h ← kv "hosts" h
    pure { max := m, hosts := if h == "-" then [] else h.toList, steps := st.splitOn "," }
  | _ => none

def stepArg (st : String) : Nat := ((st.drop 1).toString.toNat?).getD 0

/-! ### model side -/

def obsOf (st : St) (tok : String) : Obs :=
  { tok := tok, cur := st.g.cur,
    cA := st.g.stats .cluster .UpstreamConnectionActive, hA := st.g.stats .host .UpstreamConnectionActive,
    nc := st.g.numConns,
    cT := st.g.stats .cluster .UpstreamConnectionTotal, rt := st.g.stats .cluster .UpstreamConnectionRetry,
    cf := st.g.stats .cluster .UpstreamConnectionConFail, cl := st.g.stats .cluster .UpstreamConnectionClose }

def liveAt (st : St) (k : Nat) : Bool := (st.ss[k]?.map Sess.live).getD false

def tryAt (l : List Try) (i : Nat) : Try := (l[i]?).getD .none

/-- one step on the model; `prev` / `cur` are the implementation's observations before / after it (for the oracle) -/
def modelStep (cs : Case) (st : St) (step : String) (prev cur : Obs) : St × String :=
  let k := stepArg step
  match step.front with
  | 'A' | 'N' =>
    let failKind : Try := if cs.hosts.contains 'T' then .timeout else .fail
    let fails := (cur.rt - prev.rt).toNat
    let tries := List.replicate fails failKind ++ (if cur.cT - prev.cT > 0 then [Try.ok] else [])
    let i := st.ss.length
    let st' := step_ st (.sess i (.accept (step.front == 'N') cs.hosts.length (tryAt tries 0) (tryAt tries 1) (tryAt tries 2)))
    (st', if liveAt st' i then "e" else "x")
  | 'C' =>
    let t := if liveAt st k then "c" else "-"
    (step_ (step_ st (.sess k (.down .remote))) (.sess k (.up .local)), t)
  | 'R' => (step_ st (.sess k (.down .readErr)), if liveAt st k then "c" else "-")
  | 'U' =>
    let t := if liveAt st k then "c" else "-"
    (step_ (step_ st (.sess k (.up .remote))) (.sess k (.down .local)), t)
  | 'V' => (step_ st (.sess k (.up .readErr)), if liveAt st k then "c" else "-")
  | 'S' | 'T' => (step_ st (.sess k .data), if liveAt st k then "d" else "-")
  | '+' =>
    let st' := step_ st .ambInc
    (st', if st'.amb > st.amb then "a" else "r")
  | '-' => (step_ st .ambDec, "-")
  | 'I' =>
    ((List.range st.ss.length).foldl (fun s i => if (s.ss[i]?.map Sess.downLive).getD false then step_ s (.sess i (.down .local)) else s) st, "i")
  | _ => (st, "-")
where step_ := MosnVerif.Model.TcpLedger.step

def modelRun (cs : Case) (impl : List Obs) : List Obs :=
  let zero : Obs := { tok := "", cur := 0, cA := 0, hA := 0, nc := 0, cT := 0, rt := 0, cf := 0, cl := 0 }
  let rec go (st : St) (prev : Obs) : List String → List Obs → List Obs
    | [], _ => []
    | s :: ss, o :: os =>
      let (st', tok) := modelStep cs st s prev o
      obsOf st' (if st'.stuck then "stuck" else tok) :: go st' o ss os
    | s :: ss, [] =>
      let (st', tok) := modelStep cs st s prev prev
      obsOf st' tok :: go st' prev ss []
  go { max := cs.max } zero cs.steps impl

/-! ### the predicate (independent of the model and of regenerated code) -/

structure Ref where
  est : List Bool := []        -- per session: the sockets showed it established and no step closed it since
  amb : Nat := 0
  down : List Nat := []        -- live hosts currently down
  sick : List Nat := []        -- hosts currently flagged unhealthy

def Ref.count (r : Ref) : Int := (r.est.filter id).length

def specStep (cs : Case) (r : Ref) (step : String) (prev o : Obs) : Ref × Bool :=
  let k := stepArg step
  let full := cs.max > 0 && prev.cur ≥ cs.max
  let closeK (r : Ref) : Ref := { r with est := r.est.set k false }
  let allGood := !cs.hosts.isEmpty && cs.hosts.all (· == 'L') && r.down.isEmpty && r.sick.isEmpty
  let (r', okStep) : Ref × Bool :=
    match step.front with
    | 'A' =>
      ({ r with est := r.est ++ [o.tok == "e"] },
        (!full || (o.tok == "x" && o.rt == prev.rt && o.cT == prev.cT)) && (full || !allGood || o.tok == "e"))
    | 'N' => ({ r with est := r.est ++ [o.tok == "e"] }, o.tok == "x")
    | 'C' | 'R' | 'U' | 'V' => (closeK r, true)
    | '+' => (if o.tok == "a" then { r with amb := r.amb + 1 } else r, (o.tok == "a") == !full)
    | '-' => ({ r with amb := r.amb - 1 }, true)
    | 'I' => ({ r with est := r.est.map fun _ => false }, true)
    | 'H' =>
      let j := ((step.drop 1).dropEnd 1).toString.toNat?.getD 0
      (if step.endsWith "-" then { r with down := j :: r.down } else { r with down := r.down.filter (· != j) }, true)
    | 'F' => ({ r with sick := k :: r.sick }, true)
    | 'G' => ({ r with sick := r.sick.filter (· != k) }, true)
    | _ => (r, true)
  let n := r'.count
  let wantCur : Int := if cs.max = 0 then 0 else (r'.amb : Int) + n
  (r', okStep && o.tok != "h"
    && 0 ≤ o.cur && 0 ≤ o.cA && 0 ≤ o.hA && 0 ≤ o.nc
    && o.cur == wantCur && o.cA == n && o.hA == n && o.nc == n)

def spec (cs : Case) (impl : List Obs) : Bool :=
  let zero : Obs := { tok := "", cur := 0, cA := 0, hA := 0, nc := 0, cT := 0, rt := 0, cf := 0, cl := 0 }
  let rec go (r : Ref) (prev : Obs) : List String → List Obs → Bool
    | [], [] => true
    | s :: ss, o :: os =>
      let (r', ok) := specStep cs r s prev o
      ok && go r' o ss os
    | _, _ => false
  go {} zero cs.steps impl

def run (caseToks impl : List String) : String :=
  match parseCase caseToks, impl with
  | some cs, [i] =>
    match (i.splitOn ";").mapM parseObs with
    | some obs =>
      let out := joinWith ";" ((modelRun cs obs).map Obs.render)
      s!"{if out == i then "A" else "D"} {if spec cs obs then "S" else "V"} {out}"
    | none => "E E bad-impl"
  | _, _ => "E E bad-case"

end MosnVerif.Drive.C10Tcp
