import MosnVerif.Drive.Downstream
import MosnVerif.Drive.DownstreamMC
import MosnVerif.Model.DownstreamSpec
/-!
C03 driver.  `A` = the model's trace, ledger and done flag equal the implementation's, token for token.
`Spec` (about the IMPLEMENTATION's output, written against the declarative sender automaton of DownstreamSpec and the
case only — no regenerated definition is used):
  1. the downstream sender calls are accepted by the sender automaton (headers once and first, one end of stream, at most one
     reset, nothing after either)                                                          — theorem `sender_once`
  2. the clean-up body ran exactly once iff the exchange is done, never twice               — theorem `clean_once`
  3. a finished exchange has a classified outcome (complete reply / reset / client gone / one-way), never silence; an
     unfinished started exchange is two-way, has delivered no terminal event yet and waits for a live upstream request         — theorem `outcome_total`
  4. once the global timeout fired after the start, the exchange is finished                — theorem `timeout_completes`
A `mc <cfg> <amb> <limit>` case runs the explicit-state exploration of the model (every schedule up to the state limit)
against the executable invariant; it has no implementation side.
-/
namespace MosnVerif.Drive.C03
open MosnVerif.Drive MosnVerif.Drive.Downstream MosnVerif.Model.Downstream

def spec (cs : Case) (i : Impl) : Bool :=
  match implTrace i with
  | none => false
  | some t =>
    let started := cs.sched.any (fun l => match l with | .work => true | _ => false)
    let terminal := t.any isEos || t.any isReset
    senderOk t
    && nLog t == (if i.done then 1 else 0)
    && (!i.done || terminal || cs.cfg.oneway || cs.sched.any isClientGone)
    && (i.done || !started || (!cs.cfg.oneway && !terminal && i.up ≥ 1))
    && (!timeoutAfterStart cs.sched || i.done)

def run (caseToks impl : List String) : String :=
  if caseToks.head? == some "mc" then DownstreamMC.run caseToks else
  match parseCase caseToks, parseImpl impl with
  | some cs, some i =>
    let out := render (modelOut cs)
    let agree := out == joinWith " " impl
    s!"{if agree then "A" else "D"} {if spec cs i then "S" else "V"} {out}"
  | _, _ => "E E bad-case"

end MosnVerif.Drive.C03
