import MosnVerif.Drive.Downstream
import MosnVerif.Drive.DownstreamMC
namespace MosnVerif.Drive.C03
open MosnVerif.Drive MosnVerif.Drive.Downstream MosnVerif.Model.Downstream

def run (caseToks impl : List String) : String :=
  if caseToks.head? == some "mc" then DownstreamMC.run caseToks else
  match parseCase caseToks, parseImpl impl with
  | some cs, some _ =>
    let out := render (modelOut cs)
    let agree := out == joinWith " " impl
    s!"{if agree then "A" else "D"} S {out}"
  | _, _ => "E E bad-case"

end MosnVerif.Drive.C03
