import MosnVerif.Drive.Downstream
import MosnVerif.Drive.DownstreamMC
import MosnVerif.Model.DownstreamSpec
import MosnVerif.Model.DownstreamBackoff
import MosnVerif.Drive.C03ReplyWrite
import MosnVerif.Drive.C03XHijack
/-!
C03 driver.  `A` = the model's trace, ledger and done flag equal the implementation's, token for token.
`Spec` (about the IMPLEMENTATION's output, written against the declarative sender automaton of DownstreamSpec and the
case only — no regenerated definition is used):
  1. the downstream sender calls are accepted by the sender automaton (headers once and first, one end of stream, at most one
     reset, nothing after either; no ConnectionPool.NewStream after the response headers)  — theorems `sender_once`, `no_attempt_after_headers`
  2. the clean-up body ran exactly once iff the exchange is done, never twice               — theorem `clean_once`
  3. a finished exchange has a classified outcome (complete reply / reset / client gone / one-way), never silence; an
     unfinished started exchange is two-way, has delivered no terminal event yet and waits for a live upstream request         — theorems `outcome_total`, `parked_has_live_upstream`
  4. once the global timeout fired after the start, the exchange is finished — unless the head of a streamed response
     was forwarded (the upstream HAS answered: MOSN's response timeout covers the wait for the response, not the transfer
     of its body; the wait then ends with the body, a reset or the client's departure)     — theorems `timeout_completes`, `outcome_total`
  5. replies MOSN generates itself carry the documented status (404 no route, 502 no healthy host / connection failure,
     503 pool overflow, the configured code of a direct response)                          — theorems `error_reply_codes`, `route_reply`
  6. every downstream data / trailers call belongs to the same answer as the headers call before it (tokens of the
     implementation: the x-tok header / the body / the rt trailer of attempt k are `a<k>`, a MOSN-generated reply is `l`) — theorem `reply_body_own`
  7. a TerminateStream on a kept handler of an EARLIER request (label TS) returns false; without an accepted TerminateStream
     the access log carries no DownStreamTerminate flag (0x2000)                                — theorem `stale_terminate_ignored`
  8. after an accepted TerminateStream(code) (TM / TR, also with an in-flight upstream response landing inside the call) the
     client receives exactly the header-only local reply `code`                                — theorems `terminate_wins_or_loses_atomically`, `terminate_completes`
  9. [proxy10] events delivered while the worker sleeps in doRetry's back-off (tokens `ZB:<trigger>:<event>`): after the client's
     departure, a global timeout (also one whose callback landed inside setupRetry) or an ACCEPTED TerminateStream during the
     back-off of attempt k no NewStream beyond attempt k appears; after the last two the exchange is finished (`boOk`)
     — theorems `backoff_wake_no_attempt`, `terminate_in_backoff_not_forwarded`, `global_timeout_in_retry_setup`
A `mc <cfg> <amb> <limit>` case runs the explicit-state exploration of the model (every schedule up to the state limit)
against the executable invariant; it has no implementation side.
-/
namespace MosnVerif.Drive.C03
open MosnVerif.Drive MosnVerif.Drive.Downstream MosnVerif.Model.Downstream

/-- the status of the reply, if one was started -/
def replyCode (t : List Ev) : Option Nat := t.findSome? (fun e => match e with | .dh c _ => some c | _ => none)

/-- the last upstream attempt event was a refusal by the pool -/
def lastRefusal (t : List Ev) : Option PoolFail :=
  match (t.filter isAttempt).getLast? with
  | some (.uf _ f) => some f
  | _ => none

/-- reply codes MOSN generates itself, written down from the documented table (not from regenerated code):
no route 404, no healthy host 502, pool overflow 503, connection failure 502 -/
def codesOk (cs : Case) (t : List Ev) : Bool :=
  match replyCode t with
  | none => true
  | some code =>
    (match cs.cfg.route with
     | .noRoute => code == 404
     | .noHost => code == 502
     | .direct c _ => code == c
     | .cluster =>
       match lastRefusal t with
       | some .overflow => code == 503
       | some .connfail => code == 502
       | none => true)

/-- the TerminateStream labels of the schedule with the return value the implementation reported -/
def termCalls (cs : Case) (i : Impl) : List (Label × Bool) := (cs.sched.filter isTerminate).zip i.tm

def logFlags (t : List Ev) : Nat := (t.findSome? (fun e => match e with | .log _ f => some f | _ => none)).getD 0

/-- clauses 7 and 8 (0x2000 = api.DownStreamTerminate, written down from the api documentation) -/
def termOk (cs : Case) (i : Impl) (t : List Ev) : Bool :=
  let calls := termCalls cs i
  calls.length == (cs.sched.filter isTerminate).length
  && calls.all (fun p => match p.1 with | .terminateStale _ _ => !p.2 | _ => true)
  && (calls.any (·.2) || logFlags t &&& 0x2000 == 0)
  && (match calls.find? (·.2) with
      | some (.terminate code, _) => i.trace.filter (fun x => x.startsWith "d") == [s!"dh:{code}:1:l"]
      | some (.terminateRaced code _ _ _, _) => i.trace.filter (fun x => x.startsWith "d") == [s!"dh:{code}:1:l"]
      | _ => true)

def spec (cs : Case) (i : Impl) : Bool :=
  match implTrace i with
  | none => false
  | some t =>
    let started := cs.sched.any (fun l => match l with | .work => true | _ => false)
    let terminal := t.any isEos || t.any isReset
    senderOk t
    && nLog t == (if i.done then 1 else 0)
    && (!i.done || terminal || cs.cfg.oneway || cs.sched.any isClientGone)
    && (i.done || !started || (!cs.cfg.oneway && !terminal && i.up ≥ 1))
    && (!timeoutAfterStart cs.sched || i.done || (cs.sched.any isStreamHead && t.any isHeaders))
    && codesOk cs t
    && ownOk (implDownToks i)
    && termOk cs i t

/-- the worker runs until it is INSIDE the UpFilter phase (its sender filters run), blocks, or returns -/
def settleUpf (c : Cfg) : Nat → S → S
  | 0, s => s
  | n + 1, s =>
    if !s.running then s
    else if s.phase == .WaitNotify && !s.notify then s
    else if bodyWait s then s
    else if s.phase == .UpFilter then s
    else settleUpf c n (work c s)

/-- [proxy7] the model side of kind `upf`: the request is sent and the worker parked; the head of a streamed response of
attempt 0 arrives (`upRespS`); the worker wakes and enters the UpFilter phase; there the machine label `reset during
UpFilter` (`upReset 0 reason` while `upfRunning`) is applied — what the scripted sender filter of the harness does —; the
worker runs on.  `:R` (the implementation created a second attempt): that attempt is answered 200. -/
def upfModel (c : Cfg) (ar aq code : Nat) (d t : Bool) (reason : MosnVerif.Gen.ProxyReason.Reason) (retried : Bool) : S :=
  let s := settle c fuel (init ar aq)
  let s := settle c fuel (step c s .work)
  let s := step c s (.upRespS 0 code d t)
  let s := settleUpf c fuel s
  let s := step c s (.upReset 0 reason)
  let s := settle c fuel s
  if retried then settle c fuel (step c s (.upResp 1 200 false false)) else s

/-- kind `upf` (proxy6 B, model-compared since proxy7): an upstream reset delivered by a sender filter while the worker runs
the UpFilter phase, after the head of a streamed response was accepted and before anything was forwarded.  `A` = the
machine (label `reset during UpFilter`) produces the implementation's trace, ledger and done flag.  The predicate is the
declarative part of `spec` that does not need the schedule: sender protocol respected, the exchange FINISHED with a complete
reply (end of stream), cleaned exactly once, gauges back at 0 — theorems `sender_once`, `outcome_total`, `clean_once`. -/
def upfRun (caseToks impl : List String) : String :=
  let model : Option String :=
    match caseToks with
    | ["upf", cfgT, ambT, evT] =>
      match parseCfg cfgT, parseAmb ambT, evT.splitOn ":" with
      | some c, some (ar, aq), codeT :: dtT :: reasonT :: rest =>
        match codeT.toNat?, parseDT dtT, reasonOfName reasonT with
        | some code, some (d, t), some r => some s!"{render (upfModel c ar aq code d t r (rest == ["R"]))} tm=-"
        | _, _, _ => none
      | _, _, _ => none
    | _ => none
  match model, parseImpl impl with
  | some out, some i =>
    match implTrace i with
    | some t =>
      let ok := senderOk t && i.done && t.any isEos && nLog t == 1 && i.up == 0 && i.down == 0 && ownOk (implDownToks i)
      s!"{if out == joinWith " " impl then "A" else "D"} {if ok then "S" else "V"} {out}"
    | none => "E E bad-upf"
  | _, _ => "E E bad-upf"

/-- [proxy10] the events delivered during the back-off of attempt k in a schedule: (k, event token) for every `ZB:` token (and
the proxy9 spellings XT / PTT / RT: event `TM<code>`) -/
def boTokens (schedT : String) : List (Nat × String) :=
  (schedT.splitOn ",").filterMap (fun tok =>
    if tok.startsWith "ZB:" then
      match (dropS tok 3).splitOn ":" with
      | [trigT, evT] => (parseBoTrigger trigT).map (fun p => (p.2, evT))
      | _ => none
    else if tok.startsWith "XT" then
      match (dropS tok 2).splitOn ":" with
      | [k, _, code] => k.toNat?.map (fun k => (k, "TM" ++ code))
      | _ => none
    else if tok.startsWith "PTT" then
      match (dropS tok 3).splitOn ":" with
      | [k, code] => k.toNat?.map (fun k => (k, "TM" ++ code))
      | _ => none
    else if tok.startsWith "RT" then
      match (dropS tok 2).splitOn ":" with
      | [k, _, _, code] => k.toNat?.map (fun k => (k, "TM" ++ code))
      | _ => none
    else none)

/-- [proxy10] clause 9 — what `doRetry` must re-check after its sleep (declarative, about the implementation's trace): when,
during the back-off of attempt k, the client left (DR / CC), the global timer fired (GT; GSm / GSs: inside setupRetry), or a
TerminateStream was ACCEPTED (the implementation returned true for that call), NO `ConnectionPool.NewStream` beyond attempt k
appears in the trace; after an accepted TerminateStream / a global timeout the exchange is finished.
— theorems `backoff_wake_no_attempt`, `terminate_in_backoff_not_forwarded`, `global_timeout_in_retry_setup` -/
def boOk (cs : Case) (schedT : String) (i : Impl) (t : List Ev) : Bool :=
  let calls := termCalls cs i
  let accepted := calls.any (·.2)
  (boTokens schedT).all (fun (k, ev) =>
    let noMore := t.all (fun e => match e with | .un j => j ≤ k | .uf j _ => j ≤ k | _ => true)
    if ev == "DS" then
      -- the client left while attempt k+1 was being sent: nothing beyond k+1, the exchange is finished and holds no upstream request
      t.all (fun e => match e with | .un j => j ≤ k + 1 | .uf j _ => j ≤ k + 1 | _ => true) && i.done && i.up == 0
    else if ev == "DR" || ev == "CC" then noMore
    else if ev == "GT" || ev == "GSm" || ev == "GSs" then noMore && i.done
    else if ev.startsWith "TM" then !accepted || (noMore && i.done)
    else true)

def run (caseToks impl : List String) : String :=
  if caseToks.head? == some "mc" then DownstreamMC.run caseToks else
  if caseToks.head? == some "rw" then C03RW.run caseToks impl else   -- c03w10: the reply write path with a failing sender (Drive/C03ReplyWrite.lean)
  if caseToks.head? == some "xh" then C03XH.run caseToks impl else   -- c03t10: per-codec MOSN-generated replies on the wire (Drive/C03XHijack.lean)
  if caseToks.head? == some "upf" then upfRun caseToks impl else
  match parseCase caseToks, parseImpl impl with
  | some cs, some i =>
    let out := renderOut cs
    let agree := out == joinWith " " impl
    let schedT := (caseToks.getLast?).getD ""
    let bo := match implTrace i with
      | some t => boOk cs schedT i t
      | none => false
    s!"{if agree then "A" else "D"} {if spec cs i && bo then "S" else "V"} {out}"
  | _, _ => "E E bad-case"

end MosnVerif.Drive.C03
