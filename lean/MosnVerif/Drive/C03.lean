import MosnVerif.Drive.Downstream
import MosnVerif.Drive.DownstreamMC
import MosnVerif.Model.DownstreamSpec
import MosnVerif.Model.DownstreamBackoff
import MosnVerif.Drive.C03ReplyWrite
import MosnVerif.Drive.C03XHijack
/-!
C03 driver.  `A` = the model's trace, ledger and done flag equal the implementation's, token for token.
`Spec` (about the IMPLEMENTATION's output, written against the declarative sender automaton of DownstreamSpec and the
case only — no regenerated definition is used):
  1. the downstream sender calls are accepted by the sender automaton (headers once and first, one end of stream, at most one
     reset, nothing after either; no ConnectionPool.NewStream after the response headers)  — theorems `sender_once`, `no_attempt_after_headers`
  2. the clean-up body ran exactly once iff the exchange is done, never twice               — theorem `clean_once`
  3. a finished exchange has a classified outcome (complete reply / reset / client gone / one-way), never silence; an
     unfinished started exchange is two-way, has delivered no terminal event yet and waits for a live upstream request         — theorems `outcome_total`, `parked_has_live_upstream`
  4. once the global timeout fired after the start, the exchange is finished — unless the head of a streamed response
     was forwarded (the upstream HAS answered: MOSN's response timeout covers the wait for the response, not the transfer
     of its body; the wait then ends with the body, a reset or the client's departure)     — theorems `timeout_completes`, `outcome_total`
  5. replies MOSN generates itself carry the documented status (404 no route, 502 no healthy host / connection failure,
     503 pool overflow, the configured code of a direct response)                          — theorems `error_reply_codes`, `route_reply`
  6. every downstream data / trailers call belongs to the same answer as the headers call before it (tokens of the
     implementation: the x-tok header / the body / the rt trailer of attempt k are `a<k>`, a MOSN-generated reply is `l`) — theorem `reply_body_own`
  7. a TerminateStream on a kept handler of an EARLIER request (label TS) returns false; without an accepted TerminateStream
     the access log carries no DownStreamTerminate flag (0x2000)                                — theorem `stale_terminate_ignored`
  8. after an accepted TerminateStream(code) (TM / TR, also with an in-flight upstream response landing inside the call) the
     client receives exactly the header-only local reply `code`                                — theorems `terminate_wins_or_loses_atomically`, `terminate_completes`
A `mc <cfg> <amb> <limit>` case runs the explicit-state exploration of the model (every schedule up to the state limit)
against the executable invariant; it has no implementation side.
-/
namespace MosnVerif.Drive.C03
open MosnVerif.Drive MosnVerif.Drive.Downstream MosnVerif.Model.Downstream

/-- the status of the reply, if one was started -/
def replyCode (t : List Ev) : Option Nat := t.findSome? (fun e => match e with | .dh c _ => some c | _ => none)

/-- the last upstream attempt event was a refusal by the pool -/
def lastRefusal (t : List Ev) : Option PoolFail :=
  match (t.filter isAttempt).getLast? with
  | some (.uf _ f) => some f
  | _ => none

/-- reply codes MOSN generates itself, written down from the documented table (not from regenerated code):
no route 404, no healthy host 502, pool overflow 503, connection failure 502 -/
def codesOk (cs : Case) (t : List Ev) : Bool :=
  match replyCode t with
  | none => true
  | some code =>
    (match cs.cfg.route with
     | .noRoute => code == 404
     | .noHost => code == 502
     | .direct c _ => code == c
     | .cluster =>
       match lastRefusal t with
       | some .overflow => code == 503
       | some .connfail => code == 502
       | none => true)

/-- the TerminateStream labels of the schedule with the return value the implementation reported -/
def termCalls (cs : Case) (i : Impl) : List (Label × Bool) := (cs.sched.filter isTerminate).zip i.tm

def logFlags (t : List Ev) : Nat := (t.findSome? (fun e => match e with | .log _ f => some f | _ => none)).getD 0

/-- clauses 7 and 8 (0x2000 = api.DownStreamTerminate, written down from the api documentation) -/
def termOk (cs : Case) (i : Impl) (t : List Ev) : Bool :=
  let calls := termCalls cs i
  calls.length == (cs.sched.filter isTerminate).length
  && calls.all (fun p => match p.1 with | .terminateStale _ _ => !p.2 | _ => true)
  && (calls.any (·.2) || logFlags t &&& 0x2000 == 0)
  && (match calls.find? (·.2) with
      | some (.terminate code, _) => i.trace.filter (fun x => x.startsWith "d") == [s!"dh:{code}:1:l"]
      | some (.terminateRaced code _ _ _, _) => i.trace.filter (fun x => x.startsWith "d") == [s!"dh:{code}:1:l"]
      | _ => true)

def spec (cs : Case) (i : Impl) : Bool :=
  match implTrace i with
  | none => false
  | some t =>
    let started := cs.sched.any (fun l => match l with | .work => true | _ => false)
    let terminal := t.any isEos || t.any isReset
    senderOk t
    && nLog t == (if i.done then 1 else 0)
    && (!i.done || terminal || cs.cfg.oneway || cs.sched.any isClientGone)
    && (i.done || !started || (!cs.cfg.oneway && !terminal && i.up ≥ 1))
    && (!timeoutAfterStart cs.sched || i.done || (cs.sched.any isStreamHead && t.any isHeaders))
    && codesOk cs t
    && ownOk (implDownToks i)
    && termOk cs i t

/-- the worker runs until it is INSIDE the UpFilter phase (its sender filters run), blocks, or returns -/
def settleUpf (c : Cfg) : Nat → S → S
  | 0, s => s
  | n + 1, s =>
    if !s.running then s
    else if s.phase == .WaitNotify && !s.notify then s
    else if bodyWait s then s
    else if s.phase == .UpFilter then s
    else settleUpf c n (work c s)

/-- [proxy7] the model side of kind `upf`: the request is sent and the worker parked; the head of a streamed response of
attempt 0 arrives (`upRespS`); the worker wakes and enters the UpFilter phase; there the machine label `reset during
UpFilter` (`upReset 0 reason` while `upfRunning`) is applied — what the scripted sender filter of the harness does —; the
worker runs on.  `:R` (the implementation created a second attempt): that attempt is answered 200. -/
def upfModel (c : Cfg) (ar aq code : Nat) (d t : Bool) (reason : MosnVerif.Gen.ProxyReason.Reason) (retried : Bool) : S :=
  let s := settle c fuel (init ar aq)
  let s := settle c fuel (step c s .work)
  let s := step c s (.upRespS 0 code d t)
  let s := settleUpf c fuel s
  let s := step c s (.upReset 0 reason)
  let s := settle c fuel s
  if retried then settle c fuel (step c s (.upResp 1 200 false false)) else s

/-- kind `upf` (proxy6 B, model-compared since proxy7): an upstream reset delivered by a sender filter while the worker runs
the UpFilter phase, after the head of a streamed response was accepted and before anything was forwarded.  `A` = the
machine (label `reset during UpFilter`) produces the implementation's trace, ledger and done flag.  The predicate is the
declarative part of `spec` that does not need the schedule: sender protocol respected, the exchange FINISHED with a complete
reply (end of stream), cleaned exactly once, gauges back at 0 — theorems `sender_once`, `outcome_total`, `clean_once`. -/
def upfRun (caseToks impl : List String) : String :=
  let model : Option String :=
    match caseToks with
    | ["upf", cfgT, ambT, evT] =>
      match parseCfg cfgT, parseAmb ambT, evT.splitOn ":" with
      | some c, some (ar, aq), codeT :: dtT :: reasonT :: rest =>
        match codeT.toNat?, parseDT dtT, reasonOfName reasonT with
        | some code, some (d, t), some r => some s!"{render (upfModel c ar aq code d t r (rest == ["R"]))} tm=-"
        | _, _, _ => none
      | _, _, _ => none
    | _ => none
  match model, parseImpl impl with
  | some out, some i =>
    match implTrace i with
    | some t =>
      let ok := senderOk t && i.done && t.any isEos && nLog t == 1 && i.up == 0 && i.down == 0 && ownOk (implDownToks i)
      s!"{if out == joinWith " " impl then "A" else "D"} {if ok then "S" else "V"} {out}"
    | none => "E E bad-upf"
  | _, _ => "E E bad-upf"

/-- [proxy9] a `terminate during the back-off` token: (the label that makes the proxy give attempt k up for a retry, k, code)
  XT<k>:<reason>:<code>   PTT<k>:<code>   RT<k>:<status>:<d><t>:<code> -/
def tbToken (tok : String) : Option (Label × Nat × Nat) :=
  if tok.startsWith "XT" then
    match (dropS tok 2).splitOn ":" with
    | [k, r, code] => do pure (.upReset (← k.toNat?) (← reasonOfName r), ← k.toNat?, ← code.toNat?)
    | _ => none
  else if tok.startsWith "PTT" then
    match (dropS tok 3).splitOn ":" with
    | [k, code] => do pure (.perTryFire, ← k.toNat?, ← code.toNat?)
    | _ => none
  else if tok.startsWith "RT" then
    match (dropS tok 2).splitOn ":" with
    | [k, st, dt, code] => do
      let (d, t) ← parseDT dt
      pure (.upResp (← k.toNat?) (← st.toNat?) d t, ← k.toNat?, ← code.toNat?)
    | _ => none
  else none

/-- [proxy9] kind `hist` with one `terminate during the back-off` token: the labels before it run on the machine as always;
the trigger label, the worker up to `doRetry`'s back-off, `terminateB` (the regenerated TerminateStream program delivered in
the back-off), the worker with `workB` (doRetry with its regenerated test for a pending local reply) until it blocks; the
labels after it run on the machine again.  `A` = trace, ledger, done flag and the calls' return values equal the
implementation's.  Predicate: every clause of `spec` (the accepted call counted as a TerminateStream: the client receives
exactly the header-only local reply `code`, the exchange is finished) and — the denied request is never forwarded — after an
accepted call no `ConnectionPool.NewStream` beyond attempt k appears in the implementation's trace (theorems
`terminate_in_backoff_not_forwarded`, `terminate_in_backoff_accepted_iff`). -/
def tbRun (caseToks impl : List String) : Option String :=
  match caseToks with
  | ["hist", cT, aT, schedT] =>
    let toks := (schedT.splitOn ",").filter (· != "W")
    match toks.span (fun t => (tbToken t).isNone) with
    | (pre, tb :: post) => do
      let c ← parseCfg cT
      let (ar, aq) ← parseAmb aT
      let (trig, k, code) ← tbToken tb
      let preL ← (pre.mapM parseLabels).map List.flatten
      let postL ← (post.mapM parseLabels).map List.flatten
      let r0 := runSettledTm c (init ar aq) preL
      let s1 := settleBackoff c fuel (step c r0.1 trig)
      let s2 := terminateB c s1 code
      let acc := s2.direct && !s1.direct
      let s3 := settleB c fuel s2
      let r1 := runSettledTm c s3 postL
      let out := s!"{render r1.1} tm={renderTm (r0.2 ++ [acc] ++ r1.2)}"
      let i ← parseImpl impl
      let cs : Case := ⟨c, ar, aq, preL.map (·.1) ++ [trig, .terminate code] ++ postL.map (·.1), []⟩
      let implAcc := (i.tm[r0.2.length]?).getD false
      let notForwarded := match implTrace i with
        | some t => !implAcc || t.all (fun e => match e with | .un j => j ≤ k | .uf j _ => j ≤ k | _ => true)
        | none => false
      let ok := spec cs i && notForwarded && (!implAcc || i.done)
      pure s!"{if out == joinWith " " impl then "A" else "D"} {if ok then "S" else "V"} {out}"
    | _ => none
  | _ => none

def hasTb (caseToks : List String) : Bool :=
  match caseToks with
  | ["hist", _, _, schedT] => (schedT.splitOn ",").any (fun t => (tbToken t).isSome)
  | _ => false

def run (caseToks impl : List String) : String :=
  if caseToks.head? == some "mc" then DownstreamMC.run caseToks else
  if caseToks.head? == some "rw" then C03RW.run caseToks impl else   -- c03w10: the reply write path with a failing sender (Drive/C03ReplyWrite.lean)
  if caseToks.head? == some "xh" then C03XH.run caseToks impl else   -- c03t10: per-codec MOSN-generated replies on the wire (Drive/C03XHijack.lean)
  if caseToks.head? == some "upf" then upfRun caseToks impl else
  if hasTb caseToks then (tbRun caseToks impl).getD "E E bad-tb" else
  match parseCase caseToks, parseImpl impl with
  | some cs, some i =>
    let out := renderOut cs
    let agree := out == joinWith " " impl
    s!"{if agree then "A" else "D"} {if spec cs i then "S" else "V"} {out}"
  | _, _ => "E E bad-case"

end MosnVerif.Drive.C03
