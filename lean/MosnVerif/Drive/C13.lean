import MosnVerif.Drive.Util
import MosnVerif.Model.TlsSelect
import MosnVerif.Model.TlsUpdate
import MosnVerif.Drive.TlsTrustDrive
import MosnVerif.Drive.TlsConnDrive
import MosnVerif.Drive.TlsSdsDrive
import MosnVerif.Drive.TlsAcceptDrive
import MosnVerif.Drive.TlsShareDrive
/-!
Driver of C13. Case kinds (the first token after the kind is a class label computed by the generator, ignored here):
  sel|hs <cls> <ctxs> <sni> <protos>            => <index|err|nil>     GetConfigForClient directly / through a handshake
  hsp <cls> <ctxs> <sni> <protos> <flags> <peer> => <index|err> ok|fail  selection + per-context client authentication
  msn <cls> <ctx> <sni>                          => T|F                provider.MatchedServerName
  mal <cls> <ctx> <protos>                       => T|F                provider.MatchedALPN
  auth <cls> <require> <verify>                  => <ClientAuthType>
  cv <cls> <hook> <insecure>                     => <InsecureSkipVerify> <VerifyPeerCertificate≠nil>
  insp <cls> <tcp> <configured> <enabled> <inspector> <peekfail> <first> => raw|tls|tlsPeeked|plainPeeked|peekError
  trust <cls> <require> <verify> <peer>          => ok|fail            server-side handshake result
  trustc <cls> <ready> <hook> <insecure> <snset> <cert> <hookok> => ok|fail|notls   MOSN client-side Conn result
  upd <cls> <calls> <first> <sni> <protos>       => served|refused <call.ctx|err> s<inspector>.<contexts>|absent
        calls joined by `|`, a call = <accepted 0|1><inspector 0|1>@<ctxs>: AddOrUpdateListener history of one real listener,
        then a plaintext connection with that first byte and a TLS handshake; stored = the listener's Config()
  res <cls> <require> <verify> <peer> <none|clock|caswap> => ok|fail ok|fail r|f   full handshake, change, second handshake
        offering the session ticket; r = the server reports DidResume
  sdsu: one sds-backed context under configuration updates and secret pushes, see Drive/TlsSdsDrive.lean
  shr: listeners whose sds contexts share / do not share secret names, see Drive/TlsShareDrive.lean
  odst: the accept path of a use_original_dst listener on the real handler, see Drive/TlsAcceptDrive.lean
  cconn: the real clientConnection.Connect against scripted upstreams (no downgrade), see Drive/TlsConnDrive.lean
  trust2 / trustc2: trust anchors over the host's root store and the configured ca_cert, see Drive/TlsTrustDrive.lean
Strings: `~` = empty, `%xx` escapes; lists joined by `+`, `-` = empty list; ctx = `r|n:cn:sans:alpncfg:servername`,
contexts joined by `;`.
-/
namespace MosnVerif.Drive.C13
open MosnVerif.Drive MosnVerif.Model.TlsSelect MosnVerif.Gen.TlsPolicy MosnVerif.Model.TlsUpdate MosnVerif.Gen.TlsUpdate

def unesc : List Char → Option Name
  | [] => some []
  | '%' :: a :: b :: r =>
    match hexVal a, hexVal b, unesc r with
    | some x, some y, some t => some (Char.ofNat (x * 16 + y) :: t)
    | _, _, _ => none
  | '%' :: _ => none
  | c :: r => (unesc r).map (c :: ·)

def name? (s : String) : Option Name := if s == "~" then some [] else unesc s.toList

def names? (s : String) : Option (List Name) :=
  if s == "-" then some [] else (s.splitOn "+").mapM name?

def bool? (s : String) : Option Bool :=
  if s == "1" then some true else if s == "0" then some false else none

def flags? (s : String) : Option (Bool × Bool) :=
  match s.toList with
  | [a, b] => match bool? (String.ofList [a]), bool? (String.ofList [b]) with
    | some x, some y => some (x, y)
    | _, _ => none
  | _ => none

def ctx? (s : String) : Option Ctx :=
  match s.splitOn ":" with
  | [r, cn, sans, al, sn] =>
    match (if r == "r" then some true else if r == "n" then some false else none), name? cn, names? sans, name? al, name? sn with
    | some r, some cn, some sans, some al, some sn => some ⟨r, cn, sans, al, sn⟩
    | _, _, _, _, _ => none
  | _ => none

def ctxs? (s : String) : Option (List Ctx) :=
  if s == "-" then some [] else (s.splitOn ";").mapM ctx?

def peer? : String → Option Peer
  | "none" => some .none | "self" => some .selfSigned | "other" => some .otherCA | "right" => some .rightCA
  | "expired" => some .expired | "stolen" => some .stolenKey | _ => none

def scert? : String → Option ServerCert
  | "right" => some .rightCA | "self" => some .selfSigned | "other" => some .otherCA
  | "expired" => some .expired | "wrongname" => some .wrongName | _ => none

def showOutcome : Outcome → String
  | .config (some i) => toString i
  | .config none => "nil"
  | .errNoCert => "err"

def showOpt : Option Nat → String
  | some i => toString i
  | none => "err"

def showConn : ConnResult → String
  | .raw => "raw" | .tls => "tls" | .tlsPeeked => "tlsPeeked" | .plainPeeked => "plainPeeked" | .peekError => "peekError"

def conn? : String → Option ConnResult
  | "raw" => some .raw | "tls" => some .tls | "tlsPeeked" => some .tlsPeeked | "plainPeeked" => some .plainPeeked
  | "peekError" => some .peekError | _ => none

def showCres : ClientResult → String
  | .notls => "notls" | .ok => "ok" | .fail => "fail"

def cres? : String → Option ClientResult
  | "notls" => some .notls | "ok" => some .ok | "fail" => some .fail | _ => none

def tf (b : Bool) : String := if b then "T" else "F"
def okfail (b : Bool) : String := if b then "ok" else "fail"
def b01 (b : Bool) : String := if b then "1" else "0"

def change? : String → Option Change
  | "none" => some .none | "clock" => some .clock | "caswap" => some .caSwap | _ => none

/-- one AddOrUpdateListener call `<ok><insp>@<ctxs>`; its contexts are tagged with the call's number -/
def op? (k : Nat) (s : String) : Option Op :=
  match s.splitOn "@" with
  | [fl, cs] =>
    match flags? fl, ctxs? cs with
    | some (ok, insp), some cs => some ⟨⟨"L", insp, cs.map (fun c => (k, c))⟩, ok⟩
    | _, _ => none
  | _ => none

def ops? (s : String) : Option (List Op) :=
  let rec go (k : Nat) : List String → Option (List Op)
    | [] => some []
    | x :: r => match op? k x, go (k + 1) r with
      | some o, some t => some (o :: t)
      | _, _ => none
  go 0 (s.splitOn "|")

def showPresented : Option (Nat × Nat) → String
  | some (t, i) => s!"{t}.{i}"
  | none => "err"

def showStored (lc : LCfg) : String := s!"s{b01 lc.inspector}.{lc.contexts.length}"

def servedTok (b : Bool) : String := if b then "served" else "refused"

def verdict (model : String) (impl : String) (spec : Bool) : String :=
  s!"{if model == impl then "A" else "D"} {if spec then "S" else "V"} {model}"

def run (caseToks impl : List String) : String :=
  match caseToks, impl with
  | [k, _, cs, sni, protos], [r] =>
    if k == "sel" || k == "hs" then
      match ctxs? cs, name? sni, names? protos with
      | some ps, some sni, some protos =>
        verdict (showOutcome (select ps sni protos)) r (r == showOpt (specSelect ps sni protos))
      | _, _, _ => "E E bad-case"
    else if k == "trust" then
      match bool? cs, bool? sni, peer? protos with
      | some req, some ver, some p =>
        verdict (okfail (serverAccepts (getClientAuth req ver) p)) r (r == okfail (specServerAccepts req ver p))
      | _, _, _ => "E E bad-case"
    else "E E unknown-kind"
  | ["hsp", _, cs, sni, protos, flags, peer], [idx, res] =>
    match ctxs? cs, name? sni, names? protos, (flags.splitOn "+").mapM flags?, peer? peer with
    | some ps, some sni, some protos, some fl, some p =>
      let outAt (o : Option Nat) : String :=
        match o with
        | some i => match fl[i]? with
          | some (req, ver) => s!"{i} {okfail (serverAccepts (getClientAuth req ver) p)}"
          | none => "E E"
        | none => "err fail"
      let specAt : String :=
        match specSelect ps sni protos with
        | some i => match fl[i]? with
          | some (req, ver) => s!"{i} {okfail (specServerAccepts req ver p)}"
          | none => "E E"
        | none => "err fail"
      let m := match select ps sni protos with
        | .config o => outAt o
        | .errNoCert => "err fail"
      verdict m s!"{idx} {res}" (s!"{idx} {res}" == specAt)
    | _, _, _, _, _ => "E E bad-case"
  | ["msn", _, c, sni], [r] =>
    match ctx? c, name? sni with
    | some c, some sni => verdict (tf (c.sniMatch sni)) r (r == tf (nameRule c sni))
    | _, _ => "E E bad-case"
  | ["mal", _, c, protos], [r] =>
    match ctx? c, names? protos with
    | some c, some protos => verdict (tf (c.alpnMatch protos)) r (r == tf (alpnRule c protos))
    | _, _ => "E E bad-case"
  | ["auth", _, req, ver], [r] =>
    match bool? req, bool? ver with
    | some req, some ver => verdict (toString (getClientAuth req ver)) r (r == toString (specClientAuth req ver))
    | _, _ => "E E bad-case"
  | ["cv", _, hook, ins], [isv, vp] =>
    match bool? hook, bool? ins, bool? isv, bool? vp with
    | some hook, some ins, some isv, some vp =>
      let m := clientVerify hook ins
      -- statement: verification is skipped iff insecure_skip; otherwise either the normal verification or the hook runs
      verdict s!"{b01 m.1} {b01 m.2}" s!"{b01 isv} {b01 vp}" (specCv hook ins (isv, vp))
    | _, _, _, _ => "E E bad-case"
  | ["insp", _, tcp, cfgd, en, ins, pf, first], [r] =>
    match bool? tcp, bool? cfgd, bool? en, bool? ins, bool? pf, first.toNat?, conn? r with
    | some tcp, some cfgd, some en, some ins, some pf, some first, some ir =>
      verdict (showConn (connDecision tcp en ins pf first)) r (specConn tcp cfgd en ins pf first ir)
    | _, _, _, _, _, _, _ => "E E bad-case"
  | ["upd", _, ops, first, sni, protos], [plain, cert, stored] =>
    match ops? ops, first.toNat?, name? sni, names? protos with
    | some ops, some first, some sni, some protos =>
      let m := match MosnVerif.Model.TlsUpdate.run ops with
        | none => "refused err absent"
        | some st => s!"{servedTok (servesPlain (st.conn first))} {showPresented (st.presented sni protos)} {showStored st.stored}"
      let spec := match specLast none ops with
        | none => "refused err absent"
        | some lc =>
          let c := if lc.contexts.any (·.2.ready) then showPresented (specPresented lc sni protos) else "err"
          s!"{servedTok (specPlainServed lc first)} {c} {showStored lc}"
      verdict m s!"{plain} {cert} {stored}" (s!"{plain} {cert} {stored}" == spec)
    | _, _, _, _ => "E E bad-case"
  | ["res", _, req, ver, peer, ch], [r1, r2, resumed] =>
    match bool? req, bool? ver, peer? peer, change? ch with
    | some req, some ver, some p, some ch =>
      let auth := getClientAuth req ver
      let m := s!"{okfail (serverAccepts auth p)} {okfail (secondAccepts auth ch p)}"
      -- statement: both handshakes follow the trust table for the certificate as it is at that moment; a session can
      -- only be resumed after a handshake that succeeded
      let spec := r1 == okfail (specServerAccepts req ver p) && r2 == okfail (specServerAccepts req ver (peerAfter ch p)) &&
        (resumed == "f" || (resumed == "r" && r1 == "ok" && r2 == "ok"))
      verdict m s!"{r1} {r2}" spec
    | _, _, _, _ => "E E bad-case"
  | ["trustc", _, ready, hook, ins, sn, cert, hok], [r] =>
    match bool? ready, bool? hook, bool? ins, bool? sn, scert? cert, bool? hok, cres? r with
    | some ready, some hook, some ins, some sn, some cert, some hok, some cr =>
      verdict (showCres (clientConn ready hook ins sn cert hok)) r (specClientConn hook ins sn cert hok cr)
    | _, _, _, _, _, _, _ => "E E bad-case"
  | "cconn" :: _, _ => MosnVerif.Drive.TlsConnDrive.run caseToks impl
  | "sdsu" :: _, _ => MosnVerif.Drive.TlsSdsDrive.run caseToks impl
  | "odst" :: _, _ => MosnVerif.Drive.TlsAcceptDrive.run caseToks impl
  | "shr" :: _, _ => MosnVerif.Drive.TlsShareDrive.run caseToks impl
  | _, _ => MosnVerif.Drive.TlsTrustDrive.run caseToks impl

end MosnVerif.Drive.C13
