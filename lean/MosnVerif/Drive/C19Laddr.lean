import MosnVerif.Drive.Util
import MosnVerif.Model.ListenerAddr
/-!
Driver for the `laddr` cases of C19 (harness/c19/laddr.go): one listener per case through load → dump → reload → dump.
Case: `laddr <network as written | -absent> <class> <address text, escaped> <resolver's IP for a host name | -> <F|D: clusters / routers in the file or in directories>`
Implementation: `<n1>|<s1>|<c1> <dumped network>|<dumped address> <n2>|<s2>|<c2> <address of the second dump> <fam1>/<fam2>` or
`unloadable` / `<first three> reload-fails`: n = `Addr.Network()`, s = `Addr.String()`, c = `AddrConfig` after the first load and after
the reload; fam = which of 127.0.0.1 / ::1 reach a socket listening on the loaded `Addr` (port 0 tcp only, else `-`).
Text is escaped: every byte outside [A-Za-z0-9_.-] as %XX.
-/
namespace MosnVerif.Drive.C19Laddr
open MosnVerif.Drive MosnVerif.Model.ListenerAddr

def hexv (c : Char) : Nat := (hexVal c).getD 0

def unesc (s : String) : String :=
  if s == "%" then "" else
  let rec go : List Char → List Char → List Char
    | [], acc => acc.reverse
    | '%' :: a :: b :: r, acc => go r (Char.ofNat (hexv a * 16 + hexv b) :: acc)
    | c :: r, acc => go r (c :: acc)
  String.ofList (go s.toList [])

def okChar (c : Char) : Bool := c.isAlphanum || c == '_' || c == '.' || c == '-'

def esc (s : String) : String :=
  if s.isEmpty then "%" else
  String.join (s.toList.map (fun c => if okChar c then String.singleton c else
    "%" ++ String.ofList [hexDigit (c.toNat / 16), hexDigit (c.toNat % 16)]))

def canonNat (s : String) : Option Nat :=
  if s.isEmpty || !s.all Char.isDigit || (s.length > 1 && s.startsWith "0") then none else s.toNat?

/-- host text → syntax (the lexer; bracketed text is an IPv6 literal) -/
def lexHost (h : String) : HostTxt :=
  if h.isEmpty then .empty
  else if h.startsWith "[" && h.endsWith "]" then
    let inner := String.ofList ((h.toList.drop 1).dropLast)
    if inner == "::" then .unspec6 else if inner == "::1" then .loop6 else .other6 inner
  else match (h.splitOn ".").mapM canonNat with
    | some [a, b, c, d] => .quad a b c d
    | _ => .name h

def lexInet (s : String) : Option Txt :=
  match s.splitOn ":" with
  | [] | [_] => none
  | parts =>
    match canonNat parts.getLast! with
    | some p => some (.inet (lexHost (":".intercalate parts.dropLast)) p)
    | none => none

def renderHost : HostTxt → String
  | .empty => ""
  | .quad a b c d => s!"{a}.{b}.{c}.{d}"
  | .unspec6 => "[::]"
  | .loop6 => "[::1]"
  | .other6 s => "[" ++ s ++ "]"
  | .name s => s

def render : Txt → String
  | .inet h p => renderHost h ++ ":" ++ toString p
  | .path s => s

/-- the resolver's answer (an IP literal without brackets) -/
def lexIP (s : String) : Option IP :=
  if s == "::" then some .v6unspec else if s == "::1" then some .v6loop
  else match (s.splitOn ".").mapM canonNat with
    | some [a, b, c, d] => some (.v4 a b c d)
    | _ => if s.contains ':' then some (.v6 s) else none

def netName : Addr → String
  | .tcp _ _ => "tcp"
  | .udp _ _ => "udp"
  | .unix _ => "unix"

def triple (l : Loaded) : String := s!"{netName l.addr}|{esc (render (printAddr l.addr))}|{esc (render l.addrConfig)}"

def run (toks impl : List String) : String :=
  match toks with
  | [netT, _cls, addrT, resT, _mode] =>
    let net := if netT == "-absent" then "" else (unesc netT).toLower
    let addr := unesc addrT
    let txt : Option Txt := if net == "unix" then some (.path addr) else lexInet addr
    let res : String → Option IP := fun _ => if resT == "-" then none else lexIP (unesc resT)
    let model : List String :=
      match txt.bind (fun t => load res ⟨net, t⟩) with
      | none => ["unloadable"]
      | some l1 =>
        match dump l1 with
        | none => ["model-shape"]
        | some c1 =>
          match load res c1 with
          | none => [triple l1, s!"{esc c1.network}|{esc (render c1.address)}", "reload-fails"]
          | some l2 =>
            [triple l1, s!"{esc c1.network}|{esc (render c1.address)}", triple l2,
             match dump l2 with | some c2 => esc (render c2.address) | none => "?"]
    -- the reference, on the implementation's tokens only: the reload yields the same network and Addr, the second dump the
    -- same text, the dumped address IS the configured one (the form is kept), the dumped network the normalised one, and the
    -- sockets of both loads accept the same families
    let spec : Bool :=
      match impl with
      | ["unloadable"] => true
      | [t1, d1, t2, d2, fam] =>
        match t1.splitOn "|", d1.splitOn "|", t2.splitOn "|", fam.splitOn "/" with
        | [n1, s1, _], [dn, da], [n2, s2, c2], [f1, f2] =>
          n1 == n2 && s1 == s2 && da == d2 && c2 == da && unesc da == addr && unesc dn == (if net.isEmpty then "tcp" else net) &&
          n1 == unesc dn && f1 == f2
        | _, _, _, _ => false
      | _ => false
    let agree := impl.take 4 == model
    s!"{if agree then "A" else "D"} {if spec then "S" else "V"} {joinWith " " model}"
  | _ => "E E bad-laddr-case"

end MosnVerif.Drive.C19Laddr
