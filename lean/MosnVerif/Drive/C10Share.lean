import MosnVerif.Drive.Util
import MosnVerif.Model.ResourceShareHist
/-!
C10 driver, kind `rsh` (builder c10p10; harness/c10/c10p10_share.go): histories of requests, retries, stream-proxy connections
and CLUSTER UPDATES on the real cluster manager + proxy core.

case : `rsh <c>,<p>,<q>,<r> zx=<0|1> <op> …`   initial thresholds (connections, pending, requests, retries), zero-crossing tag, ops:
         `Q<k>` start request k   `T<k>` its parked attempt answers 503 (retry)   `F<k>` 200 / `R<k>` downstream reset / `W<k>` global timeout
         `C<j>` open a stream-proxy connection   `D<j>` close it from downstream / `E<j>` from upstream
         `U<P|H|p|h><type>:<c>,<p>,<q>,<r>`  AddOrUpdatePrimaryCluster / AddOrUpdateClusterAndHost (lower case: through the adapter's
         Trigger*), cluster type 0 = SIMPLE 1 = STRICT_DNS, new thresholds — applied to both clusters
impl : one token per op `<out>/<c>,<p>,<q>,<r>/<mc>,<mp>,<mq>,<mr>/<gq>,<gc>`: outcome (a admitted, o overflow, n ignored, r retried,
       v retry refused, e ended, u updated), `Cur()` and `Max()` of the four resources on the manager of the CURRENT snapshot
       (connections on cluster t1, the others on c1), cluster request_active of c1 and connection_active of t1.

`A` = the object-graph model under the regenerated programs (`objTrace Code.gen`) gives exactly these tokens.
`S` = `Spec.holds`: the implementation's observations are those of the ledger BY NAME (`refTrace`, no regenerated code): counters =
live holders (0 when unlimited / idle), thresholds of the last update, admissions refused exactly at the threshold.
`zx` must be 1 exactly when the history moves a threshold through zero under a held unit (`Ref.zeroStable` false): the key of the
known finding `threshold_through_zero`.
-/
namespace MosnVerif.Drive.C10Share
open MosnVerif.Drive MosnVerif.Model.ResourceShare

def parseNats (s : String) : Option (List Nat) := (s.splitOn ",").mapM (·.toNat?)
def parseInts (s : String) : Option (List Int) := (s.splitOn ",").mapM parseInt?

def parseThr (s : String) : Option Thr :=
  match parseNats s with
  | some [c, p, q, r] => some ⟨c, p, q, r⟩
  | _ => none

def parseOp (t : String) : Option SOp :=
  let body := (t.drop 1).toString
  match t.toList.head? with
  | some 'Q' => body.toNat?.map .start
  | some 'T' => body.toNat?.map .retry
  | some 'F' => body.toNat?.map .fin
  | some 'R' => body.toNat?.map .fin
  | some 'W' => body.toNat?.map .fin
  | some 'C' => body.toNat?.map .open_
  | some 'D' => body.toNat?.map .close
  | some 'E' => body.toNat?.map .close
  | some 'U' =>
    match body.splitOn ":" with
    | [hd, th] =>
      match hd.toList with
      | [via, ty] =>
        let prim := via == 'P' || via == 'p'
        if !(prim || via == 'H' || via == 'h') then none else
        match (String.singleton ty).toNat?, parseThr th with
        | some tyn, some thr => some (.update prim tyn thr)
        | _, _ => none
      | _ => none
    | _ => none
  | _ => none

def parseOut (s : String) : Option Out :=
  match s with
  | "a" => some .a | "o" => some .o | "n" => some .n | "r" => some .r | "v" => some .v | "e" => some .e | "u" => some .u
  | _ => none

def parseObs (t : String) : Option ObsS :=
  match t.splitOn "/" with
  | [o, cur, mx, g] =>
    match parseOut o, parseInts cur, parseNats mx, parseInts g with
    | some out, some [c, p, q, r], some [mc, mp, mq, mr], some [gq, gc] => some ⟨out, ⟨c, p, q, r⟩, ⟨mc, mp, mq, mr⟩, gq, gc⟩
    | _, _, _, _ => none
  | _ => none

def renderOut : Out → String
  | .a => "a" | .o => "o" | .n => "n" | .r => "r" | .v => "v" | .e => "e" | .u => "u"

def renderObs (o : ObsS) : String :=
  s!"{renderOut o.out}/{o.cur.conn},{o.cur.pend},{o.cur.req},{o.cur.retr}/{o.max.conn},{o.max.pend},{o.max.req},{o.max.retr}/{o.gReq},{o.gConn}"

def run (caseToks impl : List String) : String :=
  match caseToks with
  | "rsh" :: thr :: zx :: ops =>
    match parseThr thr, ops.mapM parseOp with
    | some thr0, some sops =>
      let stable := (Ref.init thr0).zeroStable sops
      if zx != (if stable then "zx=0" else "zx=1") then "E E bad-zx-tag" else
      let model := (objTrace Code.gen (Hist.init thr0) sops).map renderObs
      let out := joinWith " " model
      let agree := out == joinWith " " impl
      let ok := match impl.mapM parseObs with
        | some obs => Spec.holds thr0 sops obs
        | none => false
      s!"{if agree then "A" else "D"} {if ok then "S" else "V"} {out}"
    | _, _ => "E E bad-case"
  | _ => "E E bad-case"

end MosnVerif.Drive.C10Share
