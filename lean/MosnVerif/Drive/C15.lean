import MosnVerif.Drive.Util
import MosnVerif.Model.Subset
import MosnVerif.Model.SubsetRequest
import MosnVerif.Model.SubsetSlice
import MosnVerif.Model.CriteriaFlow
namespace MosnVerif.Drive.C15
open MosnVerif.Drive MosnVerif.Model.Subset MosnVerif.Model.SubsetRequest MosnVerif.Model.SubsetSlice

def parsePairs (s : String) : Option Path :=
  if s == "-" then some [] else
  (s.splitOn ";").mapM (fun kv => match kv.splitOn "=" with
    | [k, v] => some (k, v)
    | _ => none)

def parseSelectors (s : String) : List (List Key) :=
  if s == "-" then [] else
  (s.splitOn ",").map (fun sel => if sel == "_" then [] else sel.splitOn "+")

def parseHosts (s : String) : Option (List Host) :=
  if s == "-" then some [] else
  (s.splitOn ",").mapM (fun h => match h.splitOn "/" with
    | [n, m, f] => (parsePairs m).map (fun md => ({ name := n, md := md, healthy := f == "H" } : Host))
    | _ => none)

def parseQuery (s : String) : Option Query :=
  if s == "nilctx" then some .nilCtx
  else if s == "nilcrit" then some .nilCrit
  else if s.startsWith "c:" then (parsePairs (s.drop 2).toString).map .crit
  else none

/-! The pre-index balancer of the model is `newPreS goGrow id`: the builder's combination prefix is a Go slice extended by
the regenerated statements `Gen.SubsetSlice.comboExtend` under Go's doubling capacity policy (`Model/SubsetSlice.lean`);
the map iteration order is fixed to `id` (with a fresh extension the result does not depend on it). -/

def names (l : List Host) : String :=
  let ns := sortStrings (dedup (l.map (·.name)))
  if ns.isEmpty then "-" else joinWith "+" ns

/-- the model's observation of one balancer: every host `ChooseHost` can return over all states of the (round-robin)
inner balancers, `HostNum`, `IsExistsHosts` -/
def observe (lb : LB) (nhosts : Nat) (q : Query) : String :=
  let ds := List.range (nhosts + 1)
  let chosen := ds.flatMap (fun d1 => ds.filterMap (fun d2 => chooseHost rrChoose lb q d1 d2))
  let md := q.criteria
  s!"{names chosen}:{hostNum lb md}:{if isExists lb md then 1 else 0}"

/-- the declarative expectation (property predicate), from the *raw* configuration -/
def expect (hosts : List Host) (raw : List (List Key)) (policy : Nat) (dflt : Path) (q : Query) : String :=
  match q with
  | .crit c =>
    let pool := specPool hosts raw policy dflt c
    s!"{names (specTargets hosts raw policy dflt c)}:{pool.length}:{if pool.length > 0 then 1 else 0}"
  | .nilCrit =>
    -- no criteria: the whole cluster
    s!"{names (hosts.filter (·.healthy))}:{hosts.length}:{if hosts.length > 0 then 1 else 0}"
  | .nilCtx =>
    s!"{names ((specFallbackPool hosts policy dflt).filter (·.healthy))}:{hosts.length}:{if hosts.length > 0 then 1 else 0}"

/-- weak expectation for the malformed stream (criteria arrays that the router never builds: unsorted or with a
repeated key): only "a chosen host matches the criteria or belongs to the fallback pool" is demanded -/
def weakOk (hosts : List Host) (policy : Nat) (dflt : Path) (c : Path) (obs : String) : Bool :=
  match obs.splitOn ":" with
  | [ch, _, _] =>
    let allowed := ((hosts.filter (contains · c)) ++ specFallbackPool hosts policy dflt).filter (·.healthy) |>.map (·.name)
    ch == "-" || (ch.splitOn "+").all (allowed.contains ·)
  | _ => false

/-- inner policies other than round-robin (all hosts healthy): the observed hosts must be among the model's targets,
some host must be observed iff the model has a target, and `HostNum`/`IsExistsHosts` must be equal -/
def innerOk (want obs : String) : Bool :=
  match want.splitOn ":", obs.splitOn ":" with
  | [wc, wn, we], [oc, on, oe] =>
    wn == on && we == oe && ((oc == "-") == (wc == "-")) &&
      (oc == "-" || (oc.splitOn "+").all ((wc.splitOn "+").contains ·))
  | _, _ => false

def entryTok (key : String) (l : List Host) : String := s!"{key}={l.length}/{names (l.filter (·.healthy))}"

/-- every initialised entry of the model's trie, as `TraversalLbSubsetMap` names them (fuel = depth bound) -/
def dumpRoot : Nat → String → Root → List String
  | 0, _, _ => []
  | fuel + 1, pre, root =>
    root.flatMap (fun (kv, t) =>
      let p := pre ++ kv.1 ++ ":" ++ kv.2
      (match t.lb with
        | some l => [entryTok p l]
        | none => []) ++ dumpRoot fuel (p ++ "->") t.children)

def dumpLB (lb : LB) : String :=
  let ents := dumpRoot 16 "" lb.subsets ++ [entryTok "MOSN-Subset-All" lb.full] ++
    (match lb.fallback with
      | some f => [entryTok "MOSN-Subset-Fallback" f]
      | none => [])
  joinWith "|" (sortStrings ents)

/-- the declarative content of the trie, from the raw configuration: for every configured selector (as a sorted key
set) and every host carrying all its keys, the path of that host's values holds exactly the hosts containing it -/
def expectTrie (hosts : List Host) (raw : List (List Key)) (policy : Nat) (dflt : Path) : String :=
  let paths : List Path := raw.flatMap (fun r =>
    let ks := sortStrings (dedup r)
    if ks.isEmpty then [] else
    hosts.filterMap (fun h => ks.mapM (fun k => (List.lookup k h.md).map (fun v => (k, v)))))
  let ents := (dedup (paths.map (fun p =>
      entryTok (joinWith "->" (p.map (fun kv => kv.1 ++ ":" ++ kv.2))) (hosts.filter (contains · p))))) ++
    [entryTok "MOSN-Subset-All" hosts] ++
    (match policy with
      | 1 => [entryTok "MOSN-Subset-Fallback" hosts]
      | 2 => [entryTok "MOSN-Subset-Fallback" (hosts.filter (contains · dflt))]
      | _ => [])
  joinWith "|" (sortStrings ents)

/-! ### kind `px`: sequences of requests on one route through the proxy (request path) -/

def parseReq (s : String) : Option (Option Meta) :=
  if s == "n" then some none
  else if s.startsWith "m:" then (parsePairs (s.drop 2).toString).map some
  else none

def critTok : Option Path → String
  | none => "nil"
  | some c => if c.isEmpty then "-" else joinWith ";" (c.map (fun kv => kv.1 ++ "=" ++ kv.2))

/-- one request: observation `<host|none>/<route object after>` against the model's possible hosts and route object,
and against the declarative targets of exactly this request -/
def pxRequest (lb : LB) (nhosts : Nat) (targets : List Host) (res : Res) (obs : String) : Bool × Bool × String :=
  let ds := List.range (nhosts + 1)
  let possible := ds.flatMap (fun d1 => ds.filterMap (fun d2 => proxyChoose rrChoose lb res.used d1 d2))
  let mtok := s!"{names possible}/{critTok res.route}"
  match obs.splitOn "/" with
  | [host, after] =>
    let okHost (l : List Host) : Bool := if host == "none" then l.isEmpty else (l.map (·.name)).contains host
    (okHost possible && after == critTok res.route, okHost targets, mtok)
  | _ => (false, false, mtok)

def runPx (mode pol dflt sels hosts route reqs obs : String) : String :=
  let routeKind := (route.take 2).toString
  match pol.toNat?, parsePairs dflt, parseHosts hosts, parsePairs (route.drop 2).toString,
      (reqs.splitOn "|").mapM parseReq with
  | some policy, some d, some hs, some rmd, some rs =>
    if (mode != "F" && mode != "P") || (routeKind != "r:" && routeKind != "w:") then "E E bad-case" else
    let raw := parseSelectors sels
    let keys := generateSubsetKeys raw
    let lb := if mode == "F" then newFilter hs policy d keys else newPreS goGrow id hs policy d keys
    -- the model's route object, as base_rule.go creates it (the weighted variant carries a decoy on the route itself)
    let routeObj := if routeKind == "w:" then ruleCriteria 1 (some (weightedObject rmd)) (routeObject [("zz", "decoy")])
      else ruleCriteria 0 none (routeObject rmd)
    -- the declarative configuration: a route without metadata_match carries no criteria; a weighted cluster always does
    let rc : Option Meta := if routeKind == "w:" then some rmd else if rmd.isEmpty then none else some rmd
    let results := runSeq routeObj rs
    let os := obs.splitOn "|"
    if os.length != rs.length then s!"D V {joinWith "|" (results.map (fun r => critTok r.used))}" else
    let per := (results.zip (rs.zip os)).map (fun (res, req, o) =>
      pxRequest lb hs.length (requestTargets hs raw policy d rc req) res o)
    let agree := per.all (·.1)
    let spec := per.all (·.2.1)
    s!"{if agree then "A" else "D"} {if spec then "S" else "V"} {joinWith "|" (per.map (·.2.2))}"
  | _, _, _, _, _ => "E E bad-case"

/-! ### kind `ps`: ONE request, several host selections (re-choose-host, route entry replaced, retry) -/

def parseVarOp (op : String) : Option (List MosnVerif.Model.CriteriaFlow.Step) :=
  if op == "k" then some []
  else if op == "u" then some [.store none]
  else if op.startsWith "s:" then (parsePairs (op.drop 2).toString).map (fun m => [.store (some m)])
  else if op.startsWith "p:" then (parsePairs (op.drop 2).toString).map (fun m => [.put m])
  else if op.startsWith "d:" then some [.del (op.drop 2).toString]
  else none

structure PsAcc where
  s : MosnVerif.Model.CriteriaFlow.S
  dvar : Option Meta          -- the variable as the filters left it (declarative side)
  drc : Option Meta           -- the metadata_match map of the current route entry
  obs : List String
  outs : List String := []
  agree : Bool := true
  spec : Bool := true
  stopped : Bool := false

def runPs (mode pol dflt sels hosts routes v0 steps : String) (impl : List String) : String :=
  open MosnVerif.Model.CriteriaFlow in
  match pol.toNat?, parsePairs dflt, parseHosts hosts, impl with
  | some policy, some d, some hs, [sel, first] =>
    match ((routes.drop 2).toString.splitOn "/").mapM parsePairs, (if v0 == "n" then some none else (parsePairs (v0.drop 2).toString).map some) with
    | some [r1, r2], some var0 =>
      let raw := parseSelectors sels
      let keys := generateSubsetKeys raw
      let lb := if mode == "F" then newFilter hs policy d keys else newPreS goGrow id hs policy d keys
      let obj (md : Meta) := ruleCriteria 0 none (routeObject md)
      let rcOf (md : Meta) : Option Meta := if md.isEmpty then none else some md
      let ds := List.range (hs.length + 1)
      -- one selection
      let doSel (a : PsAcc) : PsAcc :=
        if a.stopped then a else
        let r := MosnVerif.Model.CriteriaFlow.select Gen.CriteriaFlow.memoized Gen.SubsetRequest.varCopiedBeforeMerge a.s
        let possible := ds.flatMap (fun d1 => ds.filterMap (fun d2 => proxyChoose rrChoose lb r.1 d1 d2))
        let targets := requestTargets hs raw policy d a.drc a.dvar
        match a.obs with
        | [] => { a with agree := false, spec := false, stopped := true, outs := names possible :: a.outs }
        | o :: rest =>
          let okHost (l : List Host) : Bool := if o == "none" then l.isEmpty else (l.map (·.name)).contains o
          { a with s := r.2, obs := rest, outs := names possible :: a.outs, agree := a.agree && okHost possible,
                   spec := a.spec && okHost targets, stopped := o == "none" }
      let applyEdits (a : PsAcc) (es : List Step) : PsAcc :=
        if a.stopped then a else
        { a with s := es.foldl edit a.s, dvar := (es.foldl edit ({ var := a.dvar, route := none } : S)).var }
      let stepToks := steps.splitOn "|"
      let init : PsAcc := doSel { s := { var := var0, route := obj r1 }, dvar := var0, drc := rcOf r1, obs := sel.splitOn "," }
      let fin := stepToks.foldl (fun (a : Option PsAcc) st =>
        match a with
        | none => none
        | some a =>
          let kind := (st.take 2).toString
          match parseVarOp (st.drop 2).toString with
          | none => none
          | some es =>
            if kind == "c:" || kind == "t:" then some (doSel (applyEdits a es))
            else if kind == "e:" then
              let a' := if a.stopped then a else { a with s := edit a.s (.route (obj r2)), drc := rcOf r2 }
              some (doSel (applyEdits a' es))
            else none) (some init)
      match fin with
      | none => "E E bad-case"
      | some a =>
        -- the first upstream attempt goes to the host of the last selection made before it
        let nBefore := (stepToks.filter (fun st => !st.startsWith "t:")).length
        let obsL := sel.splitOn ","
        let firstOk := first == "@" ++ (if obsL.contains "none" && obsL.length ≤ nBefore + 1 then "-" else obsL.getD nBefore "-")
        let leftover := !a.obs.isEmpty
        s!"{if a.agree && firstOk && !leftover then "A" else "D"} {if a.spec && firstOk && !leftover then "S" else "V"} {joinWith "," a.outs.reverse}"
    | _, _ => "E E bad-case"
  | _, _, _, _ => "E E bad-case"

def stripTag (tag : String) (s : String) : Option String :=
  if s.startsWith tag then some (s.drop tag.length).toString else none

def runTrie (pol dflt sels hosts : String) (fi pi : String) : String :=
  match pol.toNat?, parsePairs dflt, parseHosts hosts, stripTag "F:" fi, stripTag "P:" pi with
  | some policy, some d, some hs, some fObs, some pObs =>
    let raw := parseSelectors sels
    let keys := generateSubsetKeys raw
    let mf := dumpLB (newFilter hs policy d keys)
    let mp := dumpLB (newPreS goGrow id hs policy d keys)
    let e := expectTrie hs raw policy d
    let agree := fObs == mf && pObs == mp
    let spec := fObs == e && pObs == e
    s!"{if agree then "A" else "D"} {if spec then "S" else "V"} F:{mf} P:{mp}"
  | _, _, _, _, _ => "E E bad-case"

/-! ### adversarial key strings (kinds `ak`, `gk`): every key and value is `x<hex of its bytes>` (ASCII), so that keys may be
empty or contain the characters the line protocol (and an implementation joining keys) separates with -/

def unhexStr (s : String) : Option String :=
  if s.startsWith "x" then
    (unhex (s.drop 1).toString).map (fun bs => String.ofList (bs.map (fun b => Char.ofNat b.toNat)))
  else none

def hexStr (s : String) : String := "x" ++ (if s.isEmpty then "" else hex (s.toList.map (fun c => UInt8.ofNat c.toNat)))

def parsePairsX (s : String) : Option Path :=
  if s == "-" then some [] else
  (s.splitOn ";").mapM (fun kv => match kv.splitOn "=" with
    | [k, v] => match unhexStr k, unhexStr v with
      | some k, some v => some (k, v)
      | _, _ => none
    | _ => none)

def parseSelectorsX (s : String) : Option (List (List Key)) :=
  if s == "-" then some [] else
  (s.splitOn ",").mapM (fun sel => if sel == "_" then some [] else (sel.splitOn "+").mapM unhexStr)

def parseHostsX (s : String) : Option (List Host) :=
  if s == "-" then some [] else
  (s.splitOn ",").mapM (fun h => match h.splitOn "/" with
    | [n, m, f] => (parsePairsX m).map (fun md => ({ name := n, md := md, healthy := f == "H" } : Host))
    | _ => none)

def parseQueryX (s : String) : Option Query :=
  if s == "nilctx" then some .nilCtx
  else if s == "nilcrit" then some .nilCrit
  else if s.startsWith "c:" then (parsePairsX (s.drop 2).toString).map .crit
  else none

def selsTok (l : List (List Key)) : String :=
  if l.isEmpty then "-" else joinWith "," (l.map (fun s => if s.isEmpty then "_" else joinWith "+" (s.map hexStr)))

/-- the declarative content of `SubsetKeys`, from the raw configuration and independent of the model: the sorted
duplicate-free key list of every configured selector, each once, in order of first appearance -/
def expectKeys (raw : List (List Key)) : List (List Key) :=
  raw.foldl (fun acc r => let s := sortStrings (dedup r); if acc.contains s then acc else acc ++ [s]) []

/-- kind `gk`: `GenerateSubsetKeys` alone -/
def runGk (sels obs : String) : String :=
  match parseSelectorsX sels with
  | some raw =>
    let m := selsTok (generateSubsetKeys raw)
    -- the property needs the SET of key lists (order and multiplicity are the model's business: A/D)
    let asSet (t : String) : List String := if t == "-" then [] else sortStrings (dedup (t.splitOn ","))
    let e := selsTok (expectKeys raw)
    s!"{if obs == m then "A" else "D"} {if asSet obs == asSet e then "S" else "V"} {m}"
  | none => "E E bad-case"

/-- one configuration + query against both observed balancers (kinds q / raw / in.* / ak) -/
def runQuery (kind : String) (policy : Nat) (d : Path) (hs : List Host) (raw : List (List Key)) (q : Query)
    (fObs pObs : String) : String :=
  let keys := generateSubsetKeys raw
  let mf := observe (newFilter hs policy d keys) hs.length q
  let mp := observe (newPreS goGrow id hs policy d keys) hs.length q
  let innerKind := kind.startsWith "in."
  -- criteria produced by the real router code (kinds q / ak / in.*) must be what the model's `mkCriteria` builds
  let critOk := match q with
    | .crit c => kind == "raw" || mkCriteria c == c
    | _ => true
  let agree := critOk && (if innerKind then innerOk mf fObs && innerOk mp pObs else fObs == mf && pObs == mp)
  -- kinds q / ak: criteria built by the real router code from a map (the expectation reads them as a set of pairs)
  let wellFormed := kind == "q" || kind == "ak"
  let spec :=
    if innerKind then
      let e := expect hs raw policy d q
      innerOk e fObs && innerOk e pObs
    else if wellFormed then
      let e := expect hs raw policy d q
      fObs == e && pObs == e
    else match q with
      | .crit c => weakOk hs policy d c fObs && weakOk hs policy d c pObs && fObs == pObs
      | _ => false
  s!"{if agree then "A" else "D"} {if spec then "S" else "V"} F:{mf} P:{mp}"

def run (caseToks impl : List String) : String :=
  match caseToks, impl with
  | ["px", mode, pol, dflt, sels, hosts, route, reqs], [obs] => runPx mode pol dflt sels hosts route reqs obs
  | ["ps", mode, pol, dflt, sels, hosts, routes, v0, steps], impl => runPs mode pol dflt sels hosts routes v0 steps impl
  | ["t", pol, dflt, sels, hosts, "trie"], [fi, pi] => runTrie pol dflt sels hosts fi pi
  | ["gk", sels], [obs] => runGk sels obs
  | ["ak", pol, dflt, sels, hosts, query], [fi, pi] =>
    match pol.toNat?, parsePairsX dflt, parseSelectorsX sels, parseHostsX hosts, parseQueryX query,
        stripTag "F:" fi, stripTag "P:" pi with
    | some policy, some d, some raw, some hs, some q, some fObs, some pObs => runQuery "ak" policy d hs raw q fObs pObs
    | _, _, _, _, _, _, _ => "E E bad-case"
  | [kind, pol, dflt, sels, hosts, query], [fi, pi] =>
    match pol.toNat?, parsePairs dflt, parseHosts hosts, parseQuery query, stripTag "F:" fi, stripTag "P:" pi with
    | some policy, some d, some hs, some q, some fObs, some pObs =>
      runQuery kind policy d hs (parseSelectors sels) q fObs pObs
    | _, _, _, _, _, _ => "E E bad-case"
  | _, _ => "E E bad-shape"

end MosnVerif.Drive.C15
