import MosnVerif.Drive.Util
import MosnVerif.Model.TlsSds
/-!
Helper driver of C13 (no `main`): kind
  sdsu <l|c> <ops> => <observations joined by `,`>
one sds-backed TLS context (listener `l`: the second context of a listener whose first context is static; cluster `c`:
the context of a cluster's client manager) under a history of operations joined by `|`:
  U<v><r><s>   listener update: verify_client, require_client_cert (0|1), server_name (0 none | a | b)
  U<i><s><x>   cluster update: insecure_skip, server_name set, extension with a verify hook (0|1)
  S<k>         the sds server pushes secret number k;  E  a push without certificate
  H<sni>.<peer>    listener probe: handshake with SNI c (the sds certificate's name) | a | b | n (unknown) | d (the static
                   certificate's name) by a client of that peer class      => <d|s<k>|err>.<ok|fail>
  H<cert>.<hookok> cluster probe: upstream handshake with a server presenting that certificate class => pending | ok.<k> | fail
The first operation is the creating update. Model = `Model.TlsSds.run` (regenerated updateConfig / push / update);
Spec = latest configuration + latest secret through the statement's tables.
-/
namespace MosnVerif.Drive.TlsSdsDrive
open MosnVerif.Drive MosnVerif.Model.TlsSelect MosnVerif.Model.TlsSds

def bit? (c : Char) : Option Bool := if c == '1' then some true else if c == '0' then some false else none

def peer? : String → Option Peer
  | "none" => some .none | "self" => some .selfSigned | "other" => some .otherCA | "right" => some .rightCA
  | "expired" => some .expired | "stolen" => some .stolenKey | _ => none

def scert? : String → Option ServerCert
  | "right" => some .rightCA | "self" => some .selfSigned | "other" => some .otherCA
  | "expired" => some .expired | "wrongname" => some .wrongName | _ => none

def sni? : String → Option Name
  | "c" => some sdsCN | "a" => some snA | "b" => some snB | "n" => some snNone | "d" => some defaultCN | _ => none

def lpol? : List Char → Option LPol
  | [v, r, s] =>
    match bit? v, bit? r, (if s == '0' then some [] else if s == 'a' then some snA else if s == 'b' then some snB else none) with
    | some v, some r, some s => some ⟨v, r, s⟩
    | _, _, _ => none
  | _ => none

def cpol? : List Char → Option CPol
  | [i, s, x] =>
    match bit? i, bit? s, bit? x with
    | some i, some s, some x => some ⟨i, s, x⟩
    | _, _, _ => none
  | _ => none

def okfail (b : Bool) : String := if b then "ok" else "fail"

def showL : Option (Option Nat × Bool) → String
  | none => "err.fail"
  | some (none, ok) => s!"d.{okfail ok}"
  | some (some k, ok) => s!"s{k}.{okfail ok}"

def showC : Option (Nat × Bool) → String
  | none => "pending"
  | some (k, true) => s!"ok.{k}"
  | some (_, false) => "fail"

/-- walk the history: state = (model provider, operations so far), output = (model observations, spec observations) -/
def walk {κ : Type} (pol? : List Char → Option κ) (probe : Option (κ × Nat) → String → String → Option String)
    (specProbe : Option (κ × Nat) → String → String → Option String) (cfg0 : κ) :
    List String → Prov κ Nat → List (SOp κ Nat) → List String → List String → Option (List String × List String)
  | [], _, _, m, s => some (m.reverse, s.reverse)
  | t :: r, p, hist, m, s =>
    match t.toList with
    | 'U' :: cs =>
      match pol? cs with
      | some c => walk pol? probe specProbe cfg0 r (step p (.update c true)) (hist ++ [.update c true]) m s
      | none => none
    | ['E'] => walk pol? probe specProbe cfg0 r (step p .pushEmpty) (hist ++ [.pushEmpty]) m s
    | 'S' :: ks =>
      match (String.ofList ks).toNat? with
      | some k => walk pol? probe specProbe cfg0 r (step p (.push k)) (hist ++ [.push k]) m s
      | none => none
    | 'H' :: hs =>
      match (String.ofList hs).splitOn "." with
      | [a, b] =>
        match probe p.ctx a b, specProbe (specCtx cfg0 none hist) a b with
        | some x, some y => walk pol? probe specProbe cfg0 r p hist (x :: m) (y :: s)
        | _, _ => none
      | _ => none
    | _ => none

def runOps {κ : Type} (pol? : List Char → Option κ) (probe specProbe : Option (κ × Nat) → String → String → Option String)
    (ops : List String) : Option (List String × List String) :=
  match ops with
  | u :: r =>
    match u.toList with
    | 'U' :: cs =>
      match pol? cs with
      | some c0 => walk pol? probe specProbe c0 r (create c0 none true) [] [] []
      | none => none
    | _ => none
  | [] => none

def lProbe (f : Option (LPol × Nat) → Name → Peer → Option (Option Nat × Bool)) (ctx : Option (LPol × Nat)) (a b : String) : Option String :=
  match sni? a, peer? b with
  | some sni, some p => some (showL (f ctx sni p))
  | _, _ => none

def cProbe (f : Option (CPol × Nat) → ServerCert → Bool → Option (Nat × Bool)) (ctx : Option (CPol × Nat)) (a b : String) : Option String :=
  match scert? a, (match b.toList with | [c] => bit? c | _ => none) with
  | some sc, some hok => some (showC (f ctx sc hok))
  | _, _ => none

def run (caseToks impl : List String) : String :=
  match caseToks, impl with
  | ["sdsu", dir, ops], [obs] =>
    let r := if dir == "l" then runOps lpol? (lProbe listenerObs) (lProbe specListenerObs) (ops.splitOn "|")
      else if dir == "c" then runOps cpol? (cProbe clusterObs) (cProbe specClusterObs) (ops.splitOn "|")
      else none
    match r with
    | some (m, s) =>
      let ms := ",".intercalate m
      s!"{if ms == obs then "A" else "D"} {if ",".intercalate s == obs then "S" else "V"} {ms}"
    | none => "E E bad-case"
  | _, _ => "E E unknown-kind"

end MosnVerif.Drive.TlsSdsDrive
