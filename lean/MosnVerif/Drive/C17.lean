import MosnVerif.Drive.Util
import MosnVerif.Model.Headers
import MosnVerif.Drive.RetryDrive
import MosnVerif.Model.RouteFinalize
import MosnVerif.Model.HeaderWiring
import MosnVerif.Drive.C17Policy
import MosnVerif.Drive.C17HeaderMaps
import MosnVerif.Drive.C17PerTry
namespace MosnVerif.Drive.C17
open MosnVerif.Drive MosnVerif.Model.Headers MosnVerif.Gen.HeaderMutation MosnVerif.Gen.ProxyTimeout

def unhexStr (s : String) : Option String := (unhex s).map (fun b => String.ofList (b.map (fun x => Char.ofNat x.toNat)))
def hexStr (s : String) : String := hex (s.toList.map (fun c => UInt8.ofNat c.toNat))

def parseList (s : String) : List String := if s == "-" then [] else s.splitOn ","

def parseAdd (s : String) : Option Model.Headers.Add :=
  match s.splitOn ":" with
  | [n, v, f] => do
    let n ← unhexStr n
    let v ← unhexStr v
    some ⟨n.toLower, v, f == "1"⟩
  | _ => none

/-- `adds;removes`; configured names are lower-cased when the parser is built (`getHeaderPair`, `getHeadersToRemove`) -/
def parseParser (s : String) : Option Parser :=
  match s.splitOn ";" with
  | [a, r] => do
    let adds ← (parseList a).mapM parseAdd
    let rems ← (parseList r).mapM unhexStr
    some ⟨adds, rems.map String.toLower⟩
  | _ => none

def parseHdrs (s : String) : Option Hdrs :=
  (parseList s).mapM (fun kv => match kv.splitOn ":" with
    | [k, v] => do some ((← unhexStr k), (← unhexStr v))
    | _ => none)

def showHdrs (h : Hdrs) : String :=
  let items := sortStrings (h.map (fun e => hexStr e.1 ++ ":" ++ hexStr e.2))
  if items.isEmpty then "-" else joinWith "," items

/-- reference result by the declarative per-header spec, over the keys of the initial map and of the mutations -/
def specHdrs (l : Levels) (h : Hdrs) : Hdrs :=
  let keys := dedup (h.map (·.1) ++ (specOps l).map Op.key)
  keys.filterMap (fun k => (specValue (specOps l) k (get h k)).map (fun v => (k, v)))

def dedupKeys (h : Hdrs) : Hdrs :=
  h.foldr (fun e acc => if acc.any (·.1 == e.1) then acc else e :: acc) []

def hdr (side r v g h0 : String) (impl : List String) : String :=
  match parseParser r, parseParser v, parseParser g, parseHdrs h0, impl with
  | some pr, some pv, some pg, some h, [out] =>
    let l : Levels := ⟨pr, pv, pg⟩
    let order := if side == "req" then requestOrder else responseOrder
    let m := showHdrs (finalize order l (dedupKeys h))
    let s := showHdrs (specHdrs l (dedupKeys h))
    s!"{if m == out then "A" else "D"} {if s == out then "S" else "V"} {m}"
  | _, _, _, _, _ => "E E bad-case"

/-- strconv.ParseInt(s, 10, 64): optional sign, one or more ASCII digits, value within int64 -/
def parseInt64 (s : String) : Option Int :=
  let cs := s.toList
  let (neg, ds) := match cs with
    | '-' :: r => (true, r)
    | '+' :: r => (false, r)
    | r => (false, r)
  if ds.isEmpty || !ds.all Char.isDigit then none else
  let n : Nat := ds.foldl (fun acc c => acc * 10 + (c.toNat - '0'.toNat)) 0
  let v : Int := if neg then -(n : Int) else (n : Int)
  if v < -9223372036854775808 || v > 9223372036854775807 then none else some v

def optStr (s : String) : Option (Option String) := if s == "~" then some none else (unhexStr s).map some

/-- wrap to int64 as Go's time.Duration multiplication does -/
def wrap64 (x : Int) : Int :=
  let m := x % 18446744073709551616
  if m ≥ 9223372036854775808 then m - 18446744073709551616 else m

def timeout (a : List String) (impl : List String) : String :=
  match a, impl with
  | [g0, t0, hr, rg, rt, hT, hG, vT, vG], [og, ot] =>
    match parseInt? g0, parseInt? t0, parseInt? rg, parseInt? rt, optStr hT, optStr hG, optStr vT, optStr vG with
    | some g0, some t0, some rg, some rt, some hT, some hG, some vT, some vG =>
      let hasRoute := hr == "1"
      let (mg, mt) := parseProxyTimeout parseInt64 g0 t0 hasRoute rg rt hT hG vT vG
      let sg := specGlobal parseInt64 g0 hasRoute rg hG vG
      let st := specTry parseInt64 g0 t0 hasRoute rg rt hT hG vT vG
      let out := s!"{og} {ot}"
      s!"{if s!"{mg} {mt}" == out then "A" else "D"} {if s!"{sg} {st}" == out then "S" else "V"} {mg} {mt}"
    | _, _, _, _, _, _, _, _ => "E E bad-case"
  | _, _ => "E E bad-case"

/-! ### kind `fz`: a hop's FinalizeRequestHeaders on a request that arrives with state -/

def showOptS (o : Option String) : String := match o with | none => "~" | some s => hexStr s

/-- declarative reference, written without the regenerated code: (path, host, headers) after the hop -/
def fzSpec (kind : String) (matched prw : String) (re : Option String) (hostRw autoHdr : String) (l : Levels)
    (path oracle host : Option String) (h : Hdrs) : String :=
  let _ := kind
  let ops := specOps l
  -- the path: prefix_rewrite wins; a regex_rewrite of more than one character counts when no prefix_rewrite is configured
  let newPath : Option String :=
    match path with
    | none => none
    | some p =>
      if p = "" then none
      else if prw ≠ "" then
        (if matched.toList.isPrefixOf p.toList then some (prw ++ String.ofList (p.toList.drop matched.length)) else none)
      else match re with
        | some r => if r.length > 1 then (match oracle with | some o => if o ≠ p then some o else none | none => none) else none
        | none => none
  let outPath := match newPath with | some np => some np | none => path
  let origName := "x-mosn-original-path"
  let keys := dedup (h.map (·.1) ++ ops.map Op.key ++ [origName])
  let outH : Hdrs := keys.filterMap (fun k =>
    let v := if newPath.isSome ∧ k = origName then path else specValue ops k (get h k)
    v.map (fun v => (k, v)))
  let outHost : Option String :=
    if hostRw ≠ "" then some hostRw
    else if autoHdr ≠ "" then (match specValue ops autoHdr (get h autoHdr) with | some v => some v | none => host)
    else host
  showOptS outPath ++ " " ++ showOptS outHost ++ " " ++ showHdrs outH

def fz (a : List String) (impl : List String) : String :=
  match a, impl with
  | [_hop, kind, matchH, prwH, reH, hostRwH, autoH, rp, vp, gp, pathH, oracleH, hostH, hdrsH], [oPath, oHost, oHdrs] =>
    match unhexStr matchH, unhexStr prwH, optStr reH, unhexStr hostRwH, unhexStr autoH, parseParser rp, parseParser vp, parseParser gp with
    | some matched, some prw, some re, some hostRw, some autoHdr, some pr, some pv, some pg =>
      match optStr pathH, optStr oracleH, optStr hostH, parseHdrs hdrsH with
      | some path, some oracle, some host, some h0 =>
        let h := dedupKeys h0
        let l : Levels := ⟨pr, pv, pg⟩
        let reStr := re.getD ""
        let stored := if MosnVerif.Gen.RouteAction.regexStored re.isSome reStr prw then reStr else ""
        let k : Model.RouteFinalize.Kind := if kind == "p" then .prefix else if kind == "x" then .path else .regex
        let r : Model.RouteFinalize.Route :=
          { kind := k, matched := matched, cfg := ⟨prw, stored, stored != "", hostRw, autoHdr, false⟩, levels := l,
            regexReplace := fun x => oracle.getD x, env := ⟨false, "", ""⟩ }
        let o := Model.RouteFinalize.finalizeRequest r ⟨h, path, host⟩
        let m := showOptS o.path ++ " " ++ showOptS o.host ++ " " ++ showHdrs o.hdrs
        let s := fzSpec kind matched prw re hostRw autoHdr l path oracle host h
        let out := oPath ++ " " ++ oHost ++ " " ++ oHdrs
        s!"{if m == out then "A" else "D"} {if s == out then "S" else "V"} {m}"
      | _, _, _, _ => "E E bad-case"
    | _, _, _, _, _, _, _, _ => "E E bad-case"
  | _, _ => "E E bad-case"

/-! ### kind `hw`: parsers built from configuration, both directions of one rule -/
open MosnVerif.Model.HeaderWiring MosnVerif.Gen.HeaderWiring in
/-- a configured list: `~` nil, `-` empty, else items -/
def parseOptList {α} (f : String → Option α) (s : String) : Option (Option (List α)) :=
  if s == "~" then some none else ((parseList s).mapM f).map some

open MosnVerif.Model.HeaderWiring MosnVerif.Gen.HeaderWiring in
/-- `reqAdds;reqRems/respAdds;respRems`; names lower-cased as `getHeaderPair` / `getHeadersToRemove` do -/
def parseLevelCfg (s : String) : Option LevelCfg :=
  match s.splitOn "/" with
  | [rq, rs] =>
    match rq.splitOn ";", rs.splitOn ";" with
    | [qa, qr], [sa, sr] => do
      let qa ← parseOptList parseAdd qa
      let qr ← parseOptList unhexStr qr
      let sa ← parseOptList parseAdd sa
      let sr ← parseOptList unhexStr sr
      some { requestHeadersToAdd := qa, requestHeadersToRemove := qr.map (·.map String.toLower),
             responseHeadersToAdd := sa, responseHeadersToRemove := sr.map (·.map String.toLower) }
    | _, _ => none
  | _ => none

open MosnVerif.Model.HeaderWiring MosnVerif.Gen.HeaderWiring in
def hw (a : List String) (impl : List String) : String :=
  match a, impl with
  | [_act, r, v, g, h0], [oReq, oResp] =>
    match parseLevelCfg r, parseLevelCfg v, parseLevelCfg g, parseHdrs h0 with
    | some cr, some cv, some cg, some h =>
      let c : Config := ⟨cr, cv, cg⟩
      let h := dedupKeys h
      let m := showHdrs (finalizeRequestMutations c h) ++ " " ++ showHdrs (finalizeResponseHeaders c h)
      -- declarative reference: per header name, the fold of that direction's configured mutations only
      let s := showHdrs (specHdrs (dirLevels c .request) h) ++ " " ++ showHdrs (specHdrs (dirLevels c .response) h)
      let out := oReq ++ " " ++ oResp
      s!"{if m == out then "A" else "D"} {if s == out then "S" else "V"} {m}"
    | _, _, _, _ => "E E bad-case"
  | _, _ => "E E bad-case"

def run (caseToks impl : List String) : String :=
  match caseToks with
  | ["hdr", side, r, v, g, h0] => hdr side r v g h0 impl
  | "to" :: rest => timeout rest impl
  | "rt" :: rest => RetryDrive.rt rest impl
  | "rw" :: rest => RetryDrive.rw rest impl
  | "rd" :: rest => RetryDrive.rd rest impl
  | "fz" :: rest => fz rest impl
  | "hw" :: rest => hw rest impl
  | "rp" :: rest => C17Policy.rp parseInt64 optStr rest impl
  | "re" :: rest => C17Policy.re rest impl
  | "hm" :: rest => C17HeaderMaps.hm rest impl
  | "ah" :: rest => C17HeaderMaps.ah rest impl
  | "pa" :: rest => C17PerTry.pa rest impl
  | _ => "E E unknown-kind"

end MosnVerif.Drive.C17
