import MosnVerif.Drive.Util
import MosnVerif.Model.Redact
import MosnVerif.Model.RawJson
/-!
Driver of C20.

`hist <op> … q <query> … => <status:leaked:placeholders> … frame=<ok|changed>`
  ops      `mosn:<val>` `lis:<val>` `clu:<val>` `rmclu:<name>` `hosts:<name>:<val>` `router:<val>` `ext:<typ>:<json>`
           `cmtls:<val>` `persist` `reset`
  queries  `full` `p:<param>:<arg>` `x:two` (two parameters) `x:post` (wrong method)
  values   `S<esc>` string, `L` scalar, `H<esc json>` hole, `T<esc type>(k=v,…)` struct, `A(v,…)` slice / pointer,
           `M(k=v,…)` map; `<esc>` = every byte outside [A-Za-z0-9_.-] as %XX.
  result   per query: HTTP status, the marker secrets (`zq<K|H|P><n>qz`) found in the body (sorted, `,`-joined, `-` =
           none), number of placeholder occurrences in the body; then whether the live config was left unchanged.
The model replays the history on `State`, computes `dumpOut`, and projects it to what the marshalers make visible.
The property predicate only looks at the implementation's tokens: no `K` (typed TLS position) and no `H` (hole known
to carry TLS contexts) marker in any body, and `frame=ok`.

`raw <pos> R<esc text> [<op>] => reads=<ids> sec=S<esc text>|- <status:leaked:placeholders> ×5 frame=<ok|changed>`
  ONE JSON text as the content of one untyped hole: `pos` = `ext` (kept verbatim: json.RawMessage, `SetExtend`) or
  `nf` / `sf` / `lf` / `sink` (decoded into the Config map of a network / stream / listener filter or metrics sink by
  the update `<op>`).  `reads` = the marker keys MOSN's consumers obtain from the text (encoding/json into
  v2.TLSConfig at every object); `sec` = the hole content as the section handler returns it after redaction; then the
  queries full, mosnconfig, alllisteners, listener=l0, allclusters.  The model decodes the text with
  `RawJson.parseDoc`, evaluates `RawJson.redactedRaw` on the regenerated program (`ext`) / `redJ` on the decoded map,
  and compares DECODED documents (member order and spelling of the encoder are free; text returned as is must be
  identical).  The predicate: `frame=ok`, no `K`/`H` marker and no key the consumer reads in any body, and `sec`,
  when it is a document, decodes (reference decoder, literal key `private_key`) to one with no such key.

`graph => <Struct.Field=tls|hole …>`: the TLS-bearing and untyped fields of every struct reachable from the effective
config as Go reflection sees them at run time, against the same list computed from the regenerated graph.
-/
namespace MosnVerif.Drive.C20
open MosnVerif.Drive MosnVerif.Model MosnVerif.Model.Redact MosnVerif.Model.GoTypes

/-! ### value syntax -/

def unesc : List Char → List Char → Option String
  | [], acc => some (String.ofList acc.reverse)
  | '%' :: a :: b :: r, acc =>
    match hexVal a, hexVal b with
    | some x, some y => unesc r (Char.ofNat (x * 16 + y) :: acc)
    | _, _ => none
  | c :: r, acc => unesc r (c :: acc)

/-- bytes were escaped one by one: re-assemble UTF-8 -/
def unescStr (s : List Char) : Option String :=
  match unesc s [] with
  | some t =>
    if t.toList.all (fun c => c.toNat < 128) then some t
    else (String.fromUTF8? (ByteArray.mk (t.toList.map (fun c => UInt8.ofNat c.toNat)).toArray))
  | none => none

/-- content of a hole: decoded the way its consumer decodes it (escapes in keys, last duplicate wins) -/
def parseJ (s : String) : Option Json := RawJson.parseDoc s.toList

def isPlain (c : Char) : Bool := c.isAlphanum || c == '_' || c == '.' || c == '-' || c == '%'

def spanPlain : List Char → List Char → List Char × List Char
  | c :: r, acc => if isPlain c then spanPlain r (c :: acc) else (acc.reverse, c :: r)
  | [], acc => (acc.reverse, [])

mutual
def pVal : Nat → List Char → Option (Val × List Char)
  | 0, _ => none
  | fuel + 1, cs =>
    match cs with
    | 'S' :: r => let (w, r') := spanPlain r []; (unescStr w).map (fun s => (Val.str s, r'))
    | 'L' :: r => some (.leaf, r)
    | 'H' :: r =>
      let (w, r') := spanPlain r []
      match unescStr w with
      | some t => (parseJ t).map (fun j => (Val.hole j, r'))
      | none => none
    | 'T' :: r =>
      let (w, r') := spanPlain r []
      match unescStr w, r' with
      | some n, '(' :: ')' :: r'' => some (.struct n [], r'')
      | some n, '(' :: r'' => (pKVs fuel r'' []).map (fun (kvs, r3) => (.struct n kvs, r3))
      | _, _ => none
    | 'A' :: '(' :: ')' :: r => some (.list [], r)
    | 'A' :: '(' :: r => (pVals fuel r []).map (fun (vs, r') => (.list vs, r'))
    | 'M' :: '(' :: ')' :: r => some (.map [], r)
    | 'M' :: '(' :: r => (pKVs fuel r []).map (fun (kvs, r') => (.map kvs, r'))
    | _ => none
def pVals : Nat → List Char → List Val → Option (List Val × List Char)
  | 0, _, _ => none
  | fuel + 1, cs, acc =>
    match pVal fuel cs with
    | some (v, ',' :: r) => pVals fuel r (v :: acc)
    | some (v, ')' :: r) => some ((v :: acc).reverse, r)
    | _ => none
def pKVs : Nat → List Char → List (String × Val) → Option (List (String × Val) × List Char)
  | 0, _, _ => none
  | fuel + 1, cs, acc =>
    let (w, r) := spanPlain cs []
    match unescStr w, r with
    | some k, '=' :: r' =>
      match pVal fuel r' with
      | some (v, ',' :: r'') => pKVs fuel r'' ((k, v) :: acc)
      | some (v, ')' :: r'') => some (((k, v) :: acc).reverse, r'')
      | _ => none
    | _, _ => none
end

def parseVal (s : String) : Option Val :=
  let cs := s.toList
  match pVal (cs.length + 1) cs with
  | some (v, []) => some v
  | _ => none

def parseOp (t : String) : Option Op :=
  match t.splitOn ":" with
  | ["mosn", v] => (parseVal v).map .setMosn
  | ["lis", v] => (parseVal v).map .setListener
  | ["clu", v] => (parseVal v).map .setCluster
  | ["rmclu", n] => (unescStr n.toList).map .removeCluster
  | ["hosts", n, v] => match unescStr n.toList, parseVal v with | some n, some v => some (.setHosts n v) | _, _ => none
  | ["router", v] => (parseVal v).map .setRouter
  | ["ext", n, j] =>
    match unescStr n.toList, (unescStr j.toList).bind parseJ with
    | some n, some j => some (.setExtend n j)
    | _, _ => none
  | ["cmtls", v] => (parseVal v).map .setCMTLS
  | ["persist"] => some .persist
  | ["reset"] => some .reset
  | _ => none

/-! ### what the marshalers make visible -/

def jsonDash (s k : String) : Bool :=
  match G.find s with
  | some d => match d.field k with | some f => f.json == "-" | none => false
  | none => false

def nonEmptyList : Option Val → Bool
  | some (.list (_ :: _)) => true
  | _ => false

/-- custom MarshalJSON methods that move a `json:"-"` field into the output -/
def marshalFix (s : String) (fs : List (String × Val)) : List (String × Val) :=
  if s == "FilterChain" then
    match getF fs "TLSContexts" with
    | some (.list (c :: cs)) =>
      let cfg := ((getF fs "FilterChainConfig").getD (.struct "FilterChainConfig" [])).fieldsOf
      setF fs "FilterChainConfig" (.struct "FilterChainConfig" (setF (delF cfg "TLSConfig") "TLSConfigs" (.list (c :: cs))))
    | _ => fs
  else if s == "ClusterManagerConfig" then
    let cj := ((getF fs "ClusterManagerConfigJson").getD (.struct "ClusterManagerConfigJson" [])).fieldsOf
    if strF cj "ClusterConfigPath" == "" then
      match getF fs "Clusters" with
      | some cl => setF fs "ClusterManagerConfigJson" (.struct "ClusterManagerConfigJson" (setF cj "ClustersJson" cl))
      | none => setF fs "ClusterManagerConfigJson" (.struct "ClusterManagerConfigJson" (delF cj "ClustersJson"))
    else fs
  else if s == "RouterConfiguration" then
    let cj := ((getF fs "RouterConfigurationConfig").getD (.struct "RouterConfigurationConfig" [])).fieldsOf
    if strF cj "RouterConfigPath" == "" then
      match getF fs "VirtualHosts" with
      | some vh => setF fs "RouterConfigurationConfig" (.struct "RouterConfigurationConfig" (setF cj "StaticVirtualHosts" vh))
      | none => setF fs "RouterConfigurationConfig" (.struct "RouterConfigurationConfig" (delF cj "StaticVirtualHosts"))
    else fs
  else fs

mutual
def jstrings : Json → List String
  | .str s => [s]
  | .arr xs => jstringsL xs
  | .obj kvs => jstringsO kvs
  | _ => []
def jstringsL : List Json → List String
  | [] => []
  | x :: r => jstrings x ++ jstringsL r
def jstringsO : List (String × Json) → List String
  | [] => []
  | (_, v) :: r => jstrings v ++ jstringsO r
end

mutual
/-- all strings of the marshalled form of a value (struct strings and strings inside holes); fuel-bounded because the
marshaler fix-ups rebuild field lists -/
def strings : Nat → Val → List String
  | 0, _ => []
  | _ + 1, .str s => [s]
  | _ + 1, .leaf => []
  | _ + 1, .hole j => jstrings j
  | n + 1, .struct s fs => stringsF n s (marshalFix s fs)
  | n + 1, .list vs => stringsL n vs
  | n + 1, .map kvs => stringsM n kvs
def stringsF : Nat → String → List (String × Val) → List String
  | 0, _, _ => []
  | _ + 1, _, [] => []
  | n + 1, s, (k, v) :: r => (if jsonDash s k then [] else strings n v) ++ stringsF n s r
def stringsL : Nat → List Val → List String
  | 0, _ => []
  | _ + 1, [] => []
  | n + 1, v :: r => strings n v ++ stringsL n r
def stringsM : Nat → List (String × Val) → List String
  | 0, _ => []
  | _ + 1, [] => []
  | n + 1, (_, v) :: r => strings n v ++ stringsM n r
end

def isMarker (s : String) : Bool := s.startsWith "zq" && s.endsWith "qz" && s.length ≥ 6

/-- `K12` of `zqK12qz` -/
def markerId (s : String) : String := ((s.drop 2).dropEnd 2).toString

def markerNum (s : String) : Nat := ((s.drop 1).toString.toNat?).getD 0

def insertMarker (x : String) : List String → List String
  | [] => [x]
  | y :: r =>
    if x == y then y :: r
    else if (x.take 1).toString < (y.take 1).toString || ((x.take 1).toString == (y.take 1).toString && markerNum x < markerNum y) then x :: y :: r
    else y :: insertMarker x r

def summarize (status : Nat) (o : Option Val) : String :=
  match o with
  | none => s!"{status}:-:0"
  | some v =>
    let ss := strings 100000 v
    let ms := (ss.filter isMarker).map markerId
    let sorted := ms.foldr insertMarker []
    let ph := (ss.filter (· == placeholder)).length
    s!"{status}:{if sorted.isEmpty then "-" else ",".intercalate sorted}:{ph}"

def answer (st : State) (q : String) : Option String :=
  match q.splitOn ":" with
  | ["full"] => some (summarize 200 (dumpOut st .full))
  | ["x", "two"] => some "400:-:0"
  | ["x", "post"] => some "405:-:0"
  | ["p", p, a] =>
    match unescStr p.toList, unescStr a.toList with
    | some p, some a =>
      match dumpOut st (.param p a) with
      | some v => some (summarize 200 (some v))
      | none => some "500:-:0"
    | _, _ => none
  | _ => none

def splitAtQ : List String → List String → List String × List String
  | [], acc => (acc.reverse, [])
  | "q" :: r, acc => (acc.reverse, r)
  | t :: r, acc => splitAtQ r (t :: acc)

/-- property predicate on the implementation's tokens only -/
def specHist (impl : List String) : Bool :=
  impl.getLast? == some "frame=ok" &&
  impl.dropLast.all (fun r =>
    match r.splitOn ":" with
    | [_, leaked, _] => leaked == "-" || (leaked.splitOn ",").all (fun m => m.startsWith "P")
    | _ => false)

def hist (toks impl : List String) : String :=
  let (ops, qs) := splitAtQ toks []
  match ops.mapM parseOp with
  | none => "E E bad-op"
  | some ops =>
    -- every update argument printed by the harness must be a value of the regenerated graph
    if !(ops.all Op.wtArg) then s!"D {if specHist impl then "S" else "V"} update-argument-not-a-value-of-the-regenerated-graph" else
    let st := Redact.run ops
    match qs.mapM (answer st) with
    | none => "E E bad-query"
    | some rs =>
      let model := rs ++ [if qs.all (fun q => dumpWrites st (match q.splitOn ":" with
          | ["p", p, a] => .param ((unescStr p.toList).getD "") ((unescStr a.toList).getD "")
          | _ => .full) == 0) then "frame=ok" else "frame=changed"]
      let agree := model == impl
      s!"{if agree then "A" else "D"} {if specHist impl then "S" else "V"} {joinWith " " model}"

/-! ### one raw text through every position -/

mutual
def holesOf : Val → List Json
  | .hole j => [j]
  | .struct _ fs => holesOfF fs
  | .list vs => holesOfL vs
  | .map kvs => holesOfF kvs
  | _ => []
def holesOfF : List (String × Val) → List Json
  | [] => []
  | (_, v) :: r => holesOf v ++ holesOfF r
def holesOfL : List Val → List Json
  | [] => []
  | v :: r => holesOf v ++ holesOfL r
end

def insertKV (kv : String × Json) : List (String × Json) → List (String × Json)
  | [] => [kv]
  | y :: r => if kv.1 ≤ y.1 then kv :: y :: r else y :: insertKV kv r

mutual
/-- members sorted by key at every level (documents are compared up to member order) -/
def canon : Json → Json
  | .arr xs => .arr (canonL xs)
  | .obj kvs => .obj ((canonO kvs).foldr insertKV [])
  | j => j
def canonL : List Json → List Json
  | [] => []
  | x :: r => canon x :: canonL r
def canonO : List (String × Json) → List (String × Json)
  | [] => []
  | (k, v) :: r => (k, canon v) :: canonO r
end

def markerIds (ss : List String) : List String := ((ss.filter isMarker).map markerId).foldr insertMarker []

/-- reference fold of a key, with the key name written out (not the regenerated constant) -/
def isPKRef (k : String) : Bool := foldKey k == "private_key"

mutual
def cleanRef (key : Bool) : Json → Bool
  | .str s => !key || s == "" || s == "***REDACTED***"
  | .arr xs => cleanRefL xs
  | .obj kvs => cleanRefO kvs
  | _ => true
def cleanRefL : List Json → Bool
  | [] => true
  | x :: r => cleanRef false x && cleanRefL r
def cleanRefO : List (String × Json) → Bool
  | [] => true
  | (k, v) :: r => cleanRef (isPKRef k) v && cleanRefO r
end

def stripTok (pre : String) (t : String) : Option String :=
  if t.startsWith pre then some (String.ofList (t.toList.drop pre.length)) else none

def idsOf (s : String) : List String := if s == "" || s == "-" then [] else s.splitOn ","

/-- `sec=S<esc>` → the text; `sec=-` → none -/
def secText (t : String) : Option (List Char) :=
  match stripTok "sec=S" t with
  | some e => (unescStr e.toList).map String.toList
  | none => none

def noSecretLeak (r : String) : Bool :=
  match r.splitOn ":" with
  | [_, leaked, _] => leaked == "-" || (leaked.splitOn ",").all (fun m => m.startsWith "P")
  | _ => false

/-- property predicate of kind `raw`, on the implementation's tokens only -/
def specRaw (impl : List String) : Bool :=
  match impl with
  | rd :: sc :: rest =>
    let reads := idsOf ((stripTok "reads=" rd).getD "")
    rest.getLast? == some "frame=ok" &&
    rest.dropLast.all noSecretLeak &&
    rest.dropLast.all (fun r => match r.splitOn ":" with
      | [_, leaked, _] => (idsOf leaked).all (fun m => !reads.contains m)
      | _ => false) &&
    (match (secText sc).bind RawJson.parseDoc with
     | some j => cleanRef false j && (markerIds (jstrings j)).all (fun m => !reads.contains m && !m.startsWith "H" && !m.startsWith "K")
     | none => true)
  | _ => false

def rawQueries : List String := ["full", "p:mosnconfig:", "p:alllisteners:", "p:listener:l0", "p:allclusters:"]

def sortS (l : List String) : List String := l.foldr insertSorted []

def rawKind (toks impl : List String) : String :=
  match toks with
  | pos :: rawTok :: opToks =>
    match (stripTok "R" rawTok).bind (fun e => unescStr e.toList) with
    | none => "E E bad-raw-text"
    | some rawS =>
      let raw := rawS.toList
      let doc := RawJson.parseDoc raw
      -- `ext`: the redactor (and the dump) see the first value of the text; the text after it only decides validity
      let out := RawJson.redactedRaw RawJson.rawProg (fun _ _ => false) (fun j => some (RawJson.render j)) raw
      let ops? : Option (List Op) :=
        if pos == "ext" then some (match RawJson.parseFirst raw with | some j => [.setExtend "e0" j] | none => [])
        else opToks.mapM parseOp
      match ops?, impl with
      | some ops, rd :: sc :: results =>
        if !(ops.all Op.wtArg) then s!"D {if specRaw impl then "S" else "V"} update-argument-not-a-value-of-the-regenerated-graph" else
        let st := Redact.run ops
        -- a raw message that is not a JSON document makes json.Marshal of the whole dump fail: empty body
        let invalid := pos == "ext" && (RawJson.parseDoc out).isNone
        let mReads := ",".intercalate (markerIds (match doc with | some j => RawJson.pkStrings false j | none => []))
        let implSec := secText sc
        -- the hole content after redaction
        let secOK : Bool :=
          if pos == "ext" then
            match implSec with
            | some t =>
              if out == raw then t == raw
              else match RawJson.parseDoc t, RawJson.parseDoc out with
                | some a, some b => canon a == canon b
                | _, _ => false
            | none => false
          else
            match (st.toVal :: []).flatMap holesOf |>.filter (fun j => !(j == Json.null)), doc with
            | [hole], some d =>
              -- the map MOSN decoded holds the private-key strings the model's decoder finds in the text
              sortS (RawJson.pkStrings false d) == sortS (RawJson.pkStrings false hole) &&
              (match implSec.bind RawJson.parseDoc with
               | some a => canon a == canon (redJ false hole)
               | none => false)
            | _, _ => false
        match rawQueries.mapM (fun q => if q == "full" && invalid then some "200:-:0" else answer st q) with
        | none => "E E bad-query"
        | some rs =>
          let frame := if rawQueries.all (fun q => dumpWrites st (match q.splitOn ":" with
              | ["p", p, a] => .param p a
              | _ => .full) == 0) then "frame=ok" else "frame=changed"
          let model := [s!"reads={mReads}", if secOK then "sec=agrees" else "sec=differs"] ++ rs ++ [frame]
          let agree := rd == s!"reads={mReads}" && secOK && results == rs ++ [frame]
          s!"{if agree then "A" else "D"} {if specRaw impl then "S" else "V"} {joinWith " " model}"
      | none, _ => "E E bad-op"
      | _, _ => "E E bad-impl-tokens"
  | _ => "E E bad-raw-case"

/-! ### the graph as reflection sees it -/

def tyKind : GoTy → Option String
  | .named "TLSConfig" => some "tls"
  | .hole _ => some "hole"
  | .slice e => tyKind e
  | .map e => tyKind e
  | .ptr e => tyKind e
  | _ => none

def graphFacts : List String :=
  let facts := MosnVerif.Gen.ConfigGraph.reachable.flatMap (fun n =>
    match G.find n with
    | some d => d.fields.filterMap (fun f => (tyKind f.ty).map (fun k => s!"{n}.{f.name}={k}"))
    | none => [])
  sortStrings facts

def graph (impl : List String) : String :=
  let model := graphFacts
  let agree := model == impl
  -- predicate: every TLS-bearing / untyped field the running program has is known to the regenerated graph
  let spec := impl.all (fun t => model.contains t)
  s!"{if agree then "A" else "D"} {if spec then "S" else "V"} {model.length}-facts"

def run (caseToks impl : List String) : String :=
  match caseToks with
  | "hist" :: r => hist r impl
  | ["graph"] => graph impl
  | "raw" :: r => rawKind r impl
  | _ => "E E unknown-kind"

end MosnVerif.Drive.C20
