import MosnVerif.Drive.Util
import MosnVerif.Model.CheckedWire
/-! [c08p10] helper driver of C08, kinds `mat` (protocol matchers) and `h2pay` (HTTP/2 frame payload parsers): the
regenerated checked-access programs (Gen/C08Matchers, Gen/C08H2Parse) evaluated on the case. Core Lean only; no `main`. -/
namespace MosnVerif.Drive.C08Chk
open MosnVerif.Drive MosnVerif.Model.CheckedGo MosnVerif.Model.CheckedWire

/-- `mat <matcher> <bytes> => again | success | failed | panic | hang`: the real matcher on a buffer with capacity ==
length.  Model: the regenerated matcher with checked access (`panic` = an access outside the bytes).  Predicate
(independent of the regenerated program): the matcher answered one of the three MatchResults. -/
def mat (name bytes : String) (impl : List String) : String :=
  match matcherOf name, unhex bytes, impl with
  | some m, some b, [o] =>
    let mo := matchTok (m b)
    let spec := o == "again" || o == "success" || o == "failed"
    s!"{if mo == o then "A" else "D"} {if spec then "S" else "V"} {mo}"
  | _, _, _ => "E E bad-mat-case"

def hexLen (s : String) : Nat := if s == "-" || s == "_" then 0 else s.length / 2

/-- `h2pay <type> <flags> <streamid> <payload> => ok:<byte fields>:<int fields> | eof | conn:<c> | stream:<c> | other | panic | hang`:
the real payload parser of the frame type on a payload with capacity == length.  Model: the regenerated parser.
Predicate (RFC 7540 §6 frame layouts, written by hand — independent of the regenerated program): no panic, no hang; a
frame is delivered only when the layout fits the payload (pad length ≤ what remains behind the pad-length octet and the
fixed fields; fixed sizes of PRIORITY / RST_STREAM / PING / WINDOW_UPDATE; whole settings) and its first byte field has
exactly the length the layout leaves (never more than the payload). -/
def h2pay (ty flags sid payload : String) (impl : List String) : String :=
  match ty.toNat?, flags.toNat?, sid.toNat?, unhex payload, impl with
  | some t, some fl, some s, some p, [o] =>
    let mo := parseTok (Gen.C08H2Parse.h2p_parse ⟨(p.length : Int), (t : Int), (fl : Int), (s : Int)⟩ p)
    let spec :=
      if o == "panic" || o == "hang" then false
      else if o.startsWith "ok:" then
        match refFragLen t fl p, o.splitOn ":" with
        | some n, [_, bs, _] =>
          let fields := if bs == "_" then [] else bs.splitOn ","
          fields.all (fun f => decide (hexLen f ≤ p.length)) &&
            (match fields with
             | f :: _ => hexLen f == n
             | [] => n == 0)
        | _, _ => false
      else true
    s!"{if mo == o then "A" else "D"} {if spec then "S" else "V"} {mo}"
  | _, _, _, _, _ => "E E bad-h2pay-case"

end MosnVerif.Drive.C08Chk
