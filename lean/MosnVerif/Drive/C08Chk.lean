import MosnVerif.Drive.Util
import MosnVerif.Model.CheckedWire
import MosnVerif.Model.H2Alloc
import MosnVerif.Model.StreamAlloc
/-! [c08p10] helper driver of C08, kinds `mat` (protocol matchers) and `h2pay` (HTTP/2 frame payload parsers): the
regenerated checked-access programs (Gen/C08Matchers, Gen/C08H2Parse) evaluated on the case. Core Lean only; no `main`. -/
namespace MosnVerif.Drive.C08Chk
open MosnVerif.Drive MosnVerif.Model.CheckedGo MosnVerif.Model.CheckedWire

/-- `mat <matcher> <bytes> => again | success | failed | panic | hang`: the real matcher on a buffer with capacity ==
length.  Model: the regenerated matcher with checked access (`panic` = an access outside the bytes).  Predicate
(independent of the regenerated program): the matcher answered one of the three MatchResults. -/
def mat (name bytes : String) (impl : List String) : String :=
  match matcherOf name, unhex bytes, impl with
  | some m, some b, [o] =>
    let mo := matchTok (m b)
    let spec := o == "again" || o == "success" || o == "failed"
    s!"{if mo == o then "A" else "D"} {if spec then "S" else "V"} {mo}"
  | _, _, _ => "E E bad-mat-case"

def hexLen (s : String) : Nat := if s == "-" || s == "_" then 0 else s.length / 2

/-- `h2pay <type> <flags> <streamid> <payload> => ok:<byte fields>:<int fields> | eof | conn:<c> | stream:<c> | other | panic | hang`:
the real payload parser of the frame type on a payload with capacity == length.  Model: the regenerated parser.
Predicate (RFC 7540 §6 frame layouts, written by hand — independent of the regenerated program): no panic, no hang; a
frame is delivered only when the layout fits the payload (pad length ≤ what remains behind the pad-length octet and the
fixed fields; fixed sizes of PRIORITY / RST_STREAM / PING / WINDOW_UPDATE; whole settings) and its first byte field has
exactly the length the layout leaves (never more than the payload). -/
def h2pay (ty flags sid payload : String) (impl : List String) : String :=
  match ty.toNat?, flags.toNat?, sid.toNat?, unhex payload, impl with
  | some t, some fl, some s, some p, [o] =>
    let mo := parseTok (Gen.C08H2Parse.h2p_parse ⟨(p.length : Int), (t : Int), (fl : Int), (s : Int)⟩ p)
    let spec :=
      if o == "panic" || o == "hang" then false
      else if o.startsWith "ok:" then
        match refFragLen t fl p, o.splitOn ":" with
        | some n, [_, bs, _] =>
          let fields := if bs == "_" then [] else bs.splitOn ","
          fields.all (fun f => decide (hexLen f ≤ p.length)) &&
            (match fields with
             | f :: _ => hexLen f == n
             | [] => n == 0)
        | _, _ => false
      else true
    s!"{if mo == o then "A" else "D"} {if spec then "S" else "V"} {mo}"
  | _, _, _, _, _ => "E E bad-h2pay-case"

/-- `h2hl <limit> <nameLen.valueLen,…> => kept=<k> trunc=<0|1> | err | panic | hang`: one real `MFramer.ReadFrame` on a
HEADERS frame with these fields, `MaxHeaderListSize = limit`.  Model: the regenerated emit step program under the
regenerated budget; hand-written: a FIRST field with a string longer than the limit is a decoding error (the limit is
also the decoder's maximal string length).  Predicate (RFC 7540 §6.5.2 / the Framer's documentation, by hand): no panic,
no hang; the fields kept are a prefix whose sizes (name + value + 32) sum to at most the limit (16 MiB when 0). -/
def h2hl (limit fields : String) (impl : List String) : String :=
  let parseF (s : String) : Option (Nat × Nat) := match s.splitOn "." with
    | [a, b] => match a.toNat?, b.toNat? with
      | some x, some y => some (x, y)
      | _, _ => none
    | _ => none
  match limit.toNat?, (fields.splitOn ",").mapM parseF with
  | some lim, some fs =>
    let o := joinWith " " impl
    let eff : Nat := if lim = 0 then 16777216 else lim
    let m : String :=
      if lim ≠ 0 && (match fs with | f :: _ => decide (f.1 > lim ∨ f.2 > lim) | [] => false) then "err"
      else
        let s := MosnVerif.Model.H2Alloc.emitAll MosnVerif.Gen.C08H2Alloc.h2a_emitOps
          (MosnVerif.Gen.C08H2Alloc.h2a_maxHeaderListSize lim) fs
        s!"kept={s.kept.length} trunc={if s.truncated then 1 else 0}"
    let spec : Bool := match impl with
      | ["err"] => true
      | [k, _] => if k.startsWith "kept=" then
          match (k.splitOn "=").getLast?.bind String.toNat? with
          | some kn => decide (kn ≤ fs.length ∧ ((fs.take kn).map (fun f => f.1 + f.2 + 32)).foldl (· + ·) 0 ≤ eff)
          | none => false
        else false
      | _ => false
    s!"{if m == o then "A" else "D"} {if spec then "S" else "V"} {m}"
  | _, _ => "E E bad-h2hl-case"

/-- `h2body <srv|cli> <content-length hex | none> <n1,n2,…> <end> => <ret|panic|hang> <len:cap | -> <small | <MiB>M>`:
one real HTTP/2 stream connection; HEADERS announcing the content-length, then DATA payloads of the given sizes.
Model: the collecting buffer allocated with the REGENERATED size expression (`sa_srv_collect` / `sa_cli_collect`) of the
first payload and the announced value, grown by `Write` per payload (capacity arithmetic of mosn.io/pkg by hand); whether
the message is delivered is not predicted (`-` is accepted).  Predicate (independent of the regenerated expression): the
Dispatch returned, the process allocated less than 16 MiB meanwhile, and a delivered body has the length that arrived
in a capacity ≤ 8·received + 4096. -/
def h2body (side cl chunks endS : String) (impl : List String) : String :=
  let annS : Option String := if cl == "none" then some "" else (unhex cl).map (fun b => String.ofList (b.map (fun x => Char.ofNat x.toNat)))
  match annS, (chunks.splitOn ",").mapM String.toNat?, impl with
  | some a, some cs, [o, body, alloc] =>
    let _ := endS
    let ann : Int := if cl == "none" then -1 else MosnVerif.Model.StreamAlloc.parseInt64 a
    let first := if side == "srv" then MosnVerif.Gen.C08StreamAlloc.sa_srv_collect else MosnVerif.Gen.C08StreamAlloc.sa_cli_collect
    let req : Int := first ((cs.headD 0 : Nat) : Int) ann
    let mOut := if req > 140737488355328 then "panic" else "ret"
    let mAlloc := if req ≥ 16777216 then s!"{MosnVerif.Model.StreamAlloc.newCap req / 1048576}M" else "small"
    let mBody := match MosnVerif.Model.StreamAlloc.collect first ann cs with
      | some b => s!"{b.len}:{b.cap}"
      | none => "-"
    let agree := o == mOut && alloc == mAlloc && (body == "-" || body == mBody)
    let tot := MosnVerif.Model.StreamAlloc.total cs
    let spec : Bool := o == "ret" && alloc == "small" &&
      (body == "-" || (match body.splitOn ":" with
        | [l, c] => (match l.toNat?, c.toNat? with
          | some ln, some cp => ln == tot && decide (cp ≤ MosnVerif.Model.StreamAlloc.capBound ln)
          | _, _ => false)
        | _ => false))
    s!"{if agree then "A" else "D"} {if spec then "S" else "V"} {mOut} {mBody} {mAlloc}"
  | _, _, _ => "E E bad-h2body-case"

end MosnVerif.Drive.C08Chk
