import MosnVerif.Drive.Util
import MosnVerif.Drive.C07H1Seg
import MosnVerif.Model.H1Continue
/-! helper driver module of C07: kind `h1seg`, sides `exp` (requests with `Expect: 100-continue` through the real server
stream connection: the two-phase read) and `trl` (multiplicity of the header entries). Core only. -/
namespace MosnVerif.Drive.C07H1Cont
open MosnVerif.Drive MosnVerif.Drive.C07H1Seg MosnVerif.Model.Framing MosnVerif.Model.H1Seg MosnVerif.Model.H1Continue

def projIdx (idx : List Nat) (d : String) : String :=
  let f := d.splitOn ":"
  joinWith ":" (idx.filterMap (fun i => f[i]?))

def listTok (l : List String) : String := if l.isEmpty then "-" else joinWith "," l

/-- `h1seg exp <delay> <stream> <chunks> => <whole> <state> <tail interims> <got> <state> <tail interims>` -/
def runExp (_delay stream chunks : String) (impl : List String) : String :=
  match unhex stream, parseNats chunks, impl with
  | some s, some ns, [whole, wstat, wtail, got, gstat, gtail] =>
    let m := runC contPlan refParser (chunk s ns)
    let md := m.out.map descr6
    let mstat := if m.failed then "err" else "ok"
    let mtail := toString (m.tailInterims contPlan)
    let g := descrList got
    let g6 := g.map (projIdx [0, 1, 2, 3, 5, 6])
    let g4 := g.map (projIdx [0, 1, 2, 3])
    let tie := MosnVerif.Gen.H1Continue.interimBytes == interimExpected && contErrHandled
      && rstOf serverUses == false && producerAppendsAll
    let agree := g6 == md && gstat == mstat && gtail == mtail && tie
    let ok := specH1X s (descrList whole) g g4 wstat gstat wtail gtail
    s!"{if agree then "A" else "D"} {if ok then "S" else "V"} {listTok md} {mstat} {mtail}"
  | _, _, _ => "E E malformed-h1seg-exp"

/-- `h1seg trl <delay> <stream> <chunks> => <header entries per request, whole stream> <… in the chunking>` -/
def runTrl (_delay stream chunks : String) (impl : List String) : String :=
  match unhex stream, parseNats chunks, impl with
  | some s, some ns, [whole, got] =>
    match parseNats whole, parseNats got with
    | some w, some g =>
      let dups := trailerDups s ns
      let model := (w.zip dups).map (fun x => x.1 + x.2)
      let agree := w.length == dups.length && g == model
      let ok := g == w
      s!"{if agree then "A" else "D"} {if ok then "S" else "V"} {listTok (model.map toString)}"
    | _, _ => "E E malformed-h1seg-trl"
  | _, _, _ => "E E malformed-h1seg-trl"

end MosnVerif.Drive.C07H1Cont
