import MosnVerif.Drive.Util
import MosnVerif.Model.UpgTiming
import MosnVerif.Model.HandoverQueue
import MosnVerif.Model.UpgHandshake
/-! driver of the C11 round-5 kinds: `st` (start path -> TransferTimeout), `hw` (writes during a hand-over), `rh`
(ReconfigureHandler against a scripted new MOSN).  Core Lean only. -/
namespace MosnVerif.Drive.C11U
open MosnVerif.Drive MosnVerif

def verdict (agree spec : Bool) (out : String) : String :=
  s!"{if agree then "A" else "D"} {if spec then "S" else "V"} {out}"

def kv (toks : List String) (k : String) : Option String :=
  toks.findSome? (fun t => match t.splitOn "=" with
    | [a, b] => if a == k then some b else none
    | _ => none)
def kvNat (toks : List String) (k : String) : Option Nat := (kv toks k).bind String.toNat?

/-- `st inh= cfg= => ret= peer= tt= g= rt=`.  Reference (literal, no regenerated code): the start succeeded, and with
hand-overs drawn in [tt, 2·tt) after the stop is seen (seen / acted on at most one read timeout late each), every
hand-over lies before the exit 2·g + 2·rt after the stop. -/
def st (c impl : List String) : String :=
  match kvNat c "inh", kvNat c "cfg" with
  | some inh, some cfg =>
    let T := Model.UpgTiming.transferTimeoutAfterStart (inh == 1) cfg
    let g := Model.UpgTiming.graceful cfg
    let out := s!"ret=ok peer={if inh == 1 then "acked" else "na"} tt={T} g={g} rt={MosnVerif.Gen.UpgTiming.defaultConnReadTimeoutMs}"
    let spec := match kvNat impl "tt", kvNat impl "g", kvNat impl "rt" with
      | some tt, some gi, some rt =>
        (kv impl "ret" == some "ok") && decide (0 < tt) && decide (rt + (tt + (tt - 1)) + rt < 2 * gi + 2 * rt)
          && decide (gi = if cfg = 0 then 30000 else cfg)
      | _, _, _ => false
    verdict (joinWith " " impl == out) spec out
  | _, _ => "E E bad-case"

/-- `hw n= sz= => adopted= inwin= wfin= werr= got= inorder= clean= lost=`.  Reference (literal): the connection was
adopted, every one of the n writes reached the client exactly once, in the order written, no write failed. -/
def hw (c impl : List String) : String :=
  match kvNat c "n" with
  | some n =>
    let ws := List.range n
    let s1 := Model.HandoverQueue.runG ws (Model.HandoverQueue.harnessWindow n)
    let s2 := Model.HandoverQueue.run Gen.HandoverQueue.enqueueMode Gen.HandoverQueue.writeBufferCap s1 (Model.HandoverQueue.harnessRest n)
    let lost := ws.filter (fun i => !s2.forwarded.contains i)
    let lostTok := if lost.isEmpty then "-" else joinWith "," (lost.map toString)
    let wfin := if s2.pending.isEmpty then 1 else 0
    let out := s!"adopted=1 inwin={n - s1.pending.length} wfin={wfin} werr={s2.dropped.length} got={s2.forwarded.length} inorder=1 clean=1 lost={lostTok}"
    let g (k : String) := (kv impl k).getD "?"
    let spec := g "adopted" == "1" && g "got" == toString n && g "inorder" == "1" && g "clean" == "1" && g "werr" == "0"
      && g "lost" == "-" && g "wfin" == "1"
    verdict (joinWith " " impl == out) spec out
  | none => "E E bad-case"

/-- `rh drain= hold= dl= => ret= ack= ackacc= probe= stopped= exit=`.  The model runs the regenerated step list with the
ready byte at instant 0 and the case's (scaled) ack deadline in place of the regenerated one.  Reference (literal): the
ack arrives in time while the old listener still accepts, nobody finds the listener unserved, the handler succeeds. -/
def rh (c impl : List String) : String :=
  match kvNat c "drain", kvNat c "hold", kvNat c "dl" with
  | some drain, some hold, some dl =>
    let sd := Model.UpgHandshake.shutdownDur drain (if hold == 0 then [] else [hold])
    let o := Model.UpgHandshake.runOld Gen.UpgHandshake.oldSteps 0 sd 300
    let inTime := match o.ackAt with | some a => decide (a ≤ dl) | none => false
    let ackacc := match o.ackAt, o.stopAt with
      | some a, some s => if a < s then "1" else "0"
      | some _, none => "1"
      | none, _ => "na"
    let out := if inTime then s!"ret=ok ack=intime ackacc={ackacc} probe=na stopped=1 exit=0"
      else s!"ret=ok ack=late ackacc=na probe={if Model.UpgHandshake.oldAccepts o dl then "served" else "unserved"} stopped=1 exit=0"
    let g (k : String) := (kv impl k).getD "?"
    let spec := g "ret" == "ok" && g "ack" == "intime" && g "ackacc" == "1" && g "probe" != "unserved" && g "exit" == "0"
    verdict (joinWith " " impl == out) spec out
  | _, _, _ => "E E bad-case"

end MosnVerif.Drive.C11U
