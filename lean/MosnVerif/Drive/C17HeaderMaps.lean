import MosnVerif.Drive.Util
import MosnVerif.Model.HeaderMaps
import MosnVerif.Model.RouteFinalize
/-!
[c17h10] kind `hm`: the route's header mutations on the real protocol header maps (line format: harness/c17/c17h10.go).
Model = the instance of `Model/HeaderMaps.lean` for the protocol, driven through the regenerated `evaluateHeaders`, wiring
table and level order; predicate = the declarative multi-valued reference `specValsN` per name (names compared in the
map's normal form) over the map's own initial view, plus "what reaches the wire is what the map shows" and, for bolt,
"a frame whose header changed is marked changed".
-/
namespace MosnVerif.Drive.C17HeaderMaps
open MosnVerif.Drive MosnVerif.Model.Headers MosnVerif.Model.HeaderMaps MosnVerif.Model.HeaderWiring
open MosnVerif.Gen.HeaderMutation MosnVerif.Gen.HeaderWiring

def unhexS (s : String) : Option String := (unhex s).map (fun b => String.ofList (b.map (fun x => Char.ofNat x.toNat)))
def hexS (s : String) : String := hex (s.toList.map (fun c => UInt8.ofNat c.toNat))
def plist (s : String) : List String := if s == "-" then [] else s.splitOn ","

def pAdd (s : String) : Option Model.Headers.Add :=
  match s.splitOn ":" with
  | [n, v, f] => do some ⟨(← unhexS n).toLower, (← unhexS v), f == "1"⟩
  | _ => none

def pOptList {α} (f : String → Option α) (s : String) : Option (Option (List α)) :=
  if s == "~" then some none else ((plist s).mapM f).map some

/-- `reqAdds;reqRems/respAdds;respRems`; names lower-cased as `getHeaderPair` / `getHeadersToRemove` do -/
def pLevel (s : String) : Option LevelCfg :=
  match s.splitOn "/" with
  | [rq, rs] =>
    match rq.splitOn ";", rs.splitOn ";" with
    | [qa, qr], [sa, sr] => do
      let qa ← pOptList pAdd qa
      let qr ← pOptList unhexS qr
      let sa ← pOptList pAdd sa
      let sr ← pOptList unhexS sr
      some { requestHeadersToAdd := qa, requestHeadersToRemove := qr.map (·.map String.toLower),
             responseHeadersToAdd := sa, responseHeadersToRemove := sr.map (·.map String.toLower) }
    | _, _ => none
  | _ => none

def pLines (s : String) : Option (List (String × String)) :=
  (plist s).mapM (fun kv => match kv.splitOn ":" with
    | [k, v] => do some ((← unhexS k), (← unhexS v))
    | _ => none)

def showLines (l : List (String × String)) : String :=
  if l.isEmpty then "-" else joinWith "," (l.map (fun e => hexS e.1 ++ ":" ++ hexS e.2))

/-- stable insertion sort by name -/
def insByKey (x : String × String) : List (String × String) → List (String × String)
  | [] => [x]
  | y :: r => if x.1 < y.1 then x :: y :: r else y :: insByKey x r
def sortByKey (l : List (String × String)) : List (String × String) := l.foldl (fun acc x => insByKey x acc) []

def valsOf (norm : String → String) (l : List (String × String)) (nk : String) : List String :=
  l.filterMap (fun e => if norm e.1 == nk then some e.2 else none)

structure Out where
  r0 : List (String × String)
  r1 : List (String × String)
  gets : List (String × Option String)
  wire : Option (List (String × String))
  chg : Option Bool

def showOut (o : Out) : String :=
  showLines o.r0 ++ "|" ++ showLines o.r1 ++ "|" ++
  joinWith "," (o.gets.map (fun g => hexS g.1 ++ ":" ++ (match g.2 with | none => "~" | some v => hexS v))) ++ "|" ++
  (match o.wire with | none => "-" | some w => showLines w) ++ "|" ++
  (match o.chg with | none => "-" | some true => "1" | some false => "0")

/-- the declarative reference: for every name, the values after = `specValsN` of the direction's configured mutations over
the values before (`post` = what the map prints of them) -/
def specOK (norm : String → String) (post : String → List String → List String) (ops : List Op)
    (r0 r1 : List (String × String)) : Bool :=
  let keys := dedup ((r0.map (·.1) ++ ops.map Op.key ++ r1.map (·.1)).map norm)
  keys.all (fun nk => valsOf norm r1 nk == post nk (specValsN norm ops nk (valsOf norm r0 nk)))

def sameView (norm : String → String) (a b : List (String × String)) : Bool :=
  (dedup ((a.map (·.1) ++ b.map (·.1)).map norm)).all (fun nk => valsOf norm a nk == valsOf norm b nk)

def verdict (model : Out) (implTok : String) (spec : Bool) : String :=
  let m := showOut model
  s!"{if m == implTok then "A" else "D"} {if spec then "S" else "V"} {m}"

def hm (a : List String) (impl : List String) : String :=
  match a, impl with
  | [proto, side, _tag, flags, namesH, r, v, g, linesH], [out] =>
    match (plist namesH).mapM unhexS, pLevel r, pLevel v, pLevel g, pLines linesH, out.splitOn "|" with
    | some names, some cr, some cv, some cg, some lines, [i0, i1, _ig, iw, ic] =>
      match pLines i0, pLines i1 with
      | some ir0, some ir1 =>
        let c : Config := ⟨cr, cv, cg⟩
        let d : Dir := if side == "req" then .request else .response
        let ops := specOps (dirLevels c d)
        let collect := flags.startsWith "c1"
        let ndct := flags.endsWith "d1"
        if proto == "h1" then
          let kind : FhKind := if side == "req" then .request else .response
          let I := fh kind
          let m0 : Fh := fhDecode kind lines
          let r0 := I.range m0
          let m0 := { (if collect ∧ kind == .request then fhCollect m0 else m0) with noDefaultCT := ndct }
          let m1 := finalizeBuilt I c d m0
          let r1 := I.range { m1 with noDefaultCT := true }
          -- Get of an EMPTY value (nil or empty slice: slot history) is compared as absent, see the harness
          let model : Out := ⟨r0, r1, names.map (fun n => (n, (I.get m1 n).filter (· != ""))), some r1, none⟩
          let post := fun nk vs => if kind.singles.contains nk then vs.filter (· != "") else vs
          let spec := specOK I.norm post ops ir0 ir1 && (match pLines iw with | some w => sameView I.norm w ir1 | none => false)
          verdict model out spec
        else if proto == "h2" then
          let I := h2
          let m0 : H2 := ofList I [] lines
          let m1 := finalizeBuilt I c d m0
          let model : Out := ⟨sortByKey (I.range m0), sortByKey (I.range m1), names.map (fun n => (n, I.get m1 n)), none, none⟩
          verdict model out (specOK I.norm (fun _ vs => vs) ops ir0 ir1)
        else if proto == "bolt" then
          let I := bolt
          let m0 : Bolt := ofList I {} lines
          let m1 := finalizeBuilt I c d m0
          let model : Out := ⟨I.range m0, I.range m1, names.map (fun n => (n, I.get m1 n)), some (I.range m1), some m1.changed⟩
          let spec := specOK I.norm (fun _ vs => vs) ops ir0 ir1
            && (match pLines iw with | some w => w == ir1 | none => false)
            && (ir1 == ir0 || ic == "1")
          verdict model out spec
        else "E E unknown-protocol"
      | _, _ => "E E bad-output"
    | _, _, _, _, _, _ => "E E bad-case"
  | _, _ => "E E bad-case"

/-! ### kind `ah`: auto_host_rewrite on a STRICT_DNS cluster through the real proxy core -/

def optS (s : String) : Option (Option String) := if s == "~" then some none else (unhexS s).map some
def showOpt (o : Option String) : String := match o with | none => "~" | some s => hexS s

open MosnVerif.Model.RouteFinalize MosnVerif.Gen.RouteFinalize in
/-- the route of an `ah` case: prefix "/", no rewrites of the path, no header mutations; the environment of the third
host-rewrite branch = (a snapshot of the route's cluster exists, its configured type, the hostname of the upstream host
selected for the attempt) -/
def ahRoute (ctype hostRw autoHdr : String) (auto : Bool) (hostname : String) : Route :=
  { kind := .prefix, matched := "/", cfg := ⟨"", "", false, hostRw, autoHdr, auto⟩, levels := ⟨⟨[], []⟩, ⟨[], []⟩, ⟨[], []⟩⟩,
    regexReplace := id, env := ⟨true, ctype, hostname⟩ }

open MosnVerif.Model.RouteFinalize in
def ah (a : List String) (impl : List String) : String :=
  match a with
  | [ctype, auto, hostRwH, autoHdrH, hdrValH, hostVarH, _retry] =>
    match unhexS hostRwH, unhexS autoHdrH, optS hdrValH, optS hostVarH with
    | some hostRw, some autoHdr, some hdrVal, some hostVar0 =>
      let hdrs : Hdrs := [(":path", "/a"), (":authority", "orig.example")] ++ (match hdrVal with | some v => [(autoHdr, v)] | none => [])
      let req : Req := ⟨hdrs, some "/a", hostVar0⟩
      let hop := fun (hostname : String) => finalizeRequest (ahRoute ctype hostRw autoHdr (auto == "1") hostname) req
      let want := fun (hostname : String) => specHost (ahRoute ctype hostRw autoHdr (auto == "1") hostname) req
      match impl with
      | [n, h0H, v0] =>
        match unhexS h0H with
        | some h0 =>
          let m := s!"{n} {h0H} {showOpt (hop h0).host}"
          let ok := showOpt (want h0) == v0
          s!"{if m == s!"{n} {h0H} {v0}" then "A" else "D"} {if ok then "S" else "V"} {m}"
        | none => "E E bad-output"
      | [n, h0H, v0, h1H, v1] =>
        match unhexS h0H, unhexS h1H with
        | some h0, some h1 =>
          -- the code finalizes the request once, for the first selected host; the retry re-sends what that left
          let m := s!"{n} {h0H} {showOpt (hop h0).host} {h1H} {showOpt (hop h0).host}"
          -- reference: every attempt carries the host its own upstream host calls for
          let ok := showOpt (want h0) == v0 && showOpt (want h1) == v1
          s!"{if m == s!"{n} {h0H} {v0} {h1H} {v1}" then "A" else "D"} {if ok then "S" else "V"} {m}"
        | _, _ => "E E bad-output"
      | _ => "E E bad-output"
    | _, _, _, _ => "E E bad-case"
  | _ => "E E bad-case"

end MosnVerif.Drive.C17HeaderMaps
