import MosnVerif.Drive.Util
import MosnVerif.Model.FilterSpec
import MosnVerif.Drive.C14Mx
import MosnVerif.Model.FilterRegs
/-!
Driver of C14.  Case line (harness/c14):

  C14 ch <recv chain> <send chain> route=<r,…> host=<0|1,…> pool=<ok|overflow|connfail>
         oneway=<0|1> body=<0|1> trl=<0|1> up=<r<code>:<data>:<trailers> | reset | term<code> | termr<code> | st<code>/<up>>
               termr<code>: TerminateStream with an in-flight upstream response landing inside the call — the same upstream event
               as term<code> (theorem terminate_wins_or_loses_atomically); st<code>/<up>: TerminateStream on a kept handler of
               an earlier, finished request, then <up> — the same as <up> alone (theorem stale_terminate_ignored)
         [retry=<retry_on 0|1>:<num_retries>:<code.code…|->]  =>  <tokens…>
  retry        present: the route carries that retry policy and proxy_disable_retry is NOT set; absent: retries disabled

  recv chain   `-` or filters separated by `;`, each `<b|r|c>:<verdict>/<verdict>/…` (script; empty = always Continue);
               verdict `<act>~<status>`: act `n` | `h<code>` | `hb<code>` (hijack with body) | `d` | `t<code>`;
               status = the api.StreamFilterStatus string itself (hx.Tok-escaped), decoded with the regenerated constants.
  send chain   `-` or filters separated by `;`, each a `/`-separated list of statuses.
  route / host `,`-separated per invocation (the last entry repeats): route `f` found | `n` none | `d<code>` / `db<code>` direct rule.
  tokens       f:<i>:<b|r|c>  fs:<i>  un  uf  dh:<status|->:<0|1>  dd:<0|1>  dt   (indices are chain-local)
  own=<h>/<d>/<t>  (implementation only, evaluated by the predicate) the answer each downstream part belongs to:
               f<i> scripted receiver filter i, a0 the upstream response, l a reply MOSN generated itself (or an untagged one), - absent
  tm=<0|1|->   (implementation only) the return value of the asynchronous TerminateStream call of the case (`-`: none made)
-/
namespace MosnVerif.Drive.C14
open MosnVerif.Drive MosnVerif.Gen.FilterPhase MosnVerif.Model.FilterChain MosnVerif.Model.FilterMachine
open MosnVerif.Model.FilterSpec

/-- undo hx.Tok's %xx escaping -/
def unescape (s : String) : String :=
  let rec go : List Char → List Char → List Char
    | [], acc => acc.reverse
    | '%' :: a :: b :: r, acc =>
      match hexVal a, hexVal b with
      | some x, some y => go r (Char.ofNat (x * 16 + y) :: acc)
      | _, _ => go (a :: b :: r) ('%' :: acc)
    | ch :: r, acc => go r (ch :: acc)
  String.ofList (go s.toList [])

def parseStatus (s : String) : FStatus := FStatus.ofString (unescape s)

def parseAct (s : String) : Option Act :=
  if s == "n" then some .none
  else if s == "d" then some .direct
  else if s.startsWith "hb" then (s.drop 2).toNat?.map (fun k => .hijack k true)
  else if s.startsWith "h" then (s.drop 1).toNat?.map (fun k => .hijack k false)
  else if s.startsWith "t" then (s.drop 1).toNat?.map (fun k => .terminate k)
  else none

def parseVerdict (s : String) : Option Verdict :=
  match s.splitOn "~" with
  | [a, st] => (parseAct a).map (fun act => ⟨act, parseStatus st⟩)
  | _ => none

def parsePhase (s : String) : Option RPhase :=
  if s == "b" then some .BeforeRoute else if s == "r" then some .AfterRoute else if s == "c" then some .AfterChooseHost else none

def phaseLetter : RPhase → String
  | .BeforeRoute => "b" | .AfterRoute => "r" | .AfterChooseHost => "c"

def parseRFilter (s : String) : Option RFilter :=
  match s.splitOn ":" with
  | [p, sc] =>
    match parsePhase p with
    | some ph =>
      if sc == "" then some ⟨ph, []⟩
      else ((sc.splitOn "/").mapM parseVerdict).map (fun l => ⟨ph, l⟩)
    | none => none
  | _ => none

def parseRecv (s : String) : Option (List RFilter) :=
  if s == "-" then some [] else (s.splitOn ";").mapM parseRFilter

def parseSend (s : String) : Option (List SFilter) :=
  if s == "-" then some []
  else some ((s.splitOn ";").map (fun f => if f == "" then ⟨[]⟩ else ⟨(f.splitOn "/").map parseStatus⟩))

def kv (key : String) (toks : List String) : Option String :=
  (toks.find? (fun t => t.startsWith (key ++ "="))).map (fun t => (t.drop (key.length + 1)).toString)

def parseRoute (s : String) : Option RouteRes :=
  if s == "f" then some .found else if s == "n" then some .none
  else if s.startsWith "db" then (s.drop 2).toNat?.map (fun k => .direct k true)
  else if s.startsWith "d" then (s.drop 1).toNat?.map (fun k => .direct k false)
  else none

/-- list with the last entry repeating, as a function of the invocation number -/
def seqFn {α} (dflt : α) (l : List α) : Nat → α := fun k => l.getD (min k (l.length - 1)) dflt

def parseUp (s : String) : Option UpEvent :=
  if s == "reset" then some .reset
  else if s.startsWith "st" then
    match (s.drop 2).toString.splitOn "/" with
    | [_, rest] =>
      if rest == "reset" then some .reset
      else match (rest.drop 1).toString.splitOn ":" with
        | [c, d, t] => if rest.startsWith "r" then c.toNat?.map (fun k => .resp k (d == "1") (t == "1")) else none
        | _ => none
    | _ => none
  else if s.startsWith "termr" then (s.drop 5).toNat?.map .terminate
  else if s.startsWith "term" then (s.drop 4).toNat?.map .terminate
  else if s.startsWith "r" then
    match (s.drop 1).toString.splitOn ":" with
    | [c, d, t] => c.toNat?.map (fun k => .resp k (d == "1") (t == "1"))
    | _ => none
  else none

def parsePol (toks : List String) : Option RetryPol :=
  match kv "retry" toks with
  | none => some {}
  | some v =>
    match v.splitOn ":" with
    | [on, n, codes] => do
      let n ← n.toNat?
      let cs ← if codes == "-" then some [] else (codes.splitOn ".").mapM String.toNat?
      pure { disabled := false, retryOn := on == "1", codes := cs, numRetries := n }
    | _ => none

def parseEnv (toks : List String) : Option Env := do
  let routes ← ((← kv "route" toks).splitOn ",").mapM parseRoute
  let hosts := ((← kv "host" toks).splitOn ",").map (· == "1")
  let pool ← kv "pool" toks
  let up ← parseUp (← kv "up" toks)
  -- upstreamRequest.OnFailure maps the pool failure to a reset reason; the harness resets with StreamRemoteReset
  let reason := if pool == "overflow" then "StreamOverflow" else if pool == "connfail" then "StreamConnectionFailed" else "StreamRemoteReset"
  -- the value of that types.StreamResetReason constant (what doRetryCheck compares with), from the regenerated constants
  let reasonVal := if pool == "overflow" then Gen.RetryState.streamOverflow
    else if pool == "connfail" then Gen.RetryState.streamConnectionFailed else Gen.RetryState.streamRemoteReset
  let pol ← parsePol toks
  pure { route := seqFn .none routes, host := seqFn false hosts, poolFail := pool != "ok",
         noRouteCode := RouterUnavailableCode, noHostCode := NoHealthUpstreamCode, resetCode := reasonCode reason,
         resetReason := reasonVal, pol := pol,
         oneway := (← kv "oneway" toks) == "1", reqData := (← kv "body" toks) == "1",
         reqTrailers := (← kv "trl" toks) == "1", up := up }

def parseRaw (t : String) : Option Raw :=
  match t.splitOn ":" with
  | ["f", i, p] => do pure (.f (← i.toNat?) (← parsePhase p))
  | ["fs", i] => i.toNat?.map .fs
  | ["un"] => some .un
  | ["uf"] => some .uf
  | ["dh", st, e] => if st == "-" then some (.dh none (e == "1")) else st.toNat?.map (fun k => .dh (some k) (e == "1"))
  | ["dd", e] => some (.dd (e == "1"))
  | ["dt"] => some .dt
  | _ => none

def showRaw : Raw → String
  | .f i p => s!"f:{i}:{phaseLetter p}"
  | .fs i => s!"fs:{i}"
  | .un => "un" | .uf => "uf"
  | .dh st e => s!"dh:{match st with | some k => toString k | none => "-"}:{if e then 1 else 0}"
  | .dd e => s!"dd:{if e then 1 else 0}"
  | .dt => "dt"

/-- chain-local indices of the real (untagged) filters: `builtin=<i>:<kind>,…` -/
def builtinIdx (toks : List String) : List Nat :=
  match kv "builtin" toks with
  | none => []
  | some v => (v.splitOn ",").filterMap (fun p => (p.splitOn ":").head?.bind String.toNat?)

/-- the receiver filter whose handler call is the stored answer: the last hijack / direct response wins; a handler
TerminateStream answers only when nothing is stored yet (its reply carries the request headers: untagged) -/
def lastAnswer : List Obs → Option (Nat × Bool) → Option (Nat × Bool)
  | [], acc => acc
  | .f i _ v :: r, acc =>
    lastAnswer r (match v.act with
      | .hijack _ _ => some (i, true)
      | .direct => some (i, true)
      | .terminate _ => if acc.isSome then acc else some (i, false)
      | .none => acc)
  | _ :: r, acc => lastAnswer r acc

/-- clause on the answer tokens (declarative, case + implementation tokens only): data and trailers written downstream
belong to the answer whose headers were written; when a scripted receiver filter answered, the headers are THAT filter's -/
def ownClause (envToks : List String) (obs : List Obs) (own : Option String) : Bool :=
  match own with
  | none => false
  | some o =>
    match o.splitOn "/" with
    | [h, d, t] =>
      (d == "-" || d == h) && (t == "-" || t == h) && (h != "-" || (d == "-" && t == "-")) &&
      (match lastAnswer obs none with
       | some (i, tagged) =>
         h == "-" || (if tagged && !(builtinIdx envToks).contains i then h == s!"f{i}" else h == "l")
       | none => true)
    | _ => false

/-- clause on the asynchronous TerminateStream of the case (declarative): a call on the kept handler of an earlier request
(`st…`) returns false; an accepted call (`term` / `termr`: also with an upstream response landing inside it) is answered with
exactly the header-only local reply `code` — unless the request is one-way or a filter returned the termination status
(a terminated stream gets no reply by definition) -/
def termClause (envToks implToks : List String) (obs : List Obs) (own tm : Option String) : Bool :=
  let terminated := obs.any (fun o => match o with
    | .fs _ st => st == .termination
    | .f _ _ v => v.status == .termination
    | _ => false)
  match kv "up" envToks, tm with
  | some up, some r =>
    if up.startsWith "st" then r == "0"
    else if up.startsWith "term" && r == "1" && !terminated && kv "oneway" envToks == some "0" then
      let code := if up.startsWith "termr" then (up.drop 5).toString else (up.drop 4).toString
      implToks.filter (fun t => t.startsWith "d" && !t.startsWith "done=") == [s!"dh:{code}:1"] && own == some "l/-/-"
    else true
  | _, _ => false

def chain (recv send : String) (envToks impl : List String) : String :=
  match parseRecv recv, parseSend send, parseEnv envToks with
  | some r, some sd, some env =>
    let c : Cfg := ⟨r, sd, env⟩
    let fin := final c
    let model := (flat fin.trace).map Obs.raw
    -- a run the model hands to the retry path (the request is sent upstream again) carries the marker `retried`: the
    -- harness generates no such case, an implementation line never has the token
    let modelToks := model.map showRaw ++ (if fin.retried then ["retried"] else []) ++ [if fin.cleaned then "done=1" else "done=0"]
    let implAll := if impl == ["-"] then [] else impl
    let own := (implAll.find? (fun t => t.startsWith "own=")).map (fun t => (t.drop 4).toString)
    let tm := (implAll.find? (fun t => t.startsWith "tm=")).map (fun t => (t.drop 3).toString)
    let implToks := implAll.filter (fun t => !t.startsWith "own=" && !t.startsWith "tm=")
    let agree := modelToks == implToks
    -- the property predicate on the implementation's tokens (independent of the model run)
    let sp := match (implToks.filter (fun t => !t.startsWith "done=")).mapM parseRaw with
      | some raws => spec c (annot c raws) && ownClause envToks (annot c raws) own && termClause envToks implToks (annot c raws) own tm
      | none => false
    s!"{if agree then "A" else "D"} {if sp then "S" else "V"} {joinWith "," modelToks}"
  | _, _, _ => "E E bad-case"

/-! ### kind rg (round 7): registrations (filter object, phase); one object registered several times

  C14 rg <object per receiver registration> <object per sender registration> <recv chain> <send chain> <environment>
         => <tokens of kind ch> od=<object>:<OnDestroy calls>,… | od=-
  object lists `,`-separated, `x` = a plain filter (an object of its own), `-` = empty.  Registration `i` is filter `i` of the
  chain tokens (phase and script of its own): the model and the predicate of kind ch apply as they are
  (`Model.FilterRegs.toChain`); on top, the OnDestroy calls per shared object: model = regenerated registration
  (`Model.FilterRegs.build`) + regenerated `OnDestroy` when the stream is cleaned; predicate = one call per registration
  (`destroyCount`), none while the stream is not finished. -/

def parseObjs (s : String) : Option (List (Option Nat)) :=
  if s == "-" then some []
  else (s.splitOn ",").mapM (fun t => if t == "x" then some none else t.toNat?.map some)

def countTok (objs : List Nat) (count : Nat → Nat) : String :=
  let ids := (objs.foldl (fun acc o => if acc.contains o then acc else acc ++ [o]) []).mergeSort (· ≤ ·)
  let parts := (ids.filter (fun o => count o > 0)).map (fun o => s!"{o}:{count o}")
  if parts.isEmpty then "-" else joinWith "," parts

def regsCase (robj sobj recv send : String) (envToks impl : List String) : String :=
  match parseObjs robj, parseObjs sobj, parseRecv recv, parseSend send with
  | some ro, some so, some r, some sd =>
    if ro.length != r.length || so.length != sd.length then "E E bad-regs" else
    -- plain filters are objects of their own: ids outside the shared range
    let rids := ro.zipIdx.map (fun oi => match oi.1 with | some o => o | none => 100000 + oi.2)
    let sids := so.zipIdx.map (fun oi => match oi.1 with | some o => o | none => 200000 + oi.2)
    let regs : List Model.FilterRegs.Reg := (rids.zip r).map (fun of => ⟨of.1, of.2.phase⟩)
    let pairs := (ro.zip r).filterMap (fun of => of.1.map (fun o => (o, of.2.phase)))
    if !pairs.Nodup then "E E same-object-twice-in-a-phase" else
    let shared := (ro ++ so).filterMap id
    let od := ((impl.find? (fun t => t.startsWith "od=")).map (fun t => (t.drop 3).toString)).getD "?"
    let impl' := impl.filter (fun t => !t.startsWith "od=")
    let base := chain recv send envToks impl'
    match base.splitOn " " with
    | a :: sp :: rest =>
      let modelToks := joinWith " " rest
      let modelDone := (modelToks.splitOn ",").contains "done=1"
      -- model: the chain the regenerated Add… calls build, destroyed by the regenerated OnDestroy when the stream is cleaned
      let built := Model.FilterRegs.build regs sids
      let destroyed := if modelDone then Gen.FilterRegs.onDestroy built else []
      let modelOd := countTok shared (fun o => destroyed.count o)
      -- predicate on the implementation's tokens: one OnDestroy per registration once the stream is finished, none before
      let implDone := impl'.contains "done=1"
      let specOd := countTok shared (fun o => if implDone then Model.FilterRegs.destroyCount regs sids o else 0)
      let agree := a == "A" && od == modelOd
      let ok := sp == "S" && od == specOd
      s!"{if agree then "A" else "D"} {if ok then "S" else "V"} {modelToks},od={modelOd}"
    | _ => base
  | _, _, _, _ => "E E bad-case"

def run (caseToks impl : List String) : String :=
  match caseToks with
  | "ch" :: recv :: send :: envToks => chain recv send envToks impl
  | "rg" :: robj :: sobj :: recv :: send :: envToks => regsCase robj sobj recv send envToks impl
  | "mx" :: toks => C14Mx.runMx toks impl
  | _ => "E E unknown-kind"

end MosnVerif.Drive.C14
