import MosnVerif.Drive.Util
import MosnVerif.Model.VhostCase
/-!
Driver for the `vht` cases of C12 (harness/c12/vhtable.go): one virtual host of the real router, a lookup parked MID-WALK inside the
`Match` of a gate route while `RemoveAllRoutes` + k `AddRoute` calls are attempted (`p<i>`), or the calls one after the other with
all lookups after each (`s`).
Case: `vht <old> <new> <p<i>|s> <f|a|-> <q|->`; routes `id:kind:set` (`x` one exact header matcher = filed in the fast index,
`r` regex, `g` the gate), set = the request tokens (digits) it matches.
Implementation output: `p`: `<parked 0|1> <answer> <writer calls completed while parked> <observation of the final table>`;
`s`: one observation per table (before, after each call).
-/
namespace MosnVerif.Drive.C12Vhost
open MosnVerif.Drive MosnVerif.Model.VhostTable MosnVerif.Model.VhostSpec

def parseSet (s : String) : Option (List Nat) :=
  if s == "-" then some [] else s.toList.mapM (fun c => if c.isDigit then some (c.toNat - '0'.toNat) else none)

def parseRoute (s : String) : Option R :=
  match s.splitOn ":" with
  | [id, k, set] => do
    let st ← parseSet set
    if k == "x" then (if st.length == 1 then some ⟨id, true, st⟩ else none)
    else if k == "r" || k == "g" then some ⟨id, false, st⟩
    else none
  | _ => none

def parseRoutes (s : String) : Option (List R) := if s == "-" then some [] else (s.splitOn ",").mapM parseRoute

def parseIds (s : String) : List String := if s == "-" then [] else s.splitOn "+"

def run (toks impl : List String) : String :=
  match toks with
  | [oldT, newT, mode, rk, qT] =>
    match parseRoutes oldT, parseRoutes newT with
    | some old, some new =>
      if old.length > 8 || new.length > 8 then "E E vht-too-long" else
      if mode == "s" then
        let mout := (seqViews old new).map obsView
        let spec := impl == (tables old new).map obsOf
        s!"{if impl == mout then "A" else "D"} {if spec then "S" else "V"} {joinWith " " mout}"
      else
        match (mode.drop 1).toNat?, qT.toNat? with
        | some i, some q =>
          if !mode.startsWith "p" || (rk != "f" && rk != "a") || i ≥ old.length then "E E bad-vht-case" else
          let first := rk == "f"
          let o := parkRun old new i first q
          if o.done != (List.range (new.length + 1)).map (· + 1) then "E E vht-model-order" else
          let mtoks := [if o.parked then "1" else "0", dash (o.ans.map (·.id)), toString o.c1, obsView o.final]
          let spec := match impl with
            | [_, ans, _, fobs] =>
              ans != "panic" && ans != "stuck" && ansAllowed old new first q (parseIds ans) && fobs == obsOf new
            | _ => false
          s!"{if impl == mtoks then "A" else "D"} {if spec then "S" else "V"} {joinWith " " mtoks}"
        | _, _ => "E E bad-vht-case"
    | _, _ => "E E bad-vht-routes"
  | _ => "E E bad-vht-arity"

end MosnVerif.Drive.C12Vhost
