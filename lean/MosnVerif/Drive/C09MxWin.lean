import MosnVerif.Drive.Util
import MosnVerif.Model.PoolMxWin
/-!
Driver of kinds `mxw` (REAL xprotocol multiplex pool) and `h2w` (REAL HTTP/2 pool): histories whose every observation
carries the request / connection ledger (C09 no lease on a go-away / closed connection; C10 ledger per request end cause).

case : `mxw <slots = max_connections> <maxReq> <ops>` / `h2w <maxReq> <ops>`      impl: one token per op
token: `<res>;q<Requests.Cur>;a<host>:<cluster> request_active;b<host>:<cluster> connection_active;n<o|c per connection>;`
       `l<connections with a request in flight, sorted>`
ops  : mxw `I<k>` / `IF<k>` CheckAndInit on slot k (dial ok / refused), `N<k>` NewStream on slot k; h2w `N` / `NF`;
       mxw `W<k>` NewStream on slot k with the connection closed by MOSN between the creation of the stream and the
       listener registration, `V<k>` NewStream with the upstream's go-away handled between the state test and the
       creation of the stream (yield hook of poolMultiplex.NewStream; model: the same labels between the same statements);
       both `R<s>` response, `L<s>` local reset, `X<s>` (mxw: garbage ⇒ connection lost; h2w: RST_STREAM), `G<c>` go-away,
       `CR<c>` / `CL<c>` connection closed by the upstream / by MOSN, `E+` / `E-` breaker slot held elsewhere.

`A`: the small-step model (`Model/PoolMxWin`, regenerated handler programs), run to quiescence after every operation,
predicts every token.
`Spec` (about the IMPLEMENTATION's tokens and the case only — no regenerated code):
  1. after every operation: Requests.Cur = (max_requests = 0 ? 0 : slots held elsewhere + requests in flight); both
     request_active gauges = requests in flight; host and cluster connection_active agree, are ≥ 0, ≤ open connections
     (multiplex: = open connections)                       — mux_/h2_request_ledger_exact_steps, mx_quiescent_zero
  2. requests in flight are on open connections
  3. a granted NewStream names an open connection on which no go-away was delivered; it is granted only while the
     breaker has room, refused `ovf` only when it is full                                         — mux_no_lease_on_closing
-/
namespace MosnVerif.Drive.C09MxWin
open MosnVerif.Drive
open MosnVerif.Model.PoolMxWin

inductive XOp
  | i (k : Nat) (ok : Bool) | n (k : Nat) (ok : Bool) | r (s : Nat) | l (s : Nat) | x (s : Nat)
  | g (c : Nat) | cl (c : Nat) | eInc | eDec
  | nw (k : Nat)   -- NewStream on slot k, the connection closed between the creation of the stream and the listener
  | nv (k : Nat)   -- NewStream on slot k, go-away handled between the state test and the creation of the stream
  deriving Repr

def numAfter (s : String) (n : Nat) : Option Nat := (s.drop n).toString.toNat?

def parseOp (h2 : Bool) (t : String) : Option XOp :=
  if t == "E+" then some .eInc else if t == "E-" then some .eDec
  else if h2 && t == "N" then some (.n 0 true) else if h2 && t == "NF" then some (.n 0 false)
  else if t.startsWith "IF" then (numAfter t 2).map (.i · false)
  else if t.startsWith "I" then (numAfter t 1).map (.i · true)
  else if t.startsWith "N" then (numAfter t 1).map (.n · true)
  else if !h2 && t.startsWith "W" then (numAfter t 1).map .nw
  else if !h2 && t.startsWith "V" then (numAfter t 1).map .nv
  else if t.startsWith "R" then (numAfter t 1).map .r
  else if t.startsWith "L" then (numAfter t 1).map .l
  else if t.startsWith "X" then (numAfter t 1).map .x
  else if t.startsWith "G" then (numAfter t 1).map .g
  else if t.startsWith "CR" then (numAfter t 2).map .cl
  else if t.startsWith "CL" then (numAfter t 2).map .cl
  else none

def fuel : Nat := 400

def insertNat (x : Nat) : List Nat → List Nat
  | [] => [x]
  | y :: r => if x ≤ y then x :: y :: r else y :: insertNat x r

def render (res : String) (s : State) : String :=
  let conns := String.join ((List.range s.bk.nClients).map (fun c => if (s.bk.client c).netOpen then "o" else "c"))
  let live := ",".intercalate ((s.led.streams.foldr insertNat []).map toString)
  s!"{res};q{s.led.reqCur};a{s.led.rqHost}:{s.led.rqCluster};b{s.bk.cnHost}:{s.bk.cnCluster};n{conns};l{live}"

def resTok : Res → String
  | .none => "-" | .ok c => s!"ok{c}" | .overflow => "ovf" | .connFail => "cf"

/-- run task `k` until its next statement is `stop` (or it has ended) -/
def runUntil : Nat → State → Nat → Stmt → State
  | 0, s, _, _ => s
  | n + 1, s, k, stop =>
    match s.tasks[k]? with
    | some t => match t.rest with
      | [] => s
      | st :: _ => if st = stop then s else runUntil n (stepTask s k) k stop
    | none => s

/-- run task `k` to its end -/
def runTask : Nat → State → Nat → State
  | 0, s, _ => s
  | n + 1, s, k =>
    match s.tasks[k]? with
    | some t => if t.rest.isEmpty then s else runTask n (stepTask s k) k
    | none => s

/-- a NewStream on slot `k` with a connection event landing when the next statement of NewStream is `stop` -/
def raced (s : State) (sc : List Nat) (k : Nat) (stop : Stmt) (ev : Nat → Label) : State × List Nat × String :=
  let s0 := { s with bk := { s.bk with lastRes := .none } }
  let kt := s0.tasks.length
  let s1 := runUntil fuel (step s0 (.newStream k true)) kt stop
  let s2 := match s1.tasks[kt]? with
    | some t => match t.rest, t.c with
      | _ :: _, some c => let s' := step s1 (ev c); runTask fuel s' (s'.tasks.length - 1)
      | _, _ => s1
    | none => s1
  let s3 := drain fuel s2
  (s3, (match s3.bk.lastRes with | .ok c => sc ++ [c] | _ => sc), resTok s3.bk.lastRes)

/-- one operation on the model, run to quiescence; `sc` = connection of every stream so far -/
def apply (h2 : Bool) (s : State) (sc : List Nat) : XOp → State × List Nat × String
  | .i k ok =>
    let i := slotOf s.bk k
    let ready := match s.bk.slots i with
      | some c => (s.bk.client c).state == MosnVerif.Gen.PoolMux.muxConnected
      | none => false
    (drain fuel (step s (.connect i ok)), sc, if ready then "t" else "f")
  | .n k ok =>
    let s0 := { s with bk := { s.bk with lastRes := .none } }
    let s1 := drain fuel (step s0 (.newStream k ok))
    (s1, (match s1.bk.lastRes with | .ok c => sc ++ [c] | _ => sc), resTok s1.bk.lastRes)
  | .r i => (drain fuel (step s (.endStream (sc.getD i 0) .complete)), sc, "-")
  | .l i => (drain fuel (step s (.endStream (sc.getD i 0) .localReset)), sc, "-")
  | .x i => (drain fuel (step s (if h2 then .endStream (sc.getD i 0) .remoteReset else .netClose (sc.getD i 0))), sc, "-")
  | .g c => (drain fuel (step s (.goAway c)), sc, "-")
  | .cl c => (drain fuel (step s (.netClose c)), sc, "-")
  | .eInc => (step s .extInc, sc, "-")
  | .eDec => (step s .extDec, sc, "-")
  | .nw k => raced s sc k .listen .netClose
  | .nv k => raced s sc k .chkBreaker .goAway

def modelToks (h2 : Bool) : State → List Nat → List XOp → List String
  | _, _, [] => []
  | s, sc, op :: ops =>
    let (s1, sc1, res) := apply h2 s sc op
    render res s1 :: modelToks h2 s1 sc1 ops

/-! ### the predicate, on the implementation's tokens -/
structure Obs where
  q : Int
  aH : Int
  aC : Int
  bH : Int
  bC : Int
  conns : List Bool
  live : List Nat
  deriving Repr

def parseObs (t : String) : Option (String × Obs) :=
  match t.splitOn ";" with
  | [res, qq, aa, bb, nn, ll] =>
    if !(qq.startsWith "q" && aa.startsWith "a" && bb.startsWith "b" && nn.startsWith "n" && ll.startsWith "l") then none else
    let conns := (nn.drop 1).toString.toList
    if conns.any (fun ch => ch != 'o' && ch != 'c') then none else
    let liveT := ((ll.drop 1).toString.splitOn ",").filter (· ≠ "")
    match parseInt? (qq.drop 1).toString, (aa.drop 1).toString.splitOn ":", (bb.drop 1).toString.splitOn ":", liveT.mapM String.toNat? with
    | some q, [a1, a2], [b1, b2], some live =>
      match parseInt? a1, parseInt? a2, parseInt? b1, parseInt? b2 with
      | some aH, some aC, some bH, some bC => some (res, { q, aH, aC, bH, bC, conns := conns.map (· == 'o'), live })
      | _, _, _, _ => none
    | _, _, _, _ => none
  | _ => none

def Obs.isOpen (o : Obs) (c : Nat) : Bool := o.conns.getD c false
def Obs.openCount (o : Obs) : Nat := (o.conns.filter id).length

def obsSpec (h2 : Bool) (maxReq ext : Nat) (o : Obs) : Bool :=
  let live : Int := o.live.length
  let opn : Int := o.openCount
  o.q == (if maxReq == 0 then 0 else (ext : Int) + live)
  && o.aH == live && o.aC == live
  && o.bH == o.bC && 0 ≤ o.bH && o.bH ≤ opn && (h2 || o.bH == opn) && (!h2 || o.bH ≤ 1)
  && o.live.all (fun c => o.isOpen c)

def okConn (res : String) : Option Nat :=
  if res.startsWith "ok" then (res.drop 2).toString.toNat? else none

def specAlong (h2 : Bool) (maxReq : Nat) : Nat → List Nat → Obs → List XOp → List String → Bool
  | _, _, _, [], _ => true
  | _, _, _, _ :: _, [] => true
  | ext, ga, before, op :: ops, t :: ts =>
    match parseObs t with
    | none => false
    | some (res, o) =>
      let full := maxReq != 0 && ext + before.live.length ≥ maxReq
      let (ok, ext', ga') : Bool × Nat × List Nat := match op with
        | .n _ _ =>
          (match okConn res with
           | some c => !full && o.isOpen c && !ga.contains c
           | none => (res == "ovf" && full) || res == "cf", ext, ga)
        | .nw _ =>
          -- the connection was closed while NewStream ran: a stream handed out would be on a closed connection
          (match okConn res with
           | some c => !full && o.isOpen c && !ga.contains c
           | none => (res == "ovf" && full) || res == "cf", ext, ga)
        | .nv _ =>
          -- the lease was decided before the go-away was observed: the stream may be handed out on that connection
          -- (which then counts as told to go away), never on a closed one
          (match okConn res with
           | some c => !full && o.isOpen c && !ga.contains c
           | none => (res == "ovf" && full) || res == "cf",
           ext, match okConn res with | some c => c :: ga | none => ga)
        | .i _ _ => (res == "t" || res == "f", ext, ga)
        | .g c => (res == "-", ext, c :: ga)
        | .eInc => (res == "-", ext + 1, ga)
        | .eDec => (res == "-", ext - 1, ga)
        | _ => (res == "-", ext, ga)
      ok && obsSpec h2 maxReq ext' o && specAlong h2 maxReq ext' ga' o ops ts

def emptyObs : Obs := { q := 0, aH := 0, aC := 0, bH := 0, bC := 0, conns := [], live := [] }

def runKind (h2 : Bool) (slots mr ops : String) (impl : List String) : String :=
  match slots.toNat?, mr.toNat?, (ops.splitOn ",").mapM (parseOp h2) with
  | some nSlots, some maxReq, some opl =>
    let s0 := init (if h2 then .h2 else .mux) (if h2 then 1 else (MosnVerif.Gen.PoolMux.muxSlots nSlots).toNat) maxReq
    let toks := modelToks h2 s0 [] opl
    let agree := impl == toks
    let spec := impl.length == opl.length && specAlong h2 maxReq 0 [] emptyObs opl impl
    s!"{if agree then "A" else "D"} {if spec then "S" else "V"} {joinWith " " toks}"
  | _, _, _ => "E E bad-case"

end MosnVerif.Drive.C09MxWin
