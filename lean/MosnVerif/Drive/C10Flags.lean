import MosnVerif.Drive.Util
import MosnVerif.Model.GaugeFlags
/-!
C10 driver, kind `flg` (builder c10r7; harness/c10/c10r7_flags.go): request-info flags × end causes on the real proxy core.

case : `flg mr=<n>,mq=<n> <b>/<r>/<s>:<cause>;…`   flags set before route / after route / before send, end cause
impl : one token per request `m<gd>,<ld>,<up>,<hup>,<req>,<ret>|e<gd>,<ld>,<up>,<hup>,<req>,<ret>,<done>` (`m-`: no
       upstream attempt belongs to the cause) and `q=<gd>,<ld>,<up>,<hup>,<req>,<ret>` for the idle fixture;
       gd / ld = proxy-global / per-listener downstream request_active, up / hup = cluster / per-host upstream
       request_active, req / ret = Requests().Cur() / Retries().Cur().

Model (`A`): gd and ld are `Model.GaugeFlags.gaugeAfter` over the REGENERATED movements (`Gen.GaugeSites.moves`) under the
valuation the request's flags induce at clean time (flags of the send phase count when the cause sends an answer through
the sender filters); the upstream side is what one live attempt holds (1, 1, max_requests > 0 ? 1 : 0, 0) and nothing
after the end.

`Spec` — about the IMPLEMENTATION's output and the case only (no regenerated code):
  1. while the first attempt is live: gd = ld = 1, up = hup = 1, req = (mq > 0 ? 1 : 0), ret = 0
  2. after EVERY request, whatever flags it carried and however it ended: all six are 0 and the request is done
  3. the idle fixture shows all six at 0
-/
namespace MosnVerif.Drive.C10Flags
open MosnVerif.Drive MosnVerif.Model.GaugeFlags MosnVerif.Gen.GaugeSites

structure Req where
  b : List String
  r : List String
  s : List String
  cause : String

def flagList (s : String) : List String := if s == "-" then [] else s.splitOn "+"

def parseReq (t : String) : Option Req :=
  match t.splitOn ":" with
  | [fl, cause] =>
    match fl.splitOn "/" with
    | [b, r, s] => some ⟨flagList b, flagList r, flagList s, cause⟩
    | _ => none
  | _ => none

def parseKV (t : String) : Option (Nat × Nat) :=
  match t.splitOn "," with
  | [a, b] =>
    match a.splitOn "=", b.splitOn "=" with
    | ["mr", x], ["mq", y] => do some (← x.toNat?, ← y.toNat?)
    | _, _ => none
  | _ => none

def withAttempt (cause : String) : Bool := ["ok", "e5", "rx", "rs", "to", "tm", "dr", "cc"].contains cause
/-- the cause ends with an answer written through the sender filters -/
def answers (cause : String) : Bool := !(["dr", "cc"].contains cause)

def flagsAtClean (q : Req) : Flags :=
  let all := q.b ++ q.r ++ (if answers q.cause then q.s else [])
  { hc := all.contains "hc", failed := all.contains "rf" || ["nr", "nh", "tm", "dr", "cc"].contains q.cause }

def six (l : List Int) : String := joinWith "," (l.map toString)

/-- the idle fixture: what the requests left behind -/
def modelIdle (qs : List Req) : String :=
  let sum (o : Owner) : Int := qs.foldl (fun a q => a + gaugeAfter moves (valOf {}) (valOf (flagsAtClean q)) o reqGauge true) 0
  "q=" ++ six [sum .proxy, sum .listener, 0, 0, 0, 0]

def specTok (mq : Nat) (q : Req) (t : String) : Bool :=
  let mid := if withAttempt q.cause then "m" ++ six [1, 1, 1, 1, if mq > 0 then 1 else 0, 0] else "m-"
  t == mid ++ "|e0,0,0,0,0,0,1"

def run (caseToks impl : List String) : String :=
  match caseToks with
  | ["flg", kv, reqs] =>
    match parseKV kv, (reqs.splitOn ";").mapM parseReq with
    | some (_, mq), some qs =>
      -- the end-of-request observation is cumulative on the implementation: a leak of an earlier request stays visible
      let rec outs (acc : Int × Int) : List Req → List String
        | [] => []
        | q :: rest =>
          let ρ₁ := valOf (flagsAtClean q)
          let gp := gaugeAfter moves (valOf {}) ρ₁ .proxy reqGauge true
          let gl := gaugeAfter moves (valOf {}) ρ₁ .listener reqGauge true
          let mp := gaugeAfter moves (valOf {}) ρ₁ .proxy reqGauge false
          let ml := gaugeAfter moves (valOf {}) ρ₁ .listener reqGauge false
          let mid := if withAttempt q.cause then "m" ++ six [acc.1 + mp, acc.2 + ml, 1, 1, if mq > 0 then 1 else 0, 0] else "m-"
          (mid ++ "|e" ++ six [acc.1 + gp, acc.2 + gl, 0, 0, 0, 0] ++ ",1") :: outs (acc.1 + gp, acc.2 + gl) rest
      let out := joinWith " " (outs (0, 0) qs ++ [modelIdle qs])
      let agree := out == joinWith " " impl
      let ok := impl.length == qs.length + 1
        && (qs.zip impl).all (fun (q, t) => specTok mq q t)
        && impl.getLast? == some "q=0,0,0,0,0,0"
      s!"{if agree then "A" else "D"} {if ok then "S" else "V"} {out}"
    | _, _ => "E E bad-flg-case"
  | _ => "E E bad-flg-case"

end MosnVerif.Drive.C10Flags
