import MosnVerif.Drive.Util
import MosnVerif.Drive.RetryDrive
import MosnVerif.Model.Headers
import MosnVerif.Model.RetryPolicy
/-! driver for the C17 kinds `rp` (retry policy: configuration → accessors → parseProxyTimeout) and `re` (the configured policy on
the real proxy core: refused connects / a silent upstream).  Core Lean only; no `main`.  The `spec*` sides are written without
regenerated code. -/
namespace MosnVerif.Drive.C17Policy
open MosnVerif.Drive MosnVerif.Model.Retry MosnVerif.Model.RetryPolicy MosnVerif.Model.Headers

def showCodes (l : List Int) : String := if l.isEmpty then "-" else joinWith "," (l.map toString)

def mkCfg (hasPolicy : Bool) (ro : Bool) (tt : Int) (nr : Nat) (codes : List Nat) : Option RetryCfg :=
  if hasPolicy then some ⟨ro, tt, nr, codes⟩ else none

def rp (parseInt64 : String → Option Int) (optStr : String → Option (Option String)) (a impl : List String) : String :=
  match a, impl with
  | [hp, ro, tt, nr, codes, rg, hT, hG, vT, vG], [oRo, oTt, oNr, oCodes, oG, oT] =>
    match parseInt? tt, nr.toNat?, RetryDrive.parseCodes codes, parseInt? rg, optStr hT, optStr hG, optStr vT, optStr vG with
    | some tt, some nr, some codes, some rg, some hT, some hG, some vT, some vG =>
      let cfg := mkCfg (hp == "1") (ro == "1") tt nr codes
      let e := effectivePolicy cfg
      let (mg, mt) := effectiveTimeouts parseInt64 cfg rg hT hG vT vG
      let m := s!"{if e.retryOn then "1" else "0"} {e.tryTimeout} {e.numRetries} {showCodes e.statusCodes} {mg} {mt}"
      -- declarative: every configured field is what the accessor answers, whatever retry_on; the per-try timeout of the request is
      -- variable > header > the route's retry_timeout, disabled when not below the global timeout
      let (sRo, sTt, sNr, sCodes) : Bool × Int × Nat × List Nat := if hp == "1" then (ro == "1", tt, nr, codes) else (false, 0, 0, [])
      let sg := specGlobal parseInt64 0 true rg hG vG
      let st := specTry parseInt64 0 0 true rg sTt hT hG vT vG
      let s := s!"{if sRo then "1" else "0"} {sTt} {sNr} {showCodes (sCodes.map Int.ofNat)} {sg} {st}"
      let out := s!"{oRo} {oTt} {oNr} {oCodes} {oG} {oT}"
      s!"{if m == out then "A" else "D"} {if s == out then "S" else "V"} {m}"
    | _, _, _, _, _, _, _, _ => "E E bad-case"
  | _, _ => "E E bad-case"

def re (a impl : List String) : String :=
  match a with
  | [hp, ro, tryMs, nr, gMs, hosts, mode, k, pat] =>
    match parseInt? tryMs, nr.toNat?, parseInt? gMs, hosts.toNat?, k.toNat? with
    | some tryMs, some nr, some gMs, some n, some k =>
      let hasPolicy := hp == "1"
      let cfg := mkCfg hasPolicy (ro == "1") (tryMs * 1000000) nr []
      let p := routePolicy (fun _ => none) cfg (gMs * 1000000) none none none none false
      let out := joinWith " " impl
      let budget := max 3 (if hasPolicy then nr else 0)
      if mode == "cf" then
        let fails : List Outcome := (if pat == "-" then [] else pat.toList).map (fun c => if c == 'p' then Outcome.poolConnFail else Outcome.connFail)
        if fails.length ≠ k then "E E bad-case" else
        let os := fails ++ [Outcome.resp 200]
        let labels : List Label := (List.range os.length).filterMap (fun i => os[i]?.map (fun o => ⟨o, true, some ((i + 1) % n)⟩))
        let st := run p (some 0) labels
        let m := s!"{attemptCount st.trace} {RetryDrive.traceFinal st.trace}"
        -- declarative: k refused connects => exactly 1 + min k (max 3 num_retries) attempts, whatever retry_on; the answer is the
        -- upstream's when an attempt got through, else the connect-failure status
        let s := s!"{1 + min k budget} {if k ≤ budget then "200" else "502"}"
        s!"{if m == out then "A" else "D"} {if s == out then "S" else "V"} {m}"
      else if mode == "sil" then
        let labels : List Label := if p.tryTimeout then [⟨.perTry, true, some (1 % n)⟩, ⟨.resp 200, true, some (2 % n)⟩] else [⟨.global, true, some (1 % n)⟩]
        let st := run p (some 0) labels
        let m := s!"{attemptCount st.trace} {RetryDrive.traceFinal st.trace} {if p.tryTimeout then "try" else "global"}"
        -- declarative: a configured per-try timeout below the global one cuts the silent attempt, whatever retry_on; the
        -- timed-out attempt is retried only with retry_on
        let armed := hasPolicy && decide (tryMs > 0) && decide (tryMs < gMs)
        let s := if armed then (if ro == "1" then "2 200 try" else "1 504 try") else "1 504 global"
        s!"{if m == out then "A" else "D"} {if s == out then "S" else "V"} {m}"
      else "E E bad-case"
    | _, _, _, _, _ => "E E bad-case"
  | _ => "E E bad-case"

end MosnVerif.Drive.C17Policy
