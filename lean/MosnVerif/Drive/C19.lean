import MosnVerif.Drive.Util
import MosnVerif.Drive.C20
import MosnVerif.Drive.C12
import MosnVerif.Model.ConfigCodec
import MosnVerif.Model.ConfigDir
import MosnVerif.Model.ConfigPairs2
import MosnVerif.Model.ConfigCb
import MosnVerif.Drive.C19Order
import MosnVerif.Drive.C19Laddr
/-!
Driver of C19.  `<esc>` = every byte outside [A-Za-z0-9_.-] as %XX; JSON is compared key-sorted and compact.

`generic <Struct> <esc wire> => ok:<esc j1>:<esc j2> | err`
     real `json.Unmarshal` into a fresh v2.<Struct> then `json.Marshal` (j1), and once more from j1 (j2);
     model: `decode` / `encode` over the shape unfolded from the regenerated field table of <Struct>.
`pair fc|host|retry <esc wire> => ok:<esc j1>:<esc j2> | err`   the three custom pairs (real methods vs `fcU/fcM`, …).
`pair cw|ra|rt|cb <esc wire> => …`   ClusterWeight, RouteAction, Router (metadata wrappers over the regenerated field tables),
                                      CircuitBreakers; `pair ln <esc wire> tcp=<r>/<rr>,udp=…,unix=… => …` Listener, with the resolver's
                                      answers for the address (`ok<esc>` | `err`) and for its own answer.
`fix <Struct> <esc wire> => ok:<esc j1>:<esc j2> | err`        every v2 struct incl. custom marshalers (predicate only).
`dur =<esc s> => ok:<esc formatted> | err`                      `time.ParseDuration` + `String()` vs `parseDur` / `fmtDur`.
`sample <esc path> => unloadable:<why> | ok:<h1>:<h2>:lost<n>`  hashes of the key-sorted, name-sorted first and second dump, and
                                                                 the number of scalars of the input the first dump no longer has
`gen <n> => unloadable:<why> | ok:<h1>:<h2>:lost<n>`            the same for a generated configuration.
`cbeff <esc circuit_breakers wire> => ok:<entries>/<connections,pending,requests,retries>:<the same after dump and reload> | err`
     a cluster document with these circuit_breakers decoded, built with cluster.NewCluster (limits of its resource
     manager), marshalled, decoded and built again; predicate: both halves are equal
`dynpair cl|vh init=<hex file names> items=<hex name>.<id>,… n=<dumps> => ok:<hex file names after the dump, sorted>:<items read back, sorted> | fail:<stage>`
     `ClusterManagerConfig` / `RouterConfiguration` in directory mode, items in this order (clock stamps shown as T<k>);
     model: `marshalDynamic` / `unmarshalDynamic` with the regenerated file-name operations.
`dyn|dynnul <mode> cl=<items> vh=<items> n=<dumps before the reload> => ok:<cl0>/<vh0>:<cl1>/<vh1>:<h1>[,<h1'>…]:<h2> | fail:<stage>`
     whole path (load, dump rewriting the directories, reload, second dump): the items of the effective configuration after
     the first load and after the reload, hashes of dump + directory documents after the first and second dump.
Property predicate (implementation tokens only): `j1 = j2` resp. `h1 = h2 ∧ n = 0` — dump ∘ load is stable after the
first pass and drops nothing; directory mode: the items read back are exactly the items dumped (`dynpair`: and one
`.json` file per item is left), `dyn`: before and after the reload, and every dump — the `n` ones before the reload and the one after — leaves the same
documents (`h1 = h1' = … = h2`).
-/
namespace MosnVerif.Drive.C19
open MosnVerif.Drive MosnVerif.Model MosnVerif.Model.ConfigCodec MosnVerif.Model.GoDuration

/-- stable insertion; a later duplicate key replaces the earlier one (Go maps) -/
def ins (kv : String × Json) : List (String × Json) → List (String × Json)
  | [] => [kv]
  | y :: r => if kv.1 == y.1 then kv :: r else if kv.1 < y.1 then kv :: y :: r else y :: ins kv r

def insertAll (kvs : List (String × Json)) : List (String × Json) := kvs.foldl (fun acc kv => ins kv acc) []

mutual
def sortKeys : Json → Json
  | .arr xs => .arr (sortKeysL xs)
  | .obj kvs => .obj (insertAll (sortKeysO kvs))
  | j => j
def sortKeysL : List Json → List Json
  | [] => []
  | x :: r => sortKeys x :: sortKeysL r
def sortKeysO : List (String × Json) → List (String × Json)
  | [] => []
  | (k, v) :: r => (k, sortKeys v) :: sortKeysO r
end

def canon (j : Json) : String := (sortKeys j).render

def getJson (tok : String) : Option Json := (C20.unescStr tok.toList).bind Json.parse

/-- model of one marshal / unmarshal cycle pair: (j1, j2) -/
def cycle2 (u : Json → Option α) (m : α → Json) (w : Json) : Option (String × String) :=
  match u w with
  | none => none
  | some x =>
    let j1 := m x
    match u j1 with
    | none => some (canon j1, "<second-load-fails>")
    | some y => some (canon j1, canon (m y))

def implPair (impl : List String) : Option (Option (String × String)) :=
  match impl with
  | ["err"] => some none
  | [t] =>
    match t.splitOn ":" with
    | ["ok", a, b] =>
      match C20.unescStr a.toList, C20.unescStr b.toList with
      | some a, some b => some (some (a, b))
      | _, _ => none
    | _ => none
  | _ => none

def verdict (model : Option (String × String)) (impl : Option (String × String)) : String :=
  let agree := (match model, impl with
    | none, none => true
    | some (a, _), some (c, _) => a == c
    | _, _ => false)
  let spec := (match impl with | none => true | some (c, d) => c == d)
  let shown := (match model with | none => "err" | some (a, _) => a)
  s!"{if agree then "A" else "D"} {if spec then "S" else "V"} {(shown.take 200).toString.replace " " "_"}"

/-! ## directory mode -/

open MosnVerif.Model.ConfigDir in
/-- items `<hex name>.<id>` of a `k=<list>` token -/
def parseItems (tok : String) : Option (List (List UInt8 × String)) :=
  if tok == "-" then some [] else
  (tok.splitOn ",").mapM (fun it =>
    match it.splitOn "." with
    | [h, id] => (unhex h).map (fun n => (n, id))
    | _ => none)

def itemTok (it : List UInt8 × String) : String := s!"{hex it.1}.{it.2}"

def itemsTok (its : List (List UInt8 × String)) : String :=
  if its.isEmpty then "-" else ",".intercalate (sortStrings (its.map itemTok))

/-- the clock of the model: item `i` with an empty name reads `T<k>`, k = number of empty names before it -/
def clockOf (its : List (List UInt8 × String)) (i : Nat) : List UInt8 :=
  84 :: ConfigDir.dec ((its.take i).filter (fun it => it.1.isEmpty)).length

/-- model of dump + reload of one directory: the files left (sorted) and the items read back (sorted) -/
def dirCycle (ops : List MosnVerif.Model.DirTypes.NameOp) (init : List (List UInt8)) (its : List (List UInt8 × String))
    (nd : Nat := 1) : Option (List String × List (List UInt8 × String)) :=
  let enc : Nat → Json := fun i => .num (toString i)
  let dcd : Json → Option Nat := fun j => match j with | .num l => l.toNat? | _ => none
  let idx := List.range its.length
  match ConfigDir.dumps ops enc (fun i => (its.getD i ([], "")).1) idx (List.replicate nd (clockOf its))
      (init.map (fun n => (n, ConfigDir.Body.empty))) with
  | none => none
  | some d =>
    match ConfigDir.unmarshalDynamic dcd MosnVerif.Gen.ConfigDir.readExt d with
    | none => none
    | some l => some (sortStrings (d.map (fun f => hex f.1)), l.map (fun i => its.getD i ([], "")))

def hasJsonSuffix (hexName : String) : Bool := hexName.endsWith "2e6a736f6e"

def tlsShape : Shape := (looseShapeOf "TLSConfig").getD .hole
def filterShape : Shape := (shapeOf "Filter").getD .hole

/-- a metadata wrapper over the regenerated field table of config struct `s` -/
def metaPair (s key w : String) (impl : List String) : String :=
  match embFields s, getJson w, implPair impl with
  | some fs, some w, some im =>
    let i := fs.indexOf key
    if metaAt fs i then verdict (cycle2 (metaU fs i) (metaM fs i) w) im else "E E no-metadata-member-in-the-regenerated-table"
  | _, _, _ => "E E bad-case"

/-- `tcp=<r>/<rr>,udp=…,unix=…` with `<r>` = `ok<esc>` | `err` | `-` -/
def parseOracle (tok : String) : Option (List (String × Option String × Option String)) :=
  (tok.splitOn ",").mapM (fun e =>
    match e.splitOn "=" with
    | [n, rs] =>
      match rs.splitOn "/" with
      | [a, b] =>
        let one (t : String) : Option (Option String) :=
          if t == "err" || t == "-" then some none
          else if t.startsWith "ok" then (C20.unescStr (t.drop 2).toString.toList).map some else none
        match one a, one b with
        | some x, some y => some (n, x, y)
        | _, _ => none
      | _ => none
    | _ => none)

/-- the resolver as the case reports it: the answer for the listener's address, and the answer for that answer -/
def resolverOf (tbl : List (String × Option String × Option String)) (n a : String) : Option String :=
  match tbl.find? (fun e => e.1 == n) with
  | some (_, r1, r2) => if r1 == some a then r2 else r1
  | none => none

def run (caseToks impl : List String) : String :=
  match caseToks with
  -- router histories mixing directory-mode, static and code-built configurations, then dump → reload (the `mode` cases of C12)
  | "dynupd" :: ops => MosnVerif.Drive.C12.mode ops impl
  -- order of the lists across dump and reload (Drive/C19Order.lean)
  | "order" :: rest => MosnVerif.Drive.C19Order.order rest impl
  -- listener address forms through load, dump, reload (Drive/C19Laddr.lean)
  | "laddr" :: rest => MosnVerif.Drive.C19Laddr.run rest impl
  | ["generic", s, w] =>
    match shapeOf s, getJson w, implPair impl with
    | some sh, some w, some im => verdict (cycle2 (decode sh) (encode sh) w) im
    | none, _, _ => "E E struct-not-generic-in-the-regenerated-tables"
    | _, _, _ => "E E bad-case"
  | ["pair", "fc", w] =>
    match getJson w, implPair impl with
    | some w, some im => verdict (cycle2 (fcU tlsShape filterShape) (fcM tlsShape filterShape) w) im
    | _, _ => "E E bad-case"
  | ["pair", "host", w] =>
    match getJson w, implPair impl with
    | some w, some im => verdict (cycle2 hostU hostM w) im
    | _, _ => "E E bad-case"
  | ["pair", "retry", w] =>
    match getJson w, implPair impl with
    | some w, some im => verdict (cycle2 retryU retryM w) im
    | _, _ => "E E bad-case"
  | ["pair", "cw", w] => metaPair "ClusterWeightConfig" "metadata_match" w impl
  | ["pair", "ra", w] => metaPair "RouterActionConfig" "metadata_match" w impl
  | ["pair", "rt", w] => metaPair "RouterConfig" "metadata" w impl
  | ["pair", "cb", w] =>
    match shapeOf "Thresholds", getJson w, implPair impl with
    | some th, some w, some im => verdict (cycle2 (cbU th) (cbM th) w) im
    | _, _, _ => "E E bad-case"
  -- effective circuit-breaker thresholds before the dump and after the reload (Model/ConfigCb.lean)
  | ["cbeff", w] =>
    match shapeOf "Thresholds", getJson w, impl with
    | some th, some w, [t] =>
      let tok (x : CVal) : String :=
        s!"{(ConfigCb.entries x).length}/{",".intercalate ((ConfigCb.effective x).map toString)}"
      let model := (match cbU th w with
        | none => "err"
        | some x => (match cbU th (cbM th x) with
          | some y => s!"ok:{tok x}:{tok y}"
          | none => s!"ok:{tok x}:reload-fails"))
      -- predicate: the cluster built from the reloaded dump has the limits (and the entries) of the running one
      let spec := (match t.splitOn ":" with
        | ["err"] => true
        | ["ok", a, b] => a == b
        | _ => false)
      s!"{if model == t then "A" else "D"} {if spec then "S" else "V"} {model}"
    | _, _, _ => "E E bad-case"
  | ["pair", "ln", w, oracle] =>
    match embFields "ListenerConfig", getJson w, implPair impl, parseOracle oracle with
    | some fs, some w, some im, some tbl =>
      let ia := fs.indexOf "address"
      verdict (cycle2 (lnU fs ia (fs.indexOf "network") (resolverOf tbl)) (lnM fs ia) w) im
    | _, _, _, _ => "E E bad-case"
  | ["fix", _, _] =>
    match implPair impl with
    | some none => "A S err"
    | some (some (a, b)) => s!"A {if a == b then "S" else "V"} -"
    | none => "E E bad-impl"
  | ["dur", s] =>
    match C20.unescStr (s.toList.drop 1), impl with
    | some s, [t] =>
      let model := (parseDur s).map fmtDur
      let im := (match t.splitOn ":" with
        | ["ok", a] => (C20.unescStr a.toList).map some
        | ["err"] => some none
        | _ => none)
      match im with
      | none => "E E bad-impl"
      | some im =>
        -- predicate: what String() prints is read back to the same duration (format ∘ parse is idempotent)
        let spec := (match im with | none => true | some f => (parseDur f).map fmtDur == some f)
        s!"{if model == im then "A" else "D"} {if spec then "S" else "V"} {(model.getD "err").replace " " "_"}"
    | _, _ => "E E bad-case"
  | ["dynpair", what, initTok, itemsT, ndTok] =>
    let ops := if what == "cl" then MosnVerif.Gen.ConfigDir.clusterNameOps else MosnVerif.Gen.ConfigDir.vhostNameOps
    match (if (initTok.drop 5).toString == "" then some [] else ((initTok.drop 5).toString.splitOn ",").mapM unhex), parseItems (itemsT.drop 6).toString, impl, (ndTok.drop 2).toString.toNat? with
    | some init, some its, [t], some nd =>
      let model := (match dirCycle ops init its nd with
        | some (files, back) => s!"ok:{",".intercalate files}:{itemsTok back}"
        | none => "fail")
      let want := itemsTok its
      let spec := (match t.splitOn ":" with
        | ["ok", files, back] =>
          let fl := if files == "-" then [] else files.splitOn ","
          back == want && fl.length == its.length && fl.all hasJsonSuffix
        | _ => false)
      let agree := model == t || (model == "fail" && t.startsWith "fail:")
      s!"{if agree then "A" else "D"} {if spec then "S" else "V"} {(model.take 200).toString}"
    | _, _, _, _ => "E E bad-case"
  | [kind, mode, clTok, vhTok, ndTok] =>
    if kind != "dyn" && kind != "dynnul" then "E E unknown-kind" else
    match parseItems (clTok.drop 3).toString, parseItems (vhTok.drop 3).toString, impl, (ndTok.drop 2).toString.toNat? with
    | some cl, some vh, [t], some nd =>
      let dynCl := (mode.splitOn "cl").length > 1
      let dynVh := (mode.splitOn "rt").length > 1
      let mcl := if dynCl then (dirCycle MosnVerif.Gen.ConfigDir.clusterNameOps [] cl nd).map (·.2) else some cl
      let mvh := if dynVh then (dirCycle MosnVerif.Gen.ConfigDir.vhostNameOps [] vh nd).map (·.2) else some vh
      let model := (match mcl, mvh with
        | some a, some b => s!"{itemsTok a}/{itemsTok b}"
        | _, _ => "fail")
      let want := s!"{itemsTok cl}/{itemsTok vh}"
      match t.splitOn ":" with
      | ["ok", a0, a1, h1, h2] =>
        -- h1: the hashes of dump + directory documents after each of the `nd` dumps before the reload
        let spec := a0 == want && a1 == want && (h1.splitOn ",").all (· == h2) && (h1.splitOn ",").length == nd
        s!"{if model == a1 then "A" else "D"} {if spec then "S" else "V"} {(model.take 200).toString}"
      | "fail" :: _ => s!"{if model == "fail" then "A" else "D"} V {(model.take 200).toString}"
      | _ => "E E bad-impl"
    | _, _, _, _ => "E E bad-case"
  | "sample" :: _ | "gen" :: _ =>
    match impl with
    | [t] =>
      match t.splitOn ":" with
      | ["ok", a, b, l] => s!"A {if a == b && l == "lost0" then "S" else "V"} -"
      | "unloadable" :: _ => "A S -"
      | _ => "E E bad-impl"
    | _ => "E E bad-impl"
  | _ => "E E unknown-kind"

end MosnVerif.Drive.C19
