import MosnVerif.Drive.Util
import MosnVerif.Drive.C20
import MosnVerif.Model.ConfigCodec
/-!
Driver of C19.  `<esc>` = every byte outside [A-Za-z0-9_.-] as %XX; JSON is compared key-sorted and compact.

`generic <Struct> <esc wire> => ok:<esc j1>:<esc j2> | err`
     real `json.Unmarshal` into a fresh v2.<Struct> then `json.Marshal` (j1), and once more from j1 (j2);
     model: `decode` / `encode` over the shape unfolded from the regenerated field table of <Struct>.
`pair fc|host|retry <esc wire> => ok:<esc j1>:<esc j2> | err`   the three custom pairs (real methods vs `fcU/fcM`, …).
`fix <Struct> <esc wire> => ok:<esc j1>:<esc j2> | err`        every v2 struct incl. custom marshalers (predicate only).
`dur =<esc s> => ok:<esc formatted> | err`                      `time.ParseDuration` + `String()` vs `parseDur` / `fmtDur`.
`sample <esc path> => unloadable:<why> | ok:<h1>:<h2>:lost<n>`  hashes of the key-sorted, name-sorted first and second dump, and
                                                                 the number of scalars of the input the first dump no longer has
`gen <n> => unloadable:<why> | ok:<h1>:<h2>:lost<n>`            the same for a generated configuration.
Property predicate (implementation tokens only): `j1 = j2` resp. `h1 = h2 ∧ n = 0` — dump ∘ load is stable after the
first pass and drops nothing.
-/
namespace MosnVerif.Drive.C19
open MosnVerif.Drive MosnVerif.Model MosnVerif.Model.ConfigCodec MosnVerif.Model.GoDuration

/-- stable insertion; a later duplicate key replaces the earlier one (Go maps) -/
def ins (kv : String × Json) : List (String × Json) → List (String × Json)
  | [] => [kv]
  | y :: r => if kv.1 == y.1 then kv :: r else if kv.1 < y.1 then kv :: y :: r else y :: ins kv r

def insertAll (kvs : List (String × Json)) : List (String × Json) := kvs.foldl (fun acc kv => ins kv acc) []

mutual
def sortKeys : Json → Json
  | .arr xs => .arr (sortKeysL xs)
  | .obj kvs => .obj (insertAll (sortKeysO kvs))
  | j => j
def sortKeysL : List Json → List Json
  | [] => []
  | x :: r => sortKeys x :: sortKeysL r
def sortKeysO : List (String × Json) → List (String × Json)
  | [] => []
  | (k, v) :: r => (k, sortKeys v) :: sortKeysO r
end

def canon (j : Json) : String := (sortKeys j).render

def getJson (tok : String) : Option Json := (C20.unescStr tok.toList).bind Json.parse

/-- model of one marshal / unmarshal cycle pair: (j1, j2) -/
def cycle2 (u : Json → Option α) (m : α → Json) (w : Json) : Option (String × String) :=
  match u w with
  | none => none
  | some x =>
    let j1 := m x
    match u j1 with
    | none => some (canon j1, "<second-load-fails>")
    | some y => some (canon j1, canon (m y))

def implPair (impl : List String) : Option (Option (String × String)) :=
  match impl with
  | ["err"] => some none
  | [t] =>
    match t.splitOn ":" with
    | ["ok", a, b] =>
      match C20.unescStr a.toList, C20.unescStr b.toList with
      | some a, some b => some (some (a, b))
      | _, _ => none
    | _ => none
  | _ => none

def verdict (model : Option (String × String)) (impl : Option (String × String)) : String :=
  let agree := (match model, impl with
    | none, none => true
    | some (a, _), some (c, _) => a == c
    | _, _ => false)
  let spec := (match impl with | none => true | some (c, d) => c == d)
  let shown := (match model with | none => "err" | some (a, _) => a)
  s!"{if agree then "A" else "D"} {if spec then "S" else "V"} {(shown.take 200).toString.replace " " "_"}"

def tlsShape : Shape := (looseShapeOf "TLSConfig").getD .hole
def filterShape : Shape := (shapeOf "Filter").getD .hole

def run (caseToks impl : List String) : String :=
  match caseToks with
  | ["generic", s, w] =>
    match shapeOf s, getJson w, implPair impl with
    | some sh, some w, some im => verdict (cycle2 (decode sh) (encode sh) w) im
    | none, _, _ => "E E struct-not-generic-in-the-regenerated-tables"
    | _, _, _ => "E E bad-case"
  | ["pair", "fc", w] =>
    match getJson w, implPair impl with
    | some w, some im => verdict (cycle2 (fcU tlsShape filterShape) (fcM tlsShape filterShape) w) im
    | _, _ => "E E bad-case"
  | ["pair", "host", w] =>
    match getJson w, implPair impl with
    | some w, some im => verdict (cycle2 hostU hostM w) im
    | _, _ => "E E bad-case"
  | ["pair", "retry", w] =>
    match getJson w, implPair impl with
    | some w, some im => verdict (cycle2 retryU retryM w) im
    | _, _ => "E E bad-case"
  | ["fix", _, _] =>
    match implPair impl with
    | some none => "A S err"
    | some (some (a, b)) => s!"A {if a == b then "S" else "V"} -"
    | none => "E E bad-impl"
  | ["dur", s] =>
    match C20.unescStr (s.toList.drop 1), impl with
    | some s, [t] =>
      let model := (parseDur s).map fmtDur
      let im := (match t.splitOn ":" with
        | ["ok", a] => (C20.unescStr a.toList).map some
        | ["err"] => some none
        | _ => none)
      match im with
      | none => "E E bad-impl"
      | some im =>
        -- predicate: what String() prints is read back to the same duration (format ∘ parse is idempotent)
        let spec := (match im with | none => true | some f => (parseDur f).map fmtDur == some f)
        s!"{if model == im then "A" else "D"} {if spec then "S" else "V"} {(model.getD "err").replace " " "_"}"
    | _, _ => "E E bad-case"
  | "sample" :: _ | "gen" :: _ =>
    match impl with
    | [t] =>
      match t.splitOn ":" with
      | ["ok", a, b, l] => s!"A {if a == b && l == "lost0" then "S" else "V"} -"
      | "unloadable" :: _ => "A S -"
      | _ => "E E bad-impl"
    | _ => "E E bad-impl"
  | _ => "E E unknown-kind"

end MosnVerif.Drive.C19
