import MosnVerif.Drive.Util
import MosnVerif.Model.H1Seg
/-! helper driver module of C07: kind `h1seg` (HTTP/1 pipelined messages through the real stream connections). Core only. -/
namespace MosnVerif.Drive.C07H1Seg
open MosnVerif.Drive MosnVerif.Model.Framing MosnVerif.Model.H1Seg

def parseNats (s : String) : Option (List Nat) :=
  if s == "-" then some [] else (s.splitOn ",").mapM (·.toNat?)

def chunk : Bytes → List Nat → List Bytes
  | s, [] => if s.isEmpty then [] else [s]
  | s, n :: ns => s.take n :: chunk (s.drop n) ns

def descrList (s : String) : List String := if s == "-" then [] else s.splitOn ","

def proj3 (d : String) : String := joinWith ":" ((d.splitOn ":").take 3)

/-- `h1seg <srv|cli> <delay> <stream> <chunks> => <whole> <whole state> <got> <state>` -/
def run (side _delay stream chunks : String) (impl : List String) : String :=
  match unhex stream, parseNats chunks, impl with
  | some s, some ns, [whole, wstat, got, gstat] =>
    if side != "srv" && side != "cli" then "E E side" else
    let resp := side == "cli"
    let rst := rstOf (if resp then clientUses else serverUses)
    let m := runQ rst (h1Step resp) (chunk s ns)
    let md := m.out.map (descr resp)
    let mstat := if m.failed then "err" else "ok"
    let g := descrList got
    let g3 := g.map proj3
    let agree := g3 == md && gstat == mstat && producerAppendsAll
    let ok := specH1 resp s (descrList whole) g g3 wstat gstat
    s!"{if agree then "A" else "D"} {if ok then "S" else "V"} {if md.isEmpty then "-" else joinWith "," md} {mstat}"
  | _, _, _ => "E E malformed-h1seg"

end MosnVerif.Drive.C07H1Seg
