import MosnVerif.Drive.Util
import MosnVerif.Model.HealthFlags
import MosnVerif.Model.HealthRegistry
import MosnVerif.Model.HealthCheck
import MosnVerif.Model.HealthLoop
import MosnVerif.Model.HealthDispatch
import MosnVerif.Model.HealthLifecycle
import MosnVerif.Model.HealthShare
namespace MosnVerif.Drive.C16
open MosnVerif.Drive MosnVerif.Model

/-! ## part A: `fl <init> <t0ops;t1ops;…> <schedule digits> => <word/health/site,…> o=<other address word>` -/
section Flags
open MosnVerif.Model.HealthFlags

def parseOp (s : String) : Option Op :=
  match s.toList with
  | 's' :: r => (String.ofList r).toNat?.map (fun n => Op.set (BitVec.ofNat 64 n))
  | 'c' :: r => (String.ofList r).toNat?.map (fun n => Op.clear (BitVec.ofNat 64 n))
  | _ => none

def parseThreads (s : String) : Option (List (List Op)) :=
  (s.splitOn ";").mapM (fun t => if t == "" then some [] else (t.splitOn ",").mapM parseOp)

def parseSched (s : String) : Option (List Nat) :=
  s.toList.mapM (fun c => if '0' ≤ c ∧ c ≤ '9' then some (c.toNat - '0'.toNat) else none)

/-- model trace in the harness' format; `none` when the schedule names a finished / unknown thread -/
def modelTrace (c : Config) : List Nat → Option (List String)
  | [] => if c.done then some [] else none
  | i :: s =>
    match c.threads[i]? with
    | none => none
    | some t =>
      if t.ops.isEmpty then none else
      let c' := (c.step genP i).1
      let k := match c'.threads[i]? with
        | some t' => if t'.ops.isEmpty then "d" else toString t'.pc
        | none => "?"
      let h := if health c'.word then "1" else "0"
      (modelTrace c' s).map (fun r => s!"{c'.word.toNat}/{h}/{k}" :: r)

/-- (word, health) observations of the implementation -/
def parseObs (s : String) : Option (List (Nat × Bool)) :=
  (s.splitOn ",").mapM (fun o => match o.splitOn "/" with
    | [w, h, _] => match w.toNat?, h with
      | some n, "1" => some (n, true)
      | some n, "0" => some (n, false)
      | _, _ => none
    | _ => none)

def fl (init ops sched : String) (impl : List String) : String :=
  match init.toNat?, parseThreads ops, parseSched sched, impl with
  | some w0, some th, some sc, [tr, other] =>
    let c0 := Config.init (BitVec.ofNat 64 w0) th
    let model := (modelTrace c0 sc).map (joinWith ",")
    let agree := model == some tr && other == "o=0"
    let holds : Bool := match parseObs tr with
      | some obs =>
        -- declarative: some interleaving of the calls explains the observed words, Health() ⇔ word = 0 at every
        -- observation, and a host of another address is never affected
        linCheck th (BitVec.ofNat 64 w0) (obs.map (fun o => BitVec.ofNat 64 o.1)) &&
          obs.all (fun o => o.2 == (o.1 == 0)) && other == "o=0"
      | none => false
    s!"{if agree then "A" else "D"} {if holds then "S" else "V"} {model.getD "invalid-schedule"}"
  | _, _, _, _ => "E E bad-case"

end Flags


/-! ## part A': allocation of the shared word
`pt <a:w,…|-> <addr/ops;addr/ops;…> <schedule digits> => <p<site>|<site>|d,…> h=<word/health,…> p=<digits,…>`
`ps <a:w,…|-> <addr/ops;…> <label> => h=… p=…` (host objects created by really concurrent goroutines, calls made one thread
after the other afterwards: the model runs the threads one after the other) -/
section Alloc
open MosnVerif.Model.HealthFlags MosnVerif.Model.HealthRegistry

def parsePre (s : String) : Option (List (Nat × Nat)) :=
  if s == "-" then some [] else
  (s.splitOn ",").mapM (fun e => match e.splitOn ":" with
    | [a, w] => match a.toNat?, w.toNat? with
      | some a, some w => some (a, w)
      | _, _ => none
    | _ => none)

def parseSpecs (s : String) : Option (List (Addr × List Op)) :=
  (s.splitOn ";").mapM (fun t => match t.splitOn "/" with
    | [a, ops] => match a.toNat?, (if ops == "" then some [] else (ops.splitOn ",").mapM parseOp) with
      | some a, some l => some (a, l)
      | _, _ => none
    | _ => none)

def distinctNat : List Nat → Bool
  | [] => true
  | x :: r => !r.contains x && distinctNat r

def threadDone (t : HThread) : Bool := t.ptr.isSome && t.th.ops.isEmpty

/-- model trace in the harness' format and the final world; `none` when the schedule names a finished / unknown thread
or does not complete -/
def worldTrace (w : World) : List Nat → Option (List String × World)
  | [] => if w.done then some ([], w) else none
  | i :: s =>
    match w.threads[i]? with
    | none => none
    | some t =>
      if threadDone t then none else
      let w' := w.step genPP genP i
      let k := match w'.threads[i]? with
        | some t' => if threadDone t' then "d" else if t'.ptr.isNone then s!"p{t'.ppc}" else toString t'.th.pc
        | none => "?"
      (worldTrace w' s).map (fun r => (k :: r.1, r.2))

def runUntil (stop : HThread → Bool) (i : Nat) : Nat → World → World
  | 0, w => w
  | fuel + 1, w =>
    match w.threads[i]? with
    | some t => if stop t then w else runUntil stop i fuel (w.step genPP genP i)
    | none => w

/-- the threads one after the other: first every host object is created, then each makes its calls -/
def sequentialRun (w : World) : World :=
  let n := w.threads.length
  let w1 := (List.range n).foldl (fun w i => runUntil (·.ptr.isSome) i 16 w) w
  (List.range n).foldl (fun w i => runUntil threadDone i (4 * ((w.threads[i]?.map (·.th.ops.length)).getD 0) + 4) w) w1

def fmtObsH (o : Obs) : String :=
  "h=" ++ joinWith "," (o.words.map (fun p => s!"{p.1.toNat}/{if p.2 then 1 else 0}"))

def fmtObsP (o : Obs) : String :=
  "p=" ++ joinWith "," (o.probe.map (fun row =>
    String.ofList (row.map (fun c => Char.ofNat ('0'.toNat + (if c.1 then 2 else 0) + (if c.2 then 1 else 0))))))

def parseObsA (h p : String) : Option Obs :=
  match h.splitOn "=", p.splitOn "=" with
  | ["h", hs], ["p", ps] =>
    let words := (hs.splitOn ",").mapM (fun o => match o.splitOn "/" with
      | [w, b] => match w.toNat?, b with
        | some n, "1" => some (BitVec.ofNat 64 n, true)
        | some n, "0" => some (BitVec.ofNat 64 n, false)
        | _, _ => none
      | _ => none)
    let probe := (ps.splitOn ",").mapM (fun row => row.toList.mapM (fun c =>
      if '0' ≤ c ∧ c ≤ '3' then some (decide (c.toNat - '0'.toNat ≥ 2), (c.toNat - '0'.toNat) % 2 == 1) else none))
    match words, probe with
    | some w, some pr => some ⟨w, pr⟩
    | _, _ => none
  | _, _ => none

def alloc (pre th : String) (sched : Option String) (impl : List String) : String :=
  let sc : Option (Option (List Nat)) := match sched with
    | some s => (if s == "-" then some [] else parseSched s).map some
    | none => some none
  match parsePre pre, parseSpecs th, sc with
  | some pr, some specs, some sc =>
    if !distinctNat (pr.map (·.1)) then "E E bad-case" else
    let reg : Reg := (pr.map (·.1)).zipIdx
    let heap : List Word := pr.map (fun e => BitVec.ofNat 64 e.2)
    let w0 := World.init reg heap specs
    -- model
    let m : Option (List String) := match sc with
      | some s => (worldTrace w0 s).map (fun r => [if r.1.isEmpty then "-" else joinWith "," r.1, fmtObsH r.2.observe, fmtObsP r.2.observe])
      | none =>
        let w := sequentialRun w0
        if w.done then some [fmtObsH w.observe, fmtObsP w.observe] else none
    let agree := m == some impl
    -- the property predicate on the implementation's observation (declarative; independent of the step programs)
    let hp := match sc, impl with
      | some _, [_, h, p] => some (h, p)
      | none, [h, p] => some (h, p)
      | _, _ => none
    match hp with
    | some (h, p) =>
      let holdsB : Bool := match parseObsA h p with
        | some obs => holds specs (fun a => ((pr.lookup a).map (BitVec.ofNat 64)).getD 0) obs
        | none => false
      s!"{if agree then "A" else "D"} {if holdsB then "S" else "V"} {(m.map (joinWith " ")).getD "invalid-schedule"}"
    | none => "E E bad-case"
  | _, _, _ => "E E bad-case"

end Alloc

/-! ## part B: `hc|hd <cfgU> <cfgH> <initial word> <results s|f|t …> => <one octal digit per callback: changed*4+isHealthy*2+flagAfter> <un,hc|-> w=<word of the address afterwards>` -/
section Thresholds
open MosnVerif.Model.HealthCheck

def parseResults (s : String) : Option (List Result) :=
  if s == "-" then some [] else
  s.toList.mapM (fun c => match c with
    | 's' => some Result.success
    | 'f' => some Result.failure
    | 't' => some Result.timeout
    | 'T' => some Result.timeout
    | _ => none)

def outDigit (o : Out) : Char :=
  Char.ofNat ('0'.toNat + (if o.changed then 4 else 0) + (if o.healthy then 2 else 0) + (if o.flagAfter then 1 else 0))

def digits (l : List Out) : String := if l.isEmpty then "-" else String.ofList (l.map outDigit)

/-- `hc` lines come from the real checker goroutine with a scripted session; the script fixes the order of the
environment's events: `s`/`f` = the check answers at once (its stopped timeout timer never fires: a disabled event in the
model), `t` = it hangs for good, `T` = it hangs past its timeout and answers (healthy) WHILE THE NEXT CHECK IS IN PROGRESS,
before that one answers.  Returns what the loop model (regenerated `checkID` bookkeeping) hands to the handlers. -/
def scriptOutcomes (script : List Char) : List Result :=
  let p := HealthLoop.genPolicy
  let rec go (s : HealthLoop.Loop) (late : Option Nat) : List Char → HealthLoop.Loop
    | [] => s
    | x :: r =>
      let s := HealthLoop.step p (HealthLoop.step p s .top) .issue
      let id := s.check
      let s := match late with
        | some z => HealthLoop.step p s (.late z true)
        | none => s
      match x with
      | 's' => go (HealthLoop.step p (HealthLoop.step p s (.answer true)) .timeout) none r
      | 'f' => go (HealthLoop.step p (HealthLoop.step p s (.answer false)) .timeout) none r
      | 'T' => go (HealthLoop.step p s .timeout) id r
      | _ => go (HealthLoop.step p s .timeout) none r
  (go (HealthLoop.Loop.init p) none script).log.reverse

def hc (kind : String) (cu ch f0 res : String) (impl : List String) : String :=
  match cu.toNat?, ch.toNat?, f0.toNat?, parseResults res, impl with
  | some u, some h, some w0, some rs0, [tr, ctr, fw] =>
    -- what reaches HandleSuccess/HandleFailure: directly the script (hd) / through the checker-loop model (hc)
    let rs := if kind == "hc" then scriptOutcomes res.toList else rs0
    -- w0 = the initial word of the address; bit 0 is FAILED_ACTIVE_HC, other bits belong to other conditions
    let flag0 := w0 % 2 == 1
    let model := digits (runCfg u h flag0 rs)
    let st := finalSt (Gen.HealthCheck.effUnhealthyThreshold u) (Gen.HealthCheck.effHealthyThreshold h) (St.init flag0) rs
    let mctr := s!"{st.unHealthCount},{st.healthCount}"
    -- the word of the address afterwards: bit 0 as the checker left it, every other condition untouched
    let outs := runCfg u h flag0 rs
    let lastFlag := match outs.getLast? with
      | some o => o.flagAfter
      | none => flag0
    let mword := s!"w={w0 / 2 * 2 + (if lastFlag then 1 else 0)}"
    let agree := model == tr && (ctr == "-" || ctr == mctr) && fw == mword
    -- the property predicate: run-length reference, thresholds with the documented zero→1 default
    let holds : Bool := digits (HealthCheck.spec (if u = 0 then 1 else u) (if h = 0 then 1 else h) flag0 [] rs0) == tr &&
      (match fw.splitOn "=" with
       | ["w", n] => (n.toNat?.map (fun x => x / 2 == w0 / 2)).getD false   -- no other condition lost or invented
       | _ => false)
    s!"{if agree then "A" else "D"} {if holds then "S" else "V"} {model} {mctr} {mword}"
  | _, _, _, _, _ => "E E bad-case"

end Thresholds


/-! ## part B': `hl <cfgU> <cfgH> <initial word> <script>` — the dispatch loop with handlers that take time (harness/c16/dispatch.go) -/
section Dispatch
open MosnVerif.Model.HealthCheck MosnVerif.Model.HealthDispatch

/-- the loop goroutine runs on: remaining actions of the branch; a parked timeout is received at the next select -/
def hlSettle (p : Prog) : Nat → D → D
  | 0, s => s
  | n + 1, s =>
    if s.exited then s
    else if s.todo.isEmpty then (if s.parked.isEmpty then s else hlSettle p n (HealthDispatch.step p s .recvTimeout))
    else hlSettle p n (HealthDispatch.step p s .act)

/-- run the branch up to and including the result handler; while a handler that outlasts the timeout is pending/running the
timeout timer is given the chance to fire before every action except a `stopTimeout` (the answer of such a check arrives
well before its timeout: real time passes in the handler only) -/
def hlToHandler (p : Prog) (blocked : Bool) (len0 : Nat) : Nat → D → D
  | 0, s => s
  | n + 1, s =>
    if s.log.length > len0 || s.todo.isEmpty then s
    else
      let s := if blocked && s.todo.head? != some .stopTimeout then HealthDispatch.step p s .fireTimeout else s
      hlToHandler p blocked len0 n (HealthDispatch.step p s .act)

/-- one scripted check on the model: the environment's events in the order the script forces them -/
def hlCheck (p : Prog) (s : D) (c : Char) (stop : Bool) : D :=
  let len0 := s.log.length
  let s := HealthDispatch.step p s .fireCheck
  let id := s.checkID
  let blocked := c == 'S' || c == 'F' || c == 'a' || c == 'b'
  let s := if c == 't' || c == 'U' then HealthDispatch.step p (HealthDispatch.step p s .fireTimeout) .recvTimeout
           else HealthDispatch.step p s (.answer id (c == 's' || c == 'S' || c == 'a' || c == 'r'))
  -- r / q: the loop goroutine is held right after the receive of the answer until the timeout timer of this check has fired
  let s := if c == 'r' || c == 'q' then HealthDispatch.step p s .fireTimeout else s
  let s := hlToHandler p blocked len0 8 s
  -- the handler is running: the timeout of an answered check would expire now
  let s := if blocked then HealthDispatch.step p s .fireTimeout else s
  let s := if stop then HealthDispatch.step p s .stop else s
  hlSettle p 16 s

def hlParse : List Char → Option (List (Char × Bool))
  | [] => some []
  | c :: '!' :: r => if c == '!' then none else (hlParse r).map ((c, true) :: ·)
  | c :: r => if "sfSFabtUrq".toList.contains c then (hlParse r).map ((c, false) :: ·) else none

/-- model: segments (one session checker each) through the regenerated loop program and the regenerated handlers -/
def hlModel (u h : Int) : D → St → List (Char × Bool) → List (Result × Out)
  | s, st, [] => (HealthDispatch.results s).foldl (fun (acc : St × List (Result × Out)) r =>
        let x := HealthCheck.step u h acc.1 r; (x.1, acc.2 ++ [(r, x.2)])) (st, []) |>.2
  | s, st, (c, stop) :: r =>
    let s := hlCheck genProg s c stop
    if stop then
      -- this session checker is over: its results, then a new checker (counters zero, same flag)
      let seg := (HealthDispatch.results s).foldl (fun (acc : St × List (Result × Out)) r =>
        let x := HealthCheck.step u h acc.1 r; (x.1, acc.2 ++ [(r, x.2)])) (st, [])
      seg.2 ++ hlModel u h (D.init genProg) (St.init seg.1.flag) r
    else hlModel u h s st r

def hlFmt (l : List (Result × Out)) : String :=
  if l.isEmpty then "-" else
  String.join (l.map fun (r, o) => (if r == Result.timeout then "o" else "") ++ String.singleton (outDigit o))

/-- reference, from the script alone: one result per check (its own), counters restart with a new session checker -/
def hlSpec (u h : Nat) : Bool → List Result → List (Char × Bool) → List (Result × Out)
  | _, _, [] => []
  | unh, rev, (c, stop) :: r =>
    let res : Result := if c == 's' || c == 'S' || c == 'a' || c == 'r' then .success
                        else if c == 't' || c == 'U' then .timeout else .failure
    match HealthCheck.spec u h unh rev [res] with
    | [o] => (res, o) :: (if stop then hlSpec u h o.flagAfter [] r else hlSpec u h o.flagAfter (res :: rev) r)
    | _ => []

def hl (cu ch f0 script : String) (impl : List String) : String :=
  match cu.toNat?, ch.toNat?, f0.toNat?, hlParse (if script == "-" then [] else script.toList), impl with
  | some u, some h, some w0, some cs, [tr, fw] =>
    let flag0 := w0 % 2 == 1
    let eu := Gen.HealthCheck.effUnhealthyThreshold u
    let eh := Gen.HealthCheck.effHealthyThreshold h
    let outs := hlModel eu eh (D.init genProg) (St.init flag0) cs
    let model := hlFmt outs
    let lastFlag := match outs.getLast? with
      | some o => o.2.flagAfter
      | none => flag0
    let mword := s!"w={w0 / 2 * 2 + (if lastFlag then 1 else 0)}"
    let agree := model == tr && fw == mword
    let ref := hlSpec (if u = 0 then 1 else u) (if h = 0 then 1 else h) flag0 [] cs
    let holds : Bool := hlFmt ref == tr &&
      (match fw.splitOn "=" with
       | ["w", n] => (n.toNat?.map (fun x => x / 2 == w0 / 2)).getD false
       | _ => false)
    s!"{if agree then "A" else "D"} {if holds then "S" else "V"} {model} {mword}"
  | _, _, _, _, _ => "E E bad-case"

end Dispatch

/-! ## part C: life cycle. `lc <u:h,…> <w0,w1,…> <ops> => <w0,w1,…:cb:l0,l1,…;…>` (see harness/c16/lifecycle.go) -/
section Lifecycle
open MosnVerif.Model.HealthLifecycle MosnVerif.Model.HealthCheck

def digitVal (c : Char) : Option Nat := if '0' ≤ c ∧ c ≤ '9' then some (c.toNat - '0'.toNat) else none

def parseLcOp (s : String) : Option HealthLifecycle.Op :=
  match s.toList with
  | 'h' :: k :: '=' :: r => do
    let k ← digitVal k
    let hs ← r.mapM digitVal
    pure (.setHosts k hs)
  | ['x', k] => (digitVal k).map .stopAll
  | 'n' :: k :: '=' :: r =>
    match (String.ofList r).splitOn "." with
    | [u, h] => do
      let k ← digitVal k
      let u ← u.toNat?
      let h ← h.toNat?
      pure (.recreate k u h)
    | _ => none
  | ['r', k, a, c] => do
    let k ← digitVal k
    let a ← digitVal a
    let r ← (match c with
      | 's' => some Result.success
      | 'f' => some Result.failure
      | 't' => some Result.timeout
      | _ => none)
    pure (.result k a r)
  | ['o', a, '+'] => (digitVal a).map (.outlier · true)
  | ['o', a, '-'] => (digitVal a).map (.outlier · false)
  | _ => none

def parseLcCfg (s : String) : Option (List (Nat × Nat)) :=
  (s.splitOn ",").mapM (fun e => match e.splitOn ":" with
    | [u, h] => match u.toNat?, h.toNat? with
      | some u, some h => some (u, h)
      | _, _ => none
    | _ => none)

def lcOpOk (m n : Nat) : HealthLifecycle.Op → Bool
  | .setHosts k hs => k < m && hs.all (· < n)
  | .stopAll k => k < m
  | .recreate k _ _ => k < m
  | .result k a _ => k < m && a < n
  | .outlier a _ => a < n

def fmtCb : Option Out → String
  | none => "-"
  | some o => String.singleton (outDigit o)

def fmtSeen (m n : Nat) (o : Seen) : String :=
  joinWith "," ((List.range n).map (fun a => toString (o.words a).toNat)) ++ ":" ++ fmtCb o.cb ++ ":" ++
    joinWith "," ((List.range m).map (fun k => toString (o.loc k)))

/-- what the implementation showed after one operation; `none` when a word carries a condition nobody set (≥ 4), more than
one callback was delivered, or the token is malformed -/
def parseSeen (n : Nat) (s : String) : Option Seen :=
  match s.splitOn ":" with
  | [ws, cb, _] =>
    match (ws.splitOn ",").mapM String.toNat? with
    | some l =>
      if l.length != n || l.any (· ≥ 4) then none else
      let cbv : Option (Option Out) := match cb.toList with
        | ['-'] => some none
        | [d] => if '0' ≤ d ∧ d ≤ '7' then
            let v := d.toNat - '0'.toNat
            some (some ⟨decide (v / 4 = 1), decide (v / 2 % 2 = 1), decide (v % 2 = 1)⟩) else none
        | _ => none
      cbv.map (fun c => ⟨fun a => Word.ofNat (l.getD a 0), c, fun _ => 0⟩)
    | none => none
  | _ => none

def lc (cfg words ops : String) (impl : List String) : String :=
  let opl : Option (List HealthLifecycle.Op) := if ops == "-" then some [] else (ops.splitOn ",").mapM parseLcOp
  match parseLcCfg cfg, (words.splitOn ",").mapM String.toNat?, opl, impl with
  | some cf, some ws, some opl, [tr] =>
    let m := cf.length
    let n := ws.length
    if ws.any (· ≥ 4) || !opl.all (lcOpOk m n) then "E E bad-case" else
    let cfgF : Cid → Nat × Nat := fun k => cf.getD k (1, 1)
    let w0 : Addr → Word := fun a => Word.ofNat (ws.getD a 0)
    let mt := trace (World.init cfgF w0) opl
    let model := if mt.isEmpty then "-" else joinWith ";" (mt.map (fmtSeen m n))
    let agree := model == tr
    let seen : Option (List Seen) := if tr == "-" then some [] else (tr.splitOn ";").mapM (parseSeen n)
    let holdsB : Bool := match seen with
      | some sn => holds n cfgF w0 opl sn
      | none => false
    s!"{if agree then "A" else "D"} {if holdsB then "S" else "V"} {model}"
  | _, _, _, _ => "E E bad-case"

end Lifecycle

/-! ## part D: one word per address, checkers per cluster. `sh <u:h|-,…> <w0,…> <ops> => <w0,…:cb:view0|view1|…;…>` (harness/c16/share.go) -/
section Share
open MosnVerif.Model.HealthLifecycle (Word World Cid Addr)
open MosnVerif.Model.HealthCheck
open MosnVerif.Model.HealthShare

def parseShOp (s : String) : Option SOp :=
  match s.toList with
  | 'U' :: k :: '=' :: r => do
    let k ← digitVal k
    let hs ← r.mapM digitVal
    if hs.eraseDups.length != hs.length then none else pure (.update k hs)
  | ['P', k, a] => do pure (.append (← digitVal k) (← digitVal a))
  | ['R', k, a] => do pure (.remove (← digitVal k) (← digitVal a))
  | ['N', k, '=', '-'] => (digitVal k).map (.reconf · none)
  | 'N' :: k :: '=' :: r =>
    match (String.ofList r).splitOn "." with
    | [u, h] => do
      let k ← digitVal k
      let u ← u.toNat?
      let h ← h.toNat?
      pure (.reconf k (some (u, h)))
    | _ => none
  | ['r', k, a, c] => do
    let k ← digitVal k
    let a ← digitVal a
    let r ← (match c with
      | 's' => some Result.success
      | 'f' => some Result.failure
      | 't' => some Result.timeout
      | _ => none)
    pure (.result k a r)
  | ['o', a, '+'] => (digitVal a).map (.outlier · true)
  | ['o', a, '-'] => (digitVal a).map (.outlier · false)
  | _ => none

def parseShCfg (s : String) : Option (List (Option (Nat × Nat))) :=
  (s.splitOn ",").mapM (fun e => if e == "-" then some none else match e.splitOn ":" with
    | [u, h] => match u.toNat?, h.toNat? with
      | some u, some h => some (some (u, h))
      | _, _ => none
    | _ => none)

def shOpOk (m n : Nat) : SOp → Bool
  | .update k hs => k < m && hs.all (· < n)
  | .append k a => k < m && a < n
  | .remove k a => k < m && a < n
  | .reconf k _ => k < m
  | .result k a _ => k < m && a < n
  | .outlier a _ => a < n

def fmtView (v : List (Addr × Bool)) : String :=
  if v.isEmpty then "." else String.join (v.map (fun p => toString p.1 ++ (if p.2 then "+" else "-")))

def fmtShSeen (n : Nat) (o : HealthShare.Seen) : String :=
  joinWith "," ((List.range n).map (fun a => toString (o.words a).toNat)) ++ ":" ++ fmtCb o.cb ++ ":" ++
    joinWith "|" (o.views.map fmtView)

def parseView (s : String) : Option (List (Addr × Bool)) :=
  if s == "." then some [] else
  let rec go : List Char → Option (List (Addr × Bool))
    | [] => some []
    | d :: '+' :: r => do pure ((← digitVal d, true) :: (← go r))
    | d :: '-' :: r => do pure ((← digitVal d, false) :: (← go r))
    | _ => none
  go s.toList

def parseShSeen (n : Nat) (s : String) : Option HealthShare.Seen :=
  match s.splitOn ":" with
  | [ws, cb, vs] =>
    match (ws.splitOn ",").mapM String.toNat?, (vs.splitOn "|").mapM parseView with
    | some l, some views =>
      if l.length != n || l.any (· ≥ 4) then none else
      let cbv : Option (Option Out) := match cb.toList with
        | ['-'] => some none
        | [d] => if '0' ≤ d ∧ d ≤ '7' then
            let v := d.toNat - '0'.toNat
            some (some ⟨decide (v / 4 = 1), decide (v / 2 % 2 = 1), decide (v % 2 = 1)⟩) else none
        | _ => none
      cbv.map (fun c => ⟨fun a => Word.ofNat (l.getD a 0), c, views⟩)
    | _, _ => none
  | _ => none

def sh (cfg words ops : String) (impl : List String) : String :=
  let opl : Option (List SOp) := if ops == "-" then some [] else (ops.splitOn ",").mapM parseShOp
  match parseShCfg cfg, (words.splitOn ",").mapM String.toNat?, opl, impl with
  | some cf, some ws, some opl, [tr] =>
    let m := cf.length
    let n := ws.length
    if ws.any (· ≥ 4) || !opl.all (shOpOk m n) then "E E bad-case" else
    let checkedF : Cid → Bool := fun k => (cf.getD k none).isSome
    let cfgF : Cid → Nat × Nat := fun k => (cf.getD k none).getD (1, 1)
    let w0 : Addr → Word := fun a => Word.ofNat (ws.getD a 0)
    let mt := HealthShare.trace m (St.init checkedF cfgF w0) opl
    let model := if mt.isEmpty then "-" else joinWith ";" (mt.map (fmtShSeen n))
    let agree := model == tr
    let seen : Option (List HealthShare.Seen) := if tr == "-" then some [] else (tr.splitOn ";").mapM (parseShSeen n)
    let holdsB : Bool := match seen with
      | some sn => HealthShare.holds m n checkedF cfgF w0 opl sn
      | none => false
    s!"{if agree then "A" else "D"} {if holdsB then "S" else "V"} {model}"
  | _, _, _, _ => "E E bad-case"

end Share

def run (caseToks impl : List String) : String :=
  match caseToks with
  | ["fl", init, ops, sched] => fl init ops sched impl
  | ["pt", pre, th, sched] => alloc pre th (some sched) impl
  | ["ps", pre, th, _] => alloc pre th none impl
  | ["hc", u, h, f0, res] => hc "hc" u h f0 res impl
  | ["hd", u, h, f0, res] => hc "hd" u h f0 res impl
  | ["hl", u, h, f0, script] => hl u h f0 script impl
  | ["lc", cfg, words, ops] => lc cfg words ops impl
  | ["sh", cfg, words, ops] => sh cfg words ops impl
  | _ => "E E unknown-kind"

end MosnVerif.Drive.C16
