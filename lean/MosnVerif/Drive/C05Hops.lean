import MosnVerif.Drive.Util
import MosnVerif.Model.ClusterPub
import MosnVerif.Model.HostOps
import MosnVerif.Model.PubVal
/-!
`hops <pol>/<p|s0|s1> <op;op;…> => <out;out;…>` (harness/c05/pub.go): operation lists on a cluster inside the real cluster
manager. Model: `Model/HostOps` (regenerated list construction + `setFinalHost` rule) predicts the published set of host
OBJECTS after every updater, `Model/ClusterPub` (regenerated statement order of the updater and its handler) predicts
which set the lookups made from inside the wrapping handler see. Predicate (independent of the regenerated parts): the
published set is the abstract map address → most recently supplied object; every lookup returns a healthy object of the
old or of the new map (of the current map outside an update), reports that set's size, and returns no host only if that
set has no healthy member; a subset lookup for a marker returns exactly the live object carrying it.
-/
namespace MosnVerif.Drive.C05Hops
open MosnVerif.Drive MosnVerif.Model.HostOps

def parseH (s : String) : Option H :=
  match (s.splitOn ".").map String.toNat? with
  | [some a, some t, some w] => some ⟨a, t, w⟩
  | _ => none

def parseHs (s : String) : Option (List H) := if s == "-" then some [] else (s.splitOn ",").mapM parseH
def parseNats (s : String) : Option (List Nat) := if s == "-" then some [] else (s.splitOn ",").mapM String.toNat?

def insertH (x : H) : List H → List H
  | [] => [x]
  | y :: r => if x.a ≤ y.a then x :: y :: r else y :: insertH x r

def showH (h : H) : String := s!"{h.a}.{h.t}.{h.w}"
def showSet (l : List H) : String :=
  if l.isEmpty then "-" else joinWith "," ((l.foldr insertH []).map showH)

/-- the abstract map as the list of its objects over the address pool -/
def absList (m : Nat → Option H) : List H := (List.range 16).filterMap m

/-- is the lookup token `<a.t.w|->#<size>` what a lookup on the set `s` may return? -/
def consistent (s : List H) (sick : List Nat) (tok : String) : Bool :=
  match tok.splitOn "#" with
  | [x, n] =>
    n.toNat? == some s.length &&
    (if x == "-" then s.all (fun h => sick.contains h.a)
     else match parseH x with
       | some h => s.contains h && !sick.contains h.a
       | none => false)
  | _ => false

/-- which set the lookups inside the wrapping handler see, by the publication machine:
(pre, post) ∈ {some 0 = old, some 1 = new, none = neither}. -/
def insideViews (outer handler : List MosnVerif.Gen.ClusterPub.CStep) : Option Nat × Option Nat :=
  open MosnVerif.Model.ClusterPub MosnVerif.Gen.ClusterPub in
  let idx := (outer.takeWhile (fun s => !(s == .clusterHandler || s == .hostHandler))).length
  let prog := expand handler outer
  let sched := List.replicate idx 1 ++ [0, 0] ++ List.replicate handler.length 1 ++ [2, 2] ++
    List.replicate (prog.length - idx - handler.length) 1
  let c := run (initConf prog 1) sched
  ((seen c 0).getD none, (seen c 2).getD none)

/-- the windows of an update: after every publication (regenerated value program of the updater, `Model/PubVal.events`) the
site of the store (0 snapshot cell, 1 clustersMap) and the value a reader sees. -/
def windowsOf (kind : Char) : List (Nat × MosnVerif.Model.PubVal.Val) :=
  open MosnVerif.Model.PubVal MosnVerif.Gen.PubVal MosnVerif.Gen.ClusterPub in
  let prog := match kind.toLower with
    | 'u' => expandV newSimpleHostHandlerV updateHostsMgr
    | 'a' => expandV appendSimpleHostHandlerV updateHostsMgr
    | 'r' => expandV removeHostsHandlerV updateHostsMgr
    | 'p' => expandV primaryHandlerV updateCluster
    | _ => expandV clusterAndHostHandlerV updateCluster
  (events prog).map (fun p => ((if p.1 == .ctl .storeNew then 1 else 0), p.2))

/-- one observed window `<site>:<set>:<lookup>` against the predicted one: (agrees, model text) -/
def windowAgrees (old new : List H) (sick : List Nat) (pred : Nat × MosnVerif.Model.PubVal.Val) (obs : String) : Bool × String :=
  let set? : Option (List H) := match pred.2 with
    | .old => some old | .new => some new | .empty => some [] | _ => none
  match set?, obs.splitOn ":" with
  | some s, [site, set, look] =>
    (site == toString pred.1 && set == showSet s && consistent s sick look, s!"{pred.1}:{showSet s}")
  | some s, _ => (false, s!"{pred.1}:{showSet s}")
  | none, _ => (false, s!"{pred.1}:unbuilt")

/-- declarative: what a reader sees in a window is the complete old or the complete new set, and the lookup is a healthy
member of that same set (none only if it has none). -/
def windowSpec (oldA newA : List H) (sick : List Nat) (obs : String) : Bool :=
  match obs.splitOn ":" with
  | [_, set, look] =>
    (set == showSet oldA && consistent oldA sick look) || (set == showSet newA && consistent newA sick look)
  | _ => false

structure St where
  cur : List H := []
  abs : Nat → Option H := fun _ => none
  sick : List Nat := []
  outs : List String := []
  agree : Bool := true
  spec : Bool := true
  bad : Bool := false

def viewSet (v : Option Nat) (old new : List H) : List H :=
  match v with | some 0 => old | some _ => new | none => []

def updater (st : St) (kind : Char) (op : Op) (impl : String) : St :=
  open MosnVerif.Gen.ClusterPub in
  let old := st.cur
  let new := applyOp old op
  let oldA := absList st.abs
  let abs' := absOp st.abs op
  let newA := absList abs'
  let st' := { st with cur := new, abs := abs' }
  match impl.splitOn "/" with
  | [pre, post, set, win] =>
    let wrapped := kind.isUpper && kind != 'R'
    let (vp, vq) := match kind with
      | 'U' => insideViews updateHostsMgr newSimpleHostHandler
      | 'A' => insideViews updateHostsMgr appendSimpleHostHandler
      | 'P' => insideViews updateCluster primaryHandler
      | 'H' => insideViews updateCluster clusterAndHostHandler
      | _ => (some 0, some 1)
    let okIn (v : Option Nat) (tok : String) : Bool × Bool × String :=
      if !wrapped then (tok == "_", tok == "_", "_")
      else
        let a := consistent (viewSet v old new) st.sick tok
        let s := consistent oldA st.sick tok || consistent newA st.sick tok
        (a, s, if a then tok else (match v with | some 0 => "old" | some _ => "new" | none => "neither"))
    let (a1, s1, m1) := okIn vp pre
    let (a2, s2, m2) := okIn vq post
    let mset := showSet new
    let obs := if win == "none" then [] else win.splitOn "|"
    let preds := windowsOf kind
    let ws := (preds.zip obs).map (fun (p, o) => windowAgrees old new st.sick p o)
    let aw := preds.length == obs.length && ws.all (·.1)
    let mw := if preds.isEmpty then "none" else joinWith "|" (preds.map (fun p => (windowAgrees old new st.sick p "").2))
    let sw := obs.all (windowSpec oldA newA st.sick)
    { st' with outs := s!"{m1}/{m2}/{mset}/{mw}" :: st.outs,
               agree := st.agree && a1 && a2 && mset == set && aw,
               spec := st.spec && s1 && s2 && set == showSet newA && sw }
  | _ => { st' with outs := "?" :: st.outs, agree := false, spec := false }

def lookup (st : St) (sub : String) (marker : Option Nat) (impl : String) : St :=
  let plain (s : List H) := consistent s st.sick impl
  let exact (s : List H) : Bool :=
    match marker with
    | none => plain s
    | some t =>
      match s.find? (fun h => h.t == t && !st.sick.contains h.a) with
      | some h => impl == s!"{showH h}#{s.length}"
      | none => if sub == "s0" then impl == s!"-#{s.length}" else plain s
  let a := exact st.cur
  let s := exact (absList st.abs)
  { st with outs := (if a then impl else "differs") :: st.outs, agree := st.agree && a, spec := st.spec && s }

def runOp (sub : String) (st : St) (op impl : String) : St :=
  let k := op.front
  let rest := (op.drop 1).toString
  if k == 'U' || k == 'u' || k == 'H' || k == 'h' then
    match parseHs rest with
    | some l => updater st k (.update l) impl
    | none => { st with bad := true }
  else if k == 'A' || k == 'a' then
    match parseHs rest with
    | some l => updater st k (.append l) impl
    | none => { st with bad := true }
  else if k == 'R' then
    match parseNats rest with
    | some l => updater st k (.remove l) impl
    | none => { st with bad := true }
  else if k == 'P' || k == 'p' then updater st k .inherit impl
  else if k == 'F' then
    match (rest.splitOn ".").map String.toNat? with
    | [some a, some v] =>
      let sick := st.sick.filter (· != a)
      { st with sick := if v == 0 then a :: sick else sick, outs := "." :: st.outs, agree := st.agree && impl == "." }
    | _ => { st with bad := true }
  else if k == 'L' then lookup st sub none impl
  else if k == 'M' then
    match rest.toNat? with
    | some t => lookup st sub (if sub == "p" then none else some t) impl
    | none => { st with bad := true }
  else { st with bad := true }

def hops (polsub ops : String) (impl : List String) : String :=
  match polsub.splitOn "/", impl with
  | [_, sub], [outs] =>
    let opl := ops.splitOn ";"
    let ol := outs.splitOn ";"
    if opl.length != ol.length then "E E bad-case" else
    let st := (opl.zip ol).foldl (fun st (o, i) => runOp sub st o i) {}
    if st.bad then "E E bad-case" else
    s!"{if st.agree then "A" else "D"} {if st.spec then "S" else "V"} {joinWith ";" st.outs.reverse}"
  | _, _ => "E E bad-case"

end MosnVerif.Drive.C05Hops
