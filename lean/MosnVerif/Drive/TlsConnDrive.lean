import MosnVerif.Drive.Util
import MosnVerif.Model.TlsConnect
/-!
Helper driver of C13 (no `main`): kind
  cconn <script/variant> <mng> <enabled> <fallback> <hs class> <dial1> <dial2>
        => <ok|fail> <event> <connections accepted by the upstream> <tlsdata|plaindata|none>
the real clientConnection.Connect against a scripted upstream. Model = the regenerated tryConnect over the regenerated
clientContextManager.Conn; Spec = `specReached` / `specDials` (declarative).
-/
namespace MosnVerif.Drive.TlsConnDrive
open MosnVerif.Drive MosnVerif.Model.TlsConnect MosnVerif.Gen.TlsConnect

def bool? (s : String) : Option Bool :=
  if s == "1" then some true else if s == "0" then some false else none

def hs? : String → Option Hs
  | "ok" => some .ok | "badcert" => some .badCert | "alert" => some .alert | "reset" => some .reset
  | "eof" => some .eof | "timeout" => some .timeout | "other" => some .other | _ => none

def showEvent : Event → String
  | .connected => "connected" | .connectFailed => "failed" | .dialError => "failed" | .init => "noevent"

def showRecv : Reached → String
  | .tlsConnected => "tlsdata" | .plainConnected => "plaindata" | .failed => "none"

/-- connections the upstream accepts: every dial that succeeds -/
def acceptsOf (dials : Nat) (d1 d2 : Bool) : Nat :=
  (if d1 then 1 else 0) + (if dials == 2 && d2 then 1 else 0)

def render (r : Reached) (ev : String) (accepts : Nat) : String :=
  s!"{if r == .failed then "fail" else "ok"} {ev} {accepts} {showRecv r}"

def verdict (model : String) (impl : String) (spec : Bool) : String :=
  s!"{if model == impl then "A" else "D"} {if spec then "S" else "V"} {model}"

def run (caseToks impl : List String) : String :=
  match caseToks, impl with
  | ["cconn", _, mng, en, fb, hs, d1, d2], [res, ev, acc, recv] =>
    match bool? mng, bool? en, bool? fb, hs? hs, bool? d1, bool? d2 with
    | some mng, some en, some fb, some hs, some d1, some d2 =>
      let c : Cfg := ⟨mng, en, fb⟩
      let t := connect c hs d1 d2
      let m := render (reached t) (showEvent t.event) (acceptsOf t.dials d1 d2)
      let sr := specReached c hs d1 d2
      let spec := render sr (if sr == .failed then "failed" else "connected") (acceptsOf (specDials c hs d1) d1 d2)
      verdict m s!"{res} {ev} {acc} {recv}" (s!"{res} {ev} {acc} {recv}" == spec)
    | _, _, _, _, _, _ => "E E bad-case"
  | _, _ => "E E unknown-kind"

end MosnVerif.Drive.TlsConnDrive
